import Lean.Data.Json
import Summer.Model.Build
import Summer.Model.Run
import Summer.Model.Solvers
import Summer.Model.Derived
import Summer.Model.Pipeline
import Summer.Model.TimeFns
import Summer.Model.Query
import Summer.Model.Params
import Summer.Model.Session
import Summer.Generated.Tableau
/-
JSON-lines driver: executes the model's own definitions (the ones the theorems are about) on the
programs the harness also runs on the real summer2.  One JSON object per input line, one JSON
answer per line.  `driver rat` uses exact rationals, `driver float` IEEE doubles.
-/
open Lean Summer Summer.Build Summer.Run Summer.Solvers Summer.Derived

instance : NatCast Float := ⟨Float.ofNat⟩
instance : IntCast Float := ⟨Float.ofInt⟩

/-- numeric interface of the driver -/
structure NumIO (α : Type) where
  parse : String → Option α
  render : α → Json
  ofRat : Rat → α
  control : Rat → Rat → Solvers.Control α        -- rtol, atol
  initialStep : (List α → α → List α) → α → List α → List α → Rat → Rat → α
  exp : α → α
  isRat : Bool

def parseRat (s : String) : Option Rat :=
  match s.splitOn "/" with
  | [n] => n.trimAscii.toString.toInt?.map (fun i => (i : Rat))
  | [n, d] => do
      let ni ← n.trimAscii.toString.toInt?
      let di ← d.trimAscii.toString.toNat?
      if di == 0 then none else some ((ni : Rat) / (di : Rat))
  | _ => none

def ratToFloat (q : Rat) : Float := Float.ofInt q.num / Float.ofNat q.den

def renderRat (q : Rat) : Json := Json.str (toString q.num ++ "/" ++ toString q.den)
def renderFloat (x : Float) : Json := Json.str ("f:" ++ toString x.toBits.toNat)

def ratIO : NumIO Rat where
  parse := parseRat
  render := renderRat
  ofRat := id
  control := fun _ _ => { errorRatio := fun _ _ _ => 0, optimalStep := fun d _ => d, accept := fun _ => true,
                          lt := fun a b => decide (a < b), pos := fun d => decide (0 < d) }
  initialStep := fun _ _ _ _ _ _ => 1
  exp := fun x => x
  isRat := true

def fabs (x : Float) : Float := if x < 0 then -x else x
def fmax (a b : Float) : Float := if a < b then b else a
def fmin (a b : Float) : Float := if b < a then b else a
def fnorm (v : List Float) : Float := Float.sqrt (v.foldl (fun acc x => acc + x * x) 0)

open Summer.Generated.Tableau in
def floatControl (rtol atol : Rat) : Solvers.Control Float :=
  let rt := ratToFloat rtol
  let at_ := ratToFloat atol
  { errorRatio := fun err y0 y1 =>
      let tol := List.zipWith (fun a b => at_ + rt * fmax (fabs a) (fabs b)) y0 y1
      let r := List.zipWith (fun e t => (e / t) * (e / t)) err tol
      Float.sqrt (r.foldl (· + ·) 0 / Float.ofNat r.length)
    optimalStep := fun last ratio =>
      let safety := ratToFloat opt_safety
      let ifactor := ratToFloat opt_ifactor
      let dfactor0 := ratToFloat opt_dfactor
      let order := ratToFloat opt_order
      let maxStep := ratToFloat odeintMaxStep
      let dfactor := if ratio < 1 then 1.0 else dfactor0
      let factor := fmin ifactor (fmax (Float.pow ratio (-1.0 / order) * safety) dfactor)
      let step := if ratio == 0 then last * ifactor else last * factor
      if step > maxStep then maxStep else step
    accept := fun r => r <= 1.0
    lt := fun a b => a < b
    pos := fun d => d > 0 }

open Summer.Generated.Tableau in
def floatInitialStep (f : List Float → Float → List Float) (t0 : Float) (y0 f0 : List Float) (rtol atol : Rat) : Float :=
  let rt := ratToFloat rtol
  let at_ := ratToFloat atol
  let order := ratToFloat initStepOrder
  let scale := y0.map (fun y => at_ + fabs y * rt)
  let d0 := fnorm (List.zipWith (· / ·) y0 scale)
  let d1 := fnorm (List.zipWith (· / ·) f0 scale)
  let h0 := if d0 < 1e-5 || d1 < 1e-5 then 1e-6 else 0.01 * d0 / d1
  let y1 := List.zipWith (fun y f => y + h0 * f) y0 f0
  let f1 := f y1 (t0 + h0)
  let d2 := fnorm (List.zipWith (fun a s => a / s) (List.zipWith (· - ·) f1 f0) scale) / h0
  let h1 := if d1 <= 1e-15 && d2 <= 1e-15 then fmax 1e-6 (h0 * 1e-3)
            else Float.pow (0.01 / (d1 + d2)) (1.0 / (order + 1.0))
  fmin (100.0 * h0) h1

def floatIO : NumIO Float where
  parse := fun s => (parseRat s).map ratToFloat
  render := renderFloat
  ofRat := ratToFloat
  control := floatControl
  initialStep := floatInitialStep
  exp := Float.exp
  isRat := false

section
variable {α : Type} [Zero α] [One α] [Add α] [Sub α] [Mul α] [Div α] [NatCast α] [LT α] [DecidableLT α]

abbrev P := Except String

def jfield (j : Json) (k : String) : P Json :=
  match j.getObjVal? k with
  | .ok v => pure v
  | .error _ => throw s!"missing field {k}"

def jfieldOpt (j : Json) (k : String) : Option Json :=
  match j.getObjVal? k with
  | .ok Json.null => none
  | .ok v => some v
  | .error _ => none

def jstr (j : Json) : P String :=
  match j with
  | .str s => pure s
  | _ => throw s!"expected string, got {j.compress}"

def jarr (j : Json) : P (List Json) :=
  match j with
  | .arr a => pure a.toList
  | _ => throw s!"expected array, got {j.compress}"

def jnat (j : Json) : P Nat :=
  match j.getNat? with
  | .ok n => pure n
  | .error _ => throw s!"expected nat, got {j.compress}"

def jbool (j : Json) : P Bool :=
  match j with
  | .bool b => pure b
  | _ => throw s!"expected bool, got {j.compress}"

def jnum (io : NumIO α) (j : Json) : P α := do
  let s ← jstr j
  match io.parse s with
  | some v => pure v
  | none => throw s!"bad number {s}"

def jstrs (j : Json) : P (List String) := do (← jarr j).mapM jstr

def jstrata (j : Json) : P Strata := do
  (← jarr j).mapM (fun kv => do
    match ← jarr kv with
    | [k, v] => pure (← jstr k, ← jstr v)
    | _ => throw "bad strata pair")

partial def jexpr (io : NumIO α) (j : Json) : P (Expr α) := do
  match j with
  | .obj _ =>
    if let some c := jfieldOpt j "c" then return .const (← jnum io c)
    if let some p := jfieldOpt j "p" then return .param (← jstr p)
    if (jfieldOpt j "t").isSome then return .time
    if let some i := jfieldOpt j "x" then return .comp (← jnat i)
    if (jfieldOpt j "xs").isSome then return .popSum
    let bin (k : String) (mk : Expr α → Expr α → Expr α) : P (Option (Expr α)) := do
      match jfieldOpt j k with
      | some ab => match ← jarr ab with
        | [a, b] => pure (some (mk (← jexpr io a) (← jexpr io b)))
        | _ => throw "binary op needs two args"
      | none => pure none
    if let some e ← bin "+" .add then return e
    if let some e ← bin "-" .sub then return e
    if let some e ← bin "*" .mul then return e
    if let some e ← bin "/" .div then return e
    let tern (k : String) (mk : Expr α → List (Expr α) → List (Expr α) → Expr α) : P (Option (Expr α)) := do
      match jfieldOpt j k with
      | some xs => match ← jarr xs with
        | [x, a, b] => pure (some (mk (← jexpr io x) (← (← jarr a).mapM (jexpr io)) (← (← jarr b).mapM (jexpr io))))
        | _ => throw "ternary op needs three args"
      | none => pure none
    if let some e ← tern "pw" .pw then return e
    if let some e ← tern "lin" .lin then return e
    throw s!"bad expr {j.compress}"
  | _ => throw s!"bad expr {j.compress}"

def jadj (io : NumIO α) (j : Json) : P (Option (Adj α)) := do
  match j with
  | .null => pure none
  | _ => match ← jarr j with
    | k :: e :: _ => do   -- an optional third element ("bare") only tells the Python side to pass a bare number
      let k ← jstr k
      let e ← jexpr io e
      if k == "mul" then pure (some (.mul e)) else if k == "ovr" then pure (some (.ovr e)) else throw "bad adj kind"
    | _ => throw "bad adj"

def jadjDict (io : NumIO α) (j : Json) : P (List (String × Option (Adj α))) := do
  (← jarr j).mapM (fun kv => do
    match ← jarr kv with
    | [k, a] => pure (← jstr k, ← jadj io a)
    | _ => throw "bad adj dict")

def jexprDict (io : NumIO α) (j : Json) : P (List (String × Expr α)) := do
  (← jarr j).mapM (fun kv => do
    match ← jarr kv with
    | [k, e] => pure (← jstr k, ← jexpr io e)
    | _ => throw "bad expr dict")

def jparams (io : NumIO α) (j : Json) : P (List (String × α)) := do
  (← jarr j).mapM (fun kv => do
    match ← jarr kv with
    | [k, v] => pure (← jstr k, ← jnum io v)
    | _ => throw "bad params")

def jmatrix (io : NumIO α) (j : Json) : P (Matrix (Expr α)) := do
  (← jarr j).mapM (fun row => do (← jarr row).mapM (jexpr io))

def jflowKind (s : String) : P FlowKind :=
  match s with
  | "transition" => pure .transition | "inf_freq" => pure .infFreq | "inf_dens" => pure .infDens
  | "absolute" => pure .absolute
  | _ => throw s!"bad transition kind {s}"

/-! ### rendering -/

def rnums (io : NumIO α) (xs : List α) : Json := Json.arr (xs.map io.render).toArray
def rmat (io : NumIO α) (xs : List (List α)) : Json := Json.arr (xs.map (rnums io)).toArray
def rstrata (s : Strata) : Json := Json.arr (s.map (fun kv => Json.arr #[.str kv.1, .str kv.2])).toArray
def rcomp (c : Comp) : Json := Json.arr #[.str c.name, rstrata c.strata]
def rcompOpt : Option Comp → Json
  | none => .null
  | some c => rcomp c
def rnats (l : List Nat) : Json := Json.arr (l.map (fun (n : Nat) => Json.num (JsonNumber.fromNat n))).toArray

mutual
partial def rexpr (io : NumIO α) : Expr α → Json
  | .const c => Json.mkObj [("c", io.render c)]
  | .param k => Json.mkObj [("p", .str k)]
  | .time => Json.mkObj [("t", .num 1)]
  | .comp i => Json.mkObj [("x", .num i)]
  | .popSum => Json.mkObj [("xs", .num 1)]
  | .add a b => Json.mkObj [("+", .arr #[rexpr io a, rexpr io b])]
  | .sub a b => Json.mkObj [("-", .arr #[rexpr io a, rexpr io b])]
  | .mul a b => Json.mkObj [("*", .arr #[rexpr io a, rexpr io b])]
  | .div a b => Json.mkObj [("/", .arr #[rexpr io a, rexpr io b])]
  | .pw x a b => Json.mkObj [("pw", .arr #[rexpr io x, .arr (a.map (rexpr io)).toArray, .arr (b.map (rexpr io)).toArray])]
  | .lin x a b => Json.mkObj [("lin", .arr #[rexpr io x, .arr (a.map (rexpr io)).toArray, .arr (b.map (rexpr io)).toArray])]
end

def radj (io : NumIO α) : Adj α → Json
  | .mul e => .arr #[.str "mul", rexpr io e]
  | .ovr e => .arr #[.str "ovr", rexpr io e]

def kindName : FlowKind → String
  | .transition => "transition" | .infFreq => "inf_freq" | .infDens => "inf_dens" | .death => "death"
  | .crudeBirth => "crude_birth" | .replBirth => "repl_birth" | .importF => "import" | .absolute => "absolute"

def rflow (io : NumIO α) (f : Flow α) : Json :=
  Json.mkObj [("kind", .str (kindName f.kind)), ("name", .str f.name), ("src", rcompOpt f.src), ("dst", rcompOpt f.dst),
              ("param", rexpr io f.param), ("adjs", .arr (f.adjs.map (radj io)).toArray)]

def rdump (io : NumIO α) (m : Model α) : Json :=
  Json.mkObj [("comps", .arr (m.comps.map rcomp).toArray),
              ("flows", .arr (m.flows.map (rflow io)).toArray),
              ("mixing_cats", .arr (m.mixingCats.map rstrata).toArray),
              ("strains", .arr (m.strains.map Json.str).toArray),
              ("n_mixing", .num m.mixingMats.length),
              ("strats", .arr (m.strats.map (fun s => Json.str s.name)).toArray),
              ("requests", .arr (m.requests.map (fun r => Json.str r.name)).toArray)]

def rseries (io : NumIO α) (d : List (String × List α)) : Json :=
  Json.arr (d.map (fun kv => Json.arr #[.str kv.1, rnums io kv.2])).toArray

/-! ### op handling -/

structure DState (α : Type) where
  model : Option (Model α)

def okJ (fields : List (String × Json)) : Json := Json.mkObj (("ok", .bool true) :: fields)
def errJ (msg : String) : Json := Json.mkObj [("ok", .bool false), ("err", .str msg)]

def liftRes {β} (r : Res β) : Except String β :=
  match r with
  | .ok v => .ok v
  | .error (.invalid msg) => .error msg

def optE {β} (o : Option β) (msg : String) : Except String β :=
  match o with
  | some v => .ok v
  | none => .error msg

def modelTimes (m : Model α) : List α := Pipeline.modelTimes m

def rebalTolDen : Nat := 10000000

def fieldFn (m : Model α) (b : Backend) (params : List (String × α)) : List α → α → List α := Pipeline.fieldFn m b params

def jflowOp (io : NumIO α) (j : Json) : P (FlowOp α) := do
  let kind ← jstr (← jfield j "kind")
  let name ← jstr (← jfield j "name")
  let (ok, param) ← (match jfieldOpt j "param" with
    | none => pure (false, (Expr.const (0 : α)))
    | some pj => do pure (true, ← jexpr io pj) : P (Bool × Expr α))
  let expected ← (match jfieldOpt j "expected" with
    | none => pure none
    | some e => do pure (some (← jnat e)) : P (Option Nat))
  let strataOf (k : String) : P Strata := match jfieldOpt j k with
    | none => pure []
    | some s => jstrata s
  let strOf (k : String) : P String := do jstr (← jfield j k)
  match kind with
  | "crude_birth" => pure (.crudeBirth name ok param (← strOf "dst") (← strataOf "dst_strata") expected)
  | "repl_birth" => pure (.replBirth name (← strOf "dst") (← strataOf "dst_strata") expected)
  | "import" => pure (.importF name ok param (← strOf "dst") (← jbool (← jfield j "split")) (← strataOf "dst_strata") expected)
  | "death" => pure (.death name ok param (← strOf "src") (← strataOf "src_strata") expected)
  | "universal_death" => pure (.universalDeath name ok param)
  | k => do
    let fk ← jflowKind k
    pure (.transition fk name ok param (← strOf "src") (← strOf "dst") (← strataOf "src_strata") (← strataOf "dst_strata") expected)

def jstratSpec (io : NumIO α) (j : Json) : P (StratSpec α) := do
  let kind ← (match ← jstr (← jfield j "kind") with
    | "plain" => pure StratKind.plain | "age" => pure StratKind.age | "strain" => pure StratKind.strain
    | k => throw s!"bad strat kind {k}" : P StratKind)
  let split ← (match jfieldOpt j "split" with
    | none => pure none
    | some s => do pure (some (← jexprDict io s)) : P (Option (List (String × Expr α))))
  let flowAdj ← (match jfieldOpt j "flow_adj" with
    | none => pure []
    | some fa => do (← jarr fa).mapM (fun d => do
        let src ← (match jfieldOpt d "src" with | none => pure [] | some s => jstrata s : P Strata)
        let dst ← (match jfieldOpt d "dst" with | none => pure [] | some s => jstrata s : P Strata)
        pure ({ flow := ← jstr (← jfield d "flow"), adjs := ← jadjDict io (← jfield d "adjs"), srcStrata := src, dstStrata := dst } : FlowAdjDecl α)) : P (List (FlowAdjDecl α)))
  let infAdj ← (match jfieldOpt j "inf_adj" with
    | none => pure []
    | some ia => do (← jarr ia).mapM (fun kv => do
        match ← jarr kv with
        | [c, d] => pure (← jstr c, ← jadjDict io d)
        | _ => throw "bad inf_adj") : P (List (String × List (String × Option (Adj α)))))
  let mixing ← (match jfieldOpt j "mixing" with
    | none => pure none
    | some mj => do pure (some (← jmatrix io mj)) : P (Option (Matrix (Expr α))))
  pure { kind := kind, name := ← jstr (← jfield j "name"), strata := ← jstrs (← jfield j "strata"),
         comps := ← jstrs (← jfield j "comps"), split := split, flowAdj := flowAdj, infAdj := infAdj, mixing := mixing }

def jrequest (io : NumIO α) (j : Json) : P (ReqEntry α) := do
  let name ← jstr (← jfield j "name")
  let save ← (match jfieldOpt j "save" with | none => pure true | some b => jbool b : P Bool)
  let strataOf (k : String) : P Strata := match jfieldOpt j k with
    | none => pure []
    | some s => jstrata s
  let req ← (match ← jstr (← jfield j "kind") with
    | "flow" => do pure (Request.flow (← jstr (← jfield j "flow")) (← strataOf "src_strata") (← strataOf "dst_strata") (← jbool (← jfield j "raw")))
    | "comp" => do pure (Request.comp (← jstrs (← jfield j "comps")) (← strataOf "strata"))
    | "agg" => do pure (Request.agg (← jstrs (← jfield j "sources")))
    | "cum" => do
        let st ← (match jfieldOpt j "start" with | none => pure none | some s => do pure (some (← jnum io s)) : P (Option α))
        pure (Request.cum (← jstr (← jfield j "source")) st)
    | "func" => do pure (Request.func (← jexpr io (← jfield j "expr")) (← jstrs (← jfield j "sources")))
    | "cv" => pure (Request.cv name)
    | k => throw s!"bad request kind {k}" : P (Request α))
  pure { name := name, req := req, save := save }

def wholeSteps (t0 t1 dt : String) : Option Nat :=
  match parseRat t0, parseRat t1, parseRat dt with
  | some a, some b, some h =>
    if h == 0 then none else
    let q := (b - a) / h
    if q.den == 1 && q.num ≥ 0 then some q.num.toNat else none
  | _, _, _ => none

def needModel (st : DState α) : Except String (Model α) := optE st.model "no model"

def runModel (io : NumIO α) (m : Model α) (params : List (String × α)) (solver : String)
    (rtol atol : Rat) (fuel : Nat) : Except String (List (List α) × List (String × List α)) := do
  let b ← liftRes (prepare m)
  let solve ← (match solver with
    | "euler" => pure (fun f x0 times => euler f x0 times)
    | "rk4" => pure (fun f x0 times => rk4 f x0 times)
    | "odeint" =>
        let tb : Tableau α := { alpha := Generated.Tableau.alpha.map io.ofRat, beta := Generated.Tableau.beta.map (·.map io.ofRat),
                                cSol := Generated.Tableau.cSol.map io.ofRat, cError := Generated.Tableau.cError.map io.ofRat,
                                cMid := Generated.Tableau.cMid.map io.ofRat, fitRows := Generated.Tableau.fitRows.map (·.map io.ofRat) }
        pure (fun f x0 times =>
          let t0 := times.getD 0 0
          let dt0 := io.initialStep f t0 x0 (f x0 t0) rtol atol
          odeint tb (io.control rtol atol) f fuel dt0 x0 times)
    | s => throw s!"unknown solver {s}" : Except String ((List α → α → List α) → List α → List α → List (List α)))
  -- the whole run is `Pipeline.runModel` (the rendering of `run_model` is proved equal to it in `Props/C07Pipeline.lean`)
  optE (Pipeline.runModel m b solve [] params) "run failed: initial population, a missing parameter, or the derived outputs"

def handle (io : NumIO α) (st : DState α) (j : Json) : Except String (DState α × Json) := do
  let op ← jstr (← jfield j "op")
  match op with
  | "model" => do
      let t0s ← jstr (← jfield j "t0"); let t1s ← jstr (← jfield j "t1"); let dts ← jstr (← jfield j "dt")
      let t0 ← jnum io (.str t0s); let t1 ← jnum io (.str t1s); let dt ← jnum io (.str dts)
      let m ← liftRes (mkModel t0 t1 dt (wholeSteps t0s t1s dts) (← jstrs (← jfield j "comps")) (← jstrs (← jfield j "inf")))
      pure ({ model := some m }, okJ [])
  | "flow" => do
      let m ← needModel st
      let m' ← liftRes (addFlow m (← jflowOp io j))
      pure ({ model := some m' }, okJ [("n_flows", .num m'.flows.length)])
  | "stratify" => do
      let m ← needModel st
      let s ← liftRes (mkStrat (← jstratSpec io j))
      let m' ← liftRes (stratifyWith m s)
      pure ({ model := some m' }, okJ [("n_comps", .num m'.comps.length), ("n_flows", .num m'.flows.length)])
  | "init_pop" => do
      let m ← needModel st
      let isDict ← (match jfieldOpt j "is_dict" with | none => pure true | some b => jbool b : P Bool)
      let m' ← liftRes (setInitialPopulation m isDict (← jexprDict io (← jfield j "dist")))
      pure ({ model := some m' }, okJ [])
  | "init_pop_array" => do
      let m ← needModel st
      let m' ← liftRes (initPopArray m (← (← jarr (← jfield j "arr")).mapM (jexpr io)))
      pure ({ model := some m' }, okJ [])
  | "adjust_split" => do
      let m ← needModel st
      let r : Rebalance α := { strat := ← jstr (← jfield j "strat"), destFilter := ← jstrata (← jfield j "filter"), props := ← jexprDict io (← jfield j "props") }
      let m' ← liftRes (adjustPopulationSplit m rebalTolDen r)
      pure ({ model := some m' }, okJ [])
  | "computed_value" => do
      let m ← needModel st
      let m' ← liftRes (addComputedValue m (← jstr (← jfield j "name")) (← jexpr io (← jfield j "expr")))
      pure ({ model := some m' }, okJ [])
  | "request" => do
      let m ← needModel st
      let m' ← liftRes (addRequest m (← jrequest io j))
      pure ({ model := some m' }, okJ [])
  | "whitelist" => do
      let m ← needModel st
      pure ({ model := some { m with whitelist := ← jstrs (← jfield j "names") } }, okJ [])
  | "finalize" => do
      let m ← needModel st
      pure ({ model := some { m with finalized := true } }, okJ [])
  | "dump" => do
      let m ← needModel st
      pure (st, okJ [("dump", rdump io m)])
  | "times" => do
      let m ← needModel st
      pure (st, okJ [("times", rnums io (modelTimes m))])
  | "init_pop_eval" => do
      let m ← needModel st
      let _ ← liftRes (prepare m)   -- `get_initial_population` builds a runner first
      let x0 ← optE (initialPopulation m (← jparams io (← jfield j "params"))) "initial population failed"
      pure (st, okJ [("x0", rnums io x0)])
  | "one_step" => do
      let m ← needModel st
      let params ← jparams io (← jfield j "params")
      let b ← liftRes (prepare m)
      let t ← (match jfieldOpt j "t" with | none => pure m.t0 | some tj => jnum io tj : P α)
      let x ← (match jfieldOpt j "x" with
        | none => optE (initialPopulation m params) "initial population failed"
        | some xj => do (← jarr xj).mapM (jnum io) : P (List α))
      let s ← optE (step m b params t x) "step failed (missing parameter?)"
      pure (st, okJ [("weights", rnums io s.weights), ("mults", rnums io s.mults), ("per_strain", rmat io s.perStrain),
                     ("mixing", rmat io s.mixing), ("comp_inf", rnums io s.compInf),
                     ("flow_rates", rnums io s.flowRates), ("comp_rates", rnums io s.compRates),
                     ("inf_flow_idx", rnats b.infFlowIdx)])
  | "run" => do
      let m ← needModel st
      let params ← jparams io (← jfield j "params")
      let solver ← jstr (← jfield j "solver")
      let rtol := (match jfieldOpt j "rtol" with | some (.str s) => (parseRat s).getD Generated.Tableau.solverArgsDefault.1 | _ => Generated.Tableau.solverArgsDefault.1)
      let atol := (match jfieldOpt j "atol" with | some (.str s) => (parseRat s).getD Generated.Tableau.solverArgsDefault.2 | _ => Generated.Tableau.solverArgsDefault.2)
      let (outputs, dout) ← runModel io m params solver rtol atol 100000
      pure (st, okJ [("outputs", rmat io outputs), ("derived", rseries io dout)])
  | "input_params" => do
      let m ← needModel st
      pure (st, okJ [("main", .arr ((Params.mainParams m).map Json.str).toArray), ("do", .arr ((Params.doParams m).map Json.str).toArray),
                     ("params", .arr ((Params.inputParams m).map Json.str).toArray)])
  | "session" => do
      -- executes a call history on the session state-machine model (Summer.Model.Session) for the current model's
      -- parameter sets; values and solver names are opaque strings
      let m ← needModel st
      let strDict (j : Json) : P (List (String × String)) := do
        (← jarr j).mapM (fun kv => do
          match ← jarr kv with
          | [k, v] => pure (← jstr k, ← jstr v)
          | _ => throw "bad dict")
      let defn : Session.Definition Unit := { body := (), mainParams := Params.mainParams m, doParams := Params.doParams m }
      let parseOp (o : Json) : P (Session.Op String String) := do
        match ← jstr (← jfield o "k") with
        | "run" => do
            let rb ← (match jfieldOpt o "rebuild" with | none => pure false | some b => jbool b : P Bool)
            pure (Session.Op.run (← strDict (← jfield o "p")) (← jstr (← jfield o "solver")) rb)
        | "defaults" => do pure (Session.Op.setDefaults (← strDict (← jfield o "d")))
        | "get_runner" => do
            let dyn ← (match jfieldOpt o "dyn" with | none => pure none | some d => do pure (some (← jstrs d)) : P (Option (List String)))
            pure (Session.Op.getRunner (← strDict (← jfield o "base")) dyn (← jstr (← jfield o "solver")))
        | "runner_run" => do pure (Session.Op.runnerRun (← jnat (← jfield o "h")) (← strDict (← jfield o "p")))
        | k => throw s!"bad session op {k}"
      let ops ← (← jarr (← jfield j "ops")).mapM parseOp
      let outs := Session.trace (Session.fresh defn) ops
      let rdict (d : List (String × String)) : Json := Json.arr (d.map (fun kv => Json.arr #[.str kv.1, .str kv.2])).toArray
      let rout : Session.Outcome String String → Json
        | .error e => Json.mkObj [("err", .str (match e with | .build => "build" | .mainKey => "mainKey" | .doKey => "doKey" | .badHandle => "badHandle"))]
        | .done => Json.mkObj [("done", .bool true)]
        | .built h => Json.mkObj [("built", .num (JsonNumber.fromNat h))]
        | .ok e => Json.mkObj [("ok", Json.mkObj [("main", rdict e.main), ("do", rdict e.dos), ("solver", .str e.solver)])]
      pure (st, okJ [("outcomes", .arr (outs.map rout).toArray), ("main_params", .arr ((Params.mainParams m).map Json.str).toArray),
                     ("do_params", .arr ((Params.doParams m).map Json.str).toArray)])
  | "query_comps" => do
      let m ← needModel st
      let name ← (match jfieldOpt j "name" with | none => pure none | some n => do pure (some (← jstr n)) : P (Option String))
      let res := Query.queryCompartments m name (← jstrata (← jfield j "filter"))
      pure (st, okJ [("comps", .arr (res.map rcomp).toArray)])
  | "query_flows" => do
      let m ← needModel st
      let name ← (match jfieldOpt j "name" with | none => pure none | some n => do pure (some (← jstr n)) : P (Option String))
      let ss ← (match jfieldOpt j "src" with | none => pure [] | some s => jstrata s : P Strata)
      let ds ← (match jfieldOpt j "dst" with | none => pure [] | some s => jstrata s : P Strata)
      let res := Query.queryFlowsEnds m name ss ds
      pure (st, okJ [("flows", rnats res)])
  | "timefn" => do
      let fn ← jstr (← jfield j "fn")
      let x ← jnum io (← jfield j "x")
      let a ← (← jarr (← jfield j "a")).mapM (jnum io)
      let b ← (← jarr (← jfield j "b")).mapM (jnum io)
      match fn with
      | "bsearch" => pure (st, okJ [("k", .num (TimeFns.binarySearchSumGe x a).toNat)])
      | "pw" => pure (st, okJ [("v", io.render (TimeFns.piecewiseConstant x a b))])
      | "lin" => pure (st, okJ [("v", io.render (TimeFns.interpolateLinear x a b))])
      | "sig" => do
          if io.isRat then throw "sig needs float mode"
          let c ← jnum io (← jfield j "c")
          pure (st, okJ [("v", io.render (TimeFns.interpolateSigmoidal (TimeFns.normSigmoid io.exp c) x a b))])
      | "rdiff" => do
          let p ← jnat (← jfield j "n")
          pure (st, okJ [("v", Json.arr ((TimeFns.rollingDiff p a).map (fun o => match o with | none => Json.null | some v => io.render v)).toArray)])
      | "rsum" => do
          let w ← jnat (← jfield j "n")
          pure (st, okJ [("v", Json.arr ((TimeFns.rollingReduction sumL w a).map (fun o => match o with | none => Json.null | some v => io.render v)).toArray)])
      | _ => throw s!"unknown timefn {fn}"
  | _ => throw s!"unknown op {op}"

partial def loop (io : NumIO α) (h : IO.FS.Stream) (out : IO.FS.Stream) (st : DState α) : IO Unit := do
  let line ← h.getLine
  if line.isEmpty then return ()
  if line.trimAscii.toString.isEmpty then
    loop io h out st
  else
    match Json.parse line with
    | .error e =>
      out.putStrLn (errJ s!"json: {e}").compress
      out.flush
      loop io h out st
    | .ok j =>
      match handle io st j with
      | .ok (st', resp) =>
        out.putStrLn resp.compress
        out.flush
        loop io h out st'
      | .error msg =>
        out.putStrLn (errJ msg).compress
        out.flush
        loop io h out st

end

def main (args : List String) : IO Unit := do
  let stdin ← IO.getStdin
  let stdout ← IO.getStdout
  match args with
  | ["float"] => loop floatIO stdin stdout { model := none }
  | _ => loop ratIO stdin stdout { model := none }
