-- This module serves as the root of the `Summer` library.
-- Import modules here that should be built as part of the library.
import Summer.Basic
