import Summer.Model.Derived
/-
Declarative specification of derived outputs (property C08).  Mathlib-free.

Written from the documentation of `request_output_for_compartments`, `request_output_for_flow`,
`request_aggregate_output`, `request_cumulative_output`, `request_function_output` and
`request_computed_value_output`: every definition below speaks about the compartment / flow lists of
the model and about the trajectory (`times`, `outputs`, `flows`) directly, never about index tables.
-/
namespace Summer.Spec
open Summer Summer.Derived

/-! ### which compartments / flows a request selects -/

/-- a strata filter is satisfied by a compartment when every `(stratification, stratum)` pair of the
filter is one of the compartment's strata -/
def strataSelected (flt : Strata) (c : Comp) : Prop := ∀ kv ∈ flt, kv ∈ c.strata

instance (flt : Strata) (c : Comp) : Decidable (strataSelected flt c) := by
  unfold strataSelected; infer_instance

/-- compartment request: the name is one of the requested names and the strata filter is satisfied -/
def compSelected (names : List String) (flt : Strata) (c : Comp) : Prop :=
  c.name ∈ names ∧ strataSelected flt c

instance (names : List String) (flt : Strata) (c : Comp) : Decidable (compSelected names flt c) := by
  unfold compSelected; infer_instance

/-- an end of a flow passes a filter when the flow has no such end, or the end satisfies the filter -/
def endSelected (flt : Strata) : Option Comp → Prop
  | none => True
  | some c => strataSelected flt c

instance (flt : Strata) (o : Option Comp) : Decidable (endSelected flt o) := by
  cases o <;> unfold endSelected <;> infer_instance

/-- flow request: same name, and both ends pass their filter -/
def flowSelectedD {α : Type} (name : String) (ss ds : Strata) (f : Flow α) : Prop :=
  f.name = name ∧ endSelected ss f.src ∧ endSelected ds f.dst

instance {α : Type} (name : String) (ss ds : Strata) (f : Flow α) : Decidable (flowSelectedD name ss ds f) := by
  unfold flowSelectedD; infer_instance

section
variable {α : Type} [Zero α] [One α] [Add α] [Sub α] [Mul α] [Div α] [LT α] [DecidableLT α]

/-- `Σ_{x ∈ l, p x} row[position of x in l]` -/
def sumSelected {β : Type} (l : List β) (p : β → Prop) [DecidablePred p] (row : List α) : α :=
  sumL (l.zipIdx.map (fun x => if p x.1 then row.getD x.2 0 else 0))

/-- compartment output at one time: the sum of the selected compartments' values in that output row -/
def compOutputAt (m : Model α) (names : List String) (flt : Strata) (row : List α) : α :=
  sumSelected m.comps (compSelected names flt) row

/-- raw flow output at one time: the sum of the selected flows' rates in that row of flow rates -/
def flowOutputAt (m : Model α) (name : String) (ss ds : Strata) (row : List α) : α :=
  sumSelected m.flows (flowSelectedD name ss ds) row

/-- non-raw flow output: the first value is unchanged, every later value is the mean of the raw value
and its predecessor -/
def midpointAt (raw : List α) : Nat → α
  | 0 => raw.getD 0 0
  | i + 1 => (raw.getD (i + 1) 0 + raw.getD i 0) * (1 / (1 + 1))

/-- aggregate output: the sum of the sources at that time -/
def aggAt (srcs : List (List α)) (i : Nat) : α := sumL (srcs.map (fun s => s.getD i 0))

/-- `Σ_{k ≤ j ≤ i} s[j]` -/
def sumFromTo (s : List α) (k i : Nat) : α := sumL ((s.take (i + 1)).drop k)

/-- cumulative output started at time index `k`: zero before `k`, the running sum from `k` afterwards -/
def cumAt (s : List α) (k i : Nat) : α := if i < k then 0 else sumFromTo s k i

/-- the environment in which a function output is evaluated at time index `i`: the derived-output
parameters, the `i`-th time, and the `i`-th entries of the source series (in the order given) -/
def funcEnv (d : RunData α) (srcs : List (List α)) (i : Nat) : Env α :=
  ⟨d.params, d.times.getD i 0, srcs.map (fun s => s.getD i 0)⟩

/-- a trajectory whose tables all have one row per model time -/
structure RunData.WF (d : RunData α) : Prop where
  outputs : d.outputs.length = d.times.length
  flows : d.flows.length = d.times.length
  computed : ∀ kv ∈ d.computed, kv.2.length = d.times.length

/-- the sources named by a request have been found, in order, among the earlier results -/
def SourcesAre (done : List (String × List α)) (sources : List String) (srcs : List (List α)) : Prop :=
  srcs.length = sources.length ∧
    ∀ j (h : j < sources.length) (h' : j < srcs.length), alookup done sources[j] = some srcs[j]

/-- request names are pairwise distinct (they are the keys of a Python dict) -/
def DistinctNames (reqs : List (ReqEntry α)) : Prop := (reqs.map (fun r => r.name)).Nodup

instance (reqs : List (ReqEntry α)) : Decidable (DistinctNames reqs) := by
  unfold DistinctNames; infer_instance

end
end Summer.Spec
