import Summer.Model.Solvers
/-
Specification helper for property C03 ("rk4_agg"): the four states at which one classical RK4 step
evaluates the vector field.  Mathlib-free.
-/
namespace Summer.Spec.AggregateMoreRk4
open Summer

section
variable {α : Type} [Zero α] [One α] [Add α] [Sub α] [Mul α] [Div α]

/-- the four states at which one classical RK4 step evaluates the vector field (written exactly like
`Solvers.rk4Step`, so that the entries are definitionally the arguments `rk4Step` hands to `f`) -/
def rk4Stages (f : List α → α → List α) (h : α) (y : List α) (t : α) : List (List α) :=
  let half : α := h / two
  let k1 := vscale h (f y t)
  let k2 := vscale h (f (vadd y (k1.map (· / two))) (t + half))
  let k3 := vscale h (f (vadd y (k2.map (· / two))) (t + half))
  [y, vadd y (k1.map (· / two)), vadd y (k2.map (· / two)), vadd y k3]

/-- the four times at which one classical RK4 step evaluates the vector field -/
def rk4StageTimes (h : α) (t : α) : List α :=
  [t, t + h / two, t + h / two, t + h]

end
end Summer.Spec.AggregateMoreRk4
