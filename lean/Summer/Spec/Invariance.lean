import Summer.Model.Run
import Summer.Model.Derived
import Summer.Spec.Rates
import Summer.Spec.Solvers
/-
Declarative notions used by property C15 (invariances: time shift, population scaling,
reordering, renaming, order of flow addition / stratification).  Mathlib-free.
-/
namespace Summer.Spec
open Summer Summer.Run Summer.Solvers

/-! ### 1. time shift -/
section timeShift
variable {α : Type}

/-- neither a realised flow weight nor a mixing-matrix entry mentions time: this is all the
right-hand side `Run.rhs` reads that could depend on time. -/
def timeFreeRates (m : Model α) : Bool :=
  m.flows.all (fun f => !(realised f).usesTime) &&
    m.mixingMats.all (fun mat => mat.all (fun row => row.all (fun e => !e.usesTime)))

/-- a model with no explicit time dependence: additionally no computed value mentions time. -/
def timeFree (m : Model α) : Bool :=
  timeFreeRates m && m.computed.all (fun kv => !kv.2.usesTime)

/-- the stepping state of `odeint` with its two clock fields moved by `δ` -/
def shiftState [Add α] (δ : α) (s : OdeState α) : OdeState α :=
  { s with t := s.t + δ, lastT := s.lastT + δ }

/-- the only part of the step controller that looks at absolute times is the comparison
`t < target`; it is shift invariant for `δ` when it is unchanged by adding `δ` on both sides
(true of the floating-point `<` up to rounding, and exactly true of `<` in an ordered field). -/
def ShiftInvariantCtl [Add α] (ctl : Control α) (δ : α) : Prop :=
  ∀ a b, ctl.lt (a + δ) (b + δ) = ctl.lt a b

/-- the time grid of a model (as the driver / `CompartmentalModel.times` builds it) -/
def modelTimes [Add α] [Sub α] [Mul α] [Div α] [NatCast α] (m : Model α) : List α :=
  linspace m.t0 m.t1 m.nTimes

/-- the model with its time span moved by `δ` -/
def shiftTime [Add α] (δ : α) (m : Model α) : Model α := { m with t0 := m.t0 + δ, t1 := m.t1 + δ }

end timeShift

/-! ### 2. population scaling -/
section scaling
variable {α : Type}

mutual
/-- does the expression read the compartment values? -/
def usesState : Expr α → Bool
  | .const _ => false | .param _ => false | .time => false | .comp _ => true | .popSum => true
  | .add a b => usesState a || usesState b | .sub a b => usesState a || usesState b
  | .mul a b => usesState a || usesState b | .div a b => usesState a || usesState b
  | .pw x b v => usesState x || usesStateList b || usesStateList v
  | .lin x a b => usesState x || usesStateList a || usesStateList b
def usesStateList : List (Expr α) → Bool
  | [] => false | e :: es => usesState e || usesStateList es
end

/-- no realised flow weight and no mixing-matrix entry reads the compartment values (weights may
depend on parameters and on time) -/
def stateFreeI (m : Model α) : Bool :=
  m.flows.all (fun f => !usesState (realised f)) &&
    m.mixingMats.all (fun mat => mat.all (fun row => row.all (fun e => !usesState e)))

/-- flows whose rate is *not* proportional to a population: imports and absolute flows.  Under
`x ↦ k·x` their weights have to be multiplied by `k` ("all populations and absolute inflows"). -/
def isAbsInflow : FlowKind → Bool
  | .importF => true | .absolute => true | _ => false

variable [One α] [Div α]

/-- the factor applied to the weight of a flow when all populations are multiplied by `k`:
`k` for imports / absolute flows; `1/k` for the infection flows when transmission is density dependent
(`dens = true`: "the contact rate is divided by `k`"); `1` otherwise -/
def weightFactor (k : α) (dens : Bool) (kind : FlowKind) : α :=
  if isAbsInflow kind then k else if dens && isInfection kind then 1 / k else 1

/-- the flow with its weight multiplied by `weightFactor` (as a final `Multiply` adjustment); flows
whose factor is `1` are left literally unchanged -/
def scaleFlow (k : α) (dens : Bool) (f : Flow α) : Flow α :=
  if isAbsInflow f.kind || (dens && isInfection f.kind) then
    { f with adjs := f.adjs ++ [.mul (.const (weightFactor k dens f.kind))] }
  else f

/-- the model with all absolute inflows multiplied by `k` (and, for density-dependent transmission,
the contact rates divided by `k`) -/
def scaleModel (k : α) (dens : Bool) (m : Model α) : Model α :=
  { m with flows := m.flows.map (scaleFlow k dens) }

/-- the weight vector of the scaled model in terms of the original one -/
def scaleWeights [Mul α] (m : Model α) (k : α) (dens : Bool) (w : List α) : List α :=
  List.zipWith (fun f x => x * weightFactor k dens f.kind) m.flows w

/-- the stepping state of `odeint` with its state-valued fields multiplied by `k` -/
def scaleState [Mul α] (k : α) (s : OdeState α) : OdeState α :=
  { s with y := vscale k s.y, f := vscale k s.f, coeff := s.coeff.map (vscale k) }

/-- the only part of the step controller that looks at magnitudes is the error ratio; it is scale
invariant for `k` when multiplying the error estimate and both states by `k` leaves it unchanged
(true of a purely relative tolerance, `atol = 0`; false for a non-zero absolute tolerance). -/
def ScaleInvariantCtl [Mul α] (ctl : Control α) (k : α) : Prop :=
  ∀ err y0 y1, ctl.errorRatio (vscale k err) (vscale k y0) (vscale k y1) = ctl.errorRatio err y0 y1

/-- a vector field is homogeneous of degree one for the factor `k` -/
def Homogeneous [Mul α] (k : α) (f : List α → α → List α) : Prop :=
  ∀ y t, f (vscale k y) t = vscale k (f y t)

end scaling

section field
variable {α : Type} [Zero α] [One α] [Add α] [Sub α] [Mul α] [Div α] [LT α] [DecidableLT α]

/-- the total vector field handed to the solvers (exactly the closure built by the driver): the
right-hand side, or the zero vector where it is undefined -/
def field (m : Model α) (b : Backend) (params : List (String × α)) : List α → α → List α :=
  fun x t => (rhs m b params x t).getD (List.replicate m.comps.length 0)

end field

/-! ### 3. reordering -/
section perm
variable {α : Type}

/-- the model with its flow list replaced -/
def withFlows (m : Model α) (fl : List (Flow α)) : Model α := { m with flows := fl }

/-- the model with its compartment list replaced -/
def withComps (m : Model α) (cs : List Comp) : Model α := { m with comps := cs }

/-! The tables of `prepare` that the force of infection reads, written as functions of the model.
None of them except `procTypeOf` and the list over which `lookOf` is mapped mentions `m.flows`. -/

/-- `_population_category_indexer` -/
def catIdxOf (m : Model α) : List (List Nat) :=
  m.mixingCats.map (fun cat => idxWhere m.comps (fun c => cat.all (fun kv => c.hasStratum kv.1 kv.2)))

/-- `_category_lookup` -/
def categoryLookupOf (m : Model α) : List Nat :=
  (List.range m.comps.length).map (fun j =>
    ((catIdxOf m).zipIdx.foldl (fun acc r => if r.1.contains j then r.2 else acc) 0))

/-- `_strain_category_indexers` (may fail: `reshape`) -/
def strainCatOf (m : Model α) : Res (List (List (List Nat))) :=
  (m.strains.map (strainInfectiousIdx m)).mapM (fun inf => do
    let flat := (catIdxOf m).flatten.filter (fun j => inf.contains j)
    let loc := flat.map (fun j => (indexOf? inf j).getD 0)
    let w := loc.length / m.mixingCats.length
    guardE (m.mixingCats.length * w == loc.length) "reshape: infectious compartments do not divide into categories"
    pure (reshapeRows loc m.mixingCats.length w))

/-- (strain index, category index) of an infection flow: a function of the flow alone -/
def lookOf (m : Model α) (f : Flow α) : Res (Nat × Nat) :=
  let cat := match f.src with
    | some c => (categoryLookupOf m).getD ((compIdx m.comps c).getD 0) 0
    | none => 0
  let strain := match f.dst with
    | some c => (alookup c.strata "strain").getD "default"
    | none => "default"
  match indexOf? m.strains strain with
  | some si => pure (si, cat)
  | none => fail "strain of infection flow destination is not a model strain"

def procTypeOf (m : Model α) : Option Bool :=
  if m.flows.any (fun f => f.kind == .infFreq) then some true
  else if m.flows.any (fun f => f.kind == .infDens) then some false else none

/-- what `prepare` guarantees about the force-of-infection tables
(`Summer.Proofs.Invariance.tablesFor_of_prepare`) -/
structure TablesFor (m : Model α) (b : Backend) : Prop where
  catIdx : b.catIdx = catIdxOf m
  strainInfIdx : b.strainInfIdx = m.strains.map (strainInfectiousIdx m)
  strainCatIdx : strainCatOf m = .ok b.strainCatIdx
  lookups : ∃ lk, (m.flows.filter (fun f => isInfection f.kind)).mapM (lookOf m) = .ok lk ∧
    b.infStrainLookup = lk.map (·.1) ∧ b.infCatLookup = lk.map (·.2)
  procType : b.procType = procTypeOf m

end perm

section permNumeric
variable {α : Type} [Zero α] [One α] [Add α] [Sub α] [Mul α] [Div α] [LT α] [DecidableLT α]

/-- the infection multiplier of a flow, given the per-strain force-of-infection vectors: a function
of the flow alone -/
def multOf (m : Model α) (per : List (List α)) (f : Flow α) : α :=
  match lookOf m f with
  | .ok sc => 1 * ((per.getD sc.1 []).getD sc.2 0)
  | .error _ => 1

/-- population factor of a flow (as the runner computes it) -/
def popOfFlow (m : Model α) (xc : List α) (f : Flow α) : α :=
  if isCrude f.kind then sumL xc else if isNonPop f.kind then 1 else xc.getD ((srcIx m f).getD 0) 0

/-- total death rate, as a sum over the death flows with a weight *function* `W` -/
def deathsBy (m : Model α) (W : Flow α → α) (xc : List α) : α :=
  sumL ((m.flows.filter (fun f => isDeath f.kind)).map (fun f => W f * xc.getD ((srcIx m f).getD 0) 0))

/-- the rate of a flow as a function of the flow (given a weight function `W` and a multiplier
function `M`): no reference to the position of the flow in the flow list -/
def rateBy (m : Model α) (W : Flow α → α) (xc : List α) (M : Flow α → α) (f : Flow α) : α :=
  let r1 := W f * popOfFlow m xc f * (if isInfection f.kind then M f else 1)
  if isReplacement f.kind then r1 * deathsBy m W xc else r1

/-- a per-compartment vector of `m` read through the relabelling given by another compartment list
`cs'`: entry `j` is the value of compartment `cs'[j]` -/
def relabel (m : Model α) (cs' : List Comp) (v : List α) : List α :=
  cs'.map (fun c => v.getD ((compIdx m.comps c).getD 0) 0)

end permNumeric

/-! ### 4. reordering strata and independent stratifications -/
section strataOrder

/-- the insertion-order-insensitive reading of a compartment: its name and its strata as a lookup
function.  (Python compares the strata dictionaries of compartments irrespective of insertion order;
the model's `Comp` keeps the insertion order.) -/
def compSem (c : Comp) : String × (String → Option String) := (c.name, alookup c.strata)

end strataOrder

/-! ### 5. renaming (the renaming of a model) -/
section rename
variable {α : Type}

/-- rename the keys (stratification names) by `ρk` and the values (stratum labels) by `ρv` -/
def renStrata (ρk ρv : String → String) (s : Strata) : Strata := s.map (fun kv => (ρk kv.1, ρv kv.2))

/-- rename the keys of a dictionary, values untouched -/
def renKeys {β : Type} (ρ : String → String) (l : List (String × β)) : List (String × β) :=
  l.map (fun kv => (ρ kv.1, kv.2))

def renComp (ρn ρk ρv : String → String) (c : Comp) : Comp := ⟨ρn c.name, renStrata ρk ρv c.strata⟩

/-- flow names are not renamed -/
def renFlow (ρn ρk ρv : String → String) (f : Flow α) : Flow α :=
  { f with src := f.src.map (renComp ρn ρk ρv), dst := f.dst.map (renComp ρn ρk ρv) }

def renFlowAdjDecl (ρk ρv : String → String) (d : FlowAdjDecl α) : FlowAdjDecl α :=
  { d with adjs := renKeys ρv d.adjs, srcStrata := renStrata ρk ρv d.srcStrata,
           dstStrata := renStrata ρk ρv d.dstStrata }

def renStrat (ρn ρk ρv : String → String) (s : Strat α) : Strat α :=
  { kind := s.kind, name := ρk s.name, strata := s.strata.map ρv, comps := s.comps.map ρn,
    split := renKeys ρv s.split, flowAdj := s.flowAdj.map (renFlowAdjDecl ρk ρv),
    infAdj := s.infAdj.map (fun ia => (ρn ia.1, renKeys ρv ia.2)), mixing := s.mixing }

def renRebalance (ρk ρv : String → String) (r : Rebalance α) : Rebalance α :=
  { strat := ρk r.strat, destFilter := renStrata ρk ρv r.destFilter, props := renKeys ρv r.props }

def renAction (ρk ρv : String → String) : BuildAction α → BuildAction α
  | .stratify name => .stratify (ρk name)
  | .rebalance r => .rebalance (renRebalance ρk ρv r)

/-- derived-output requests: strata filters and compartment names are renamed; flow names and
output names are not -/
def renRequest (ρn ρk ρv : String → String) : Request α → Request α
  | .flow fn ss ds raw => .flow fn (renStrata ρk ρv ss) (renStrata ρk ρv ds) raw
  | .comp names strata => .comp (names.map ρn) (renStrata ρk ρv strata)
  | r => r

def renModel (ρn ρk ρv : String → String) (m : Model α) : Model α :=
  { m with
    comps := m.comps.map (renComp ρn ρk ρv)
    origNames := m.origNames.map ρn
    infectious := m.infectious.map ρn
    flows := m.flows.map (renFlow ρn ρk ρv)
    strats := m.strats.map (renStrat ρn ρk ρv)
    mixingCats := m.mixingCats.map (renStrata ρk ρv)
    strains := m.strains.map ρv
    initDist := m.initDist.map (renKeys ρn)
    actions := m.actions.map (renAction ρk ρv)
    requests := m.requests.map (fun e => { e with req := renRequest ρn ρk ρv e.req }) }

/-- the hypotheses on a renaming under which the run-time pipeline is unchanged: the three maps are
injective, and the two strings the run-time code hard-codes are fixed: the stratification name
`"strain"` (`strainFilter`, the strain lookup of infection flows) and the strain label `"default"`
(the strain of an infection flow whose destination carries no `"strain"` key). -/
structure GoodRenaming (ρn ρk ρv : String → String) : Prop where
  injN : Function.Injective ρn
  injK : Function.Injective ρk
  injV : Function.Injective ρv
  strainK : ρk "strain" = "strain"
  defaultV : ρv "default" = "default"

end rename

/-! ### 6. order of flow addition and stratification -/
section flowOrder
variable {α : Type}

/-- the relation between the two results for an age stratification: same model, flow lists equal up
to a permutation (precisely: two adjacent blocks swapped, see `before_after_age_core`) -/
def SameUpToFlowOrder (m' m'' : Model α) : Prop :=
  m''.flows.Perm m'.flows ∧ m'' = { m' with flows := m''.flows }

end flowOrder

end Summer.Spec
