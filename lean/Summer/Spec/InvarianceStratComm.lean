import Summer.Spec.Structure
import Summer.Spec.Invariance
import Summer.Spec.FOI
/-
Specification vocabulary for property C15, part "two independent stratifications commute at MODEL
level" (`Summer/Props/C15StratComm.lean`).  Mathlib-free; everything that is a `Bool` or a
decidable `Prop` is evaluated by the kernel in the non-vacuity examples.
-/
namespace Summer.Spec
open Summer Summer.Build

section
variable {α : Type}

/-! ### hypotheses on the two stratifications -/

/-- no flow-adjustment declaration of `s` has a source / destination strata filter that mentions the
stratification called `name` -/
def filtersAvoid (s : Strat α) (name : String) : Bool :=
  s.flowAdj.all (fun d => d.srcStrata.all (fun kv => kv.1 != name) && d.dstStrata.all (fun kv => kv.1 != name))

/-- every flow adjustment declared by `s` is a `Multiply` (or `None`): no `Overwrite` -/
def mulOnly (s : Strat α) : Bool :=
  s.flowAdj.all (fun d => d.adjs.all (fun kv => match kv.2 with
    | some a => isMulAdj a
    | none => true))

/-- `a` is an adjustment that stratifying by `s` can append to a flow: the equal share
`Multiply(1/n)` or an adjustment the user declared for some stratum in some
`set_flow_adjustments` call on `s` -/
def DeclaredAdj [One α] [Div α] [NatCast α] (s : Strat α) (a : Adj α) : Prop :=
  a = share s.strata.length ∨ ∃ d ∈ s.flowAdj, ∃ st, (st, some a) ∈ d.adjs

/-! ### corresponding flows -/

/-- an optional flow end, read irrespective of the insertion order of its strata dictionary -/
def endSem (e : Option Comp) : Option (String × (String → Option String)) := e.map compSem

/-- two adjustment chains that consist of the same blocks, the last two in swapped order:
`base ++ e1 ++ e2` and `base ++ e2 ++ e1`, where `e1` holds adjustments allowed by `P1` and `e2`
adjustments allowed by `P2` -/
def AdjSwap (P1 P2 : Adj α → Prop) (a a' : List (Adj α)) : Prop :=
  ∃ base e1 e2, a = base ++ e1 ++ e2 ∧ a' = base ++ e2 ++ e1 ∧ (∀ x ∈ e1, P1 x) ∧ (∀ x ∈ e2, P2 x)

/-- `g` (a flow of the model stratified by `s1` then `s2`) and `g'` (by `s2` then `s1`) are the same
flow: same class, name and parameter, ends equal as (name, strata lookup), and adjustment chains
that differ by swapping the block appended by `s1` with the block appended by `s2` -/
structure FlowCorr (P1 P2 : Adj α → Prop) (g g' : Flow α) : Prop where
  kind : g.kind = g'.kind
  name : g.name = g'.name
  param : g.param = g'.param
  src : endSem g.src = endSem g'.src
  dst : endSem g.dst = endSem g'.dst
  adjs : AdjSwap P1 P2 g.adjs g'.adjs

/-- the flow list `l'` is the flow list `l` permuted and with every flow replaced by a corresponding
one: there is a list of corresponding pairs whose first components are exactly `l`, in order, and
whose second components are a permutation of `l'` -/
def FlowsCorr (P1 P2 : Adj α → Prop) (l l' : List (Flow α)) : Prop :=
  ∃ pairs : List (Flow α × Flow α),
    pairs.map (·.1) = l ∧ (pairs.map (·.2)).Perm l' ∧ ∀ p ∈ pairs, FlowCorr P1 P2 p.1 p.2

/-! ### the two resulting models -/

/-- the matrices a stratification contributes to the Kronecker product -/
def mixingOf (s : Strat α) : List (Matrix (Expr α)) :=
  match s.mixing with
  | some mat => [mat]
  | none => []

/-- `m12` (= `m` stratified by `s1`, then `s2`) and `m21` (= `m` stratified by `s2`, then `s1`) are the
same model up to the order of compartments, flows, strata dictionaries, adjustment blocks, mixing
categories and Kronecker factors. -/
structure StratCommutes [One α] [Div α] [NatCast α] (m : Model α) (s1 s2 : Strat α) (m12 m21 : Model α) : Prop where
  /-- all fields other than the six listed are literally equal (times, original names, infectious
  compartments, strains, initial population, requests, computed values, ...) -/
  rest : m21 = { m12 with comps := m21.comps, flows := m21.flows, strats := m21.strats,
                          actions := m21.actions, mixingCats := m21.mixingCats, mixingMats := m21.mixingMats }
  /-- compartments: a permutation, up to dictionary order -/
  comps : (m12.comps.map compSem).Perm (m21.comps.map compSem)
  /-- flows: a permutation of corresponding flows -/
  flows : FlowsCorr (DeclaredAdj s1) (DeclaredAdj s2) m12.flows m21.flows
  /-- the applied stratifications (carrying the infectiousness adjustments and population splits) -/
  strats : m12.strats = m.strats ++ [s1, s2] ∧ m21.strats = m.strats ++ [s2, s1]
  /-- the initial-population actions -/
  actions : m12.actions = m.actions ++ [.stratify s1.name, .stratify s2.name] ∧
    m21.actions = m.actions ++ [.stratify s2.name, .stratify s1.name]
  /-- the Kronecker factors -/
  mixingMats : m12.mixingMats = m.mixingMats ++ mixingOf s1 ++ mixingOf s2 ∧
    m21.mixingMats = m.mixingMats ++ mixingOf s2 ++ mixingOf s1
  /-- mixing categories: a permutation, up to dictionary order -/
  mixingCats : (m12.mixingCats.map alookup).Perm (m21.mixingCats.map alookup)

/-- a state given as a function `pop` of the compartment read as (name, strata lookup): the vector
of a model whose compartment list is `comps`.  Two models whose compartments correspond up to order and
dictionary order are in "the same state" when their state vectors are `semState pop` of their lists. -/
def semState (pop : String × (String → Option String) → α) (comps : List Comp) : List α :=
  comps.map (fun c => pop (compSem c))

/-- the Kronecker product of a list of evaluated mixing matrices exactly as `Run.mixingMatrix` forms
it: `[[1]]` for none, otherwise the left fold -/
def kronAll [One α] [Mul α] : List (Matrix α) → Matrix α
  | [] => [[1]]
  | m0 :: rest => rest.foldl kron m0

end
end Summer.Spec
