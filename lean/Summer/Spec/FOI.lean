import Summer.Model.Run
/-
Declarative specification of the force of infection (C05).  Mathlib-free.
-/
namespace Summer.Spec
open Summer

section
variable {α : Type}

/-- entry `(i, j)` of a matrix (`0` outside) -/
def mget [Zero α] (m : Matrix α) (i j : Nat) : α := (m.getD i []).getD j 0

/-- `m` is a `rows × cols` array -/
def IsShape (m : Matrix α) (rows cols : Nat) : Prop := m.length = rows ∧ ∀ r ∈ m, r.length = cols

/-- finite sum `Σ_{j < n} f j` (same association as `sumL`) -/
def sumRange [Add α] [Zero α] (n : Nat) (f : Nat → α) : α := sumL ((List.range n).map f)

/-- row-major (mixed-radix) index: digits `ds = [(n₁, d₁), (n₂, d₂), …]` after a leading digit `d₀`
give `((d₀ · n₁ + d₁) · n₂ + d₂) …` -/
def mixIdx (d0 : Nat) (ds : List (Nat × Nat)) : Nat := ds.foldl (fun acc nd => acc * nd.1 + nd.2) d0

/-- the infectious population of category `j` for one strain:
`P_j = Σ_{p ∈ catIndexer[j]} infVals[p] * infness[p]` -/
def infPop [Add α] [Mul α] [Zero α] (infVals infness : List α) (catIndexer : List (List Nat)) (j : Nat) : α :=
  sumL ((catIndexer.getD j []).map (fun p => infVals.getD p 0 * infness.getD p 0))

/-- density-dependent force of infection on category row `row`: `Σ_j row[j] * P_j` -/
def foiDensity [Add α] [Mul α] [Zero α] (infVals infness : List α) (catIndexer : List (List Nat))
    (row : List α) : α :=
  sumRange catIndexer.length (fun j => row.getD j 0 * infPop infVals infness catIndexer j)

/-- frequency-dependent force of infection on category row `row`: `Σ_j row[j] * (P_j / N_j)` -/
def foiFrequency [Add α] [Mul α] [Div α] [Zero α] (infVals infness : List α)
    (catIndexer : List (List Nat)) (catPops : List α) (row : List α) : α :=
  sumRange catIndexer.length
    (fun j => row.getD j 0 * (infPop infVals infness catIndexer j / catPops.getD j 0))

/-! ### infectiousness of one compartment -/

/-- one infectiousness adjustment entry: stratification name, compartment name, stratum, adjustment -/
structure InfAdjEntry (α : Type) where
  strat : String
  comp : String
  stratum : String
  adj : Option (Adj α)

/-- all infectiousness adjustments of a model in application order:
stratifications × `add_infectiousness_adjustments` calls × strata -/
def infAdjList (m : Model α) : List (InfAdjEntry α) :=
  m.strats.flatMap (fun s => s.infAdj.flatMap (fun ia => ia.2.map (fun sa => ⟨s.name, ia.1, sa.1, sa.2⟩)))

/-- does the entry target compartment `c`?  (`get_matching_compartments(comp, {strat: stratum})`) -/
def InfAdjEntry.targets (e : InfAdjEntry α) (c : Comp) : Bool :=
  c.name == e.comp && (alookup c.strata e.strat == some e.stratum)

/-- the infectiousness of one compartment: start from `1` and apply, in order, the adjustments that
target it — `Multiply` scales, `Overwrite` replaces.  (Every adjustment expression is evaluated,
whether or not it targets `c`; a failing evaluation fails the whole computation.) -/
def infSpec [Zero α] [One α] [Add α] [Sub α] [Mul α] [Div α] [LT α] [DecidableLT α]
    (m : Model α) (params : List (String × α)) (c : Comp) : Option α :=
  (infAdjList m).foldlM (fun (a : α) (e : InfAdjEntry α) =>
    match e.adj with
    | none => some a
    | some adj => do
      let v ← Run.evalStatic params adj.expr
      pure (if e.targets c then (match adj with | .ovr _ => v | .mul _ => v * a) else a)) 1

end
end Summer.Spec
