import Summer.Model.Query
import Summer.Model.Derived
/-
Declarative specifications for the structural properties C13 (selection), C12 (order, distinctness,
flow ends) and C04 (stratified flows).  Mathlib-free.  Nothing here is executed by the driver; the
theorems in `Summer/Props/C13.lean`, `C12.lean`, `C04.lean` relate the executable model to these.
-/
namespace Summer.Spec
open Summer Summer.Build Summer.Generated

/-! ### Dictionaries -/

/-- the keys of an association list are pairwise distinct (a Python `dict`) -/
def KeysNodup {β : Type} (l : List (String × β)) : Prop := (l.map (·.1)).Nodup

instance {β : Type} (l : List (String × β)) : Decidable (KeysNodup l) := by
  unfold KeysNodup; infer_instance

/-- `k` is a key of the dictionary -/
def HasKey {β : Type} (l : List (String × β)) (k : String) : Prop := k ∈ l.map (·.1)

instance {β : Type} (l : List (String × β)) (k : String) : Decidable (HasKey l k) := by
  unfold HasKey; infer_instance

/-! ### C13: selection -/

/-- THE specification of name-and-strata selection: keep, in order, the compartments with that
name whose strata contain every item of the filter. -/
def select (name : String) (flt : Strata) (items : List Comp) : List Comp :=
  items.filter (fun c => decide (c.name = name ∧ ∀ kv ∈ flt, kv ∈ c.strata))

/-- positions (increasing) of the elements satisfying `p` -/
def indicesWhere {β : Type} (p : β → Bool) (l : List β) : List Nat :=
  (List.range l.length).filter (fun i => match l[i]? with | some x => p x | none => false)

/-- positions of the selected compartments -/
def selectIdx (name : String) (flt : Strata) (items : List Comp) : List Nat :=
  indicesWhere (fun c => decide (c.name = name ∧ ∀ kv ∈ flt, kv ∈ c.strata)) items

/-- a flow end passes a strata filter: a missing end always passes, a present end must contain
the filter (so an empty filter always passes) -/
def endOk (flt : Strata) : Option Comp → Prop
  | none => True
  | some c => ∀ kv ∈ flt, kv ∈ c.strata

instance (flt : Strata) : (e : Option Comp) → Decidable (endOk flt e)
  | none => isTrue trivial
  | some c => inferInstanceAs (Decidable (∀ kv ∈ flt, kv ∈ c.strata))

/-- THE specification of flow selection -/
def flowSelected {α : Type} (name : String) (ss ds : Strata) (f : Flow α) : Prop :=
  f.name = name ∧ endOk ss f.src ∧ endOk ds f.dst

instance {α : Type} (name : String) (ss ds : Strata) (f : Flow α) : Decidable (flowSelected name ss ds f) := by
  unfold flowSelected; infer_instance

def selectFlows {α : Type} (name : String) (ss ds : Strata) (flows : List (Flow α)) : List (Flow α) :=
  flows.filter (fun f => decide (flowSelected name ss ds f))

def selectFlowIdx {α : Type} (name : String) (ss ds : Strata) (flows : List (Flow α)) : List Nat :=
  indicesWhere (fun f => decide (flowSelected name ss ds f)) flows

/-- a `set_flow_adjustments` declaration applies to a (parent) flow: same selection predicate -/
def declApplies {α : Type} (d : FlowAdjDecl α) (f : Flow α) : Prop :=
  flowSelected d.flow d.srcStrata d.dstStrata f

instance {α : Type} (d : FlowAdjDecl α) (f : Flow α) : Decidable (declApplies d f) := by
  unfold declApplies; infer_instance

/-! ### C12: well-formedness invariants -/

/-- every end of every flow is a compartment of the model -/
def WF {α : Type} (m : Model α) : Prop :=
  ∀ f ∈ m.flows, (∀ c, f.src = some c → c ∈ m.comps) ∧ (∀ c, f.dst = some c → c ∈ m.comps)

/-- entry flows have no source, exit flows have no destination, transition-type flows have both -/
def FlowShape {α : Type} (f : Flow α) : Prop :=
  (isEntry f.kind = true → f.src = none ∧ f.dst.isSome = true) ∧
  (isExit f.kind = true → f.dst = none ∧ f.src.isSome = true) ∧
  (isEntry f.kind = false → isExit f.kind = false → f.src.isSome = true ∧ f.dst.isSome = true)

/-- The structural invariant of every model reachable through the build API. -/
structure Inv {α : Type} (m : Model α) : Prop where
  /-- compartments are pairwise distinct -/
  nodup : m.comps.Nodup
  /-- strata dictionaries have distinct keys -/
  keys : ∀ c ∈ m.comps, KeysNodup c.strata
  /-- every strata key is the name of an applied stratification -/
  keysIn : ∀ c ∈ m.comps, ∀ kv ∈ c.strata, ∃ t ∈ m.strats, t.name = kv.1
  /-- compartments with the same name carry the same keys, in the same order -/
  uniform : ∀ c ∈ m.comps, ∀ c' ∈ m.comps, c.name = c'.name → c.strata.map (·.1) = c'.strata.map (·.1)
  /-- every compartment name is an original name -/
  names : ∀ c ∈ m.comps, c.name ∈ m.origNames
  /-- flow ends are compartments of the model -/
  wf : WF m
  /-- flows have the ends their class prescribes -/
  shape : ∀ f ∈ m.flows, FlowShape f

section
variable {α : Type} [Zero α] [One α] [Add α] [Sub α] [Mul α] [Div α] [NatCast α] [LT α] [DecidableLT α]

/-- Models reachable through the build API: the constructor (with distinct compartment names), any
flow-adding call, any accepted stratification whose strata are distinct, and any other call that
leaves compartments, flows and stratifications alone (`set_initial_population`, `request_*`, ...). -/
inductive Reachable : Model α → Prop
  | mk (t0 t1 dt : α) (ws : Option Nat) (names inf : List String) (m : Model α) :
      names.Nodup → mkModel t0 t1 dt ws names inf = .ok m → Reachable m
  | flow (m m' : Model α) (op : FlowOp α) : Reachable m → addFlow m op = .ok m' → Reachable m'
  | strat (m m' : Model α) (s : Strat α) : Reachable m → s.strata.Nodup → stratifyWith m s = .ok m' → Reachable m'
  | other (m m' : Model α) : Reachable m → m'.comps = m.comps → m'.flows = m.flows → m'.strats = m.strats →
      m'.origNames = m.origNames → Reachable m'

/-! ### C04: stratified flows -/

/-- the adjustment dictionary that wins for a parent flow: the LAST applicable declaration -/
def winning (s : Strat α) (f : Flow α) : Option (List (String × Option (Adj α))) :=
  ((s.flowAdj.filter (fun d => decide (declApplies d f))).getLast?).map (·.adjs)

/-- a declaration that makes `get_flow_adjustment` raise: it names the flow and filters on an end
the flow does not have -/
def declRaises (d : FlowAdjDecl α) (f : Flow α) : Prop :=
  d.flow = f.name ∧ ((d.srcStrata ≠ [] ∧ f.src = none) ∨ (d.dstStrata ≠ [] ∧ f.dst = none))

instance (d : FlowAdjDecl α) (f : Flow α) : Decidable (declRaises d f) := by unfold declRaises; infer_instance

/-- is this end stratified by `s`? -/
def endIn (s : Strat α) : Option Comp → Prop
  | some c => c.name ∈ s.comps
  | none => False

instance (s : Strat α) : (e : Option Comp) → Decidable (endIn s e)
  | none => isFalse (fun h => h)
  | some c => inferInstanceAs (Decidable (c.name ∈ s.comps))

/-- the end of the copy for stratum `st`: stratified if its name is stratified, else unchanged -/
def stratEnd (s : Strat α) (st : String) : Option Comp → Option Comp
  | some c => if c.name ∈ s.comps then some (c.stratify s.name st) else some c
  | none => none

/-- a birth flow under an age stratification -/
def birthIntoAge (f : Flow α) (s : Strat α) : Prop := isBirth f.kind = true ∧ s.kind = .age

instance (f : Flow α) (s : Strat α) : Decidable (birthIntoAge f s) := by unfold birthIntoAge; infer_instance

/-- the strata that get a copy: all of them in declaration order, except that births under an age
stratification only enter stratum `"0"` -/
def copyStrata (f : Flow α) (s : Strat α) : List String :=
  if birthIntoAge f s then s.strata.filter (fun st => st == "0") else s.strata

/-- the user's adjustment for a stratum: `Multiply`/`Overwrite` are appended, `None` adds nothing -/
def userAdj (a : List (String × Option (Adj α))) (st : String) : List (Adj α) :=
  match alookup a st with
  | some (some adj) => [adj]
  | _ => []

/-- the equal share `Multiply(1/n)` -/
def share (n : Nat) : Adj α := .mul (.const ((1 : α) / (n : α)))

/-- the conservation split of a transition-type flow applies: only the destination is stratified,
the stratification is not a strain stratification and the user declared nothing applicable -/
def conservation (f : Flow α) (s : Strat α) : Prop :=
  isEntry f.kind = false ∧ isExit f.kind = false ∧ endIn s f.dst ∧ ¬ endIn s f.src ∧ s.kind ≠ .strain ∧ winning s f = none

instance (f : Flow α) (s : Strat α) : Decidable (conservation f s) := by
  unfold conservation
  have : Decidable (winning s f = none) := by
    cases winning s f with
    | none => exact isTrue rfl
    | some _ => exact isFalse (fun h => by cases h)
  infer_instance

/-- what is appended when the user declared nothing applicable -/
def autoAdj (f : Flow α) (s : Strat α) : List (Adj α) :=
  if isEntry f.kind then [share s.strata.length]
  else if conservation f s then [share s.strata.length]
  else []

/-- the adjustments appended to the parent's list for the copy of stratum `st` -/
def extraAdj (f : Flow α) (s : Strat α) (st : String) : List (Adj α) :=
  if birthIntoAge f s then []
  else
    (match winning s f with
      | some a => userAdj a st
      | none => autoAdj f s)
    ++ (if absoluteShareKinds.contains f.kind = true ∧ 1 < s.strata.length ∧ ¬ conservation f s then [share s.strata.length] else [])

/-- the last summand of `extraAdj`: the equal share of an absolute flow, appended exactly when the
kind is absolute, there is more than one copy and the conservation split was not applied -/
def absShare (f : Flow α) (s : Strat α) : List (Adj α) :=
  if absoluteShareKinds.contains f.kind = true ∧ 1 < s.strata.length ∧ ¬ conservation f s then [share s.strata.length] else []

/-- the copy of `f` for stratum `st` -/
def copyOf (f : Flow α) (s : Strat α) (st : String) : Flow α :=
  { f with src := stratEnd s st f.src, dst := stratEnd s st f.dst, adjs := f.adjs ++ extraAdj f s st }

/-- THE specification of `Flow.stratify` -/
def copies (f : Flow α) (s : Strat α) : List (Flow α) :=
  if endIn s f.src ∨ endIn s f.dst then (copyStrata f s).map (copyOf f s) else [f]

/-- the conditions under which `Flow.stratify` does not raise: nothing to check for an untouched
flow; otherwise no declaration for this flow filters on a missing end, a birth flow under an age
stratification has no applicable declaration, and the winning declaration names exactly the strata -/
def StratifyOk (f : Flow α) (s : Strat α) : Prop :=
  (endIn s f.src ∨ endIn s f.dst) →
    (∀ d ∈ s.flowAdj, ¬ declRaises d f) ∧ ¬ (birthIntoAge f s ∧ (winning s f).isSome = true) ∧
    (∀ a, winning s f = some a → sameSet (a.map (·.1)) s.strata = true)

/-- effect of one adjustment on a realised weight -/
def applyAdj (e : Expr α) : Adj α → Expr α
  | .mul x => .mul e x
  | .ovr x => x

def applyAdjs (e : Expr α) (adjs : List (Adj α)) : Expr α := adjs.foldl applyAdj e

/-- the ageing flow from age group `a` to `b` for pre-stratification compartment `c` -/
def ageingFlow (s : Strat α) (c : Comp) (a b : Int) : Flow α :=
  let source := c.stratify s.name (toString a)
  let dest := c.stratify s.name (toString b)
  { kind := .transition, name := "ageing_" ++ source.serialize ++ "_to_" ++ dest.serialize,
    src := some source, dst := some dest,
    param := .const ((1 : α) / (((b - a).toNat : Nat) : α)), adjs := [] }

/-- consecutive pairs of the sorted ages -/
def agePairs (s : Strat α) : List (Int × Int) :=
  (sortInts (s.strata.filterMap (fun x => x.toInt?))).zip ((sortInts (s.strata.filterMap (fun x => x.toInt?))).drop 1)

/-- all ageing flows: consecutive sorted ages (outer), pre-stratification compartments (inner) -/
def ageingFlows (prev : List Comp) (s : Strat α) : List (Flow α) :=
  (agePairs s).flatMap (fun ab => prev.map (fun c => ageingFlow s c ab.1 ab.2))

end
end Summer.Spec

/-! ### a small concrete model used by the non-vacuity examples -/
namespace Summer.Spec.Ex
open Summer

def s0 : Comp := ⟨"S", [("age", "0")]⟩
def s5 : Comp := ⟨"S", [("age", "5")]⟩
def i0 : Comp := ⟨"I", [("age", "0")]⟩
def i5 : Comp := ⟨"I", [("age", "5")]⟩

def flow (k : FlowKind) (n : String) (a b : Option Comp) : Flow Int :=
  { kind := k, name := n, src := a, dst := b, param := .const 2, adjs := [] }

/-- `S`,`I` stratified by age `0`,`5`; infection per age group, a birth into `S/0`, deaths from `I` -/
def model : Model Int :=
  { t0 := 0, t1 := 10, dt := 1, nTimes := 11,
    comps := [s0, s5, i0, i5], origNames := ["S", "I"], infectious := ["I"],
    flows := [flow .infFreq "infection" (some s0) (some i0), flow .infFreq "infection" (some s5) (some i5),
              flow .crudeBirth "birth" none (some s0), flow .death "death" (some i0) none,
              flow .death "death" (some i5) none],
    strats := [], mixingCats := [[]], mixingMats := [], strains := ["default"], initDist := none,
    arrayPop := none, actions := [], requests := [], computed := [], whitelist := [], finalized := false }

/-- an unstratified two-compartment model -/
def base : Model Int :=
  { model with comps := [⟨"S", []⟩, ⟨"I", []⟩],
               flows := [flow .infFreq "infection" (some ⟨"S", []⟩) (some ⟨"I", []⟩),
                         flow .crudeBirth "birth" none (some ⟨"S", []⟩),
                         flow .death "death" (some ⟨"I", []⟩) none] }

/-- a plain stratification of both compartments with one adjustment declaration -/
def strat (kind : StratKind) (name : String) (strata comps : List String) (decls : List (FlowAdjDecl Int)) : Strat Int :=
  { kind := kind, name := name, strata := strata, comps := comps, split := [], flowAdj := decls, infAdj := [], mixing := none }

end Summer.Spec.Ex
