import Summer.Spec.Rates
/-
Declarative specification for property C03 (stratifying without adjustments does not change the
aggregate dynamics).  Mathlib-free.

* `agg` : summing a vector indexed by the stratified compartments back over the new strata.
* `copiesA` : the documented list of copiesA that replace a parent flow under an unadjusted
  stratification, written class by class from the docstrings of `flows.py`
  ("equally dividing entry population between all strata", "babies get born at age 0",
  "conservation split", `AbsoluteFlow`'s equal shareA).
* `rateLaw` : the documented per-flow rate law as a function of the flow and of its own weight.
-/
namespace Summer.Spec
open Summer Summer.Run Summer.Build

section structural
variable {α : Type}

/-- no flow adjustments, no infectiousness adjustments, no mixing matrix -/
def unadjusted (s : Strat α) : Bool := s.flowAdj.isEmpty && s.infAdj.isEmpty && s.mixing.isNone

/-- is compartment `c` split by the stratification? -/
def isStratified (s : Strat α) (c : Comp) : Bool := c.hasNameIn s.comps

/-- the stratification's name is not yet a strata key of any of the compartments (decidable; true
whenever `stratify_with` is applied to an API-built model, which refuses a second stratification of
the same name) -/
def freshFor (comps : List Comp) (s : Strat α) : Bool :=
  comps.all (fun c => !c.strata.any (fun kv => kv.1 == s.name))

/-- every end of every flow is a compartment of the list (decidable; implied by `prepare m = .ok b`) -/
def endsIn (comps : List Comp) (flows : List (Flow α)) : Bool :=
  flows.all (fun f => (match f.src with | some c => comps.contains c | none => true)
                    && (match f.dst with | some c => comps.contains c | none => true))

/-- Aggregation of a vector indexed by the stratified compartment list
`comps.flatMap (fun c => if p c then <n children of c> else [c])` back to a vector indexed by `comps`:
the sum of the `n` children for a stratified compartment, the same value otherwise. -/
def aggBy {β : Type} [Add β] [Zero β] (p : Comp → Bool) (n : Nat) : List Comp → List β → List β
  | [], _ => []
  | c :: cs, x =>
    if p c then sumL (x.take n) :: aggBy p n cs (x.drop n)
    else x.headD 0 :: aggBy p n cs (x.drop 1)

/-- `agg comps s x'` : `x'` is indexed by `stratifyComps comps s`, the result by `comps` -/
def agg {β : Type} [Add β] [Zero β] (comps : List Comp) (s : Strat α) (x' : List β) : List β :=
  aggBy (isStratified s) s.strata.length comps x'

/-- the child of an (optional) flow end in stratum `st` -/
def childEnd (s : Strat α) (st : String) (e : Option Comp) : Option Comp :=
  e.map (fun c => c.stratify s.name st)

end structural

section statefree
variable {α : Type}

mutual
/-- the expression mentions no compartment value (it may depend on parameters and on time) -/
def stateFree : Expr α → Bool
  | .const _ => true | .param _ => true | .time => true | .comp _ => false | .popSum => false
  | .add a b => stateFree a && stateFree b | .sub a b => stateFree a && stateFree b
  | .mul a b => stateFree a && stateFree b | .div a b => stateFree a && stateFree b
  | .pw x b v => stateFree x && stateFreeList b && stateFreeList v
  | .lin x a b => stateFree x && stateFreeList a && stateFreeList b
def stateFreeList : List (Expr α) → Bool
  | [] => true | e :: es => stateFree e && stateFreeList es
end

end statefree

section numeric
variable {α : Type} [Zero α] [One α] [Add α] [Sub α] [Mul α] [Div α] [NatCast α] [LT α] [DecidableLT α]

/-- one copy of `f` for stratum `st`: the stratified ends are replaced by their children in `st` and
`extra` is appended to the adjustment chain -/
def copy (f : Flow α) (s : Strat α) (srcS dstS : Bool) (extra : List (Adj α)) (st : String) : Flow α :=
  { f with src := if srcS then childEnd s st f.src else f.src,
           dst := if dstS then childEnd s st f.dst else f.dst,
           adjs := f.adjs ++ extra }

/-- `Multiply(1/n)` -/
def shareA (n : Nat) : Adj α := .mul (.const ((1 : α) / (n : α)))

def isBirthKind : FlowKind → Bool
  | .crudeBirth => true | .replBirth => true | _ => false

/-- The documented copiesA of a parent flow under an UNADJUSTED stratification `s` with `n` strata:

* entry flows (births, imports) into a stratified destination: one copy per stratum, each with the
  extra adjustment `Multiply(1/n)`; except births under an age stratification: a copy for stratum
  `"0"` only, with the parent's weight;
* exit flows (deaths) from a stratified source: one copy per stratum, weight unchanged;
* transition / infection / absolute flows: one copy per stratum if at least one end is stratified;
  `Multiply(1/n)` when only the destination is stratified (not for strains);
  absolute flows are in addition shared equally (`Multiply(1/n)`, `n > 1`) unless the previous rule
  applied;
* a flow none of whose ends is stratified is kept as it is. -/
def copiesA (s : Strat α) (f : Flow α) : List (Flow α) :=
  let n := s.strata.length
  let srcS := endStratified f.src s
  let dstS := endStratified f.dst s
  if isEntryKind f.kind then
    if !dstS then [f]
    else if isBirthKind f.kind && s.kind == .age then
      (s.strata.filter (fun st => st == "0")).map (copy f s false true [])
    else s.strata.map (copy f s false true [shareA n])
  else if isDeath f.kind then
    if !srcS then [f] else s.strata.map (copy f s true false [])
  else
    if !(dstS || srcS) then [f]
    else
      let conservation := dstS && !srcS && !(s.kind == .strain)
      let extra : List (Adj α) :=
        if conservation then [shareA n]
        else if f.kind == .absolute && decide (1 < n) then [shareA n]
        else []
      s.strata.map (copy f s srcS dstS extra)

/-- population of an (optional) compartment in a state vector indexed by `comps` -/
def popOf (comps : List Comp) (x : List α) (e : Option Comp) : α :=
  match e.bind (compIdx comps) with
  | some k => x.getD k 0
  | none => 0

/-- The documented rate of a NON-infection flow `f` whose (realised) weight is `wt`, at the cleaned
state `x` (indexed by `comps`); `deaths` is the total death rate (used by replacement births).
For infection flows this is the rate before the force-of-infection multiplier. -/
def rateLaw (comps : List Comp) (x : List α) (deaths : α) (wt : α) (f : Flow α) : α :=
  match f.kind with
  | .transition => wt * popOf comps x f.src
  | .death => wt * popOf comps x f.src
  | .infFreq => wt * popOf comps x f.src
  | .infDens => wt * popOf comps x f.src
  | .crudeBirth => wt * sumL x
  | .importF => wt
  | .absolute => wt
  | .replBirth => wt * deaths

/-- the value of the realised weight of a flow in an environment (`0` when undefined) -/
def weightVal (env : Env α) (f : Flow α) : α := ((realised f).eval env).getD 0

end numeric
end Summer.Spec
