import Summer.Spec.Invariance
import Summer.Spec.AggregateMore
/-
Declarative notions used by the compartment-reordering part of property C15
(`Summer/Props/C15PermComps.lean`).  Mathlib-free; every side condition is a decidable `Bool`.
-/
namespace Summer.Spec.PermComps
open Summer Summer.Run Summer.Spec

/-! ### 1. expressions that read a compartment BY POSITION -/
section posFree
variable {α : Type}

mutual
/-- the expression never reads a single compartment value by its position (`Expr.comp i`,
`CompartmentValues[i]`).  The total population `Expr.popSum`, time and parameters are allowed. -/
def posFree : Expr α → Bool
  | .const _ => true | .param _ => true | .time => true | .comp _ => false | .popSum => true
  | .add a b => posFree a && posFree b | .sub a b => posFree a && posFree b
  | .mul a b => posFree a && posFree b | .div a b => posFree a && posFree b
  | .pw x b v => posFree x && posFreeList b && posFreeList v
  | .lin x a b => posFree x && posFreeList a && posFreeList b
def posFreeList : List (Expr α) → Bool
  | [] => true | e :: es => posFree e && posFreeList es
end

/-- no realised flow weight and no mixing-matrix entry reads a compartment by position: this is all
the right-hand side `Run.rhs` evaluates at the current state -/
def posFreeModel (m : Model α) : Bool :=
  m.flows.all (fun f => posFree (realised f)) &&
    m.mixingMats.all (fun mat => mat.all (fun row => row.all (fun e => posFree e)))

mutual
/-- the expression with every positional read `Expr.comp i` redirected to position `ρ i` -/
def reindex (ρ : Nat → Nat) : Expr α → Expr α
  | .const c => .const c | .param k => .param k | .time => .time
  | .comp i => .comp (ρ i) | .popSum => .popSum
  | .add a b => .add (reindex ρ a) (reindex ρ b) | .sub a b => .sub (reindex ρ a) (reindex ρ b)
  | .mul a b => .mul (reindex ρ a) (reindex ρ b) | .div a b => .div (reindex ρ a) (reindex ρ b)
  | .pw x b v => .pw (reindex ρ x) (reindexList ρ b) (reindexList ρ v)
  | .lin x a b => .lin (reindex ρ x) (reindexList ρ a) (reindexList ρ b)
def reindexList (ρ : Nat → Nat) : List (Expr α) → List (Expr α)
  | [] => [] | e :: es => reindex ρ e :: reindexList ρ es
end

def reindexAdj (ρ : Nat → Nat) : Adj α → Adj α
  | .mul e => .mul (reindex ρ e)
  | .ovr e => .ovr (reindex ρ e)

/-- the flow with the positional reads of its parameter and adjustments redirected -/
def reindexFlow (ρ : Nat → Nat) (f : Flow α) : Flow α :=
  { f with param := reindex ρ f.param, adjs := f.adjs.map (reindexAdj ρ) }

/-- where the compartment sitting at position `i` of `m.comps` sits in the list `cs'`
(positions outside `m.comps` are left alone) -/
def newPos (m : Model α) (cs' : List Comp) (i : Nat) : Nat :=
  match m.comps[i]? with
  | some c => (compIdx cs' c).getD 0
  | none => i

/-- **the reordered model**: compartment list `cs'`, and every positional read in a flow weight or a
mixing-matrix entry follows its compartment to the new position.  For a model none of whose flow
parameters, adjustments and mixing entries reads a compartment by position this is literally
`withComps m cs'` (`Summer.Proofs.InvPermComps.permModel_eq_withComps`); for a model whose REALISED
weights do not (`posFreeModel`) the two have the same right-hand side (`C15PermComps.perm_comps_step`
and `perm_comps_step_general`). -/
def permModel (m : Model α) (cs' : List Comp) : Model α :=
  { m with comps := cs'
           flows := m.flows.map (reindexFlow (newPos m cs'))
           mixingMats := m.mixingMats.map (fun mat => mat.map (fun row => row.map (reindex (newPos m cs')))) }

end posFree

/-! ### 2. the force of infection is computed category by category -/
section foi

/-- Either the model has no infection flow, or every mixing category holds the same number of
infectious compartments of each strain (`catsUniform`).

The runner cuts the flat list of a strain's infectious compartments (taken category by category) into
`ncats` rows of EQUAL width (`np.reshape` in `_build_compartment_category_map`).  When the categories
hold unequally many infectious compartments the rows straddle category boundaries, and which
compartments land in which row then depends on the order of the compartment list — the force of
infection of such a model is NOT invariant under reordering (`Summer.Props.C15PermComps`, last
section, has a machine-checked counterexample).  Every model produced by the building API satisfies
the condition (a mixing matrix is only accepted for a stratification of ALL compartments). -/
def foiAligned (b : Backend) : Bool := b.procType.isNone || AggregateMore.catsUniform b

end foi

/-! ### 3. relabelling the outputs -/
section out
variable {α : Type} [Zero α] [One α] [Add α] [Sub α] [Mul α] [Div α] [LT α] [DecidableLT α]

/-- the output of one evaluation with its two per-compartment vectors relabelled; the per-flow vectors
(weights, multipliers, flow rates), the mixing matrix and the per-strain forces of infection are kept -/
def relabelOut (m : Model α) (cs' : List Comp) (o : StepOut α) : StepOut α :=
  { o with compInf := relabel m cs' o.compInf, compRates := relabel m cs' o.compRates }

/-- what the solvers need of a relabelling `σ` of the vectors of length `n`: it keeps the length and
commutes with the (truncating) vector addition and with scaling -/
structure LinRelabel (n : Nat) (σ : List α → List α) : Prop where
  len : ∀ a, a.length = n → (σ a).length = n
  add : ∀ a b, a.length = n → b.length = n → σ (vadd a b) = vadd (σ a) (σ b)
  smul : ∀ k a, σ (vscale k a) = vscale k (σ a)

/-- the stepping state of `odeint` with its state-valued fields relabelled -/
def relabelState (σ : List α → List α) (s : Solvers.OdeState α) : Solvers.OdeState α :=
  { s with y := σ s.y, f := σ s.f, coeff := s.coeff.map σ }

/-- the only part of the step controller that looks at the state vectors is the error ratio; it is
invariant under a relabelling `σ` of the vectors of length `n` when relabelling the error estimate and
both states leaves it unchanged (true in exact arithmetic of the root-mean-square `mean_error_ratio` of
`runner/jax/ode.py`, a symmetric function of the entries; in floating point only up to the rounding of
`jnp.mean`) -/
def RelabelInvariantCtl (ctl : Solvers.Control α) (n : Nat) (σ : List α → List α) : Prop :=
  ∀ err y0 y1, err.length = n → y0.length = n → y1.length = n →
    ctl.errorRatio (σ err) (σ y0) (σ y1) = ctl.errorRatio err y0 y1

end out

end Summer.Spec.PermComps
