import Summer.Model.Session
/-
Declarative specification for property C11: what a run *should* see, as a function of the model
definition, the (current) default parameters, the call's parameters and the solver only.
-/
namespace Summer.Session

section
variable {δ ν σ : Type}

/-- History-free specification of `model.run(p, solver)`: both stages see `defaults ⊕ p`, restricted
to their own parameters; `none` when some parameter is unbound. -/
def pureEff (defn : Definition δ) (defaults : Option (Dict ν)) (p : Dict ν) (solver : σ) :
    Option (Eff ν σ) :=
  let full := Dict.update (defaults.getD []) p
  match collect full.get defn.mainParams, collect full.get defn.doParams with
  | some m, some d => some { main := m, dos := d, solver := solver }
  | _, _ => none

/-- `defaults ⊕ p` binds every input parameter of the definition. -/
def Covers (defn : Definition δ) (defaults : Option (Dict ν)) (p : Dict ν) : Prop :=
  ∀ k ∈ defn.inputParams, ((Dict.update (defaults.getD []) p).get k).isSome = true

instance (defn : Definition δ) (defaults : Option (Dict ν)) (p : Dict ν) :
    Decidable (Covers defn defaults p) := by unfold Covers; infer_instance

/-- The defaults in force after a history: the argument of the last `setDefaults`. -/
def lastDefaults : List (Op ν σ) → Option (Dict ν) → Option (Dict ν)
  | [], d => d
  | .setDefaults d :: ops, _ => lastDefaults ops (some d)
  | _ :: ops, d => lastDefaults ops d

/-- An independently constructed identical model on which only `set_default_parameters(d)` has been
called (nothing at all for `none`). -/
def freshWith (defn : Definition δ) (defaults : Option (Dict ν)) : Session δ ν σ :=
  match defaults with
  | none => fresh defn
  | some d => (step (fresh defn) (.setDefaults d)).1

/-- the operations that finalize the model -/
def Op.finalizes : Op ν σ → Prop
  | .run .. => True
  | .getRunner .. => True
  | _ => False

/-- `get_runner(base, dyn)` succeeds iff every non-dynamic main-graph parameter is bound in `base`. -/
def buildOk (defn : Definition δ) (base : Dict ν) (dyn : Option (List String)) : Bool :=
  (frozenKeys defn dyn).all (fun k => (base.get k).isSome)

/-- History-free specification of `r.run(p)` for `r = model.get_runner(base, dyn, solver)` built while
the model's defaults were `defaultsAtBuild`.

* a dynamic main-graph parameter is read from `defaultsAtBuild ⊕ p`;
* a non-dynamic main-graph parameter is read from `base` (frozen; `p` and the defaults are ignored);
* a derived-output parameter is read from `defaultsAtBuild ⊕ p`, and from `base` when absent there
  — whether or not it is dynamic, and whether or not the main graph uses a frozen value for it. -/
def explicitSpec (defn : Definition δ) (defaultsAtBuild : Option (Dict ν)) (base : Dict ν)
    (dyn : Option (List String)) (solver : σ) (p : Dict ν) : Outcome ν σ :=
  let full := Dict.update (defaultsAtBuild.getD []) p
  let mainF := fun k => if (dyn.getD defn.inputParams).contains k then full.get k else base.get k
  let doF := fun k => (full.get k).or (base.get k)
  match collect mainF defn.mainParams with
  | none => .error .mainKey
  | some m =>
    match collect doF defn.doParams with
    | none => .error .doKey
    | some d => .ok { main := m, dos := d, solver := solver }

end
end Summer.Session
