import Summer.Spec.Aggregate
/-
Declarative side conditions used by the extended statements of property C03
(`Summer/Props/C03More.lean`).  Mathlib-free; every condition is a decidable `Bool`.
-/
namespace Summer.Spec.AggregateMore
open Summer Summer.Run Summer.Spec

section
variable {α : Type}

/-- Every mixing category holds the same number of infectious compartments of each strain.

The runner obtains the per-category infectious compartments of a strain by RESHAPING the flat list of
that strain's infectious compartments, taken category by category, into `ncats` rows of equal width
(`_strain_category_indexers`, `np.reshape`); row `k` is the list of infectious compartments of category
`k` exactly when all categories hold equally many.  This is the case for every model the building API
produces (a mixing matrix is only accepted for a FULL stratification), but it is not implied by
`prepare m = .ok b`; it is decidable on the tables of the backend. -/
def catsUniform (b : Backend) : Bool :=
  b.strainInfIdx.all (fun inf =>
    let rows := b.catIdx.map (fun row => row.filter (fun j => inf.contains j))
    rows.all (fun r => r.length == (rows.head?.map (·.length)).getD 0))

/-- no mixing category of `m` mentions the stratification name `name` (true whenever `name` is the
name of a stratification that has not been applied yet: the category keys are names of applied
stratifications, and `stratify_with` refuses a repeated name) -/
def catKeysAvoid (m : Model α) (name : String) : Bool :=
  m.mixingCats.all (fun cat => cat.all (fun kv => kv.1 != name))

/-- the entries of the mixing matrices do not read the model state (parameters and time only) -/
def mixingStateFree (m : Model α) : Bool :=
  m.mixingMats.all (fun mat => mat.all (fun row => row.all (fun e => stateFree e)))

end
end Summer.Spec.AggregateMore
