import Summer.Model.Run
/-
Declarative specification of the rate laws (properties C01, C02, C18).  Mathlib-free.

Everything here is written directly from the documentation of summer2 (flows.py docstrings,
`adjust.py`, the "flows" section of the user guide), *not* from the index tables that the runner
uses: flows are classified by pattern matching on their kind, compartments are located by their
position in `m.comps`, and sums range over the flow list itself.
-/
namespace Summer.Spec
open Summer Summer.Run

section structural
variable {α : Type}

/-- position in `m.comps` of the source compartment of a flow (none for entry flows) -/
def srcIx (m : Model α) (f : Flow α) : Option Nat := f.src.bind (compIdx m.comps)
/-- position in `m.comps` of the destination compartment of a flow (none for exit flows) -/
def dstIx (m : Model α) (f : Flow α) : Option Nat := f.dst.bind (compIdx m.comps)

def isInfection : FlowKind → Bool
  | .infFreq => true | .infDens => true | _ => false
def isDeath : FlowKind → Bool
  | .death => true | _ => false
def isReplacement : FlowKind → Bool
  | .replBirth => true | _ => false
def isCrude : FlowKind → Bool
  | .crudeBirth => true | _ => false
/-- flows whose rate does not depend on a source population -/
def isNonPop : FlowKind → Bool
  | .replBirth => true | .importF => true | .absolute => true | _ => false
/-- flows whose rate is proportional to the population of their source compartment -/
def isSourced : FlowKind → Bool
  | .transition => true | .infFreq => true | .infDens => true | .death => true | _ => false

/-- the entry-type flows (births and imports) -/
def isEntryKind : FlowKind → Bool
  | .crudeBirth => true | .replBirth => true | .importF => true | _ => false

/-- every population-proportional flow does have a source compartment (true of every model the
building API can produce; decidable) -/
def sourcedOk (m : Model α) : Bool := m.flows.all (fun f => !isSourced f.kind || f.src.isSome)

/-- entry-type flows have no source compartment (true of every model the building API can
produce; decidable) -/
def entryOk (m : Model α) : Bool :=
  m.flows.all (fun f => !isEntryKind f.kind || f.src.isNone)

/-- number of infection flows strictly before flow `i`: the position of flow `i` among the infection
flows -/
def infPos (m : Model α) (i : Nat) : Nat := ((m.flows.take i).filter (fun f => isInfection f.kind)).length

def nInfection (m : Model α) : Nat := (m.flows.filter (fun f => isInfection f.kind)).length

/-- The facts about the index tables of a backend that the rate laws rely on.  `prepare m = .ok b`
implies `BackendFor m b` (`Summer.Proofs.backendFor_of_prepare`). -/
structure BackendFor (m : Model α) (b : Backend) : Prop where
  srcOk : ∀ f ∈ m.flows, f.src.isSome = true → (srcIx m f).isSome = true
  dstOk : ∀ f ∈ m.flows, f.dst.isSome = true → (dstIx m f).isSome = true
  nComps : b.nComps = m.comps.length
  nFlows : b.nFlows = m.flows.length
  populationIdx : b.populationIdx = m.flows.map (fun f => (srcIx m f).getD 0)
  nonPopIdx : b.nonPopIdx = idxWhere m.flows (fun f => isNonPop f.kind)
  crudeIdx : b.crudeIdx = idxWhere m.flows (fun f => isCrude f.kind)
  replIdx : b.replIdx = idxWhere m.flows (fun f => isReplacement f.kind)
  deathIdx : b.deathIdx = idxWhere m.flows (fun f => isDeath f.kind)
  infFlowIdx : b.infFlowIdx = idxWhere m.flows (fun f => isInfection f.kind)
  posMap : b.posMap = ((m.flows.map (dstIx m)).zipIdx).filterMap (fun x => x.1.map (fun d => (x.2, d)))
  negMap : b.negMap = ((m.flows.map (srcIx m)).zipIdx).filterMap (fun x => x.1.map (fun s => (x.2, s)))
  procType : b.procType.isSome = m.flows.any (fun f => isInfection f.kind)
  lookupLen : b.infStrainLookup.length = nInfection m ∧ b.infCatLookup.length = nInfection m

end structural

section numeric
variable {α : Type} [Zero α] [One α] [Add α] [Sub α] [Mul α] [Div α] [LT α] [DecidableLT α]

/-! ### C01.1 realised weight -/

def isMulAdj : Adj α → Bool
  | .mul _ => true | .ovr _ => false

/-- the multiplicative adjustments that come after the last `Overwrite`, in order -/
def trailingMuls (adjs : List (Adj α)) : List (Expr α) :=
  ((adjs.reverse.takeWhile isMulAdj).reverse).map Adj.expr

/-- the last `Overwrite`'s value if there is one, otherwise the flow's own parameter -/
def effectiveBase (f : Flow α) : Expr α :=
  match f.adjs.reverse.dropWhile isMulAdj with
  | a :: _ => a.expr
  | [] => f.param

/-- Documented adjustment rule: the value of the effective base times the multipliers applied
after it, left to right.  Undefined (`none`) exactly when the effective base or one of these
multipliers is undefined; anything before the last `Overwrite` is irrelevant. -/
def weight (f : Flow α) (env : Env α) : Option α :=
  (trailingMuls f.adjs).foldl
    (fun acc e => match acc, e.eval env with
      | some x, some y => some (x * y)
      | _, _ => none)
    ((effectiveBase f).eval env)

/-- The same rule as a left-to-right pass over optional values: `Multiply` scales what has been
accumulated, `Overwrite` forgets it (including the fact that it may have been undefined). -/
def weightFold (f : Flow α) (env : Env α) : Option α :=
  f.adjs.foldl
    (fun acc a => match a with
      | .mul e => (match acc, e.eval env with
          | some x, some y => some (x * y)
          | _, _ => none)
      | .ovr e => e.eval env)
    (f.param.eval env)

/-! ### C01.3 per-flow laws -/

/-- (cleaned) population of the source compartment -/
def srcPop (m : Model α) (xc : List α) (f : Flow α) : α :=
  match srcIx m f with
  | some k => xc.getD k 0
  | none => 0

/-- total rate of all death flows: `Σ_j w_j * x[src_j]` -/
def deathTotal (m : Model α) (w xc : List α) : α :=
  sumL (((m.flows.zip w).filter (fun fw => isDeath fw.1.kind)).map (fun fw => fw.2 * srcPop m xc fw.1))

/-- the documented rate of flow number `i` (which is `f`) given the weights `w`, the cleaned state
`xc` and one infection multiplier per infection flow -/
def flowRate (m : Model α) (w xc mults : List α) (i : Nat) (f : Flow α) : α :=
  let wi := w.getD i 0
  match f.kind with
  | .transition => wi * srcPop m xc f
  | .death => wi * srcPop m xc f
  | .infFreq => wi * srcPop m xc f * mults.getD (infPos m i) 0
  | .infDens => wi * srcPop m xc f * mults.getD (infPos m i) 0
  | .crudeBirth => wi * sumL xc
  | .importF => wi
  | .absolute => wi
  | .replBirth => wi * deathTotal m w xc

/-! ### C01.4 / C02 compartment rates -/

/-- `Σ` of `r_i` over the flows `i` whose destination is compartment number `c` -/
def inflow (m : Model α) (r : List α) (c : Nat) : α :=
  sumL (((m.flows.zip r).filter (fun fr => dstIx m fr.1 == some c)).map (·.2))

/-- `Σ` of `r_i` over the flows `i` whose source is compartment number `c` -/
def outflow (m : Model α) (r : List α) (c : Nat) : α :=
  sumL (((m.flows.zip r).filter (fun fr => srcIx m fr.1 == some c)).map (·.2))

/-- total of the entry flows (no source) -/
def entryTotal (m : Model α) (r : List α) : α :=
  sumL (((m.flows.zip r).filter (fun fr => fr.1.src.isNone)).map (·.2))

/-- total of the exit flows (no destination) -/
def exitTotal (m : Model α) (r : List α) : α :=
  sumL (((m.flows.zip r).filter (fun fr => fr.1.dst.isNone)).map (·.2))

/-- entry `(c, j)` of a dense matrix, `0` outside -/
def entry (mat : Matrix α) (c j : Nat) : α := (mat.getD c []).getD j 0

end numeric
end Summer.Spec
