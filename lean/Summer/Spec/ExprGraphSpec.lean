import Summer.Model.Derived
/-
Declarative notions used to state C09 / C10 / C14 (no Mathlib).

* `mergedParams`   : the parameter assignment induced by a partition of the parameters into
                     build-time ("fixed") and run-time ("dynamic") ones;
* `freezeParams`   : the assignment that the model's `Expr.freeze` realises *unconditionally*
                     (it differs from `mergedParams` only on non-dynamic keys missing from `fixed`);
* `compsInRange`   : every `comp i` leaf of an expression is a valid index into a state of length `n`;
* `WellOrdered`    : derived-output requests are in dependency order with pairwise distinct names;
* `DepClosed`      : a set of request names is closed under direct dependencies.
-/
namespace Summer
namespace Spec

section
variable {α : Type}

/-- The assignment induced by the partition `(dyn, fixed, dynVals)`: a key listed in `dyn` is looked
up in the run-time dictionary `dynVals`, every other key in the build-time dictionary `fixed`.
(`alookup_mergedParams` in `Proofs/ExprProps.lean` states exactly this.) -/
def mergedParams (dyn : List String) (fixed dynVals : List (String × α)) : List (String × α) :=
  dynVals.filter (fun kv => dyn.contains kv.1) ++ fixed.filter (fun kv => !dyn.contains kv.1)

/-- What `Expr.freeze` realises with no side condition: as `mergedParams`, except that a
non-dynamic key that is *missing* from `fixed` is left as a parameter and therefore falls through to
the run-time dictionary. -/
def freezeParams (dyn : List String) (fixed dynVals : List (String × α)) : List (String × α) :=
  mergedParams dyn fixed dynVals ++ dynVals

/-- The side condition under which `Expr.freeze` realises exactly `mergedParams` on the keys `ks`:
every non-dynamic key is bound in `fixed`, or at least is not (accidentally) bound in the run-time
dictionary either.  It holds in particular when `fixed` binds every non-dynamic key of `ks`, and when
the run-time dictionary binds only dynamic keys. -/
def freezeOK (dyn : List String) (fixed dynVals : List (String × α)) (ks : List String) : Bool :=
  ks.all (fun k => dyn.contains k || (alookup fixed k).isSome || (alookup dynVals k).isNone)

/-- Python `{**defaults, **supplied}` read through first-match lookup -/
def withDefaults (defaults supplied : List (String × α)) : List (String × α) := supplied ++ defaults

mutual
/-- every `comp i` leaf satisfies `i < n` -/
def compsInRange (n : Nat) : Expr α → Bool
  | .const _ => true | .param _ => true | .time => true | .comp i => decide (i < n) | .popSum => true
  | .add a b => compsInRange n a && compsInRange n b | .sub a b => compsInRange n a && compsInRange n b
  | .mul a b => compsInRange n a && compsInRange n b | .div a b => compsInRange n a && compsInRange n b
  | .pw x b v => compsInRange n x && compsInRangeList n b && compsInRangeList n v
  | .lin x a b => compsInRange n x && compsInRangeList n a && compsInRangeList n b
def compsInRangeList (n : Nat) : List (Expr α) → Bool
  | [] => true | e :: es => compsInRange n e && compsInRangeList n es
end

/-- every key of `ks` is bound in the dictionary `p` -/
def allBound (p : List (String × α)) (ks : List String) : Bool := ks.all (fun k => (alookup p k).isSome)

/-- Requests are in dependency order relative to the already available names `seen`: each request
refers only to names in `seen` or to earlier requests, and no name is declared twice. -/
def wellOrderedFrom (seen : List String) : List (ReqEntry α) → Bool
  | [] => true
  | r :: rs => (Derived.deps r.req).all (fun k => seen.contains k) && !seen.contains r.name
      && wellOrderedFrom (seen ++ [r.name]) rs

/-- every request's sources are EARLIER requests and request names are pairwise distinct (this is
what `request_*` guarantees at declaration time: sources must already exist, names must be new) -/
def WellOrdered (reqs : List (ReqEntry α)) : Prop := wellOrderedFrom [] reqs = true

instance (reqs : List (ReqEntry α)) : Decidable (WellOrdered reqs) := by
  unfold WellOrdered; infer_instance

/-- `keep` is closed under the direct dependencies of the kept requests of `reqs` -/
def DepClosed (keep : String → Bool) (reqs : List (ReqEntry α)) : Prop :=
  ∀ r ∈ reqs, keep r.name = true → ∀ k ∈ Derived.deps r.req, keep k = true

/-- the request list after pruning with whitelist `W` (as in `derivedOutputs`) -/
def pruned (reqs : List (ReqEntry α)) (W : List String) : List (ReqEntry α) :=
  reqs.filter (fun r => (Derived.neededSet reqs W).contains r.name)

end
end Spec
end Summer
