import Summer.Spec.Rates
import Summer.Spec.Aggregate
import Summer.Model.Solvers
/-
Declarative vocabulary for the end-to-end statements built on top of C01 / C02 / C18:

* `C01Step`  : one evaluation `Run.step` of the right-hand side, as a whole;
* `C18Euler` : the out-coefficients of a compartment (what an explicit Euler step must not overshoot);
* `C02Replacement` : the sum of the realised weights of the replacement-birth flows, and the two
  decidable predicates "the entry flows are exactly the replacement-birth flows" and "the exit flows are
  exactly the death flows".

Mathlib-free.
-/
namespace Summer.Spec.EndToEnd
open Summer Summer.Run Summer.Build Summer.Spec

section numeric
variable {α : Type} [Zero α] [One α] [Add α] [Sub α] [Mul α] [Div α] [LT α] [DecidableLT α]

/-! ### C01Step -/

/-- the environment in which `step` evaluates every time-varying quantity: the parameters, THIS time
and the CLEANED state -/
def stepEnv (p : List (String × α)) (t : α) (x : List α) : Env α := ⟨p, t, cleanV x⟩

/-- every realised flow weight is defined in the environment -/
def weightsDefined (m : Model α) (env : Env α) : Prop :=
  ∀ f ∈ m.flows, (Spec.weight f env).isSome = true

/-- every entry of every mixing matrix is defined in the environment -/
def mixingDefined (m : Model α) (env : Env α) : Prop :=
  ∀ mat ∈ m.mixingMats, ∀ row ∈ mat, ∀ e ∈ row, (e.eval env).isSome = true

/-- every infectiousness adjustment (of every stratification, compartment and stratum) is defined under
the parameters alone -/
def infectiousnessDefined (m : Model α) (p : List (String × α)) : Prop :=
  ∀ s ∈ m.strats, ∀ ia ∈ s.infAdj, ∀ sa ∈ ia.2, ∀ adj, sa.2 = some adj →
    (evalStatic p adj.expr).isSome = true

/-! ### C18Euler -/

/-- the factor by which the population of its source is multiplied in the rate of a
population-proportional flow: the weight, times the infection multiplier for infection flows -/
def outCoefs (m : Model α) (w mults : List α) : List α :=
  m.flows.zipIdx.map (fun fi =>
    if isInfection fi.1.kind then w.getD fi.2 0 * mults.getD (infPos m fi.2) 0 else w.getD fi.2 0)

/-- `Σ` of the out-coefficients of the flows whose source is compartment number `c` -/
def outCoef (m : Model α) (w mults : List α) (c : Nat) : α := Spec.outflow m (outCoefs m w mults) c

/-- the vector field handed to the fixed-step solvers (an undefined right-hand side reads as zero) -/
def field (m : Model α) (b : Backend) (p : List (String × α)) : List α → α → List α :=
  fun x t => (rhs m b p x t).getD (List.replicate m.comps.length 0)

/-! ### C02Replacement -/

/-- the entry flows (no source) are exactly the replacement-birth flows -/
def entriesAreReplacement (m : Model α) : Bool :=
  m.flows.all (fun f => f.src.isNone == isReplacement f.kind)

/-- the exit flows (no destination) are exactly the death flows -/
def exitsAreDeaths (m : Model α) : Bool :=
  m.flows.all (fun f => f.dst.isNone == isDeath f.kind)

/-- `Σ` of the weights `w_i` of the replacement-birth flows -/
def replWeightTotal (m : Model α) (w : List α) : α :=
  sumL (((m.flows.zip w).filter (fun fw => isReplacement fw.1.kind)).map (·.2))

/-- `Σ` of the realised weights (evaluated in `env`, `0` when undefined) of the replacement-birth flows
of a flow list -/
def replWeightSum (env : Env α) (flows : List (Flow α)) : α :=
  sumL ((flows.filter (fun f => isReplacement f.kind)).map (weightVal env))

end numeric

section build
variable {α : Type} [Zero α] [One α] [Add α] [Sub α] [Mul α] [Div α] [NatCast α] [LT α] [DecidableLT α]

/-- the conditions on an unadjusted stratification under which the copies of a replacement-birth flow
keep the parent's total weight: no flow adjustments, distinct strata, at least one stratum, and `"0"`
among the strata of an age stratification (decidable; the last three hold for everything `mkStrat`
returns from distinct strata) -/
def plainStrat (s : Strat α) : Prop :=
  s.flowAdj = [] ∧ s.strata.Nodup ∧ s.strata ≠ [] ∧ (s.kind = .age → "0" ∈ s.strata)

/-- one call of the model-building API that can change the flow list -/
inductive BuildStep (α : Type) where
  | flow (op : FlowOp α)
  | strat (s : Strat α)

def applyStep (m : Model α) : BuildStep α → Res (Model α)
  | .flow op => addFlow m op
  | .strat s => stratifyWith m s

/-- the two calls that add a birth flow -/
def isBirthOp : FlowOp α → Bool
  | .crudeBirth .. => true
  | .replBirth .. => true
  | _ => false

/-- a step that leaves the replacement-birth flows' total weight alone: any flow addition other than a
birth flow (a second birth flow is refused by the API anyway), or a stratification satisfying
`plainStrat` -/
def BuildStep.plain : BuildStep α → Prop
  | .flow op => isBirthOp op = false
  | .strat s => plainStrat s

end build
end Summer.Spec.EndToEnd
