import Summer.Spec.Rates
import Summer.Spec.Invariance
/-
Declarative notion used by `Props/C10Solvers.lean`: what it means for a `StepOut` record to be the
evaluation of the model's rates AT a given time and state (Mathlib-free).
-/
namespace Summer.Spec.NoStale
open Summer Summer.Run Summer.Spec

section
variable {α : Type} [Zero α] [One α] [Add α] [Sub α] [Mul α] [Div α] [LT α] [DecidableLT α]

/-- `s` is the evaluation of the model at exactly the time `t` and the state `x` (parameters `p`):
every time- or state-dependent ingredient is the specified value in the environment
`⟨p, t, cleanV x⟩` — one weight per flow, in flow order, each the documented adjustment rule
(`Spec.weight`) of ITS flow; the mixing matrix; the infectious multipliers computed from THIS cleaned
state, mixing matrix and infectiousness; the flow rates from THESE weights, state and multipliers; the
compartment rates from THESE flow rates.  (`compInfectiousness` depends on the parameters only.) -/
structure EvaluatedAt (m : Model α) (b : Backend) (p : List (String × α)) (t : α) (x : List α)
    (s : StepOut α) : Prop where
  nWeights : s.weights.length = m.flows.length
  weights : ∀ (j : Nat) (h₁ : j < m.flows.length) (h₂ : j < s.weights.length),
    weight m.flows[j] ⟨p, t, cleanV x⟩ = some s.weights[j]
  mixing : mixingMatrix m ⟨p, t, cleanV x⟩ = some s.mixing
  compInf : compInfectiousness m p = some s.compInf
  mults : (s.mults, s.perStrain) =
    if b.procType.isSome then infectiousMultipliers b (cleanV x) s.mixing s.compInf else ([], [])
  flowRates : s.flowRates = flowRates b s.weights (cleanV x) s.mults
  compRates : s.compRates = compRates b s.flowRates

end
end Summer.Spec.NoStale
