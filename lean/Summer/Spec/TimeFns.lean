/-
Declarative specifications for the time-function library (property C16).  No Mathlib.
-/
namespace Summer.Spec
variable {α : Type}

/-- `k` is the number of points `≤ x` of a sorted list: `0 ≤ k ≤ n`, every point with index `< k` is
`≤ x` and every point with index `≥ k` is `> x`. -/
def IsCountLE [LE α] [LT α] (x : α) (pts : List α) (k : Int) : Prop :=
  0 ≤ k ∧ k ≤ (pts.length : Int) ∧
  (∀ i : Nat, (h : i < pts.length) → (i : Int) < k → pts[i] ≤ x) ∧
  (∀ i : Nat, (h : i < pts.length) → k ≤ (i : Int) → x < pts[i])

/-- `(x >= points).sum()` -/
def countLE [LE α] [DecidableLE α] (x : α) (pts : List α) : Nat :=
  (pts.filter (fun p => decide (p ≤ x))).length

/-- `sig` is monotone on `[0,1]` -/
def MonoOnUnit [Zero α] [One α] [LE α] (sig : α → α) : Prop :=
  ∀ a b : α, 0 ≤ a → a ≤ b → b ≤ 1 → sig a ≤ sig b

/-- `pandas.Series.diff(periods)`; `none` stands for NaN -/
def seriesDiff [Sub α] (periods : Nat) (x : List α) : List (Option α) :=
  List.ofFn (fun i : Fin x.length =>
    if h : i.val < periods then none else some (x[i.val] - x[i.val - periods]))

/-- the full window `[x[i-w+1], …, x[i]]` ending at index `i` -/
def window (x : List α) (w i : Nat) (hw : w ≤ i + 1) (hi : i < x.length) : List α :=
  List.ofFn (fun j : Fin w => x[i + 1 - w + j.val]'(by have := j.isLt; omega))

/-- `pandas.Series.rolling(window).agg(f)` with default parameters (`min_periods = window`);
`none` stands for NaN -/
def seriesRolling (f : List α → α) (w : Nat) (x : List α) : List (Option α) :=
  List.ofFn (fun i : Fin x.length =>
    if h : i.val + 1 < w then none else some (f (window x w i.val (by omega) i.isLt)))

end Summer.Spec
