import Summer.Model.Solvers
/-
Specification vocabulary for the global convergence theorem of the fixed-step solvers (C07).
Mathlib-free.  Vectors are lists; distances are measured in the sup norm, expressed by a predicate
(no `max`-fold): `Within d a b` says "`a` and `b` have the same length and every component differs by
at most `d`", the two-sided inequality `-d ≤ aᵢ - bᵢ ≤ d` being `|aᵢ - bᵢ| ≤ d`
(`Summer.Proofs.Convergence.within_iff_abs`).
-/
namespace Summer.Spec.Convergence
open Summer

section
variable {α : Type}

/-- sup-norm distance `≤ d` between two vectors of the same length -/
def Within [LE α] [Neg α] [Sub α] (d : α) (a b : List α) : Prop :=
  a.length = b.length ∧
    ∀ i (ha : i < a.length) (hb : i < b.length), -d ≤ a[i] - b[i] ∧ a[i] - b[i] ≤ d

instance [LE α] [Neg α] [Sub α] [DecidableLE α] (d : α) (a b : List α) : Decidable (Within d a b) := by
  unfold Within; exact inferInstance

/-- The vector field `f(y, t)` maps states of length `n` to vectors of length `n` and is Lipschitz in
the state, uniformly in time, with constant `L` in the sup norm (on all states of length `n`). -/
structure LipField [LE α] [Neg α] [Sub α] [Mul α] (n : Nat) (L : α) (f : List α → α → List α) : Prop where
  len : ∀ y t, y.length = n → (f y t).length = n
  lip : ∀ y z t d, y.length = n → z.length = n → Within d y z → Within (L * d) (f y t) (f z t)

/-- Local variant: the field is `L`-Lipschitz between the states of a set `D` (e.g. a bounded box, for
fields with products of compartments such as `β·S·I`, which are not globally Lipschitz). -/
def LipFieldOn [LE α] [Neg α] [Sub α] [Mul α] (D : List α → Prop) (L : α) (f : List α → α → List α) : Prop :=
  ∀ y z t d, D y → D z → Within d y z → Within (L * d) (f y t) (f z t)

/-- A one-step map `Φ(y, t)` is `ρ`-stable on the set of states `D`: `D` is invariant and a
perturbation of size `d` of the state is amplified by at most `ρ` (for every time). -/
structure StableStep [LE α] [Neg α] [Sub α] [Mul α] (D : List α → Prop) (ρ : α)
    (Φ : List α → α → List α) : Prop where
  inv : ∀ y t, D y → D (Φ y t)
  lip : ∀ y z t d, D y → D z → Within d y z → Within (ρ * d) (Φ y t) (Φ z t)

/-- amplification factor of one RK4 step on a field with Lipschitz constant `L`, `x = h·L`:
the degree-4 Taylor polynomial of `exp` -/
def rk4Amp [Add α] [Mul α] [Div α] [OfNat α 1] [OfNat α 2] [OfNat α 6] [OfNat α 24] (x : α) : α :=
  1 + x + x * x / 2 + x * x * x / 6 + x * x * x * x / 24

/-- Lipschitz constant of the RK4 increment function: `rk4Amp (h·L) = 1 + h · rk4Lam h L` -/
def rk4Lam [Add α] [Mul α] [Div α] [OfNat α 1] [OfNat α 2] [OfNat α 6] [OfNat α 24] (h L : α) : α :=
  L * (1 + h * L / 2 + h * L * (h * L) / 6 + h * L * (h * L) * (h * L) / 24)

/-- `times` is the uniform grid `t0, t0 + h, t0 + 2h, …` -/
def UniformGrid [Add α] [Mul α] [NatCast α] [Zero α] (t0 h : α) (times : List α) : Prop :=
  ∀ i, i < times.length → times.getD i 0 = t0 + (i : α) * h

end
end Summer.Spec.Convergence
