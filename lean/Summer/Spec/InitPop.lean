import Summer.Model.Run
/-
Declarative specification of the initial population (C06).  Mathlib-free.
-/
namespace Summer.Spec
open Summer

section
variable {α : Type}

/-- the split proportion of a stratum (`population_split[stratum]`, `0` when absent) -/
def splitOf [Zero α] (split : List (String × α)) (st : String) : α := (alookup split st).getD 0

/-- `_stratify_compartment_values` (the loop version): each stratified compartment is replaced by
one value per stratum, `parent × split[stratum]`; the others keep their value. -/
def stratifySpec [Mul α] [Zero α] (comps : List Comp) (sComps : List String) (strata : List String)
    (split : List (String × α)) (vals : List α) : List α :=
  (comps.zip vals).flatMap (fun cv =>
    if cv.1.hasNameIn sComps then strata.map (fun st => cv.2 * (alookup split st).getD 0) else [cv.2])

/-- one stratification applied to a list of `(compartment, value)` pairs: a pair whose compartment
is stratified is replaced by one pair per stratum, `(child, value × split[stratum])` -/
def initSpecStep [Mul α] [Zero α] {β : Type} (s : Strat β) (split : List (String × α))
    (cvs : List (Comp × α)) : List (Comp × α) :=
  cvs.flatMap (fun cv =>
    if cv.1.hasNameIn s.comps then
      s.strata.map (fun st => (cv.1.stratify s.name st, cv.2 * (alookup split st).getD 0))
    else [cv])

/-- The product-of-splits specification of the initial population after a sequence of
stratifications (each given with its evaluated split dictionary): the list of
`(compartment, value)` pairs is refined by one stratification at a time, so the value of a final
compartment is the declared value of its original compartment times the split proportions of its
strata, multiplied in order of stratification. -/
def initSpec [Mul α] [Zero α] {β : Type} (ss : List (Strat β × List (String × α)))
    (cvs : List (Comp × α)) : List (Comp × α) :=
  ss.foldl (fun cvs s => initSpecStep s.1 s.2 cvs) cvs

/-- The product form, for one original compartment: `path` lists, for every stratification in
order, the chosen stratum.  The final compartment is the original one stratified along the path
(skipping the stratifications that do not apply to its name) and its value is the left-to-right
product of the declared value with the split proportions along the path. -/
def pathComp {β : Type} (c : Comp) : List (Strat β × List (String × α)) → List String → Comp
  | s :: ss, st :: path =>
      if c.hasNameIn s.1.comps then pathComp (c.stratify s.1.name st) ss path else pathComp c ss path
  | _, _ => c

def pathValue [Mul α] [Zero α] {β : Type} (c : Comp) (v : α) :
    List (Strat β × List (String × α)) → List String → α
  | s :: ss, st :: path =>
      if c.hasNameIn s.1.comps then
        pathValue (c.stratify s.1.name st) (v * (alookup s.2 st).getD 0) ss path
      else pathValue c v ss path
  | _, _ => v

/-! ### rebalance (`adjust_population_split`) -/

/-- the group key of a compartment: its name and its strata other than `strat` -/
def rbKey (strat : String) (c : Comp) : String × Strata :=
  (c.name, c.strata.filter (fun kv => kv.1 != strat))

/-- equality of group keys (`CompartmentGroup` equality: name and `frozenset` of items) -/
def rbEqv (h g : String × Strata) : Bool :=
  h.1 == g.1 && strataContains h.2 g.2 && strataContains g.2 h.2

/-- `c` and `d` have the same name and the same strata other than `strat` (as sets of items) -/
def sameGroup (strat : String) (c d : Comp) : Bool := rbEqv (rbKey strat c) (rbKey strat d)

/-- the compartments that select the groups: stratified by `strat` and matching the filter -/
def rbStratComps (comps : List Comp) (strat : String) (flt : Strata) : List Comp :=
  (comps.filter (fun c => c.strata.any (fun kv => kv.1 == strat))).filter (fun c => c.hasStrata flt)

/-- the group list built by `rebalance` (first representative of each class, in order) -/
def rbGroups (comps : List Comp) (strat : String) (flt : Strata) : List (String × Strata) :=
  (rbStratComps comps strat flt).foldl (fun acc c =>
    let g := (c.name, c.strata.filter (fun kv => kv.1 != strat))
    if acc.any (fun h => h.1 == g.1 && strataContains h.2 g.2 && strataContains g.2 h.2) then acc else acc ++ [g]) []

/-- the scatter loop of `rebalance` over an arbitrary list of groups -/
def rbFold [Add α] [Mul α] [Zero α] (comps : List Comp) (strat : String) (props : List (String × α))
    (pop : List α) (groups : List (String × Strata)) : List α :=
  groups.foldl (fun (out : List α) g =>
    let members := (comps.zipIdx.filter (fun ci => ci.1.name == g.1 && ci.1.hasStrata g.2))
    let total := sumL (members.map (fun ci => pop.getD ci.2 0))
    members.foldl (fun (out : List α) ci =>
      match alookup ci.1.strata strat with
      | some k => out.set ci.2 (total * (alookup props k).getD 0)
      | none => out) out) pop

/-- a compartment is affected by the rebalance iff its group contains a compartment that is
stratified by `strat` and matches the destination filter -/
def affected (comps : List Comp) (strat : String) (flt : Strata) (c : Comp) : Bool :=
  comps.any (fun r => r.strata.any (fun kv => kv.1 == strat) && r.hasStrata flt && sameGroup strat r c)

/-- the members of `c`'s group, with their indices -/
def groupOf (comps : List Comp) (strat : String) (c : Comp) : List (Comp × Nat) :=
  comps.zipIdx.filter (fun dj => sameGroup strat c dj.1)

/-- total of the INPUT vector over `c`'s group -/
def groupTotal [Add α] [Zero α] (comps : List Comp) (strat : String) (pop : List α) (c : Comp) : α :=
  sumL ((groupOf comps strat c).map (fun dj => pop.getD dj.2 0))

end
end Summer.Spec
