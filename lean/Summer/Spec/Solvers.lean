import Summer.Model.Solvers
import Summer.Generated.Tableau
/-
Declarative counterparts used by the solver properties (C07, C02, C12).  Mathlib-free.
-/
namespace Summer.Spec.Solvers
open Summer Summer.Solvers

section
variable {α : Type}

/-- The Dormand–Prince tableau of the Python source (regenerated as `Rat` constants in
`Summer.Generated.Tableau`) transported to `α` by `φ`.  This is literally how `Driver/Main.lean`
builds its `Tableau α` (`φ = id` for `Rat`). -/
def genTableau (φ : Rat → α) : Tableau α :=
  { alpha := Generated.Tableau.alpha.map φ
    beta := Generated.Tableau.beta.map (·.map φ)
    cSol := Generated.Tableau.cSol.map φ
    cError := Generated.Tableau.cError.map φ
    cMid := Generated.Tableau.cMid.map φ
    fitRows := Generated.Tableau.fitRows.map (·.map φ) }

/-- Horner evaluation of a scalar polynomial, highest degree first (scalar `jnp.polyval`). -/
def horner [Add α] [Mul α] [Zero α] (coeffs : List α) (x : α) : α :=
  match coeffs with
  | [] => 0
  | c :: cs => cs.foldl (fun acc c' => x * acc + c') c

/-- The only property of the five fit rows (rows `a..e` of `fit_4th_order_polynomial`, as coefficients
of `(dt·dy0, dt·dy1, y0, y1, yMid)`) that conservation of a linear invariant by the dense output
needs: every row has five entries, the `y`-columns of rows `a,b,c,d` sum to `0` and those of row `e`
sum to `1`. -/
def FitColSums [Add α] [Zero α] [One α] (rows : List (List α)) : Prop :=
  rows.map (·.length) = [5, 5, 5, 5, 5] ∧
  rows.map (fun r => r.getD 2 0 + r.getD 3 0 + r.getD 4 0) = [0, 0, 0, 0, 1]

/-- Butcher-form data of an explicit RK method stored in the `alpha/beta` layout of
`runge_kutta_step`: nodes `c = (0, alpha_0, …, alpha_5)` and the strictly lower triangular
`7 × 7` matrix `A` whose row `0` is zero and whose row `i+1` is `beta_i`. -/
def nodes [Zero α] (alpha : List α) : List α := 0 :: alpha.take 6
def amat [Zero α] (beta : List (List α)) : List (List α) := List.replicate 7 0 :: beta

end

section
variable {α : Type} [Zero α] [One α] [Add α] [Sub α] [Mul α] [Div α]

/-- `L` is linear on vectors of length `n` (w.r.t. the truncating `vadd`, and `vscale`). -/
structure LinOn (n : Nat) (L : List α → α) : Prop where
  add : ∀ a b, a.length = n → b.length = n → L (vadd a b) = L a + L b
  smul : ∀ c a, a.length = n → L (vscale c a) = c * L a

/-- hypothesis on the vector field used for conservation: on states of length `n` it returns vectors
of length `n` annihilated by `L`. -/
def FieldOK (n : Nat) (L : List α → α) (f : List α → α → List α) : Prop :=
  ∀ y t, y.length = n → (f y t).length = n ∧ L (f y t) = 0

/-- loop condition of `advance` -/
def contCond (ctl : Control α) (target : α) (s : OdeState α) : Bool := ctl.lt s.t target && ctl.pos s.dt

/-- loop body of `advance` (one attempted step: accepted or rejected) -/
def stepState (tb : Tableau α) (ctl : Control α) (f : List α → α → List α) (s : OdeState α) : OdeState α :=
  let r := rkStep tb f s.y s.f s.t s.dt
  let ratio := ctl.errorRatio r.2.2.1 s.y r.1
  if ctl.accept ratio then
    { y := r.1, f := r.2.1, t := s.t + s.dt, dt := ctl.optimalStep s.dt ratio, lastT := s.t,
      coeff := interpFit tb s.y r.1 r.2.2.2 s.dt }
  else { s with dt := ctl.optimalStep s.dt ratio }


/-- "first same as last" structure of a tableau in the layout of `runge_kutta_step` -/
def FSAL (tb : Tableau α) : Prop :=
  tb.beta.getD 5 [] = tb.cSol ∧ tb.alpha.getD 5 0 = 1 ∧ tb.cSol.length = 7 ∧ tb.cSol.getD 6 0 = 0

/-- initial stepping state of `odeint` -/
def odeInit (f : List α → α → List α) (dt0 : α) (y0 : List α) (t0 : α) : OdeState α :=
  { y := y0, f := f y0 t0, t := t0, dt := dt0, lastT := t0, coeff := List.replicate 5 y0 }

/-- the stepping state of `odeint` after all targets `ts.drop 1` have been processed -/
def odeFinalState (tb : Tableau α) (ctl : Control α) (f : List α → α → List α) (fuel : Nat) (dt0 : α)
    (y0 : List α) (ts : List α) : OdeState α :=
  (ts.drop 1).foldl (fun s target => advance tb ctl f target fuel s) (odeInit f dt0 y0 (ts.getD 0 0))

/-- the output row `odeint` reads off a stepping state for a target time -/
def odeRow (s : OdeState α) (target : α) : List α :=
  polyval s.coeff ((target - s.lastT) / (s.t - s.lastT))

end
end Summer.Spec.Solvers
