import Summer.Model.Build
/-
Declarative specification for C17: which model-building calls are *ill-formed*.

`IllFormed m call` relates the current model `m` and a public call of the building API
(`Summer/Model/Build.lean`).  It has one constructor per item of the property sentence and is
written from that sentence (what the API documents as invalid), not from the guards of the code:
no constructor mentions `guardE`, `sameSet`, `hasBirthFlow`, `getMatching`, `hasRequest`,
`flowIsMatch`, `strataExist`, ... .  The only model functions used are the data types, `sumL`
(the sum of a list), `alookup` (dictionary lookup) and `Generated.splitTolDen` (the tolerance constant).

No Mathlib.
-/
namespace Summer.Spec
open Summer Summer.Build Summer.Generated

/-- The public calls of the building API.  `mkModel` and `mkStrat` are constructors (they do not
read a current model), every other call is applied to the current model. -/
inductive Call (α : Type) where
  /-- `CompartmentalModel(times=(t0,t1), compartments, infectious_compartments, timestep=dt)`.
  `wholeSteps` is supplied by the caller (the JSON driver / translator): it is `some k` iff
  `dt ≠ 0` and `(t1 - t0) / dt = k` is a natural number (Python: `num_steps % 1 == 0` and
  `num_steps >= 1` for `num_steps = 1 + (t1-t0)/dt`), and `none` otherwise — i.e. `none` means
  "the timestep does not divide the time span". -/
  | mkModel (t0 t1 dt : α) (wholeSteps : Option Nat) (comps infectious : List String)
  /-- `Stratification(...)`/`AgeStratification(...)`/`StrainStratification(...)` followed by its setters -/
  | mkStrat (sp : StratSpec α)
  /-- `add_crude_birth_flow`, `add_replacement_birth_flow`, `add_importation_flow`, `add_death_flow`,
  `add_universal_death_flows`, `add_transition_flow` / `add_infection_*_flow` -/
  | addFlow (op : FlowOp α)
  /-- `stratify_with` -/
  | stratifyWith (s : Strat α)
  /-- `set_initial_population` -/
  | setInitialPopulation (isDict : Bool) (dist : List (String × Expr α))
  /-- `init_population_with_graphobject` -/
  | initPopArray (arr : List (Expr α))
  /-- `adjust_population_split` -/
  | adjustPopulationSplit (rebalTolDen : Nat) (r : Rebalance α)
  /-- `request_output_for_flow`, `request_output_for_compartments`, `request_aggregate_output`,
  `request_cumulative_output`, `request_function_output`, `request_computed_value_output` -/
  | addRequest (e : ReqEntry α)

/-- the calls that modify an existing model (everything except the two constructors) -/
def Call.mutates {α : Type} : Call α → Bool
  | .mkModel .. => false
  | .mkStrat .. => false
  | _ => true

section
variable {α : Type} [Zero α] [One α] [Add α] [Sub α] [Mul α] [Div α] [NatCast α] [LT α] [DecidableLT α]

/-- does the call return a value (`true`) or raise (`false`)?  (`m` is ignored by the constructors) -/
def Call.isOk (m : Model α) : Call α → Bool
  | .mkModel t0 t1 dt ws comps inf => Except.isOk (Build.mkModel t0 t1 dt ws comps inf)
  | .mkStrat sp => Except.isOk (Build.mkStrat sp)
  | .addFlow op => Except.isOk (Build.addFlow m op)
  | .stratifyWith s => Except.isOk (Build.stratifyWith m s)
  | .setInitialPopulation isDict dist => Except.isOk (Build.setInitialPopulation m isDict dist)
  | .initPopArray arr => Except.isOk (Build.initPopArray m arr)
  | .adjustPopulationSplit den r => Except.isOk (Build.adjustPopulationSplit m den r)
  | .addRequest e => Except.isOk (Build.addRequest m e)
end

section
variable {α : Type}

/-! ### vocabulary -/

/-- `Compartment.is_match(name, strata)`: same name and every `(stratification, stratum)` item of the
filter is an item of the compartment's strata (`frozenset(filter.items()) ⊆ frozenset(strata.items())`). -/
def CompMatches (c : Comp) (name : String) (flt : Strata) : Prop :=
  c.name = name ∧ ∀ kv ∈ flt, kv ∈ c.strata

instance (c : Comp) (name : String) (flt : Strata) : Decidable (CompMatches c name flt) :=
  inferInstanceAs (Decidable (c.name = name ∧ ∀ kv ∈ flt, kv ∈ c.strata))

/-- `query_compartments({"name": name} | strata)`: same name and for every key of the filter the
compartment carries that stratification with that stratum (`c.strata[k] == v`). -/
def QueryMatches (c : Comp) (name : String) (flt : Strata) : Prop :=
  c.name = name ∧ ∀ kv ∈ flt, alookup c.strata kv.1 = some kv.2

instance (c : Comp) (name : String) (flt : Strata) : Decidable (QueryMatches c name flt) :=
  inferInstanceAs (Decidable (c.name = name ∧ ∀ kv ∈ flt, alookup c.strata kv.1 = some kv.2))

/-- number of compartments of `m` matching `(name, strata)` in the sense of `is_match`
(entry and exit flows) -/
def nMatching (m : Model α) (name : String) (flt : Strata) : Nat :=
  m.comps.countP (fun c => decide (CompMatches c name flt))

/-- number of compartments of `m` matching `(name, strata)` in the sense of `query_compartments`
(transition-type flows) -/
def nQueryMatching (m : Model α) (name : String) (flt : Strata) : Nat :=
  m.comps.countP (fun c => decide (QueryMatches c name flt))

/-- one end of a flow passes a strata filter: an absent end passes, a present end must carry every
item of the filter (an empty filter is passed by everything) -/
def EndHasStrata (e : Option Comp) (flt : Strata) : Prop :=
  ∀ c, e = some c → ∀ kv ∈ flt, kv ∈ c.strata

instance (e : Option Comp) (flt : Strata) : Decidable (EndHasStrata e flt) :=
  match e with
  | none => isTrue (fun _ h => nomatch h)
  | some c => decidable_of_iff (∀ kv ∈ flt, kv ∈ c.strata)
      ⟨fun h _ hc => by cases hc; exact h, fun h => h c rfl⟩

/-- `BaseFlow.is_match(name, source_strata, dest_strata)` -/
def FlowMatches (f : Flow α) (name : String) (ss ds : Strata) : Prop :=
  f.name = name ∧ EndHasStrata f.src ss ∧ EndHasStrata f.dst ds

instance (f : Flow α) (name : String) (ss ds : Strata) : Decidable (FlowMatches f name ss ds) :=
  inferInstanceAs (Decidable (f.name = name ∧ EndHasStrata f.src ss ∧ EndHasStrata f.dst ds))

/-- a derived output called `name` has already been requested -/
def Requested (m : Model α) (name : String) : Prop := ∃ r ∈ m.requests, r.name = name

instance (m : Model α) (name : String) : Decidable (Requested m name) :=
  inferInstanceAs (Decidable (∃ r ∈ m.requests, r.name = name))

/-- the request refers to a source (a flow, or an earlier derived output) that does not exist -/
def SourceMissing (m : Model α) : Request α → Prop
  | .flow fname ss ds _ => ∀ f ∈ m.flows, ¬ FlowMatches f fname ss ds
  | .comp _ _ => False
  | .agg sources => ∃ s ∈ sources, ¬ Requested m s
  | .cum source _ => ¬ Requested m source
  | .func _ sources => ∃ s ∈ sources, ¬ Requested m s
  | .cv _ => False

instance (m : Model α) : (r : Request α) → Decidable (SourceMissing m r)
  | .flow fname ss ds _ => inferInstanceAs (Decidable (∀ f ∈ m.flows, ¬ FlowMatches f fname ss ds))
  | .comp _ _ => inferInstanceAs (Decidable False)
  | .agg sources => inferInstanceAs (Decidable (∃ s ∈ sources, ¬ Requested m s))
  | .cum source _ => inferInstanceAs (Decidable (¬ Requested m source))
  | .func _ sources => inferInstanceAs (Decidable (∃ s ∈ sources, ¬ Requested m s))
  | .cv _ => inferInstanceAs (Decidable False)

/-- The names of the strata of a stratification declared with `strata`: for an age stratification
Python stores `str(int(s))` for every declared `s` (sorted numerically), otherwise `str(s)`. -/
def stratumNames (kind : StratKind) (strata : List String) : List String :=
  if kind = .age then strata.filterMap (fun s => s.toInt?.map toString) else strata

/-- a dictionary with keys `keys` omits one of the strata `names` -/
def Omits (names keys : List String) : Prop := ∃ st ∈ names, st ∉ keys

instance (names keys : List String) : Decidable (Omits names keys) :=
  inferInstanceAs (Decidable (∃ st ∈ names, st ∉ keys))

/-- `props` is a literal split: every proportion is a number; `vals` are those numbers, in order -/
def LiteralSplit (props : List (String × Expr α)) (vals : List α) : Prop :=
  props.map (·.2) = vals.map Expr.const

/-- the `expected_flow_count` argument of a flow-adding call (universal death flows have none) -/
def opExpected : FlowOp α → Option Nat
  | .crudeBirth _ _ _ _ _ ex => ex
  | .replBirth _ _ _ ex => ex
  | .importF _ _ _ _ _ _ ex => ex
  | .death _ _ _ _ _ ex => ex
  | .universalDeath _ _ _ => none
  | .transition _ _ _ _ _ _ _ _ ex => ex

/-- is the rate argument a number or a graph object?  (`add_replacement_birth_flow` takes no rate) -/
def opRateOk : FlowOp α → Option Bool
  | .crudeBirth _ ok _ _ _ _ => some ok
  | .replBirth _ _ _ _ => none
  | .importF _ ok _ _ _ _ _ => some ok
  | .death _ ok _ _ _ _ => some ok
  | .universalDeath _ ok _ => some ok
  | .transition _ _ ok _ _ _ _ _ _ => some ok

/-- the two birth-flow calls -/
def opIsBirth : FlowOp α → Bool
  | .crudeBirth .. => true
  | .replBirth .. => true
  | _ => false

/-- a flow of birth type (`CrudeBirthFlow` or `ReplacementBirthFlow`) -/
def IsBirthFlow (f : Flow α) : Prop := f.kind = .crudeBirth ∨ f.kind = .replBirth

instance (f : Flow α) : Decidable (IsBirthFlow f) :=
  inferInstanceAs (Decidable (f.kind = .crudeBirth ∨ f.kind = .replBirth))

/-- The number of flows the call creates: one per matching destination (entry flows), one per
matching source (death flows), one per `(source, destination)` pair of the two matched lists
zipped (transition-type flows), one per compartment for universal death flows. -/
def flowsCreated (m : Model α) : FlowOp α → Nat
  | .crudeBirth _ _ _ dest ds _ => nMatching m dest ds
  | .replBirth _ dest ds _ => nMatching m dest ds
  | .importF _ _ _ dest _ ds _ => nMatching m dest ds
  | .death _ _ _ source ss _ => nMatching m source ss
  | .universalDeath _ _ _ => m.comps.length
  | .transition _ _ _ _ source dest ss ds _ => min (nQueryMatching m source ss) (nQueryMatching m dest ds)

end

section
variable {α : Type} [Zero α] [One α] [Add α] [Sub α] [Div α] [NatCast α] [LT α]

/-- the tolerance `COMP_SPLIT_REQUEST_ERROR` of `stratification.py` -/
def splitTol : α := (1 : α) / (splitTolDen : α)

/-- **Ill-formed calls.**  One constructor per item of the C17 property sentence. -/
inductive IllFormed (m : Model α) : Call α → Prop
  /-- end time not after start time -/
  | endNotAfterStart {t0 t1 dt : α} {ws comps inf} :
      ¬ t0 < t1 → IllFormed m (.mkModel t0 t1 dt ws comps inf)
  /-- timestep not dividing the span (see `Call.mkModel`: the caller passes `wholeSteps = none`
  exactly in this case) -/
  | timestepNotDividing {t0 t1 dt : α} {comps inf} :
      IllFormed m (.mkModel t0 t1 dt none comps inf)
  /-- an infectious compartment that does not exist -/
  | infectiousUnknown {t0 t1 dt : α} {ws comps inf} :
      (∃ n ∈ inf, n ∉ comps) → IllFormed m (.mkModel t0 t1 dt ws comps inf)
  /-- an initial-distribution compartment that does not exist -/
  | initDistUnknown {isDict} {dist : List (String × Expr α)} :
      (∃ kv ∈ dist, kv.1 ∉ m.origNames) → IllFormed m (.setInitialPopulation isDict dist)
  /-- a stratified compartment that does not exist -/
  | stratifiedUnknown {s : Strat α} :
      (∃ c ∈ s.comps, c ∉ m.origNames) → IllFormed m (.stratifyWith s)
  /-- a transition / infection flow whose source or destination compartment does not exist -/
  | flowCompUnknown {kind name ok} {p : Expr α} {src dst ss ds ex} :
      (src ∉ m.origNames ∨ dst ∉ m.origNames) →
      IllFormed m (.addFlow (.transition kind name ok p src dst ss ds ex))
  /-- output compartments that do not exist: no compartment of the model matches any requested name -/
  | outputCompUnknown {name names strata save} :
      (∀ c ∈ m.comps, ∀ n ∈ names, ¬ CompMatches c n strata) →
      IllFormed m (.addRequest ⟨name, .comp names strata, save⟩)
  /-- a flow adjustment for a flow that does not exist -/
  | adjustedFlowUnknown {s : Strat α} :
      (∃ d ∈ s.flowAdj, ∀ f ∈ m.flows, f.name ≠ d.flow) → IllFormed m (.stratifyWith s)
  /-- an adjustment filter naming a stratum that does not exist: no stratification of the model
  with that name has that stratum (in particular: no stratification has that name) -/
  | filterStratumUnknown {s : Strat α} :
      (∃ d ∈ s.flowAdj, ∃ kv ∈ d.srcStrata ++ d.dstStrata,
          ∀ t ∈ m.strats, t.name = kv.1 → kv.2 ∉ t.strata) →
      IllFormed m (.stratifyWith s)
  /-- a derived-output source that does not exist -/
  | outputSourceUnknown {e : ReqEntry α} :
      SourceMissing m e.req → IllFormed m (.addRequest e)
  /-- a flow adjustment that omits strata -/
  | flowAdjOmits {sp : StratSpec α} :
      (∃ d ∈ sp.flowAdj, Omits (stratumNames sp.kind sp.strata) (d.adjs.map (·.1))) →
      IllFormed m (.mkStrat sp)
  /-- an infectiousness adjustment that omits strata -/
  | infAdjOmits {sp : StratSpec α} :
      (∃ ia ∈ sp.infAdj, Omits (stratumNames sp.kind sp.strata) (ia.2.map (·.1))) →
      IllFormed m (.mkStrat sp)
  /-- a literal split that omits strata -/
  | splitOmits {sp : StratSpec α} {props vals} :
      sp.split = some props → LiteralSplit props vals →
      Omits (stratumNames sp.kind sp.strata) (props.map (·.1)) → IllFormed m (.mkStrat sp)
  /-- a literal split with a negative proportion -/
  | splitNegative {sp : StratSpec α} {props vals} :
      sp.split = some props → LiteralSplit props vals →
      (∃ v ∈ vals, v < 0) → IllFormed m (.mkStrat sp)
  /-- a literal split that does not sum to one: the sum is at least the tolerance away from 1 -/
  | splitNotSumOne {sp : StratSpec α} {props vals} :
      sp.split = some props → LiteralSplit props vals →
      (¬ (1 - sumL vals < (splitTol : α)) ∨ ¬ (sumL vals - 1 < (splitTol : α))) →
      IllFormed m (.mkStrat sp)
  /-- a second birth flow -/
  | secondBirth {op : FlowOp α} :
      opIsBirth op = true → (∃ f ∈ m.flows, IsBirthFlow f) → IllFormed m (.addFlow op)
  /-- a second age stratification -/
  | secondAge {s : Strat α} :
      s.kind = .age → (∃ t ∈ m.strats, t.kind = .age) → IllFormed m (.stratifyWith s)
  /-- a second strain stratification -/
  | secondStrain {s : Strat α} :
      s.kind = .strain → (∃ t ∈ m.strats, t.kind = .strain) → IllFormed m (.stratifyWith s)
  /-- a duplicated stratification name -/
  | dupStratName {s : Strat α} :
      (∃ t ∈ m.strats, t.name = s.name) → IllFormed m (.stratifyWith s)
  /-- a duplicated universal-death name -/
  | dupUniversalDeath {name ok} {p : Expr α} :
      (∃ f ∈ m.flows, f.name = name) → IllFormed m (.addFlow (.universalDeath name ok p))
  /-- a duplicated derived-output name -/
  | dupOutputName {e : ReqEntry α} :
      (∃ r ∈ m.requests, r.name = e.name) → IllFormed m (.addRequest e)
  /-- a mixing matrix on a partial stratification (some compartment of the model is not stratified) -/
  | mixingOnPartial {s : Strat α} :
      s.mixing.isSome = true → (∃ c ∈ m.origNames, c ∉ s.comps) → IllFormed m (.stratifyWith s)
  /-- an age stratification that is partial -/
  | ageOnPartial {s : Strat α} :
      s.kind = .age → (∃ c ∈ m.origNames, c ∉ s.comps) → IllFormed m (.stratifyWith s)
  /-- a mixing matrix set on a strain stratification (`set_mixing_matrix`) -/
  | mixingOnStrainSet {sp : StratSpec α} :
      sp.kind = .strain → sp.mixing.isSome = true → IllFormed m (.mkStrat sp)
  /-- a strain stratification carrying a mixing matrix (`stratify_with`) -/
  | mixingOnStrain {s : Strat α} :
      s.kind = .strain → s.mixing.isSome = true → IllFormed m (.stratifyWith s)
  /-- unequal numbers of source and destination compartments -/
  | unequalCounts {kind name ok} {p : Expr α} {src dst ss ds ex} :
      nQueryMatching m src ss ≠ nQueryMatching m dst ds →
      IllFormed m (.addFlow (.transition kind name ok p src dst ss ds ex))
  /-- an unmet flow-count expectation -/
  | unmetExpectation {op : FlowOp α} {e : Nat} :
      opExpected op = some e → e ≠ flowsCreated m op → IllFormed m (.addFlow op)
  /-- a flow rate that is neither a number nor a graph object -/
  | badRate {op : FlowOp α} :
      opRateOk op = some false → IllFormed m (.addFlow op)

end

section
variable {α : Type} [Zero α] [One α] [Add α] [Sub α] [Mul α] [Div α] [NatCast α] [LT α] [DecidableLT α]

/-- The models a user can obtain: the inductive closure of the successful API calls from the
constructor (stratifications are built by `mkStrat`), including finalisation (`model.finalize()` /
`run`, which sets `_finalized`).  NOT needed for any `rejects_*` theorem (they hold for every
model); used only to show that on reachable models `m.origNames` is exactly the set of names of
the current compartments and stratification names are unique, so that "does not exist" in
`IllFormed` can equivalently be read off the current compartments / stratifications. -/
inductive ReachableB : Model α → Prop
  | mk {t0 t1 dt : α} {ws comps inf m} : mkModel t0 t1 dt ws comps inf = .ok m → ReachableB m
  | addFlow {m m' op} : ReachableB m → addFlow m op = .ok m' → ReachableB m'
  | stratify {m m' sp s} : ReachableB m → mkStrat sp = .ok s → stratifyWith m s = .ok m' → ReachableB m'
  | setInitialPopulation {m m' isDict dist} :
      ReachableB m → setInitialPopulation m isDict dist = .ok m' → ReachableB m'
  | initPopArray {m m' arr} : ReachableB m → initPopArray m arr = .ok m' → ReachableB m'
  | adjustPopulationSplit {m m' den r} :
      ReachableB m → adjustPopulationSplit m den r = .ok m' → ReachableB m'
  | addRequest {m m' e} : ReachableB m → addRequest m e = .ok m' → ReachableB m'
  | addComputedValue {m m' name e} : ReachableB m → addComputedValue m name e = .ok m' → ReachableB m'
  | finalize {m} : ReachableB m → ReachableB { m with finalized := true }

end
end Summer.Spec
