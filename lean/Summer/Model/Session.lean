/-
Model of the run / runner *session* state machine of `summer2` (property C11).  No Mathlib, no
imports: everything is total and computable so that the JSON driver can execute histories.

Python sources modelled (line numbers of /repo/summer2):

* `model.py:1004-1032`  `CompartmentalModel.run(parameters, solver, backend_args, rebuild)`
* `model.py:954-988`    `CompartmentalModel.get_runner(parameters, dyn_params, **backend_args)`
* `model.py:1355-1366`  `get_input_parameters`, `set_default_parameters`, `get_default_parameters`
* `model.py:1385-1437`  `ModelResults.__init__`, `ModelResults.run`
* `runner/jax/model_impl.py:410-445`  `build_run_model`: `dyn_params`, `base_params`, `graph.freeze`
* `runner/jax/model_impl.py:566-571`  `do_params`, `do_base_params`
* `runner/jax/model_impl.py:597-653`  `run_model`: `do_full_params = do_base_params.copy(); .update(parameters)`

The numerical pipeline (graph evaluation, initial population, solver, derived outputs) is modelled in
the other `Summer/Model` files; here it is an abstract deterministic function `runPure` of the
definition, of the parameter values the main graph *effectively sees*, of the parameter values the
derived-output graph *effectively sees*, and of the solver.  The session machine computes exactly this
triple (`Eff`), which is what C11 is about.

Type parameters: `δ` the definition's body (compartments, flows, requests ...), `ν` parameter values,
`σ` solver identifiers (after `build_run_model`'s normalisation `None`/`solve_ivp` ↦ `odeint`).
-/
namespace Summer.Session

/-! ### Dictionaries -/

/-- A Python `dict` with string keys as an association list; the *first* binding of a key is the
one that counts (the driver only ever supplies duplicate-free lists). -/
abbrev Dict (ν : Type) := List (String × ν)

section
variable {δ ν σ : Type}

/-- `d[k]`, `none` standing for `KeyError` -/
def Dict.get (d : Dict ν) (k : String) : Option ν := List.lookup k d

/-- `r = d.copy(); r.update(p)`: bindings of `p` take precedence -/
def Dict.update (d p : Dict ν) : Dict ν := p ++ d

/-- `{k: v for k, v in d.items() if k in ks}` -/
def Dict.filterKeys (ks : List String) (d : Dict ν) : Dict ν := d.filter (fun kv => ks.contains kv.1)

/-- Evaluate the lookups `f k` for every `k ∈ ks` in order; `none` as soon as one fails
(`KeyError` while evaluating a graph whose parameter inputs are `ks`). -/
def collect (f : String → Option ν) : List String → Option (Dict ν)
  | [] => some []
  | k :: ks =>
    match f k, collect f ks with
    | some v, some r => some ((k, v) :: r)
    | _, _ => none

/-! ### Definition, runner, session -/

/-- What the session layer needs to know of a model definition.  `body` stands for compartments,
flows, derived-output requests, times ...; `mainParams` are the `parameters.*` inputs of
`model.graph` (flows, adjustments, initial population, mixing, infectiousness ...), `doParams` those of
`model._do_tracker_graph` (function-type derived outputs).  A parameter may be in both. -/
structure Definition (δ : Type) where
  body : δ
  mainParams : List String
  doParams : List String
deriving DecidableEq, Repr

/-- `model.get_input_parameters()` -/
def Definition.inputParams (d : Definition δ) : List String := d.mainParams ++ d.doParams

/-- A `ModelResults` object together with the closure built by `build_run_model`.  All fields are
fixed at construction: the Python object has no mutable state that influences later results. -/
structure Runner (ν σ : Type) where
  /-- values of the non-dynamic main-graph parameters, evaluated at build time by `graph.freeze` -/
  frozen : Dict ν
  /-- dynamic main-graph parameters (`dyn_params` filtered to `model.graph`'s keys) -/
  dyn : List String
  /-- `do_base_params`: derived-output parameters captured from the build call's parameters -/
  doBase : Dict ν
  /-- `ModelResults.default_parameters = model.get_default_parameters() or {}` -/
  defaultsSnap : Dict ν
  solver : σ
deriving DecidableEq, Repr

/-- The parameter values that each stage effectively sees in a successful run, and the solver used.
`main` lists `mainParams` in order with the value delivered to the main graph, `dos` lists `doParams`
with the value delivered to the derived-output graph. -/
structure Eff (ν σ : Type) where
  main : Dict ν
  dos : Dict ν
  solver : σ
deriving DecidableEq, Repr

/-- The results of a run: the abstract pipeline applied to what the stages see. -/
def Eff.output {ω : Type} (runPure : Definition δ → Dict ν → Dict ν → σ → ω) (defn : Definition δ)
    (e : Eff ν σ) : ω := runPure defn e.main e.dos e.solver

inductive Err where
  /-- `graph.freeze` raised: a non-dynamic main-graph parameter is missing from `base_params` -/
  | build
  /-- `static_graph_func(parameters=...)` raised `KeyError` -/
  | mainKey
  /-- `calc_derived_outputs(parameters=do_full_params, ...)` raised `KeyError` -/
  | doKey
  /-- the history refers to an explicit runner that was never built (not a Python behaviour) -/
  | badHandle
deriving DecidableEq, Repr

inductive Outcome (ν σ : Type) where
  | error (e : Err)
  /-- `set_default_parameters` returned -/
  | done
  /-- `get_runner` returned a runner; `handle` is its index in `Session.runners` -/
  | built (handle : Nat)
  /-- a run succeeded with these effective inputs -/
  | ok (e : Eff ν σ)
deriving DecidableEq, Repr

inductive Op (ν σ : Type) where
  /-- `model.run(parameters=p, solver=solver, rebuild=rebuild)` (`p = []` for `None`) -/
  | run (p : Dict ν) (solver : σ) (rebuild : Bool)
  /-- `model.set_default_parameters(d)` -/
  | setDefaults (d : Dict ν)
  /-- `r = model.get_runner(base, dyn_params=dyn, solver=solver)`; `dyn = none` for `None` -/
  | getRunner (base : Dict ν) (dyn : Option (List String)) (solver : σ)
  /-- `r.run(p)` for the explicit runner with this handle -/
  | runnerRun (handle : Nat) (p : Dict ν)
deriving DecidableEq, Repr

/-- The model object as far as running is concerned, plus the explicit runners the caller holds
(`runners`, append-only: a heap of immutable objects) and `model.outputs`/`model.derived_outputs`
(`outputs`), which is where `model.run` leaves its results (it returns `None`). -/
structure Session (δ ν σ : Type) where
  defn : Definition δ
  finalized : Bool
  /-- `model._default_parameters` -/
  defaults : Option (Dict ν)
  /-- `model._runner` -/
  cached : Option (Runner ν σ)
  runners : List (Runner ν σ)
  /-- what `model.outputs`, `model.derived_outputs` currently hold, as effective inputs -/
  outputs : Option (Eff ν σ)
deriving DecidableEq, Repr

/-- A freshly constructed model (`__init__`: `_runner = None`, `_default_parameters = None`,
`_finalized = False`). -/
def fresh (defn : Definition δ) : Session δ ν σ :=
  { defn := defn, finalized := false, defaults := none, cached := none, runners := [], outputs := none }

/-! ### Building and running a runner -/

/-- `build_run_model`'s dynamic main-graph parameters: `dyn_params` (`None` ↦ all input parameters)
filtered to the keys of `model.graph`. -/
def dynMain (defn : Definition δ) (dyn : Option (List String)) : List String :=
  (dyn.getD defn.inputParams).filter (fun k => defn.mainParams.contains k)

/-- main-graph parameters that `graph.freeze` evaluates at build time -/
def frozenKeys (defn : Definition δ) (dyn : Option (List String)) : List String :=
  defn.mainParams.filter (fun k => !(dynMain defn dyn).contains k)

/-- `model.get_runner(base, dyn_params=dyn, solver=solver)` → `ModelResults(model, run_func, ..)`.
`none` when `graph.freeze` raises (a non-dynamic main-graph parameter is not in `base`). -/
def buildRunner (defn : Definition δ) (defaults : Option (Dict ν)) (base : Dict ν)
    (dyn : Option (List String)) (solver : σ) : Option (Runner ν σ) :=
  -- `parameters = {k: v for k, v in parameters.items() if k in input_params}`
  let base' := Dict.filterKeys defn.inputParams base
  match collect base'.get (frozenKeys defn dyn) with
  | none => none
  | some fr =>
    some { frozen := fr
           dyn := dynMain defn dyn
           -- `do_base_params = {k: v for k, v in base_params.items() if k in do_params}`
           doBase := Dict.filterKeys defn.doParams base'
           -- `self.default_parameters = model.get_default_parameters() or {}`
           defaultsSnap := defaults.getD []
           solver := solver }

/-- `ModelResults.run(p)` followed by the closure `run_model(base_params)`. -/
def Runner.run (defn : Definition δ) (r : Runner ν σ) (p : Dict ν) : Outcome ν σ :=
  -- `parameters = {k: v ... if k in self._input_params}`
  let p' := Dict.filterKeys defn.inputParams p
  -- `base_params = self.default_parameters.copy(); base_params.update(parameters)`
  let full := Dict.update r.defaultsSnap p'
  -- `static_graph_func(parameters=base_params)`: dynamic inputs from `base_params`, the others are
  -- `Data` nodes computed at build time
  let mainF := fun k => if r.dyn.contains k then full.get k else r.frozen.get k
  -- `do_full_params = do_base_params.copy(); do_full_params.update(parameters)`
  let doFull := Dict.update r.doBase full
  match collect mainF defn.mainParams with
  | none => .error .mainKey
  | some m =>
    match collect doFull.get defn.doParams with
    | none => .error .doKey
    | some d => .ok { main := m, dos := d, solver := r.solver }

/-- `self.model.outputs = ...; self.model.derived_outputs = ...` at the end of a successful
`ModelResults.run`; an exception leaves the previous outputs in place. -/
def Session.record (s : Session δ ν σ) (o : Outcome ν σ) : Session δ ν σ :=
  match o with
  | .ok e => { s with outputs := some e }
  | _ => s

/-! ### The step function -/

def step (s : Session δ ν σ) : Op ν σ → Session δ ν σ × Outcome ν σ
  | .setDefaults d =>
    -- `self._runner = None; self._default_parameters = parameters`
    ({ s with cached := none, defaults := some d }, .done)
  | .run p solver rebuild =>
    -- `if rebuild: self._runner = None`
    let s0 := if rebuild then { s with cached := none } else s
    match s0.cached with
    | some r =>
      -- the `solver` argument is not looked at
      let o := r.run s0.defn p
      (s0.record o, o)
    | none =>
      -- `self.finalize(); self._runner = self.get_runner(parameters, solver=solver)`
      match buildRunner s0.defn s0.defaults p none solver with
      | none => ({ s0 with finalized := true }, .error .build)
      | some r =>
        let s1 := { s0 with finalized := true, cached := some r }
        let o := r.run s0.defn p
        (s1.record o, o)
  | .getRunner base dyn solver =>
    -- `self.finalize()` comes first; `self._runner` is not touched
    match buildRunner s.defn s.defaults base dyn solver with
    | none => ({ s with finalized := true }, .error .build)
    | some r => ({ s with finalized := true, runners := s.runners ++ [r] }, .built s.runners.length)
  | .runnerRun h p =>
    match s.runners[h]? with
    | none => (s, .error .badHandle)
    | some r =>
      let o := r.run s.defn p
      (s.record o, o)

/-- Execute a history, returning the final session. -/
def exec (s : Session δ ν σ) : List (Op ν σ) → Session δ ν σ
  | [] => s
  | op :: ops => exec (step s op).1 ops

/-- Execute a history, returning the outcomes of all operations. -/
def trace (s : Session δ ν σ) : List (Op ν σ) → List (Outcome ν σ)
  | [] => []
  | op :: ops => (step s op).2 :: trace (step s op).1 ops

end
end Summer.Session
