import Summer.Model.Structure
import Summer.Generated.Tables
/-
Python vocabulary used by the structural translator (`harness/translate/gen_struct.py`).

`Summer/Generated/Struct.lean` is regenerated from the SOURCE TEXT of `summer2/compartment.py`, `summer2/flows.py`
and `summer2/stratification.py` on every run; the definitions below give the meaning of the handful of Python
built-ins those methods use, over the data types of the hand model (`Comp`, `Flow`, `Strat`).  They are part of the
translator (trusted base), kept deliberately tiny, and every one is a one-line list function.

Representation choices (stated in DESIGN §2.4):
* a `dict[str, str]` / `frozenset(d.items())` is an insertion-ordered association list `Strata`;
* `None`-able values are `Option`s; Python truthiness is spelled out per type (`truthy…`);
* `strat.compartments` (a list of unstratified `Compartment` objects built from the names) is `stratCompartments`;
* `strat.flow_adjustments[name]` (a list appended to by `set_flow_adjustments`) is the sub-list of the flat
  declaration list with that flow name, in declaration order;
* a flow's class is its `kind`; class attributes (`_is_birth_flow`) come from the regenerated class table.
-/
namespace Summer.Py
open Summer

/-- `a.issubset(b)` on two `frozenset(d.items())` -/
def issubset (a b : Strata) : Bool := a.all (fun kv => b.contains kv)

/-- truthiness of a dict / list: non-empty -/
def truthyL {β : Type} (l : List β) : Bool := !l.isEmpty

/-- truthiness of `None`-or-dict: not `None` and non-empty -/
def truthyOptL {β : Type} (o : Option (List β)) : Bool :=
  match o with
  | some l => !l.isEmpty
  | none => false

/-- value of a `None`-able dict once it is known to be truthy -/
def theL {β : Type} (o : Option (List β)) : List β := o.getD []

/-- value of a `None`-able compartment once it is known not to be `None` -/
def the (o : Option Comp) : Comp := o.getD ⟨"", []⟩

/-- `x or {}` for a dict -/
def orEmpty {β : Type} (l : List β) : List β := if truthyL l then l else []

/-- `d.get(k)` on a dict whose values may themselves be `None` -/
def getJoin {β : Type} (d : List (String × Option β)) (k : String) : Option β := (alookup d k).join

/-- `set(a) == set(b)` for lists of strings -/
def setEq (a b : List String) : Bool := sameSet a b

/-- `sep.join(parts)` -/
def join (sep : String) (parts : List String) : String := sep.intercalate parts

section
variable {α : Type}

/-- `strat.compartments`: `[Compartment(c) if type(c) is str else c for c in compartments]` -/
def stratCompartments (s : Strat α) : List Comp := s.comps.map (fun n => ⟨n, []⟩)

/-- `strat.flow_adjustments.get(name, [])` -/
def flowAdjustmentsGet (s : Strat α) (name : String) :
    List (List (String × Option (Adj α)) × Strata × Strata) :=
  (s.flowAdj.filter (fun d => d.flow == name)).map (fun d => (d.adjs, d.srcStrata, d.dstStrata))

/-- class attribute `_is_birth_flow` (from the regenerated class table) -/
def isBirthFlow (f : Flow α) : Bool := Summer.Generated.birthKinds.contains f.kind

/-- the constructor's filter `[a for a in (adjustments or []) if a and a.param is not None]` -/
def ctorAdjustments (l : List (Option (Adj α))) : List (Adj α) := l.filterMap id

/-- `Multiply(x)` for a number `x` -/
def multiply (x : α) : Adj α := .mul (.const x)

/-- `isinstance(a, Overwrite)` -/
def isOverwrite (a : Adj α) : Bool :=
  match a with
  | .ovr _ => true
  | .mul _ => false

/-- `l[0]`; Python raises `IndexError` on an empty list, the fallback `d` stands for that case -/
def headOr {β : Type} (l : List β) (d : β) : β := l.headD d

/-- short-circuit `a and b` when `b` may raise -/
def andM (a : Bool) (b : Res Bool) : Res Bool := if a then b else pure false

end
end Summer.Py
