import Summer.Model.Build
/-
Model of the run-time pipeline: `param_impl.map_flow_keys` (realised weights),
`ModelBackend.prepare_structural` (`model_runner.py`), and the closures of
`runner/jax/model_impl.py` (`get_flow_weights`, `get_flow_rates`, force of infection,
`get_compartment_rates`, compartment infectiousness), `runner/jax/stratify.py` +
`population.py` (initial population).
-/
namespace Summer.Run
open Summer Summer.Generated Summer.Build

section
variable {α : Type}

/-- `map_flow_keys`: an `Overwrite` resets the chain, everything else multiplies left to right -/
def realised (f : Flow α) : Expr α :=
  f.adjs.foldl (fun acc a => match a with
    | .mul e => .mul acc e
    | .ovr e => e) f.param

/-- position of a compartment in the model's list (`_update_compartment_indices`) -/
def compIdx (comps : List Comp) (c : Comp) : Option Nat := indexOf? comps c

/-- The index tables computed once by `prepare_structural`. -/
structure Backend where
  nComps : Nat
  nFlows : Nat
  populationIdx : List Nat        -- source index per flow (0 for entry flows)
  nonPopIdx : List Nat
  crudeIdx : List Nat
  replIdx : List Nat
  deathIdx : List Nat
  infFlowIdx : List Nat
  posMap : List (Nat × Nat)       -- (flow, dest compartment)
  negMap : List (Nat × Nat)       -- (flow, source compartment)
  catIdx : List (List Nat)        -- `_population_category_indexer`
  categoryLookup : List Nat       -- `_category_lookup`
  strainInfIdx : List (List Nat)  -- per strain: `_strain_infectious_indexers`
  strainCatIdx : List (List (List Nat))  -- per strain: `_strain_category_indexers`
  infStrainLookup : List Nat      -- per infectious flow
  infCatLookup : List Nat         -- per infectious flow
  procType : Option Bool          -- none: no infection flows; some true: frequency; some false: density
deriving Repr

def idxWhere {β} (l : List β) (p : β → Bool) : List Nat :=
  (l.zipIdx.filter (fun x => p x.1)).map (·.2)

/-- split a list into `rows` consecutive rows of width `w` (`reshape((rows, w))`) -/
def reshapeRows {β} (l : List β) (rows w : Nat) : List (List β) :=
  (List.range rows).map (fun r => (l.drop (r * w)).take w)

def isInfectious (m : Model α) (c : Comp) : Bool := m.infectious.contains c.name

def strainFilter (m : Model α) (strain : String) : Strata :=
  if m.strats.any (fun s => s.name == "strain") then [("strain", strain)] else []

/-- `query_compartments(strain_filter, tags="infectious", as_idx=True)` -/
def strainInfectiousIdx (m : Model α) (strain : String) : List Nat :=
  idxWhere m.comps (fun c => (strainFilter m strain).all (fun kv => alookup c.strata kv.1 == some kv.2) && isInfectious m c)

/-- `ModelBackend.prepare_structural` -/
def prepare (m : Model α) : Res Backend := do
  let flows := m.flows
  let srcIdx ← flows.mapM (fun f => match f.src with
    | none => pure (none : Option Nat)
    | some c => match compIdx m.comps c with
      | some i => pure (some i)
      | none => fail "flow source is not a compartment of the model")
  let dstIdx ← flows.mapM (fun f => match f.dst with
    | none => pure (none : Option Nat)
    | some c => match compIdx m.comps c with
      | some i => pure (some i)
      | none => fail "flow dest is not a compartment of the model")
  let populationIdx := srcIdx.map (fun o => o.getD 0)
  let negMap := (srcIdx.zipIdx.filterMap (fun x => x.1.map (fun s => (x.2, s))))
  let posMap := (dstIdx.zipIdx.filterMap (fun x => x.1.map (fun d => (x.2, d))))
  -- mixing categories
  let catIdx := m.mixingCats.map (fun cat => idxWhere m.comps (fun c => cat.all (fun kv => c.hasStratum kv.1 kv.2)))
  let w0 := (catIdx.head?.map (·.length)).getD 0
  guardE (catIdx.all (fun r => r.length == w0)) "np.stack: mixing categories of unequal size"
  let categoryLookup := (List.range m.comps.length).map (fun j =>
    (catIdx.zipIdx.foldl (fun acc r => if r.1.contains j then r.2 else acc) 0))
  let ncats := m.mixingCats.length
  let strainInfIdx := m.strains.map (strainInfectiousIdx m)
  let strainCatIdx ← strainInfIdx.mapM (fun inf => do
    let flat := catIdx.flatten.filter (fun j => inf.contains j)
    let loc := flat.map (fun j => (indexOf? inf j).getD 0)
    let w := loc.length / ncats
    guardE (ncats * w == loc.length) "reshape: infectious compartments do not divide into categories"
    pure (reshapeRows loc ncats w))
  let infFlowIdx := idxWhere flows (fun f => infectionKinds.contains f.kind)
  let infFlows := flows.filter (fun f => infectionKinds.contains f.kind)
  let lookups ← infFlows.mapM (fun f => do
    let cat := match f.src with
      | some c => categoryLookup.getD ((compIdx m.comps c).getD 0) 0
      | none => 0
    let strain := match f.dst with
      | some c => (alookup c.strata "strain").getD "default"
      | none => "default"
    match indexOf? m.strains strain with
    | some si => pure (si, cat)
    | none => fail "strain of infection flow destination is not a model strain")
  let hasFreq := flows.any (fun f => f.kind == .infFreq)
  let hasDens := flows.any (fun f => f.kind == .infDens)
  guardE (!(hasFreq && hasDens)) "no support for mixed infection frequency/density"
  pure { nComps := m.comps.length, nFlows := flows.length, populationIdx := populationIdx,
         nonPopIdx := idxWhere flows (fun f => nonPopKinds.contains f.kind),
         crudeIdx := idxWhere flows (fun f => crudeKinds.contains f.kind),
         replIdx := idxWhere flows (fun f => replKinds.contains f.kind),
         deathIdx := idxWhere flows (fun f => deathKinds.contains f.kind),
         infFlowIdx := infFlowIdx, posMap := posMap, negMap := negMap, catIdx := catIdx,
         categoryLookup := categoryLookup, strainInfIdx := strainInfIdx, strainCatIdx := strainCatIdx,
         infStrainLookup := lookups.map (·.1), infCatLookup := lookups.map (·.2),
         procType := if hasFreq then some true else if hasDens then some false else none }

end

section
variable {α : Type} [Zero α] [One α] [Add α] [Sub α] [Mul α] [Div α] [LT α] [DecidableLT α]

/-- evaluate under parameters only (static graph): no time, no state -/
def evalStatic (params : List (String × α)) (e : Expr α) : Option α := e.eval ⟨params, 0, []⟩

/-- `static_flow_weights`: zeros, then one scatter per static key -/
def staticFlowWeights (m : Model α) (params : List (String × α)) : Option (List α) :=
  m.flows.mapM (fun f =>
    let r := realised f
    if r.usesModelVars then some 0 else evalStatic params r)

/-- `get_flow_weights`: copy of the static weights with the time-varying keys overwritten by their
value at the current time and (cleaned) state -/
def flowWeights (m : Model α) (env : Env α) (static : List α) : Option (List α) :=
  (m.flows.zip static).mapM (fun fs =>
    let r := realised fs.1
    if r.usesModelVars then r.eval env else some fs.2)

def evalMatrix (env : Env α) (mat : Matrix (Expr α)) : Option (Matrix α) :=
  mat.mapM (fun row => row.mapM (fun e => e.eval env))

/-- `model.mixing_matrix`: `[[1]]` when none, otherwise the Kronecker product in order of application -/
def mixingMatrix (m : Model α) (env : Env α) : Option (Matrix α) := do
  let mats ← m.mixingMats.mapM (evalMatrix env)
  match mats with
  | [] => pure [[1]]
  | m0 :: rest => pure (rest.foldl kron m0)

/-- `get_compartment_infectiousness`: all compartments, before the per-strain gather -/
def compInfectiousness (m : Model α) (params : List (String × α)) : Option (List α) :=
  m.strats.foldlM (fun (acc : List α) (s : Strat α) =>
    s.infAdj.foldlM (fun (acc : List α) (ia : String × List (String × Option (Adj α))) =>
      ia.2.foldlM (fun (acc : List α) (sa : String × Option (Adj α)) =>
        match sa.2 with
        | none => some acc
        | some adj => do
          let v ← evalStatic params adj.expr
          let targets := getMatching m ia.1 [(s.name, sa.1)]
          pure (targets.foldl (fun (acc : List α) c =>
            match compIdx m.comps c with
            | none => acc
            | some i => match adj with
              | .ovr _ => acc.set i v
              | .mul _ => acc.set i (v * acc.getD i 0)) acc)) acc) acc)
    (List.replicate m.comps.length 1)

/-- `get_force_of_infection` for one strain: `(density, frequency)` per category -/
def forceOfInfection (infVals infness : List α) (catIndexer : List (List Nat)) (mix : Matrix α)
    (catPops : List α) : List α × List α :=
  let infected := vmul infVals infness
  let infPops := catIndexer.map (fun row => sumL (gather infected row))
  let density := matVec mix infPops
  let prevalence := List.zipWith (· / ·) infPops catPops
  let frequency := matVec mix prevalence
  (density, frequency)

/-- `get_infectious_multipliers` (one entry per infection flow) and the per-strain vectors -/
def infectiousMultipliers (b : Backend) (x : List α) (mix : Matrix α) (compInf : List α) :
    List α × List (List α) :=
  let catPops := b.catIdx.map (fun row => sumL (gather x row))
  let perStrain : List (List α) := (b.strainInfIdx.zip b.strainCatIdx).map (fun sc =>
    let infVals := gather x sc.1
    let infness := gather compInf sc.1
    let r := forceOfInfection infVals infness sc.2 mix catPops
    if b.procType == some true then r.2 else r.1)
  let mults := (b.infStrainLookup.zip b.infCatLookup).map (fun sc =>
    (1 : α) * ((perStrain.getD sc.1 []).getD sc.2 0))
  (mults, perStrain)

/-- `get_flow_rates` given the weights of this evaluation -/
def flowRates (b : Backend) (weights : List α) (xClean : List α) (mults : List α) : List α :=
  let pops := gather xClean b.populationIdx
  let pops := b.nonPopIdx.foldl (fun acc i => acc.set i 1) pops
  let total := sumL xClean
  let pops := b.crudeIdx.foldl (fun acc i => acc.set i total) pops
  let rates := vmul weights pops
  let rates := if b.procType.isSome then
      (b.infFlowIdx.zip mults).foldl (fun acc im => acc.set im.1 (acc.getD im.1 0 * im.2)) rates
    else rates
  if b.replIdx.length != 0 then
    let deaths := sumL (gather rates b.deathIdx)
    b.replIdx.foldl (fun acc i => acc.set i (acc.getD i 0 * deaths)) rates
  else rates

/-- the dense application matrix of `build_get_compartment_rates` (compartments × flows) -/
def applicationMatrix (b : Backend) : Matrix α :=
  let zero : Matrix α := List.replicate b.nComps (List.replicate b.nFlows 0)
  let addAt (mat : Matrix α) (r c : Nat) (v : α) : Matrix α :=
    mat.set r ((mat.getD r []).set c ((mat.getD r []).getD c 0 + v))
  let m1 := b.posMap.foldl (fun mat fc => addAt mat fc.2 fc.1 1) zero
  b.negMap.foldl (fun mat fc => addAt mat fc.2 fc.1 (0 - 1)) m1

def compRates (b : Backend) (rates : List α) : List α := matVec (applicationMatrix b) rates

/-- everything `one_step(parameters, t, comp_vals)` exposes -/
structure StepOut (α : Type) where
  weights : List α
  mults : List α
  perStrain : List (List α)
  mixing : Matrix α
  compInf : List α
  flowRates : List α
  compRates : List α

/-- one evaluation of the model's right-hand side at `(params, t, x)` -/
def step (m : Model α) (b : Backend) (params : List (String × α)) (t : α) (x : List α) : Option (StepOut α) := do
  let xc := cleanV x
  let env : Env α := ⟨params, t, xc⟩
  let static ← staticFlowWeights m params
  let w ← flowWeights m env static
  let mix ← mixingMatrix m env
  let ci ← compInfectiousness m params
  let (mults, per) := if b.procType.isSome then infectiousMultipliers b xc mix ci else ([], [])
  let fr := flowRates b w xc mults
  pure { weights := w, mults := mults, perStrain := per, mixing := mix, compInf := ci,
         flowRates := fr, compRates := compRates b fr }

/-- the rate function handed to the solvers (`get_comp_rates`) -/
def rhs (m : Model α) (b : Backend) (params : List (String × α)) (x : List α) (t : α) : Option (List α) :=
  (step m b params t x).map (·.compRates)

/-! ### initial population -/

/-- index arrays recorded by `_stratify_compartments` -/
structure StratIdx where
  stratBase : List Nat
  passBase : List Nat
  passTarget : List Nat
  stratumTarget : List (String × List Nat)
  newSize : Nat
deriving Repr

def stratIndexArrays (comps : List Comp) (s : Strat α) : StratIdx :=
  let init : StratIdx := ⟨[], [], [], s.strata.map (fun st => (st, [])), 0⟩
  (comps.zipIdx).foldl (fun (acc : StratIdx) (ci : Comp × Nat) =>
    if ci.1.hasNameIn s.comps then
      let acc1 := { acc with stratBase := acc.stratBase ++ [ci.2] }
      s.strata.foldl (fun (a : StratIdx) st =>
        { a with stratumTarget := a.stratumTarget.map (fun kv => if kv.1 == st then (kv.1, kv.2 ++ [a.newSize]) else kv),
                 newSize := a.newSize + 1 }) acc1
    else
      { acc with passBase := acc.passBase ++ [ci.2], passTarget := acc.passTarget ++ [acc.newSize], newSize := acc.newSize + 1 }) init

/-- `stratify_compartment_values` (the scatter version used at run time) -/
def stratifyValues (ix : StratIdx) (strata : List String) (split : List (String × α)) (vals : List α) : List α :=
  let out : List α := List.replicate ix.newSize 0
  let out := jsetMany out ix.passTarget (gather vals ix.passBase)
  let base := gather vals ix.stratBase
  strata.foldl (fun acc st =>
    let p := (alookup split st).getD 0
    jsetMany acc ((alookup ix.stratumTarget st).getD []) (base.map (· * p))) out

/-- `get_unique_strat_groups` + `_get_matching_compartments`, then the scatter of
`get_rebalanced_population`.  Totals are read from the *input* vector. -/
def rebalance (comps : List Comp) (strat : String) (destFilter : Strata) (props : List (String × α)) (pop : List α) : List α :=
  let stratComps := (comps.filter (fun c => c.strata.any (fun kv => kv.1 == strat))).filter (fun c => c.hasStrata destFilter)
  let groups : List (String × Strata) := stratComps.foldl (fun acc c =>
    let g := (c.name, c.strata.filter (fun kv => kv.1 != strat))
    if acc.any (fun h => h.1 == g.1 && strataContains h.2 g.2 && strataContains g.2 h.2) then acc else acc ++ [g]) []
  groups.foldl (fun (out : List α) g =>
    let members := (comps.zipIdx.filter (fun ci => ci.1.name == g.1 && ci.1.hasStrata g.2))
    let total := sumL (members.map (fun ci => pop.getD ci.2 0))
    members.foldl (fun (out : List α) ci =>
      match alookup ci.1.strata strat with
      | some k => out.set ci.2 (total * (alookup props k).getD 0)
      | none => out) out) pop

def evalDict (params : List (String × α)) (d : List (String × Expr α)) : Option (List (String × α)) :=
  d.mapM (fun kv => do let v ← evalStatic params kv.2; pure (kv.1, v))

/-- `get_calculate_initial_pop(model)(static_graph_values)` -/
def initialPopulation (m : Model α) (params : List (String × α)) : Option (List α) :=
  match m.arrayPop with
  | some arr => arr.mapM (evalStatic params)
  | none => do
    let dist ← m.initDist
    let dvals ← evalDict params dist
    let x0 := m.origNames.map (fun n => (alookup dvals n).getD 0)
    let comps0 : List Comp := m.origNames.map (fun n => ⟨n, []⟩)
    let r ← m.actions.foldlM (fun (st : List Comp × List α) (a : BuildAction α) =>
      match a with
      | .stratify name => do
          let s ← m.strats.find? (fun s => s.name == name)
          let split ← evalDict params s.split
          let ix := stratIndexArrays st.1 s
          pure (stratifyComps st.1 s, stratifyValues ix s.strata split st.2)
      | .rebalance r => do
          let props ← evalDict params r.props
          pure (st.1, rebalance m.comps r.strat r.destFilter props st.2)) (comps0, x0)
    pure r.2

end
end Summer.Run
