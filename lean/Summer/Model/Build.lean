import Summer.Model.Structure
import Summer.Generated.Tables
/-
Model of the model-building API of `summer2/model.py` (constructor, `add_*_flow`, `stratify_with`,
`set_initial_population`, `adjust_population_split`, `request_*`), of `Stratification`'s setters and
of the per-class `stratify` methods of `summer2/flows.py`.  Every call is
`Model → Res Model`; validations appear in the order the code performs them.
-/
namespace Summer.Build
open Summer Summer.Generated

section
variable {α : Type}

/-- `query_compartments({"name": name} | strata)` as used by `get_matching_compartments`:
name lookup, then for every filter key the compartment must carry that key with that value. -/
def getMatching (m : Model α) (name : String) (flt : Strata) : List Comp :=
  (m.comps.filter (fun c => c.name == name)).filter
    (fun c => flt.all (fun kv => alookup c.strata kv.1 == some kv.2))

def isEntry (k : FlowKind) : Bool := entryKinds.contains k
def isExit (k : FlowKind) : Bool := exitKinds.contains k
def isBirth (k : FlowKind) : Bool := birthKinds.contains k

def checkExpected (expected : Option Nat) (n : Nat) : Res Unit :=
  match expected with
  | none => pure ()
  | some e => guardE (e == n) "expected flow count not met"

/-- `_add_entry_flow` -/
def addEntry (m : Model α) (kind : FlowKind) (name : String) (param : Expr α) (dest : String)
    (destStrata : Strata) (expected : Option Nat) (adjs : List (Adj α)) : Res (Model α) := do
  guardE (!m.finalized) "finalized"
  let dests := m.comps.filter (fun c => c.isMatch dest destStrata)
  let new := dests.map (fun d => ({ kind := kind, name := name, src := none, dst := some d, param := param, adjs := adjs } : Flow α))
  checkExpected expected new.length
  pure { m with flows := m.flows ++ new }

/-- `_add_exit_flow` -/
def addExit (m : Model α) (kind : FlowKind) (name : String) (param : Expr α) (source : String)
    (srcStrata : Strata) (expected : Option Nat) : Res (Model α) := do
  guardE (!m.finalized) "finalized"
  let srcs := m.comps.filter (fun c => c.isMatch source srcStrata)
  let new := srcs.map (fun s => ({ kind := kind, name := name, src := some s, dst := none, param := param, adjs := [] } : Flow α))
  checkExpected expected new.length
  pure { m with flows := m.flows ++ new }

/-- `_add_transition_flow` -/
def addTransitionCore (m : Model α) (kind : FlowKind) (name : String) (param : Expr α) (source dest : String)
    (srcStrata dstStrata : Strata) (expected : Option Nat) : Res (Model α) := do
  guardE (!m.finalized) "finalized"
  guardE (m.origNames.contains dest) "unknown destination compartment"
  guardE (m.origNames.contains source) "unknown source compartment"
  let dests := getMatching m dest dstStrata
  let srcs := getMatching m source srcStrata
  guardE (dests.length == srcs.length) "unequal numbers of source and destination compartments"
  let new := (srcs.zip dests).map (fun sd => ({ kind := kind, name := name, src := some sd.1, dst := some sd.2, param := param, adjs := [] } : Flow α))
  checkExpected expected new.length
  pure { m with flows := m.flows ++ new }

def hasBirthFlow (m : Model α) : Bool := m.flows.any (fun f => isBirth f.kind)

end

section
variable {α : Type} [Zero α] [One α] [Add α] [Sub α] [Mul α] [Div α] [NatCast α] [LT α] [DecidableLT α]

/-- the public flow-adding calls.  `paramOk = false` stands for a rate that is neither a number nor
a graph object. -/
inductive FlowOp (α : Type) where
  | crudeBirth (name : String) (paramOk : Bool) (param : Expr α) (dest : String) (destStrata : Strata) (expected : Option Nat)
  | replBirth (name : String) (dest : String) (destStrata : Strata) (expected : Option Nat)
  | importF (name : String) (paramOk : Bool) (param : Expr α) (dest : String) (split : Bool) (destStrata : Strata) (expected : Option Nat)
  | death (name : String) (paramOk : Bool) (param : Expr α) (source : String) (srcStrata : Strata) (expected : Option Nat)
  | universalDeath (name : String) (paramOk : Bool) (param : Expr α)
  | transition (kind : FlowKind) (name : String) (paramOk : Bool) (param : Expr α) (source dest : String)
      (srcStrata dstStrata : Strata) (expected : Option Nat)

def addFlow (m : Model α) : FlowOp α → Res (Model α)
  | .crudeBirth name ok param dest ds ex => do
      guardE ok "flow parameter must be a number or graph object"
      guardE (!hasBirthFlow m) "second birth flow"
      addEntry m .crudeBirth name param dest ds ex []
  | .replBirth name dest ds ex => do
      guardE (!hasBirthFlow m) "second birth flow"
      addEntry m .replBirth name (.const 1) dest ds ex []
  | .importF name ok param dest split ds ex => do
      guardE ok "flow parameter must be a number or graph object"
      let dests := m.comps.filter (fun c => c.isMatch dest ds)
      if split then
        guardE (dests.length != 0) "split_imports with no destination (division by zero)"
        addEntry m .importF name param dest ds ex [.mul (.const ((1 : α) / (dests.length : α)))]
      else
        addEntry m .importF name param dest ds ex []
  | .death name ok param source ss ex => do
      guardE ok "flow parameter must be a number or graph object"
      addExit m .death name param source ss ex
  | .universalDeath name ok param => do
      guardE ok "flow parameter must be a number or graph object"
      guardE (!m.flows.any (fun f => f.name == name)) "universal death flow name already used"
      m.origNames.foldlM (fun acc c => addExit acc .death name param c [] none) m
  | .transition kind name ok param source dest ss ds ex => do
      guardE ok "flow parameter must be a number or graph object"
      guardE (transitionKinds.contains kind) "not a transition-type flow"
      addTransitionCore m kind name param source dest ss ds ex

/-! ### Stratification objects -/

/-- what the user passes to the `Stratification` constructor and its setters, in call order -/
structure StratSpec (α : Type) where
  kind : StratKind
  name : String
  strata : List String
  comps : List String
  split : Option (List (String × Expr α))                 -- `set_population_split`
  flowAdj : List (FlowAdjDecl α)                           -- `set_flow_adjustments`, in call order
  infAdj : List (String × List (String × Option (Adj α)))  -- `add_infectiousness_adjustments`, in call order
  mixing : Option (Matrix (Expr α))                        -- `set_mixing_matrix`

def Expr.isConst {α} : Expr α → Option α
  | .const c => some c
  | _ => none

def insertSorted (x : Int) : List Int → List Int
  | [] => [x]
  | y :: ys => if x ≤ y then x :: y :: ys else y :: insertSorted x ys
def sortInts (l : List Int) : List Int := l.foldr insertSorted []

/-- `Stratification.__init__` (+ `AgeStratification.__init__`), then the setters with their validation -/
def mkStrat (sp : StratSpec α) : Res (Strat α) := do
  -- constructor
  let strata ← (if sp.kind == .age then do
      let ints ← sp.strata.mapM (fun s => match s.toInt? with | some i => pure i | none => fail "age strata must be int-compatible")
      let sorted := sortInts ints
      guardE (sorted.head? == some 0) "first age stratum must be 0"
      pure (sorted.map toString)
    else pure sp.strata : Res (List String))
  guardE (strata.length != 0) "no strata (division by zero)"
  let n := strata.length
  let defaultSplit : List (String × Expr α) := strata.foldl (fun acc s => dictSet acc s (.const ((1 : α) / (n : α)))) []
  -- set_population_split
  let split ← (match sp.split with
    | none => pure defaultSplit
    | some props => do
        let lits := props.filterMap (fun kv => Expr.isConst kv.2)
        if lits.length == props.length then
          guardE (sameSet (props.map (·.1)) strata) "population split must specify all strata"
          guardE (lits.all (fun v => !(decide (v < 0)))) "population split proportions must be >= 0"
          let s := sumL lits
          let tol : α := (1 : α) / (splitTolDen : α)
          guardE (decide ((1 : α) - s < tol) && decide (s - 1 < tol)) "population split must sum to 1"
        pure props : Res (List (String × Expr α)))
  -- set_flow_adjustments
  for d in sp.flowAdj do
    guardE (sameSet (d.adjs.map (·.1)) strata) "flow adjustments must specify all strata"
  -- add_infectiousness_adjustments
  let _ ← sp.infAdj.foldlM (fun (seen : List String) (ia : String × List (String × Option (Adj α))) => do
      guardE (sameSet (ia.2.map (·.1)) strata) "infectiousness adjustments must specify all strata"
      guardE (!seen.contains ia.1) "duplicate infectiousness adjustment"
      pure (ia.1 :: seen)) []
  -- set_mixing_matrix
  guardE (!(sp.mixing.isSome && sp.kind == .strain)) "strain stratifications cannot have a mixing matrix"
  pure { kind := sp.kind, name := sp.name, strata := strata, comps := sp.comps, split := split,
         flowAdj := sp.flowAdj, infAdj := sp.infAdj, mixing := sp.mixing }

/-- `Stratification.get_flow_adjustment(flow)`: the most recently declared adjustment whose strata
filters match the (parent) flow; with validation enabled a filter on a missing end raises. -/
def getFlowAdjustment (s : Strat α) (f : Flow α) : Res (Option (List (String × Option (Adj α)))) :=
  (s.flowAdj.filter (fun d => d.flow == f.name)).foldlM
    (fun (cur : Option (List (String × Option (Adj α)))) (d : FlowAdjDecl α) => do
      guardE (!(d.srcStrata.length != 0 && f.src.isNone)) "source strata requested for a flow without a source"
      guardE (!(d.dstStrata.length != 0 && f.dst.isNone)) "dest strata requested for a flow without a dest"
      let srcNoMatch := d.srcStrata.length != 0 && (match f.src with | some c => !c.hasStrata d.srcStrata | none => false)
      let dstNoMatch := d.dstStrata.length != 0 && (match f.dst with | some c => !c.hasStrata d.dstStrata | none => false)
      if srcNoMatch then pure cur
      else if dstNoMatch then pure cur
      else pure (some d.adjs)) none

def adjFor (fa : List (String × Option (Adj α))) (stratum : String) : List (Adj α) :=
  match alookup fa stratum with
  | some (some a) => [a]
  | _ => []

def shareAdj (n : Nat) : Adj α := .mul (.const ((1 : α) / (n : α)))

def endStratified (c : Option Comp) (s : Strat α) : Bool :=
  match c with
  | some c => c.hasNameIn s.comps
  | none => false

/-- `BaseEntryFlow.stratify` -/
def stratifyEntry (f : Flow α) (s : Strat α) : Res (List (Flow α)) := do
  if !endStratified f.dst s then return [f]
  let fa ← getFlowAdjustment s f
  let birthIntoAge := isBirth f.kind && s.isAgeing
  guardE (!(birthIntoAge && fa.isSome)) "cannot adjust birth flows into age stratifications"
  match fa with
  | some a => guardE (sameSet (a.map (·.1)) s.strata) "missing adjustments"
  | none => pure ()
  let n := s.strata.length
  pure (s.strata.filterMap (fun stratum =>
    if birthIntoAge && stratum != "0" then none
    else
      let extra : List (Adj α) :=
        if birthIntoAge then []
        else match fa with
          | some a => adjFor a stratum
          | none => [shareAdj n]
      some { f with dst := f.dst.map (fun c => c.stratify s.name stratum), adjs := f.adjs ++ extra }))

/-- `BaseExitFlow.stratify` -/
def stratifyExit (f : Flow α) (s : Strat α) : Res (List (Flow α)) := do
  if !endStratified f.src s then return [f]
  let fa ← getFlowAdjustment s f
  match fa with
  | some a => guardE (sameSet (a.map (·.1)) s.strata) "missing adjustments"
  | none => pure ()
  pure (s.strata.map (fun stratum =>
    let extra : List (Adj α) := match fa with
      | some a => adjFor a stratum
      | none => []
    { f with src := f.src.map (fun c => c.stratify s.name stratum), adjs := f.adjs ++ extra }))

/-- `BaseTransitionFlow.stratify`, plus `AbsoluteFlow.stratify`'s equal share -/
def stratifyTransition (f : Flow α) (s : Strat α) : Res (List (Flow α)) := do
  let srcS := endStratified f.src s
  let dstS := endStratified f.dst s
  if !(dstS || srcS) then return [f]
  let fa ← getFlowAdjustment s f
  match fa with
  | some a => guardE (sameSet (a.map (·.1)) s.strata) "missing adjustments"
  | none => pure ()
  let n := s.strata.length
  let conservation := (dstS && !srcS) && !s.isStrain && fa.isNone
  let base : List (Flow α) := s.strata.map (fun stratum =>
    let extra : List (Adj α) :=
      if conservation then [shareAdj n]
      else match fa with
        | some a => adjFor a stratum
        | none => []
    { f with src := if srcS then f.src.map (fun c => c.stratify s.name stratum) else f.src,
             dst := if dstS then f.dst.map (fun c => c.stratify s.name stratum) else f.dst,
             adjs := f.adjs ++ extra })
  if absoluteShareKinds.contains f.kind && base.length > 1 && !conservation then
    pure (base.map (fun g => { g with adjs := g.adjs ++ [shareAdj base.length] }))
  else pure base

/-- dispatch on the flow class -/
def stratifyFlow (f : Flow α) (s : Strat α) : Res (List (Flow α)) :=
  if isEntry f.kind then stratifyEntry f s
  else if isExit f.kind then stratifyExit f s
  else stratifyTransition f s

/-- `Stratification._stratify_compartments` (the compartment list only) -/
def stratifyComps (comps : List Comp) (s : Strat α) : List Comp :=
  comps.flatMap (fun c => if c.hasNameIn s.comps then s.strata.map (fun st => c.stratify s.name st) else [c])

/-- `_strata_exist` -/
def strataExist (m : Model α) (flt : Strata) : Res Unit :=
  flt.forM (fun kv => do
    match m.strats.find? (fun s => s.name == kv.1) with
    | none => fail "invalid stratification in strata filter"
    | some s => guardE (s.strata.contains kv.2) "invalid stratum in strata filter")

/-- `CompartmentalModel.stratify_with` -/
def stratifyWith (m : Model α) (s : Strat α) : Res (Model α) := do
  guardE (!m.strats.any (fun t => t.name == s.name)) "stratification already exists"
  guardE (!m.finalized) "finalized"
  for d in s.flowAdj do
    guardE (m.flows.any (fun f => f.name == d.flow)) "flow adjustment refers to a flow that is not present"
  for d in s.flowAdj do
    strataExist m d.srcStrata
    strataExist m d.dstStrata
  guardE (s.infAdj.all (fun ia => m.origNames.contains ia.1)) "infectiousness adjustment refers to unknown compartment"
  let m1 ← (match s.mixing with
    | none => pure m
    | some mat => do
        guardE (!s.isStrain) "strains cannot have a mixing matrix"
        guardE (s.comps == m.origNames) "mixing matrices only allowed for full stratification"
        pure { m with mixingMats := m.mixingMats ++ [mat],
                      mixingCats := m.mixingCats.flatMap (fun mc => s.strata.map (fun st => dictSet mc s.name st)) } : Res (Model α))
  let m2 ← (if s.isStrain then do
        guardE (!m.strats.any (fun t => t.isStrain)) "strain stratification already applied"
        pure { m1 with strains := s.strata }
      else pure m1 : Res (Model α))
  guardE (s.comps.all (fun c => m.origNames.contains c)) "trying to stratify non-existent compartment"
  let prevComps := m2.comps
  let newComps := stratifyComps m2.comps s
  let newFlows ← m2.flows.foldlM (fun (acc : List (Flow α)) f => do
      let fs ← stratifyFlow f s
      pure (acc ++ fs)) []
  let m3 := { m2 with comps := newComps, flows := newFlows }
  let m4 ← (if s.isAgeing then do
        guardE (!m.strats.any (fun t => t.isAgeing)) "age stratification can only be applied once"
        let ages := sortInts (s.strata.filterMap (fun x => x.toInt?))
        guardE (s.comps == m.origNames) "age stratification only allowed for full stratification"
        let pairs := ages.zip (ages.drop 1)
        pairs.foldlM (fun (acc : Model α) (ab : Int × Int) =>
          prevComps.foldlM (fun (acc2 : Model α) (c : Comp) => do
            let source := c.stratify s.name (toString ab.1)
            let dest := c.stratify s.name (toString ab.2)
            guardE (ab.2 != ab.1) "zero-width age group (division by zero)"
            let rate : α := (1 : α) / (((ab.2 - ab.1).toNat : Nat) : α)
            addTransitionCore acc2 .transition ("ageing_" ++ source.serialize ++ "_to_" ++ dest.serialize)
              (.const rate) source.name dest.name source.strata dest.strata (some 1)) acc) m3
      else pure m3 : Res (Model α))
  pure { m4 with strats := m4.strats ++ [s], actions := m4.actions ++ [.stratify s.name] }

/-! ### population, requests -/

/-- `set_initial_population` -/
def setInitialPopulation (m : Model α) (isDict : Bool) (dist : List (String × Expr α)) : Res (Model α) := do
  guardE (!m.finalized) "finalized"
  guardE (m.strats.length == 0) "cannot set initial population after the model has been stratified"
  guardE isDict "distribution must be a dict"
  guardE (dist.all (fun kv => m.origNames.contains kv.1)) "unknown compartment in initial distribution"
  let filled := m.origNames.foldl (fun acc c => if acc.any (fun kv => kv.1 == c) then acc else acc ++ [(c, Expr.const (0 : α))]) dist
  pure { m with initDist := some filled }

/-- `init_population_with_graphobject` -/
def initPopArray (m : Model α) (arr : List (Expr α)) : Res (Model α) := do
  guardE (!m.finalized) "finalized"
  pure { m with initDist := some [], arrayPop := some arr }

/-- `adjust_population_split` -/
def adjustPopulationSplit (m : Model α) (rebalTolDen : Nat) (r : Rebalance α) : Res (Model α) := do
  guardE (!m.finalized) "finalized"
  match m.strats.find? (fun s => s.name == r.strat) with
  | none => fail "no such stratification"
  | some s =>
    guardE (sameSet s.strata (r.props.map (·.1))) "all strata must be specified in proportions"
    let lits := r.props.filterMap (fun kv => Expr.isConst kv.2)
    guardE (lits.length == r.props.length) "proportions must be literal numbers"
    let total := sumL lits
    let tol : α := (1 : α) / (rebalTolDen : α)
    guardE (decide (total - 1 < tol) && decide ((1 : α) - total < tol)) "proportions must sum to 1"
    pure { m with actions := m.actions ++ [.rebalance r] }

def flowIsMatch (f : Flow α) (name : String) (ss ds : Strata) : Bool :=
  f.name == name
    && (ss.length == 0 || f.src.isNone || (match f.src with | some c => c.hasStrata ss | none => true))
    && (ds.length == 0 || f.dst.isNone || (match f.dst with | some c => c.hasStrata ds | none => true))

def hasRequest (m : Model α) (name : String) : Bool := m.requests.any (fun r => r.name == name)

/-- the `request_*` calls (validation enabled) -/
def addRequest (m : Model α) (e : ReqEntry α) : Res (Model α) := do
  guardE (!m.finalized) "finalized"
  guardE (!hasRequest m e.name) "a derived output with this name already exists"
  match e.req with
  | .flow fname ss ds _ =>
      guardE (m.flows.any (fun f => flowIsMatch f fname ss ds)) "no flow matches"
  | .comp names strata =>
      guardE (m.comps.any (fun c => names.any (fun n => c.isMatch n strata))) "no compartment matches"
  | .agg sources => guardE (sources.all (hasRequest m)) "source has not been requested"
  | .cum source _ => guardE (hasRequest m source) "source has not been requested"
  | .func _ sources => guardE (sources.all (hasRequest m)) "source has not been requested"
  | .cv _ => pure ()
  pure { m with requests := m.requests ++ [e] }

/-- `add_computed_value_func` -/
def addComputedValue (m : Model α) (name : String) (e : Expr α) : Res (Model α) := do
  guardE (!m.computed.any (fun kv => kv.1 == name)) "computed value already exists"
  pure { m with computed := m.computed ++ [(name, e)] }

/-- `CompartmentalModel.__init__` (numeric times; datetime handling is in `Dates.lean`).
`nSteps` is the claimed integer `(t1 - t0) / dt`; the constructor accepts exactly when
`t1 > t0`, `1 + (t1-t0)/dt ≥ 1` and `(t1-t0)/dt` is a whole number. -/
def mkModel (t0 t1 dt : α) (wholeSteps : Option Nat) (comps : List String) (infectious : List String) : Res (Model α) := do
  guardE (decide (t0 < t1)) "end time must be greater than start time"
  match wholeSteps with
  | none => fail "time step must be a factor of the time period"
  | some k =>
    guardE (infectious.all (comps.contains ·)) "infectious compartments must be a subset of compartments"
    pure { t0 := t0, t1 := t1, dt := dt, nTimes := k + 1,
           comps := comps.map (fun n => ⟨n, []⟩), origNames := comps, infectious := infectious,
           flows := [], strats := [], mixingCats := [[]], mixingMats := [], strains := ["default"],
           initDist := none, arrayPop := none, actions := [], requests := [], computed := [],
           whitelist := [], finalized := false }

end
end Summer.Build
