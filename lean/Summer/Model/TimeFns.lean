import Summer.Basic
/-
Model of `summer2/functions/util.py` (binary search, piecewise constant) and
`summer2/functions/interpolate.py` (scale data, linear / sigmoidal interpolation),
`summer2/functions/derived.py` (rolling helpers).  Follows the code's algorithm, including JAX's
clamped gather at `t == last point`.
-/
namespace Summer.TimeFns
open Summer

section
variable {α : Type} [Zero α] [LT α] [DecidableLT α]

/-- `lax.while_loop(cond, body, (low, high))` of `binary_search_sum_ge` -/
def bsLoop (x : α) (pts : List α) (low high : Int) : Int × Int :=
  if h : high - low > 1 then
    let mid : Int := (low + high) / 2
    let upd := decide (x < jget pts mid)
    bsLoop x pts (if upd then low else mid) (if upd then mid else high)
  else (low, high)
termination_by (high - low).toNat
decreasing_by all_goals (split <;> omega)

/-- `binary_search_sum_ge(x, points)` = `(x >= points).sum()` for sorted points -/
def binarySearchSumGe (x : α) (pts : List α) : Int :=
  let r := bsLoop x pts (-1) ((pts.length : Int) - 1)
  (if x < jget pts r.2 then r.1 else r.2) + 1

/-- `piecewise_constant(x, breakpoints, values)` -/
def piecewiseConstant (x : α) (bps vals : List α) : α :=
  jget vals (binarySearchSumGe x bps)

end

section
variable {α : Type} [Zero α] [Add α] [Sub α] [Mul α] [Div α] [LT α] [DecidableLT α]

/-- `InterpolatorScaleData(points, ranges, bounds)` -/
structure ScaleData (α : Type) where
  points : List α
  ranges : List α
  bounds : List α

def getScaleData (pts : List α) : ScaleData α :=
  { points := pts, ranges := diff pts, bounds := [jget pts 0, jget pts (-1)] }

/-- `sum(t > xdata.bounds)` -/
def boundsState (t : α) (bounds : List α) : Nat :=
  (bounds.filter (fun b => decide (b < t))).length

/-- `_get_linear_curve_at_x` / `_get_sigmoidal_curve_at_x` with the curve `sig` (identity for linear) -/
def curveAt (sig : α → α) (x : α) (xd yd : ScaleData α) : α :=
  let idx := binarySearchSumGe x xd.points - 1
  let offset := x - jget xd.points idx
  let relx := offset / jget xd.ranges idx
  jget yd.points idx + sig relx * jget yd.ranges idx

/-- three-way `lax.switch` on `sum(t > bounds)` (index clamped as `lax.switch` does) -/
def interpolateWith (sig : α → α) (t : α) (xd yd : ScaleData α) : α :=
  match boundsState t xd.bounds with
  | 0 => jget yd.bounds 0
  | 1 => curveAt sig t xd yd
  | _ => jget yd.bounds 1

def interpolateLinear (t : α) (xs ys : List α) : α :=
  interpolateWith (fun r => r) t (getScaleData xs) (getScaleData ys)

def interpolateSigmoidal (sig : α → α) (t : α) (xs ys : List α) : α :=
  interpolateWith sig t (getScaleData xs) (getScaleData ys)

/-- `make_norm_sigmoid(curvature)` given the exponential function -/
def normSigmoid [One α] (exp : α → α) (curvature : α) (x : α) : α :=
  let unc := fun (y : α) => (1 : α) / (1 + exp (curvature * ((1 : α) / two - y)))
  let offset := unc 0
  let scale := (1 : α) / (1 - offset * two)
  (unc x - offset) * scale

end

section
variable {α : Type}

/-- `get_rolling_diff(periods)`; `none` stands for NaN -/
def rollingDiff [Sub α] (periods : Nat) (x : List α) : List (Option α) :=
  (List.range x.length).map (fun i =>
    if i < periods then none
    else match x[i]?, x[i - periods]? with
      | some a, some b => some (a - b)
      | _, _ => none)

/-- `get_rolling_reduction(func, window)`; `none` stands for NaN.  Follows the code: the index
matrix `arange(n-w+1)[:,None] + arange(w)`, NaN written to `[:window]` and then the aggregate to
`[window-1:]`. -/
def rollingReduction (f : List α → α) (window : Nat) (x : List α) : List (Option α) :=
  let n := x.length
  let windows : List (List α) := (List.range (n - window + 1)).map (fun i => (x.drop i).take window)
  let agg := windows.map f
  (List.range n).map (fun i =>
    if window - 1 ≤ i then agg[i - (window - 1)]?
    else none)

end
end Summer.TimeFns
