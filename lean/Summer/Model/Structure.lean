import Summer.Basic
import Summer.Model.Expr
/-
Model of `summer2/compartment.py`, `summer2/adjust.py`, the flow classes of `summer2/flows.py` and
`summer2/stratification.py` (data only; behaviour is in `Build.lean`).
-/
namespace Summer

/-- insertion-ordered strata dictionary -/
abbrev Strata := List (String × String)

/-- `frozenset(filter.items()).issubset(strata.items())` -/
def strataContains (strata flt : Strata) : Bool := flt.all (fun kv => strata.contains kv)

structure Comp where
  name : String
  strata : Strata
deriving DecidableEq, Repr, BEq, Hashable

namespace Comp
/-- `Compartment.has_strata` / `_has_strata` -/
def hasStrata (c : Comp) (flt : Strata) : Bool := strataContains c.strata flt
/-- `Compartment.is_match` -/
def isMatch (c : Comp) (name : String) (flt : Strata) : Bool := c.name == name && c.hasStrata flt
/-- `Compartment.has_stratum` : `self.strata.get(k) == v` -/
def hasStratum (c : Comp) (k v : String) : Bool := alookup c.strata k == some v
/-- `Compartment.has_name_in_list` -/
def hasNameIn (c : Comp) (names : List String) : Bool := names.contains c.name
/-- `Compartment.stratify` : `{**self.strata, name: stratum}` -/
def stratify (c : Comp) (sname stratum : String) : Comp := { c with strata := dictSet c.strata sname stratum }
/-- `Compartment.serialize` -/
def serialize (c : Comp) : String := "X".intercalate (c.name :: c.strata.map (fun kv => kv.1 ++ "_" ++ kv.2))
end Comp

/-- The eight flow classes of `flows.py` -/
inductive FlowKind where
  | transition | infFreq | infDens | death | crudeBirth | replBirth | importF | absolute
deriving DecidableEq, Repr, BEq

inductive Adj (α : Type) where
  | mul : Expr α → Adj α
  | ovr : Expr α → Adj α

def Adj.expr {α} : Adj α → Expr α
  | .mul e => e
  | .ovr e => e

structure Flow (α : Type) where
  kind : FlowKind
  name : String
  src : Option Comp
  dst : Option Comp
  param : Expr α
  adjs : List (Adj α)

inductive StratKind where
  | plain | age | strain
deriving DecidableEq, Repr, BEq

/-- one `set_flow_adjustments` declaration: the per-stratum adjustments and the two strata filters -/
structure FlowAdjDecl (α : Type) where
  flow : String
  adjs : List (String × Option (Adj α))
  srcStrata : Strata
  dstStrata : Strata

structure Strat (α : Type) where
  kind : StratKind
  name : String
  strata : List String
  comps : List String
  split : List (String × Expr α)
  flowAdj : List (FlowAdjDecl α)                       -- all declarations, in declaration order
  infAdj : List (String × List (String × Option (Adj α)))
  mixing : Option (Matrix (Expr α))

def Strat.isAgeing {α} (s : Strat α) : Bool := s.kind == .age
def Strat.isStrain {α} (s : Strat α) : Bool := s.kind == .strain

inductive Action where
  | stratify (name : String)
  | adjustSplit (strat : String) (destFilter : Strata) (props : List (String × Nat))  -- props index into `Model.rebalances`
deriving Repr

/-- derived output requests (`request_*`) -/
inductive Request (α : Type) where
  | flow (flowName : String) (srcStrata dstStrata : Strata) (raw : Bool)
  | comp (names : List String) (strata : Strata)
  | agg (sources : List String)
  | cum (source : String) (startTime : Option α)
  | func (e : Expr α) (sources : List String)   -- function of earlier outputs (by position in `sources`) and parameters
  | cv (name : String)

structure ReqEntry (α : Type) where
  name : String
  req : Request α
  save : Bool

structure Rebalance (α : Type) where
  strat : String
  destFilter : Strata
  props : List (String × Expr α)

inductive BuildAction (α : Type) where
  | stratify (name : String)
  | rebalance (r : Rebalance α)

structure Model (α : Type) where
  t0 : α
  t1 : α
  dt : α
  nTimes : Nat
  comps : List Comp
  origNames : List String
  infectious : List String
  flows : List (Flow α)
  strats : List (Strat α)
  mixingCats : List Strata
  mixingMats : List (Matrix (Expr α))
  strains : List String
  initDist : Option (List (String × Expr α))
  arrayPop : Option (List (Expr α))
  actions : List (BuildAction α)
  requests : List (ReqEntry α)
  computed : List (String × Expr α)
  whitelist : List String
  finalized : Bool

inductive Err where
  | invalid (msg : String)
deriving Repr

abbrev Res (β : Type) := Except Err β

def fail {β} (msg : String) : Res β := .error (.invalid msg)
def guardE (c : Bool) (msg : String) : Res Unit := if c then pure () else fail msg

end Summer
