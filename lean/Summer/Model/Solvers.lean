import Summer.Basic
/-
Model of `runner/jax/solvers.py` (euler, rk4) and the forward path of `runner/jax/ode.py`
(Dormand–Prince with adaptive step size and quartic dense output).
The vector field is `f : state → time → state`.
-/
namespace Summer.Solvers
open Summer

section
variable {α : Type} [Zero α] [One α] [Add α] [Sub α] [Mul α] [Div α]

/-- one explicit Euler update: `comp_vals + comp_rates * timestep` -/
def eulerStep (f : List α → α → List α) (h : α) (y : List α) (t : α) : List α :=
  vadd y (vscale h (f y t))

/-- `solvers.euler`: the step is `times[1] - times[0]`; the scan runs over `i = 0 .. n-2` evaluating
the field at `times[i]`; row 0 is the initial population. -/
def euler (f : List α → α → List α) (y0 : List α) (times : List α) : List (List α) :=
  let h := times.getD 1 0 - times.getD 0 0
  let steps := times.take (times.length - 1)
  let r := steps.foldl (fun (acc : List (List α) × List α) t =>
    let y' := eulerStep f h acc.2 t
    (acc.1 ++ [y'], y')) ([y0], y0)
  r.1

/-- one classical Runge–Kutta 4 update with step `h` -/
def rk4Step (f : List α → α → List α) (h : α) (y : List α) (t : α) : List α :=
  let half : α := h / two
  let k1 := vscale h (f y t)
  let k2 := vscale h (f (vadd y (k1.map (· / two))) (t + half))
  let k3 := vscale h (f (vadd y (k2.map (· / two))) (t + half))
  let k4 := vscale h (f (vadd y k3) (t + h))
  let incr := vadd (vadd (vadd k1 (vscale two k2)) (vscale two k3)) k4
  vadd y (vscale ((1 : α) / six) incr)

/-- `solvers.rk4` -/
def rk4 (f : List α → α → List α) (y0 : List α) (times : List α) : List (List α) :=
  let h := times.getD 1 0 - times.getD 0 0
  let steps := times.take (times.length - 1)
  let r := steps.foldl (fun (acc : List (List α) × List α) t =>
    let y' := rk4Step f h acc.2 t
    (acc.1 ++ [y'], y')) ([y0], y0)
  r.1

/-! ### Dormand–Prince -/

structure Tableau (α : Type) where
  alpha : List α
  beta : List (List α)
  cSol : List α
  cError : List α
  cMid : List α
  fitRows : List (List α)

/-- linear combination `Σ c_i · k_i` of vectors -/
def lincomb (n : Nat) (c : List α) (k : List (List α)) : List α :=
  (c.zip k).foldl (fun acc ck => vadd acc (vscale ck.1 ck.2)) (List.replicate n 0)

/-- `runge_kutta_step(func, y0, f0, t0, dt)` → `(y1, f1, y1_error, k)` -/
def rkStep (tb : Tableau α) (f : List α → α → List α) (y0 f0 : List α) (t0 dt : α) :
    List α × List α × List α × List (List α) :=
  let n := y0.length
  let k := (List.range 6).foldl (fun (k : List (List α)) i =>
    let ti := t0 + dt * tb.alpha.getD i 0
    let yi := vadd y0 (vscale dt (lincomb n (tb.beta.getD i []) k))
    k ++ [f yi ti]) [f0]
  let y1 := vadd (vscale dt (lincomb n tb.cSol k)) y0
  let err := vscale dt (lincomb n tb.cError k)
  (y1, k.getD 6 [], err, k)

/-- `interp_fit_dopri` → the five coefficient vectors `[a, b, c, d, e]` -/
def interpFit (tb : Tableau α) (y0 y1 : List α) (k : List (List α)) (dt : α) : List (List α) :=
  let n := y0.length
  let yMid := vadd y0 (vscale dt (lincomb n tb.cMid k))
  let dy0 := vscale dt (k.getD 0 [])
  let dy1 := vscale dt (k.getD 6 [])
  tb.fitRows.map (fun row => lincomb n row [dy0, dy1, y0, y1, yMid])

/-- `jnp.polyval(coeffs, x)` (Horner, highest degree first) on vectors -/
def polyval (coeffs : List (List α)) (x : α) : List α :=
  match coeffs with
  | [] => []
  | c :: cs => cs.foldl (fun acc c' => vadd (vscale x acc) c') c

/-- the floating-point-only parts of the step controller -/
structure Control (α : Type) where
  errorRatio : List α → List α → List α → α      -- (error, y0, y1)
  optimalStep : α → α → α                        -- (last_step, ratio)
  accept : α → Bool                              -- ratio <= 1
  lt : α → α → Bool                              -- `t < target`
  pos : α → Bool                                 -- `dt > 0`

structure OdeState (α : Type) where
  y : List α
  f : List α
  t : α
  dt : α
  lastT : α
  coeff : List (List α)

/-- inner `while_loop` of `scan_fun`, with fuel (the real `mxstep` is infinite) -/
def advance (tb : Tableau α) (ctl : Control α) (f : List α → α → List α) (target : α) :
    Nat → OdeState α → OdeState α
  | 0, s => s
  | fuel + 1, s =>
    if ctl.lt s.t target && ctl.pos s.dt then
      let (y1, f1, err, k) := rkStep tb f s.y s.f s.t s.dt
      let ratio := ctl.errorRatio err s.y y1
      let coeff := interpFit tb s.y y1 k s.dt
      let dt' := ctl.optimalStep s.dt ratio
      let s' : OdeState α := if ctl.accept ratio then
          { y := y1, f := f1, t := s.t + s.dt, dt := dt', lastT := s.t, coeff := coeff }
        else { s with dt := dt' }
      advance tb ctl f target fuel s'
    else s

/-- `_odeint`: scan over the target times carrying the stepping state; each target reads the dense
output of the last accepted step. -/
def odeint (tb : Tableau α) (ctl : Control α) (f : List α → α → List α) (fuel : Nat) (dt0 : α)
    (y0 : List α) (ts : List α) : List (List α) :=
  let t0 := ts.getD 0 0
  let s0 : OdeState α := { y := y0, f := f y0 t0, t := t0, dt := dt0, lastT := t0, coeff := List.replicate 5 y0 }
  let r := (ts.drop 1).foldl (fun (acc : List (List α) × OdeState α) target =>
    let s := advance tb ctl f target fuel acc.2
    let rel := (target - s.lastT) / (s.t - s.lastT)
    (acc.1 ++ [polyval s.coeff rel], s)) ([y0], s0)
  r.1

end
end Summer.Solvers
