import Summer.Basic
/-
JAX / NumPy array vocabulary used by the rates translator (`harness/translate/gen_rates.py`).

`Summer/Generated/Rates.lean` is regenerated from the SOURCE TEXT of `summer2/runner/jax/model_impl.py`
(`clean_compartments`, `get_force_of_infection`, `build_get_infectious_multipliers`, `build_get_flow_weights`,
`build_get_flow_rates`, `build_get_compartment_rates`, `build_get_rates`) on every run.  The definitions below give
the meaning of the array operations those functions use, over plain lists.  They are part of the translator (trusted
base): each is a one- or two-line list function, written by structural recursion so that the tie proofs in
`Summer/Props/C01Rates.lean` are plain inductions.

Conventions (DESIGN section 2.4):
* a 1-d array is a `List α`, an index array a `List Nat`, a boolean mask a `List Bool`, a 2-d array a list of rows;
* `a[idx]` with an integer array is `gather` (from `Basic`), with a 2-d integer array `take2`;
* `a.at[idx].set(v)` with a scalar `v` is `atSetAll`, with an array `v` is `jsetMany` (`Basic`);
* `a[mask]` is `maskTake`, `a.at[mask].set(v)` is `atMaskSet` (entries of `v` are consumed in order);
* all index arrays produced by `prepare_structural` are in range, so JAX's out-of-range rules never apply
  (`List.set` out of range is the identity, `getD` out of range reads `0`).
-/
namespace Summer.Jax

section
variable {α : Type}

/-- `a.at[idx].set(v)` for a scalar `v` -/
def atSetAll (a : List α) (idx : List Nat) (v : α) : List α := idx.foldl (fun acc i => acc.set i v) a

/-- `lookup == k` for an integer array and an integer -/
def maskEq (l : List Nat) (k : Nat) : List Bool := l.map (fun x => x == k)

/-- `a[mask]` -/
def maskTake : List α → List Bool → List α
  | a :: as, true :: ms => a :: maskTake as ms
  | _ :: as, false :: ms => maskTake as ms
  | _, _ => []

/-- `a.at[mask].set(vals)`: the masked positions receive the entries of `vals` in order -/
def atMaskSet : List α → List Bool → List α → List α
  | _ :: as, true :: ms, v :: vs => v :: atMaskSet as ms vs
  | a :: as, false :: ms, vs => a :: atMaskSet as ms vs
  | as, _, _ => as

/-- `a[idx]` for a 2-d integer array `idx` -/
def take2 [Zero α] (a : List α) (idx : List (List Nat)) : List (List α) := idx.map (gather a)

/-- `m.sum(axis=1)` / `jnp.sum(m, axis=-1)` of a 2-d array -/
def sumRows [Add α] [Zero α] (m : List (List α)) : List α := m.map sumL

/-- `np.zeros((r, c))` -/
def zeros2 [Zero α] (r c : Nat) : Matrix α := List.replicate r (List.replicate c 0)

/-- `m[r, c] += v` -/
def addAt [Add α] [Zero α] (m : Matrix α) (r c : Nat) (v : α) : Matrix α :=
  m.set r ((m.getD r []).set c ((m.getD r []).getD c 0 + v))

/-- `jnp.where(a < 0.0, 0.0, a)` -/
def whereNeg [Zero α] [LT α] [DecidableLT α] (a : List α) : List α := a.map (fun x => if x < 0 then 0 else x)

/-- `m[:, idx]`: the selected columns of every row -/
def colsTake [Zero α] (m : List (List α)) (idx : List Nat) : List (List α) := m.map (fun r => gather r idx)

/-- `a.at[k:].set(vals)` (shapes agree: `vals` has `len(a) - k` entries) -/
def atFromSet (a : List α) (k : Nat) (vals : List α) : List α := a.take k ++ vals

/-- `jnp.array(series).sum(axis=0)`: entry-wise sum of equally long series -/
def sumAxis0 [Add α] [Zero α] (srcs : List (List α)) : List α :=
  (List.range (srcs.headD []).length).map (fun j => sumL (srcs.map (fun s => s.getD j 0)))

/-- `a.max()` of a non-empty array -/
def maxL [Zero α] [LT α] [DecidableLT α] (a : List α) : α :=
  match a with
  | [] => 0
  | x :: xs => xs.foldl (fun acc y => if acc < y then y else acc) x

/-- floating point `==` -/
def feq [LT α] [DecidableLT α] (a b : α) : Bool := !(decide (a < b)) && !(decide (b < a))

/-- `x in times` -/
def memF [LT α] [DecidableLT α] (times : List α) (x : α) : Bool := times.any (fun t => feq t x)

/-- `np.where(times == x)[0][0]` (defined when `x in times`) -/
def firstIdxEq [LT α] [DecidableLT α] (times : List α) (x : α) : Nat :=
  ((times.zipIdx.filter (fun ti => feq ti.1 x)).map (·.2)).headD 0

/-- truthiness of an optional number: not `None` and not `0` -/
def truthyOptNum [Zero α] [LT α] [DecidableLT α] (o : Option α) : Bool :=
  match o with
  | some v => !(feq v 0)
  | none => false

end
end Summer.Jax
