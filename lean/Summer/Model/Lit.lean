/-
Numeric literals over the core arithmetic classes (no `OfNat`/`NatCast` instance is assumed on the
carrier).  Used by `Summer/Generated/Arith.lean`, whose definitions are regenerated from the Python
source and must elaborate for `Rat`, `Float` and an arbitrary ordered field alike.  No Mathlib.
-/
namespace Summer

section
variable {α : Type}

/-- the natural number `n` as `0 + 1 + … + 1` -/
def natLit [Zero α] [One α] [Add α] : Nat → α
  | 0 => 0
  | n + 1 => natLit n + 1

/-- the non-negative rational literal `n / d` (`d = 1` for integers) -/
def ratLit [Zero α] [One α] [Add α] [Div α] (n d : Nat) : α :=
  if d = 1 then natLit n else natLit n / natLit d

/-- number of `true` entries (`sum(t > bounds)` on a boolean array) -/
def countTrue (bs : List Bool) : Nat := (bs.filter id).length

/-- `lax.switch(i, [b0, b1, b2], …)`: the index is clamped into range -/
def switch3 (i : Nat) (b0 b1 b2 : α) : α :=
  match i with
  | 0 => b0
  | 1 => b1
  | _ => b2

end
end Summer
