import Summer.Basic
/-
Model of the time-grid construction and the date handling of summer2:

* `summer2/utils.py`  — `Epoch.number_to_datetime`, `Epoch.datetime_to_number`, `ref_times_to_dti`;
* `summer2/model.py`  — `CompartmentalModel.__init__` (conversion of datetime start/end times, the three grid
  assertions, `np.linspace`), `_get_ref_idx` / `get_outputs_df` (labelling of the output rows).

No Mathlib.  Everything here is executable on `Rat`/`Int`.

Representation
* A Python `datetime` is an integer number of microseconds since some fixed origin (`datetime` and `timedelta` have
  exactly microsecond resolution), a `timedelta` is an integer number of microseconds.
* `unit` is `Epoch.unit` in microseconds; `dayUnit = 86 400 000 000` is the default `timedelta(1)`.  It is kept as a
  parameter; the theorems require `0 < unit`.
* Model times are exact rationals.  FLOATS ARE NOT MODELLED: Python computes `n * unit` (`timedelta.__mul__(float)`) by
  converting the float to its exact ratio and rounding the exact product to the nearest microsecond, ties to even —
  this is `toDate` with `rnd = roundHalfEven`, applied to the exact rational value of the float.
  `timedelta(t)` (`ref_times_to_dti`) rounds the same way.  `(d - ref) / unit` (`timedelta.__truediv__`) returns the
  correctly rounded double of the exact rational `toNum`; that final float rounding is not modelled.
-/
namespace Summer.Dates
open Summer

/-- one day (`timedelta(1)`, the default `Epoch.unit`) in microseconds -/
def dayUnit : Int := 86400000000

/-- `Epoch.datetime_to_number`: `(d - ref_date) / unit`, exact. -/
def toNum (ref unit : Int) (d : Int) : Rat := ((d - ref : Int) : Rat) / (unit : Rat)

/-- `Epoch.number_to_datetime` / `ref_date + timedelta(t)`: `ref_date + n * unit` where the product is rounded to a whole
number of microseconds by `rnd`. -/
def toDate (rnd : Rat → Int) (ref unit : Int) (t : Rat) : Int := ref + rnd (t * (unit : Rat))

/-- Round to nearest integer, ties to even (CPython `_divide_and_round`, used by `timedelta * float`, and the rounding of
`timedelta(days=float)`). -/
def roundHalfEven (q : Rat) : Int :=
  let f := q.floor
  let r := q - (f : Rat)
  if r < 1 / 2 then f
  else if 1 / 2 < r then f + 1
  else if f % 2 = 0 then f else f + 1

/-- The contract assumed of a rounding function `rnd : Rat → Int` (to the nearest integer, any tie rule): integers are
left alone, and the result is within `1/2` of the argument. -/
structure IsRounding (rnd : Rat → Int) : Prop where
  exact : ∀ k : Int, rnd (k : Rat) = k
  upper : ∀ q : Rat, (rnd q : Rat) - q ≤ 1 / 2
  lower : ∀ q : Rat, q - (rnd q : Rat) ≤ 1 / 2

/-- `rnd` is monotone (true of round-half-even; needed only for the monotonicity statements). -/
def IsMonotoneRounding (rnd : Rat → Int) : Prop := ∀ a b : Rat, a ≤ b → rnd a ≤ rnd b

/-- `x % 1` for a Python float: `x - floor(x)`, in `[0, 1)`. -/
def fmod1 (q : Rat) : Rat := q - (q.floor : Rat)

/-- `num_steps = 1 + time_period / timestep` -/
def numSteps (t0 t1 dt : Rat) : Rat := 1 + (t1 - t0) / dt

/-- The grid validation of `CompartmentalModel.__init__`, returning `int(num_steps)` (the number of grid points) when all
assertions pass:
`assert end_t > start_t`; `time_period / timestep` (`ZeroDivisionError` for `timestep == 0` — Lean's `x / 0 = 0` would
silently accept, hence the explicit test); `assert num_steps >= 1`; `assert num_steps % 1 == 0`; `int(num_steps)`
(truncation, which is `floor` for a number `≥ 1`). -/
def gridPoints (t0 t1 dt : Rat) : Option Nat :=
  if ¬ (t1 > t0) then none
  else if dt = 0 then none
  else
    let ns := numSteps t0 t1 dt
    if ¬ (ns ≥ 1) then none
    else if ¬ (fmod1 ns = 0) then none
    else some ns.floor.toNat

/-- number of steps `n` of an accepted grid (the grid has `n + 1` points) -/
def gridSteps (t0 t1 dt : Rat) : Option Nat := (gridPoints t0 t1 dt).map (· - 1)

/-- The rational core of the Lean driver's `wholeSteps` (`Driver/Main.lean`, which first parses three strings); the driver
passes its result to `Build.mkModel`, which separately checks `t0 < t1` and uses `nTimes = k + 1`. -/
def driverWholeSteps (t0 t1 dt : Rat) : Option Nat :=
  if dt == 0 then none else
  let q := (t1 - t0) / dt
  if q.den == 1 && q.num ≥ 0 then some q.num.toNat else none

/-- `self.times = np.linspace(start_t, end_t, num=int(num_steps))` -/
def gridTimes (t0 t1 dt : Rat) : Option (List Rat) := (gridPoints t0 t1 dt).map (linspace t0 t1)

/-- A time argument / an index label: a plain number or a datetime (microseconds). -/
inductive TimeVal where
  | num (t : Rat)
  | date (d : Int)
deriving DecidableEq, Repr

/-- The datetime branch at the head of `__init__`: if both times are datetimes they are converted through the epoch
(`TypeError` when no `ref_date` is set); two numbers are used as they are (with or without `ref_date`); a mixed pair
reaches `end_t > start_t`, which raises `TypeError` (datetime compared with a number). -/
def resolveTimes (refDate : Option Int) (unit : Int) : TimeVal → TimeVal → Option (Rat × Rat)
  | .date ds, .date de =>
      match refDate with
      | some ref => some (toNum ref unit ds, toNum ref unit de)
      | none => none
  | .num a, .num b => some (a, b)
  | _, _ => none

/-- The part of a constructed model that matters for time handling. -/
structure TimeGrid where
  refDate : Option Int
  times : List Rat
  timestep : Rat
deriving DecidableEq, Repr

/-- `CompartmentalModel.__init__`, time handling only (`none` = an exception is raised). -/
def construct (refDate : Option Int) (unit : Int) (a b : TimeVal) (dt : Rat) : Option TimeGrid :=
  match resolveTimes refDate unit a b with
  | none => none
  | some (t0, t1) =>
    match gridTimes t0 t1 dt with
    | none => none
    | some ts => some { refDate := refDate, times := ts, timestep := dt }

/-- `_get_ref_idx` (the index of `get_outputs_df` / `get_derived_outputs_df`): the numeric times when there is no
`ref_date`, else `[ref_date + timedelta(t) for t in times]`. -/
def refIdx (rnd : Rat → Int) (unit : Int) (g : TimeGrid) : List TimeVal :=
  match g.refDate with
  | none => g.times.map .num
  | some ref => g.times.map (fun t => .date (toDate rnd ref unit t))

end Summer.Dates
