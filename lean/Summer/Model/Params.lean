import Summer.Model.Run
/-
Model of `CompartmentalModel.get_input_parameters`: the parameters of the finalised model graph
(`finalize_parameters` registers: realised flow weights, initial population, population splits,
infectiousness adjustments, mixing matrices, computed values) united with those of the
derived-output tracker graph (function requests).
-/
namespace Summer.Params
open Summer Summer.Run

section
variable {α : Type}

def dedup (l : List String) : List String := l.foldl (fun acc k => if acc.contains k then acc else acc ++ [k]) []

/-- parameters of the main model graph -/
def mainParams (m : Model α) : List String :=
  dedup (
    (m.flows.flatMap (fun f => (realised f).params))
    ++ (match m.arrayPop with
        | some arr => arr.flatMap (fun e => e.params)
        | none => ((m.initDist.getD []).flatMap (fun kv => kv.2.params))
                  ++ (m.strats.flatMap (fun s => s.split.flatMap (fun kv => kv.2.params))))
    ++ (m.strats.flatMap (fun s => s.infAdj.flatMap (fun ia => ia.2.flatMap (fun sa => match sa.2 with | some a => a.expr.params | none => []))))
    ++ (m.mixingMats.flatMap (fun mat => mat.flatMap (fun row => row.flatMap (fun e => e.params))))
    ++ (m.computed.flatMap (fun kv => kv.2.params)))

/-- parameters of function-type derived outputs -/
def doParams (m : Model α) : List String :=
  dedup (m.requests.flatMap (fun r => match r.req with | .func e _ => e.params | _ => []))

def inputParams (m : Model α) : List String := dedup (mainParams m ++ doParams m)

end
end Summer.Params
