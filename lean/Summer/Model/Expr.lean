import Summer.Basic
import Summer.Model.TimeFns
/-
The expression language standing for everything summer2 accepts "wherever a number is accepted":
literals, named parameters, arithmetic on graph objects, time, compartment values, and the time
function library.  `Expr.eval` is the model of evaluating the corresponding compute-graph node.
-/
namespace Summer
open Summer.TimeFns

inductive Expr (α : Type) where
  | const : α → Expr α
  | param : String → Expr α
  | time : Expr α
  | comp : Nat → Expr α            -- `CompartmentValues[i]` (cleaned values)
  | popSum : Expr α                -- `CompartmentValues.sum()`
  | add : Expr α → Expr α → Expr α
  | sub : Expr α → Expr α → Expr α
  | mul : Expr α → Expr α → Expr α
  | div : Expr α → Expr α → Expr α
  | pw : Expr α → List (Expr α) → List (Expr α) → Expr α    -- get_piecewise_function(bps, vals, x)
  | lin : Expr α → List (Expr α) → List (Expr α) → Expr α   -- get_linear_interpolation_function(xs, ys, x)

/-- evaluation environment: parameter dictionary, current time, current (cleaned) state -/
structure Env (α : Type) where
  params : List (String × α)
  time : α
  state : List α

section
variable {α : Type} [Zero α] [Add α] [Sub α] [Mul α] [Div α] [LT α] [DecidableLT α]

mutual
def Expr.eval (env : Env α) : Expr α → Option α
  | .const c => some c
  | .param k => alookup env.params k
  | .time => some env.time
  | .comp i => if i < env.state.length then some (env.state.getD i 0) else none
  | .popSum => some (sumL env.state)
  | .add a b => do let x ← a.eval env; let y ← b.eval env; pure (x + y)
  | .sub a b => do let x ← a.eval env; let y ← b.eval env; pure (x - y)
  | .mul a b => do let x ← a.eval env; let y ← b.eval env; pure (x * y)
  | .div a b => do let x ← a.eval env; let y ← b.eval env; pure (x / y)
  | .pw x bps vals => do
      let v ← x.eval env; let b ← Expr.evalList env bps; let w ← Expr.evalList env vals
      pure (piecewiseConstant v b w)
  | .lin x xs ys => do
      let v ← x.eval env; let a ← Expr.evalList env xs; let b ← Expr.evalList env ys
      pure (interpolateLinear v a b)
def Expr.evalList (env : Env α) : List (Expr α) → Option (List α)
  | [] => some []
  | e :: es => do let v ← e.eval env; let vs ← Expr.evalList env es; pure (v :: vs)
end

end

section
variable {α : Type}

mutual
/-- parameters mentioned -/
def Expr.params : Expr α → List String
  | .const _ => [] | .param k => [k] | .time => [] | .comp _ => [] | .popSum => []
  | .add a b => a.params ++ b.params | .sub a b => a.params ++ b.params
  | .mul a b => a.params ++ b.params | .div a b => a.params ++ b.params
  | .pw x b v => x.params ++ Expr.paramsList b ++ Expr.paramsList v
  | .lin x a b => x.params ++ Expr.paramsList a ++ Expr.paramsList b
def Expr.paramsList : List (Expr α) → List String
  | [] => [] | e :: es => e.params ++ Expr.paramsList es
end

mutual
/-- does the expression depend on a `model_variables.*` node (time or state)? -/
def Expr.usesModelVars : Expr α → Bool
  | .const _ => false | .param _ => false | .time => true | .comp _ => true | .popSum => true
  | .add a b => a.usesModelVars || b.usesModelVars | .sub a b => a.usesModelVars || b.usesModelVars
  | .mul a b => a.usesModelVars || b.usesModelVars | .div a b => a.usesModelVars || b.usesModelVars
  | .pw x b v => x.usesModelVars || Expr.usesModelVarsList b || Expr.usesModelVarsList v
  | .lin x a b => x.usesModelVars || Expr.usesModelVarsList a || Expr.usesModelVarsList b
def Expr.usesModelVarsList : List (Expr α) → Bool
  | [] => false | e :: es => e.usesModelVars || Expr.usesModelVarsList es
end

mutual
def Expr.usesTime : Expr α → Bool
  | .const _ => false | .param _ => false | .time => true | .comp _ => false | .popSum => false
  | .add a b => a.usesTime || b.usesTime | .sub a b => a.usesTime || b.usesTime
  | .mul a b => a.usesTime || b.usesTime | .div a b => a.usesTime || b.usesTime
  | .pw x b v => x.usesTime || Expr.usesTimeList b || Expr.usesTimeList v
  | .lin x a b => x.usesTime || Expr.usesTimeList a || Expr.usesTimeList b
def Expr.usesTimeList : List (Expr α) → Bool
  | [] => false | e :: es => e.usesTime || Expr.usesTimeList es
end

mutual
/-- substitute the literal `v` for the parameter `p` -/
def Expr.subst (p : String) (v : α) : Expr α → Expr α
  | .const c => .const c
  | .param k => if k = p then .const v else .param k
  | .time => .time | .comp i => .comp i | .popSum => .popSum
  | .add a b => .add (a.subst p v) (b.subst p v) | .sub a b => .sub (a.subst p v) (b.subst p v)
  | .mul a b => .mul (a.subst p v) (b.subst p v) | .div a b => .div (a.subst p v) (b.subst p v)
  | .pw x b w => .pw (x.subst p v) (Expr.substList p v b) (Expr.substList p v w)
  | .lin x a b => .lin (x.subst p v) (Expr.substList p v a) (Expr.substList p v b)
def Expr.substList (p : String) (v : α) : List (Expr α) → List (Expr α)
  | [] => [] | e :: es => e.subst p v :: Expr.substList p v es
end

end

section
variable {α : Type} [Zero α] [Add α] [Sub α] [Mul α] [Div α] [LT α] [DecidableLT α]

/-- Is every parameter of `e` fixed (i.e. not dynamic), and `e` free of model variables?  Such a
node is evaluated once when the graph is frozen (`computegraph.dynamic.freeze_graph`). -/
def Expr.isStaticFor (dyn : List String) (e : Expr α) : Bool :=
  !e.usesModelVars && e.params.all (fun k => !dyn.contains k)

mutual
/-- `freeze_graph` at expression granularity: maximal sub-expressions that depend on neither a
dynamic parameter nor a model variable are replaced by their value under the fixed parameters.
If such a sub-expression cannot be evaluated (a fixed parameter is missing) it is left as it is, so
that evaluation later fails exactly as the unfrozen graph would. -/
def Expr.freeze (dyn : List String) (fixed : List (String × α)) : Expr α → Expr α
  | .const c => .const c
  | .param k => if dyn.contains k then .param k else
      match alookup fixed k with | some v => .const v | none => .param k
  | .time => .time | .comp i => .comp i | .popSum => .popSum
  | .add a b => .add (a.freeze dyn fixed) (b.freeze dyn fixed)
  | .sub a b => .sub (a.freeze dyn fixed) (b.freeze dyn fixed)
  | .mul a b => .mul (a.freeze dyn fixed) (b.freeze dyn fixed)
  | .div a b => .div (a.freeze dyn fixed) (b.freeze dyn fixed)
  | .pw x b w => .pw (x.freeze dyn fixed) (Expr.freezeList dyn fixed b) (Expr.freezeList dyn fixed w)
  | .lin x a b => .lin (x.freeze dyn fixed) (Expr.freezeList dyn fixed a) (Expr.freezeList dyn fixed b)
def Expr.freezeList (dyn : List String) (fixed : List (String × α)) : List (Expr α) → List (Expr α)
  | [] => [] | e :: es => e.freeze dyn fixed :: Expr.freezeList dyn fixed es
end

end
end Summer
