import Summer.Model.Build
/-
Model of `summer2/inspect.py`: `query_compartments` and `query_flows` (string-valued filters).
-/
namespace Summer.Query
open Summer

section
variable {α : Type}

/-- `query_compartments(model, {"name": name, **filter})` / `query_compartments(model, filter)`:
per-key predicate loop. -/
def queryCompartments (m : Model α) (name : Option String) (flt : Strata) : List Comp :=
  let base : List Comp := match name with
    | some n => m.comps.filter (fun (c : Comp) => c.name == n)
    | none => m.comps
  base.filter (fun (c : Comp) => flt.all (fun kv =>
    match alookup c.strata kv.1 with
    | some v => v == kv.2
    | none => false))

/-- `query_flows(model, flow_name, source, dest)` with strata-only `source` / `dest` filters;
returns the indices of the selected flows in model order.  A missing end never excludes a flow. -/
def queryFlows (m : Model α) (name : Option String) (ss ds : Strata) : List Nat :=
  let idx := (m.flows.zipIdx.filter (fun fi => match name with | some n => fi.1.name == n | none => true))
  let idx := if ss.length != 0 then idx.filter (fun fi => match fi.1.src with | none => true | some c => c.hasStrata ss) else idx
  let idx := if ds.length != 0 then idx.filter (fun fi => match fi.1.dst with | none => true | some c => c.hasStrata ds) else idx
  idx.map (·.2)

end
end Summer.Query
