import Summer.Model.Build
/-
Model of `summer2/inspect.py`: `query_compartments` and `query_flows` (string-valued filters).
-/
namespace Summer.Query
open Summer

section
variable {α : Type}

/-- `query_compartments(model, {"name": name, **filter})` / `query_compartments(model, filter)`:
per-key predicate loop. -/
def queryCompartments (m : Model α) (name : Option String) (flt : Strata) : List Comp :=
  let base : List Comp := match name with
    | some n => m.comps.filter (fun (c : Comp) => c.name == n)
    | none => m.comps
  base.filter (fun (c : Comp) => flt.all (fun kv =>
    match alookup c.strata kv.1 with
    | some v => v == kv.2
    | none => false))

/-- `query_flows(model, flow_name, source, dest)` with strata-only `source` / `dest` filters;
returns the indices of the selected flows in model order.  A missing end never excludes a flow. -/
def queryFlows (m : Model α) (name : Option String) (ss ds : Strata) : List Nat :=
  let idx := (m.flows.zipIdx.filter (fun fi => match name with | some n => fi.1.name == n | none => true))
  let idx := if ss.length != 0 then idx.filter (fun fi => match fi.1.src with | none => true | some c => c.hasStrata ss) else idx
  let idx := if ds.length != 0 then idx.filter (fun fi => match fi.1.dst with | none => true | some c => c.hasStrata ds) else idx
  idx.map (·.2)


/-- one end of `query_flows` (source or destination filter), after the repair recorded in `known_findings.json`: the reserved key `name`
selects on the compartment name (a flow without that end is then dropped), the remaining keys are a strata filter which a flow without
that end always passes -/
def endFilter (flt : Strata) (endOf : Flow α → Option Comp) (flows : List (Flow α × Nat)) : List (Flow α × Nat) :=
  if flt.length != 0 then
    let rest := flt.filter (fun p => p.1 != "name")
    let flows := match alookup flt "name" with
      | some n => flows.filter (fun (f : Flow α × Nat) => match endOf f.1 with | some c => c.name == n | none => false)
      | none => flows
    flows.filter (fun f => match endOf f.1 with | none => true | some c => c.hasStrata rest)
  else flows

/-- `query_flows(model, flow_name, source, dest)` where the `source` / `dest` dicts may carry the key `name` -/
def queryFlowsEnds (m : Model α) (name : Option String) (ss ds : Strata) : List Nat :=
  let flows := m.flows.zipIdx.filter (fun fi => match name with | some n => fi.1.name == n | none => true)
  (endFilter ds (fun f => f.dst) (endFilter ss (fun f => f.src) flows)).map (·.2)

end
end Summer.Query
