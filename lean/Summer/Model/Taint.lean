/-
  Taint IR for property C19 ("a runner is a traceable array program of its parameters").

  The IR is a *control skeleton* of the Python run-time functions: Python-level statements
  (`if`, `for`, `while`, nested traced functions passed to `lax.*`/`jax.*` combinators) over
  ABSTRACT expressions.  An abstract expression is an identity, the variables it reads, a
  `shape` tag telling what Python does with the values it reads, and a representation hint.

  Mathlib-free.  The file contains
    * the IR (`Ty`, `Rep`, `Shape`, `Ex`, `Stmt`),
    * an instrumented big-step semantics `exec` producing the Python-level trace `Trace`
      (branch decisions, loop trip counts, container keys indexed, values concretised,
      array shapes built, combinator bodies entered),
    * a decidable, flow-sensitive typing judgement `check Γ prog : Option Ctx`, `ok Γ prog : Bool`.
  The noninterference theorem is in `Summer/Proofs/Taint.lean` / `Summer/Props/C19.lean`.
-/
namespace Summer.Taint

abbrev Var := String

/-- A run-time value, split into what Python can see while TRACING and what only exists on the
device at run time.
* `dev`: the value is a device (jax) array / tracer;
* `sk`:  the trace-time-visible part: for a device array its shape and dtype, for a build-time
         Python/NumPy value or a container the whole value / the keys, length and leaf shapes;
* `dat`: the part which Python can not see while tracing (the numbers inside a traced array). -/
structure Val where
  dev : Bool
  sk : Int
  dat : Int
deriving DecidableEq, Repr

/-- the trace-time-visible part of a value -/
def Val.vis (v : Val) : Bool × Int := (v.dev, v.sk)

/-- Python truthiness of a (concrete) value -/
def Val.truth (v : Val) : Bool := v.sk != 0 || v.dat != 0

abbrev Env := Var → Val

def upd (ρ : Env) (x : Var) (v : Val) : Env := fun y => if y = x then v else ρ y

/-- Abstract value classes.
* `S` build-time Python value (numbers, strings, objects, containers of those);
* `N` build-time NumPy array (same rules as `S`; kept apart for documentation);
* `J` device array without run-time dependence;
* `D` run-time dependent device array (a tracer under `jit`);
* `C` build-time container whose leaves may be `D` (keys, length, iteration static);
* `T` run-time dependent value of unknown representation (top). -/
inductive Ty | S | N | J | D | C | T
deriving DecidableEq, Repr

/-- run-time dependent: only the trace-time-visible part is the same for all parameter values -/
def Ty.isDyn : Ty → Bool
  | .D | .C | .T => true
  | _ => false

/-- known to be a device array: may be indexed with a run-time index (a gather) -/
def Ty.isDev : Ty → Bool
  | .J | .D => true
  | _ => false

/-- information order: `N ≤ S`, `J ≤ S`, `J ≤ D`, `S ≤ C`, `C ≤ T`, `D ≤ T` (reflexive, transitive) -/
def Ty.le : Ty → Ty → Bool
  | .N, .N | .N, .S | .N, .C | .N, .T => true
  | .J, .J | .J, .S | .J, .D | .J, .C | .J, .T => true
  | .S, .S | .S, .C | .S, .T => true
  | .D, .D | .D, .T => true
  | .C, .C | .C, .T => true
  | .T, .T => true
  | _, _ => false

def Ty.join : Ty → Ty → Ty
  | .N, .N => .N
  | .J, .J => .J
  | .D, .D | .D, .J | .J, .D => .D
  | .N, .S | .S, .N | .S, .S | .N, .J | .J, .N | .J, .S | .S, .J => .S
  | .C, .C | .C, .S | .S, .C | .C, .N | .N, .C | .C, .J | .J, .C => .C
  | _, _ => .T

/-- representation hint of the result of an expression (trusted classification of API names by
the translator): `dev` = a `jnp`/`lax` result, `like vs` = a device array as soon as one of `vs`
is one (arithmetic, comparison, method call on / component of an array), `py`/`np`/`cont` =
Python value, NumPy array, Python container (tuple/list/dict literal). -/
inductive Rep
  | py | np | dev | cont
  | like (vs : List Var)
deriving DecidableEq, Repr

/-- what Python does with the values an expression reads -/
inductive Shape
  /-- arithmetic / array operation: Python never looks at the data -/
  | pure
  /-- `len(v)`, `v.shape`, `v.dtype`, `isinstance`, `is None`, `jnp.iscomplexobj`: depends only
  on the trace-time-visible part; the result is a build-time value -/
  | staticOf
  /-- `int()`, `float()`, `bool()`, `.item()`, `.tolist()`, `range(v)`, `np.*(v)`, `not v`,
  `a and b`, `a in b`: Python needs the concrete value of everything read -/
  | concretize
  /-- an array constructor whose SHAPE is given by the variables `args`
  (`jnp.zeros(n)`, `jnp.empty((a, b))`, `jnp.arange(n)`, `.reshape(s)`, `jnp.linspace(.., num)`) -/
  | shapeArg (args : List Var)
  /-- `base[idx]` / `base.at[idx]`: a gather when `base` is a device array, a Python-level
  container / NumPy lookup (the key is observable) otherwise -/
  | index (base : Var) (idx : List Var)
  /-- a fresh tracer: formal parameter of a function traced by a combinator; always run-time
  dependent, its visible part (shape) is determined by the visible part of the operands read -/
  | tracer
  /-- a construct the translator could not classify: always rejected -/
  | unknown
deriving DecidableEq, Repr

structure Ex where
  id : Nat
  reads : List Var
  shape : Shape := .pure
  rep : Rep := .py
deriving DecidableEq, Repr

inductive Stmt
  | skip
  | assign (x : Var) (e : Ex)
  | seq (a b : Stmt)
  /-- Python `if` -/
  | ite (c : Ex) (a b : Stmt)
  /-- Python `for x in it` (also comprehensions and generator arguments) -/
  | forS (x : Var) (it : Ex) (body : Stmt)
  /-- Python `while` -/
  | whileS (c : Ex) (body : Stmt)
  | ret (e : Ex)
  /-- a function traced by the combinator `k` (`lax.cond/switch/while_loop/scan/fori_loop`,
  `jax.vmap/jit`): its body is run ONCE by Python with the formal parameters bound to fresh
  tracers; its local variables do not escape. -/
  | hof (k : String) (params : List (Var × Ex)) (body : Stmt)
  /-- untranslatable construct: always rejected -/
  | unknown (what : String)
deriving Repr

/-! ### Instrumented semantics -/

/-- Python-level events -/
inductive Ev
  | branch (b : Bool)             -- decision of an `if` / `while` test
  | trip (n : Nat)                -- trip count of a `for`
  | key (e : Nat) (vs : List Val) -- key used to index a Python container / NumPy array
  | conc (e : Nat) (vs : List Val) -- values concretised
  | shp (e : Nat) (vs : List Val) -- shape arguments of an array constructor
  | enter (k : String)            -- a combinator traces a nested function
  | outOfFuel
  | stuck (what : String)
deriving DecidableEq, Repr

abbrev Trace := List Ev

/-- the variables whose CONCRETE value Python inspects when it evaluates `e` in `ρ` -/
def crit (e : Ex) (ρ : Env) : List Var :=
  match e.shape with
  | .pure | .staticOf | .tracer => []
  | .concretize | .unknown => e.reads
  | .shapeArg args => args
  | .index base idx => if (ρ base).dev then [] else idx

/-- events of the evaluation of an expression -/
def evE (e : Ex) (ρ : Env) : Trace :=
  match e.shape with
  | .pure | .staticOf | .tracer => []
  | .concretize => [.conc e.id (e.reads.map ρ)]
  | .unknown => [.stuck "expr", .conc e.id (e.reads.map ρ)]
  | .shapeArg args => [.shp e.id (args.map ρ)]
  | .index base idx => if (ρ base).dev then [] else [.key e.id (idx.map ρ)]

/-- does the representation hint promise a device array in `ρ`? -/
def repDev (r : Rep) (ρ : Env) : Bool :=
  match r with
  | .dev => true
  | .like vs => vs.any (fun v => (ρ v).dev)
  | _ => false

/-- pointwise relation on lists -/
inductive All₂ {α : Type} (R : α → α → Prop) : List α → List α → Prop
  | nil : All₂ R [] []
  | cons {a b l l'} : R a b → All₂ R l l' → All₂ R (a :: l) (b :: l')

/-- An interpretation of the abstract expressions.  The laws are what the translator's
abstraction of a Python expression claims about it:
* `val_reads`: the value only depends on the variables read;
* `val_vis`: the trace-time-visible part of the result (shape, dtype, "is a device array", keys)
  only depends on the visible parts of the variables read, PROVIDED the variables whose concrete
  value Python inspects (`crit`) agree -- this is JAX's abstract evaluation (shape inference);
* `val_meta`: `len`, `.shape`, ... only depend on visible parts;
* `val_dev`: the representation hint is right.
`list` is the sequence of elements when the expression is iterated by Python. -/
structure Interp where
  val : Ex → Env → Val
  list : Ex → Env → List Val
  val_reads : ∀ e ρ ρ', (∀ v ∈ e.reads, ρ v = ρ' v) → val e ρ = val e ρ'
  val_vis : ∀ e ρ ρ', (∀ v ∈ e.reads, (ρ v).vis = (ρ' v).vis) → (∀ v ∈ crit e ρ, ρ v = ρ' v) →
      (val e ρ).vis = (val e ρ').vis
  val_meta : ∀ e ρ ρ', e.shape = .staticOf → (∀ v ∈ e.reads, (ρ v).vis = (ρ' v).vis) →
      val e ρ = val e ρ'
  val_dev : ∀ e ρ, repDev e.rep ρ = true → (val e ρ).dev = true
  list_reads : ∀ e ρ ρ', (∀ v ∈ e.reads, ρ v = ρ' v) → list e ρ = list e ρ'
  list_vis : ∀ e ρ ρ', (∀ v ∈ e.reads, (ρ v).vis = (ρ' v).vis) → (∀ v ∈ crit e ρ, ρ v = ρ' v) →
      All₂ (fun a b => a.vis = b.vis) (list e ρ) (list e ρ')
  list_meta : ∀ e ρ ρ', e.shape = .staticOf → (∀ v ∈ e.reads, (ρ v).vis = (ρ' v).vis) →
      list e ρ = list e ρ'
  list_dev : ∀ e ρ, repDev e.rep ρ = true → ∀ v ∈ list e ρ, v.dev = true

/-- Python `while`: `test` gives the decision and the events of the test -/
def whileAux (test : Env → Bool × Trace) (step : Env → Env × Trace) : Nat → Env → Env × Trace
  | 0, ρ => (ρ, [.outOfFuel])
  | n + 1, ρ =>
    let t := test ρ
    if t.1 then
      let r := step ρ
      let r' := whileAux test step n r.1
      (r'.1, t.2 ++ .branch true :: (r.2 ++ r'.2))
    else (ρ, t.2 ++ [.branch false])

/-- bind the formal parameters of a traced function to fresh tracers -/
def bindParams (I : Interp) : List (Var × Ex) → Env → Env × Trace
  | [], ρ => (ρ, [])
  | (x, e) :: ps, ρ =>
    let r := bindParams I ps (upd ρ x (I.val e ρ))
    (r.1, evE e ρ ++ r.2)

/-- Instrumented big-step semantics: final environment and Python-level trace.
`fuel` bounds the number of iterations of each Python `while`. -/
def exec (I : Interp) (fuel : Nat) : Stmt → Env → Env × Trace
  | .skip, ρ => (ρ, [])
  | .assign x e, ρ => (upd ρ x (I.val e ρ), evE e ρ)
  | .seq a b, ρ =>
    let r := exec I fuel a ρ
    let r' := exec I fuel b r.1
    (r'.1, r.2 ++ r'.2)
  | .ite c a b, ρ =>
    if (I.val c ρ).truth then
      let r := exec I fuel a ρ
      (r.1, evE c ρ ++ .branch true :: r.2)
    else
      let r := exec I fuel b ρ
      (r.1, evE c ρ ++ .branch false :: r.2)
  | .forS x it body, ρ =>
    let vs := I.list it ρ
    let r := vs.foldl (fun (acc : Env × Trace) v =>
      let r := exec I fuel body (upd acc.1 x v)
      (r.1, acc.2 ++ r.2)) (ρ, [])
    (r.1, evE it ρ ++ .trip vs.length :: r.2)
  | .whileS c body, ρ =>
    whileAux (fun ρ => ((I.val c ρ).truth, evE c ρ)) (fun ρ => exec I fuel body ρ) fuel ρ
  | .ret e, ρ => (ρ, evE e ρ)
  | .hof k ps body, ρ =>
    let r0 := bindParams I ps ρ
    let r := exec I fuel body r0.1
    (ρ, .enter k :: (r0.2 ++ r.2))
  | .unknown w, ρ => (ρ, [.stuck w])

/-! ### Typing -/

/-- typing context: association list, the first binding wins; unbound variables are `T` -/
abbrev Ctx := List (Var × Ty)

def lookup (x : Var) : Ctx → Option Ty
  | [] => none
  | (k, t) :: Γ => if x = k then some t else lookup x Γ

def Ctx.get (Γ : Ctx) (x : Var) : Ty :=
  match lookup x Γ with
  | some t => t
  | none => .T

def Ctx.set (Γ : Ctx) (x : Var) (t : Ty) : Ctx := (x, t) :: Γ.filter (fun p => !(p.1 == x))

def Ctx.keys (Γ : Ctx) : List Var := Γ.map (·.1)

/-- pointwise join.  A variable unbound in `Γ₁` is `T` there, hence `T` in the join: it suffices
to keep the bindings of `Γ₁`. -/
def Ctx.join (Γ₁ Γ₂ : Ctx) : Ctx :=
  Γ₁.map (fun p => (p.1, p.2.join (Γ₂.get p.1)))

/-- `Γ₁ ≤ Γ₂` pointwise.  A variable unbound in `Γ₂` is `T` there (the top class): it suffices
to look at the bindings of `Γ₂`. -/
def Ctx.leB (Γ₁ Γ₂ : Ctx) : Bool :=
  Γ₂.all (fun p => (Γ₁.get p.1).le p.2)

def static (Γ : Ctx) (v : Var) : Bool := !(Γ.get v).isDyn

/-- the variables whose concrete value Python inspects, decided from the classes -/
def critΓ (Γ : Ctx) (e : Ex) : List Var :=
  match e.shape with
  | .pure | .staticOf | .tracer => []
  | .concretize | .unknown => e.reads
  | .shapeArg args => args
  | .index base idx => if (Γ.get base).isDev then [] else idx

/-- expression well-formedness: every value Python inspects is build-time -/
def okE (Γ : Ctx) (e : Ex) : Bool :=
  e.shape != .unknown && (critΓ Γ e).all (static Γ)

def dynE (Γ : Ctx) (e : Ex) : Bool :=
  match e.shape with
  | .staticOf | .concretize => false
  | .tracer => true
  | _ => e.reads.any (fun v => (Γ.get v).isDyn)

def devR (Γ : Ctx) (r : Rep) : Bool :=
  match r with
  | .dev => true
  | .like vs => vs.any (fun v => (Γ.get v).isDev)
  | _ => false

def mkTy (dyn dev : Bool) (r : Rep) : Ty :=
  match dyn, dev with
  | true, true => .D
  | false, true => .J
  | true, false => if r = .cont then .C else .T
  | false, false => if r = .np then .N else .S

def tyE (Γ : Ctx) (e : Ex) : Ty := mkTy (dynE Γ e) (devR Γ e.rep) e.rep

/-- class of a formal parameter of a traced function: always run-time dependent -/
def tyParam (Γ : Ctx) (e : Ex) : Ty := mkTy true (devR Γ e.rep) e.rep

/-- loop invariant by Kleene iteration: the least context above `Γ` stable under `step`
(`none` if a step is rejected or no fixpoint is reached within the fuel) -/
def loopInv (step : Ctx → Option Ctx) : Nat → Ctx → Option Ctx
  | 0, _ => none
  | n + 1, Γ =>
    match step Γ with
    | none => none
    | some Γ' => if Γ'.leB Γ then some Γ else loopInv step n (Γ.join Γ')

def checkParams (Γ : Ctx) : List (Var × Ex) → Option Ctx
  | [] => some Γ
  | (x, e) :: ps => if okE Γ e then checkParams (Γ.set x (tyParam Γ e)) ps else none

/-- number of Kleene iterations tried for a loop invariant (the lattice has height 3) -/
def invFuel : Nat := 8

/-- Flow-sensitive typing judgement: `check Γ s = some Γ'` means that `s` is well-tainted in
`Γ` and leaves the variables in classes `Γ'`.
Rejected: an `if`/`while` test, a `for` iterable's inspected values, a concretised value, an
array-shape argument, or an index into a non-device base that is run-time dependent. -/
def check : Ctx → Stmt → Option Ctx
  | Γ, .skip => some Γ
  | Γ, .assign x e => if okE Γ e then some (Γ.set x (tyE Γ e)) else none
  | Γ, .seq a b =>
    match check Γ a with
    | some Γ' => check Γ' b
    | none => none
  | Γ, .ite c a b =>
    if okE Γ c && !(tyE Γ c).isDyn then
      match check Γ a, check Γ b with
      | some A, some B => some (A.join B)
      | _, _ => none
    else none
  | Γ, .forS x it body =>
    if okE Γ it then
      loopInv (fun G => check (G.set x (tyE Γ it)) body) invFuel Γ
    else none
  | Γ, .whileS c body =>
    loopInv (fun G => if okE G c && !(tyE G c).isDyn then check G body else none) invFuel Γ
  | Γ, .ret e => if okE Γ e then some Γ else none
  | Γ, .hof _ ps body =>
    match checkParams Γ ps with
    | some G => if (check G body).isSome then some Γ else none
    | none => none
  | _, .unknown _ => none

def ok (Γ : Ctx) (s : Stmt) : Bool := (check Γ s).isSome

/-! ### Diagnostics (not used by the theorems): why a statement is rejected -/

def dynReads (Γ : Ctx) (vs : List Var) : List Var := vs.filter (fun v => (Γ.get v).isDyn)

def whyE (Γ : Ctx) (what : String) (e : Ex) : List String :=
  if okE Γ e then []
  else if e.shape == .unknown then [what ++ " expr " ++ toString e.id ++ ": untranslatable expression"]
  else [what ++ " expr " ++ toString e.id ++ ": Python inspects run-time values " ++
        toString (dynReads Γ (critΓ Γ e))]

def whyTest (Γ : Ctx) (what : String) (c : Ex) : List String :=
  whyE Γ what c ++
  (if (tyE Γ c).isDyn then
    [what ++ " test " ++ toString c.id ++ " depends on run-time values " ++ toString (dynReads Γ c.reads)]
   else [])

def diagParams (Γ : Ctx) : List (Var × Ex) → List String × Ctx
  | [] => ([], Γ)
  | (x, e) :: ps =>
    let r := diagParams (Γ.set x (tyParam Γ e)) ps
    (whyE Γ "param" e ++ r.1, r.2)

/-- expression ids are `line * 1000 + k` in generated skeletons -/
def diag : Ctx → Stmt → List String × Ctx
  | Γ, .skip => ([], Γ)
  | Γ, .assign x e => (whyE Γ "assign" e, Γ.set x (tyE Γ e))
  | Γ, .seq a b =>
    let r := diag Γ a
    let r' := diag r.2 b
    (r.1 ++ r'.1, r'.2)
  | Γ, .ite c a b =>
    let ra := diag Γ a
    let rb := diag Γ b
    (whyTest Γ "if" c ++ ra.1 ++ rb.1, ra.2.join rb.2)
  | Γ, .forS x it body =>
    let t := tyE Γ it
    match loopInv (fun G => some (diag (G.set x t) body).2) invFuel Γ with
    | some Γi => (whyE Γ "for" it ++ (diag (Γi.set x t) body).1, Γi)
    | none => (["for " ++ toString it.id ++ ": no loop invariant"], Γ)
  | Γ, .whileS c body =>
    match loopInv (fun G => some (diag G body).2) invFuel Γ with
    | some Γi => (whyTest Γi "while" c ++ (diag Γi body).1, Γi)
    | none => (["while " ++ toString c.id ++ ": no loop invariant"], Γ)
  | Γ, .ret e => (whyE Γ "return" e, Γ)
  | Γ, .hof k ps body =>
    let r := diagParams Γ ps
    ((r.1 ++ (diag r.2 body).1).map (fun m => k ++ " / " ++ m), Γ)
  | Γ, .unknown w => (["untranslatable: " ++ w], Γ)

end Summer.Taint
