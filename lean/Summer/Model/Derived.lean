import Summer.Model.Run
/-
Model of `runner/jax/derived_outputs.py` and of `get_flows_for_outputs` / `run_model`'s derived
output stage in `model_impl.py`.  A series is a `List α` with one entry per model time.
-/
namespace Summer.Derived
open Summer Summer.Run

section
variable {α : Type} [Zero α] [One α] [Add α] [Sub α] [Mul α] [Div α] [LT α] [DecidableLT α]

/-- `build_flow_output`: indices of the matching flows (note: the filter is applied even when it is
empty, via `has_strata({})`) -/
def flowIndices (m : Model α) (name : String) (ss ds : Strata) : List Nat :=
  idxWhere m.flows (fun f => f.name == name
    && (match f.src with | none => true | some c => c.hasStrata ss)
    && (match f.dst with | none => true | some c => c.hasStrata ds))

/-- `build_compartment_output`: indices of the selected compartments -/
def compIndices (m : Model α) (names : List String) (strata : Strata) : List Nat :=
  idxWhere m.comps (fun c => c.hasNameIn names && c.isMatch c.name strata)

/-- column sum over selected indices, per row -/
def sumCols (rows : List (List α)) (idx : List Nat) : List α := rows.map (fun r => sumL (gather r idx))

/-- non-raw flow output: first value unchanged, then midpoints of consecutive raw values -/
def midpoint (vals : List α) : List α :=
  match vals with
  | [] => []
  | v0 :: rest => v0 :: List.zipWith (fun a b => (a + b) * ((1 : α) / two)) rest vals

/-- cumulative output from `startIdx` (zero before it) -/
def cumFrom (startIdx : Nat) (src : List α) : List α :=
  List.replicate (min startIdx src.length) 0 ++ cumsum (src.drop startIdx)

/-- element-wise sum of several series (`jnp.array(sources).sum(axis=0)`) -/
def aggSeries (n : Nat) (srcs : List (List α)) : List α :=
  srcs.foldl vadd (List.replicate n 0)

/-- everything the derived-output stage reads -/
structure RunData (α : Type) where
  times : List α
  outputs : List (List α)      -- rows = times
  flows : List (List α)        -- rows = times, raw flow rates at (outputs[i], times[i])
  computed : List (String × List α)
  params : List (String × α)

/-- value of one request given the already computed earlier requests.  A function output is an
expression over parameters whose `comp i` leaves denote its `i`-th source series (evaluated
pointwise, as array arithmetic does). -/
def evalRequest (m : Model α) (d : RunData α) (done : List (String × List α)) : Request α → Option (List α)
  | .flow name ss ds raw =>
      let vals := sumCols d.flows (flowIndices m name ss ds)
      some (if raw then vals else midpoint vals)
  | .comp names strata => some (sumCols d.outputs (compIndices m names strata))
  | .agg sources => do
      let srcs ← sources.mapM (alookup done)
      pure (aggSeries d.times.length srcs)
  | .cum source start => do
      let src ← alookup done source
      match start with
      | none => pure (cumsum src)
      | some st =>
        -- the code clamps a start time beyond the last time to the last time, then requires membership
        let st' := match d.times.getLast? with
          | some tmax => if (st < 0 || 0 < st) && tmax < st then tmax else st
          | none => st
        match (idxWhere d.times (fun t => !(decide (t < st')) && !(decide (st' < t)))).head? with
        | some i => pure (cumFrom i src)
        | none => none
  | .func e sources => do
      let srcs ← sources.mapM (alookup done)
      (List.range d.times.length).mapM (fun i =>
        e.eval ⟨d.params, d.times.getD i 0, srcs.map (fun s => s.getD i 0)⟩)
  | .cv name => alookup d.computed name

/-- evaluate all requests in declaration order (a topological order, since sources must exist when
a request is made) -/
def evalAll (m : Model α) (d : RunData α) (reqs : List (ReqEntry α)) : Option (List (String × List α)) :=
  reqs.foldlM (fun (done : List (String × List α)) r => do
    let v ← evalRequest m d done r.req
    pure (done ++ [(r.name, v)])) []

/-- direct dependencies of a request -/
def deps : Request α → List String
  | .agg s => s | .cum s _ => [s] | .func _ s => s | _ => []

/-- `cg.filter(targets=whitelist)`: the whitelisted requests and all their ancestors.  Requests are
in dependency order, so one backwards pass suffices. -/
def neededSet (reqs : List (ReqEntry α)) (targets : List String) : List String :=
  reqs.reverse.foldl (fun need r => if need.contains r.name then need ++ deps r.req else need) targets

/-- what `calc_derived_outputs` returns: the saved requests, or exactly the whitelist when one is set -/
def derivedOutputs (m : Model α) (d : RunData α) : Option (List (String × List α)) :=
  if m.whitelist.length == 0 then do
    let all ← evalAll m d m.requests
    pure (all.filter (fun kv => m.requests.any (fun r => r.name == kv.1 && r.save)))
  else do
    let need := neededSet m.requests m.whitelist
    let all ← evalAll m d (m.requests.filter (fun r => need.contains r.name))
    m.whitelist.mapM (fun k => do let v ← alookup all k; pure (k, v))

/-- `get_flows_for_outputs`: row `i` is the flow-rate vector at `(outputs[i], times[i])` -/
def flowsForOutputs (m : Model α) (b : Backend) (params : List (String × α)) (times : List α)
    (outputs : List (List α)) : Option (List (List α) × List (String × List α)) := do
  let rows ← (times.zip outputs).mapM (fun ty => do
    let s ← step m b params ty.1 ty.2
    let cvs ← m.computed.mapM (fun kv => kv.2.eval ⟨params, ty.1, cleanV ty.2⟩)
    pure (s.flowRates, cvs))
  let cvSeries := m.computed.zipIdx.map (fun kv => (kv.1.1, rows.map (fun r => r.2.getD kv.2 0)))
  pure (rows.map (·.1), cvSeries)

end
end Summer.Derived
