import Summer.Model.Derived
/-
The closure `run_model(parameters)` that `model_impl.py::build_run_model` returns, as one function of the model: initial population, the
solver's trajectory of the model's right-hand side over the model's time grid, the flow rows of that trajectory, the derived outputs.  The
solver (`get_ode_solution`, chosen by `build_run_model`'s dispatch; modelled in `Model/Solvers.lean`) is a parameter.  No Mathlib.
-/
namespace Summer.Pipeline
open Summer Summer.Run Summer.Derived

section
variable {α : Type} [Zero α] [One α] [Add α] [Sub α] [Mul α] [Div α] [NatCast α] [LT α] [DecidableLT α]

/-- `model.times = np.linspace(start, end, num)` -/
def modelTimes (m : Model α) : List α := linspace m.t0 m.t1 m.nTimes

/-- `get_comp_rates` as the solvers see it: the right-hand side (`0` where it is undefined, i.e. where a parameter is missing — the
pipeline checks definedness at the initial state before solving) -/
def fieldFn (m : Model α) (b : Backend) (params : List (String × α)) : List α → α → List α :=
  fun x t => (rhs m b params x t).getD (List.replicate m.comps.length 0)

/-- `run_model(parameters)`: `doBase` is `do_base_params` (the derived-output parameters captured when the runner was built),
`params` the parameters of this call; the derived outputs are evaluated under `do_base_params` updated with `parameters` -/
def runModel (m : Model α) (b : Backend) (solve : (List α → α → List α) → List α → List α → List (List α))
    (doBase params : List (String × α)) : Option (List (List α) × List (String × List α)) := do
  let x0 ← initialPopulation m params
  let times := modelTimes m
  let _ ← step m b params (times.getD 0 0) x0
  let outputs := solve (fieldFn m b params) x0 times
  let (flows, cvs) ← flowsForOutputs m b params times outputs
  let doFull := params ++ doBase
  let d : RunData α := { times := times, outputs := outputs, flows := flows, computed := cvs, params := doFull }
  let dout ← derivedOutputs m d
  pure (outputs, dout)

end
end Summer.Pipeline
