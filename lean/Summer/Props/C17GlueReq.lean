import Summer.Props.C17Glue
/-
C06 / C08 / C14 / C17 — the derived-output request methods and the population setters of `CompartmentalModel` are what the SOURCE TEXT of
`summer2/model.py` says (continuation of `C17Glue.lean`; kept in a module of its own so that a change to the text of one of THESE methods
breaks this obligation and not the ones about flow-adding and stratification).
-/
set_option linter.unusedSectionVars false
set_option linter.unusedSimpArgs false
set_option linter.unusedVariables false
namespace Summer.Props.C17Glue
open Summer Summer.Build Summer.Generated Summer.Generated.Glue Summer.Props.C17Source

section
variable {α : Type} [Zero α] [One α] [Add α] [Sub α] [Mul α] [Div α] [NatCast α] [LT α] [DecidableLT α]

/-! ### derived-output requests -/

/-- the public method a request entry stands for -/
def glueRequest (m : Model α) (e : ReqEntry α) : Res (Model α) :=
  match e.req with
  | .flow fname ss ds raw => request_output_for_flow m e.name fname (some ss) (some ds) e.save raw
  | .comp names strata => request_output_for_compartments m e.name names (some strata) e.save
  | .agg sources => request_aggregate_output m e.name sources e.save
  | .cum source start => request_cumulative_output m e.name source start e.save
  | .func f sources => request_function_output m e.name f sources e.save
  | .cv n => if n == e.name then request_computed_value_output m e.name e.save else addRequest m e

theorem forM_guard_all {β : Type} (P : β → Bool) (m1 m2 : String) :
    ∀ (l : List β), erase (l.forM (fun x => guardE (P x) m1)) = erase (guardE (l.all P) m2)
  | [] => rfl
  | x :: xs => by
    rw [List.forM_eq_forM, List.forM_cons, ← List.forM_eq_forM]
    cases hp : P x with
    | false => simp only [List.all_cons, hp, Bool.false_and]; rfl
    | true =>
      simp only [List.all_cons, hp, Bool.true_and]
      exact forM_guard_all P m1 m2 xs

/-- every `request_*` method adds the request `Build.addRequest` adds and refuses exactly what it refuses (finalised model, name already
requested, no matching flow / compartment, a source that has not been requested) -/
theorem request_eq (m : Model α) (e : ReqEntry α) : erase (glueRequest m e) = erase (addRequest m e) := by
  obtain ⟨name, req, save⟩ := e
  cases req with
  | flow fname ss ds raw =>
    simp only [glueRequest, addRequest, request_output_for_flow, _assert_not_finalized, hasRequest, Option.getD_some]
    refine erase_guard_bind _ _ _ (fun _ => ?_)
    refine erase_guard_bind _ _ _ (fun _ => ?_)
    exact erase_guard_bind _ _ _ (fun _ => rfl)
  | comp names strata =>
    simp only [glueRequest, addRequest, request_output_for_compartments, _assert_not_finalized, hasRequest, Option.getD_some]
    refine erase_guard_bind _ _ _ (fun _ => ?_)
    refine erase_guard_bind _ _ _ (fun _ => ?_)
    exact erase_guard_bind _ _ _ (fun _ => rfl)
  | agg sources =>
    simp only [glueRequest, addRequest, request_aggregate_output, _assert_not_finalized]
    refine erase_guard_bind _ _ _ (fun _ => ?_)
    refine erase_guard_bind _ _ _ (fun _ => ?_)
    exact erase_bind_congr (forM_guard_all _ _ _ _) (fun _ => rfl)
  | cum source start =>
    simp only [glueRequest, addRequest, request_cumulative_output, _assert_not_finalized, hasRequest]
    refine erase_guard_bind _ _ _ (fun _ => ?_)
    refine erase_guard_bind _ _ _ (fun _ => ?_)
    exact erase_guard_bind _ _ _ (fun _ => rfl)
  | func f sources =>
    simp only [glueRequest, addRequest, request_function_output, _assert_not_finalized]
    refine erase_guard_bind _ _ _ (fun _ => ?_)
    refine erase_guard_bind _ _ _ (fun _ => ?_)
    exact erase_bind_congr (forM_guard_all _ _ _ _) (fun _ => rfl)
  | cv n =>
    simp only [glueRequest]
    by_cases h : (n == name) = true
    · simp only [h, if_true, addRequest, request_computed_value_output, _assert_not_finalized, hasRequest]
      have hn : n = name := by simpa using h
      subst hn
      refine erase_guard_bind _ _ _ (fun _ => ?_)
      exact erase_guard_bind _ _ _ (fun _ => rfl)
    · simp only [h, if_false]
      rfl

theorem add_computed_value_eq (m : Model α) (name : String) (f : Expr α) :
    erase (add_computed_value_func m name f) = erase (addComputedValue m name f) := by
  unfold add_computed_value_func addComputedValue
  exact if_fail_eq_guard _ _ _ _

/-! ### initial population -/

theorem init_population_with_graphobject_eq (m : Model α) (arr : List (Expr α)) :
    erase (init_population_with_graphobject m arr) = erase (initPopArray m arr) := by
  unfold init_population_with_graphobject initPopArray _assert_not_finalized
  exact erase_guard_bind _ _ _ (fun _ => rfl)

theorem fill_fold_eq (names : List String) : ∀ (dist : List (String × Expr α)),
    names.foldl (fun (acc : List (String × Expr α)) comp => if !acc.any (fun kv => kv.1 == comp) then acc ++ [(comp, Expr.const (0 : α))] else acc) dist
      = names.foldl (fun acc c => if acc.any (fun kv => kv.1 == c) then acc else acc ++ [(c, Expr.const (0 : α))]) dist := by
  induction names with
  | nil => intro dist; rfl
  | cons n rest ih =>
    intro dist
    simp only [List.foldl_cons]
    cases h : dist.any (fun kv => kv.1 == n) with
    | true => simp only [Bool.not_true, Bool.false_eq_true, if_false, if_true]; exact ih dist
    | false => simp only [Bool.not_false, if_true, Bool.false_eq_true, if_false]; exact ih _

/-- `set_initial_population` (default `force=False`) -/
theorem set_initial_population_eq (m : Model α) (isDict : Bool) (dist : List (String × Expr α)) :
    erase (set_initial_population m isDict dist) = erase (setInitialPopulation m isDict dist) := by
  unfold set_initial_population setInitialPopulation _assert_not_finalized
  refine erase_guard_bind _ _ _ (fun _ => ?_)
  refine erase_guard_bind _ _ _ (fun _ => ?_)
  refine erase_guard_bind _ _ _ (fun _ => ?_)
  refine erase_bind_congr (forM_guard_all _ _ _ _) (fun _ => ?_)
  simp only [fill_fold_eq]

theorem erase_guard_and {γ : Type} (a b : Bool) (m1 m2 m3 : String) (k : Res γ) :
    erase (guardE (a && b) m1 >>= fun _ => k) = erase (guardE a m2 >>= fun _ => guardE b m3 >>= fun _ => k) := by
  cases a <;> cases b <;> rfl

/-- `adjust_population_split`, when the external closeness test `np.testing.assert_allclose(sum, 1.0)` on literal proportions answers as the
hand model's two-sided comparison with tolerance `1 / rebalTolDen` does -/
theorem adjust_population_split_eq (m : Model α) (rebalTolDen : Nat) (r : Rebalance α) :
    erase (adjust_population_split m r.strat r.destFilter r.props
      (((r.props.filterMap (fun kv => Expr.isConst kv.2)).length == r.props.length) &&
        (decide (sumL (r.props.filterMap (fun kv => Expr.isConst kv.2)) - 1 < (1 : α) / (rebalTolDen : α))
          && decide ((1 : α) - sumL (r.props.filterMap (fun kv => Expr.isConst kv.2)) < (1 : α) / (rebalTolDen : α)))))
      = erase (adjustPopulationSplit m rebalTolDen r) := by
  unfold adjust_population_split adjustPopulationSplit _assert_not_finalized
  refine erase_guard_bind _ _ _ (fun _ => ?_)
  rw [List.head?_filter]
  cases hf : m.strats.find? (fun s => s.name == r.strat) with
  | none =>
    simp only []
    cases (m.strats.map (fun s => s.name)).contains r.strat <;> rfl
  | some s =>
    have hc : (m.strats.map (fun s => s.name)).contains r.strat = true := by
      have hmem := List.mem_of_find?_eq_some hf
      have hname : s.name = r.strat := by simpa using List.find?_some hf
      exact List.contains_iff_mem.mpr (List.mem_map.mpr ⟨s, hmem, hname⟩)
    simp only [hc, guardE, if_true, pure_bind]
    show erase (guardE _ _ >>= fun _ => guardE _ _ >>= fun _ => _) = erase (guardE _ _ >>= fun _ => _)
    refine erase_guard_bind _ _ _ (fun _ => ?_)
    exact erase_guard_and _ _ _ _ _ _

end

#print axioms request_eq
#print axioms add_computed_value_eq
#print axioms set_initial_population_eq
#print axioms init_population_with_graphobject_eq
#print axioms adjust_population_split_eq

end Summer.Props.C17Glue
