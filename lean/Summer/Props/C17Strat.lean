import Summer.Generated.StratApi
import Summer.Props.C17Glue
/-
C04 / C06 / C17 — the `Stratification` constructor and setters are what the SOURCE TEXT of `summer2/stratification.py` says.

`Generated/StratApi.lean` (regenerated on every run; emitted only when every statement of `Stratification.__init__`, `AgeStratification.__init__`,
`set_population_split`, `validate_population_split`, `set_flow_adjustments`, `add_infectiousness_adjustments` and `set_mixing_matrix` is the
expected text, and the subclasses override nothing else) renders each method as a function on the stratification object.  `build_strat` is
the call sequence `Build.mkStrat` stands for (constructor, then the setters in the order of the `StratSpec`); `build_strat_eq` shows it
returns the same object and refuses exactly the same specifications — missing or extra strata in a split / adjustment, negative proportions,
a literal split that does not sum to one within the tolerance, a second infectiousness adjustment for one compartment, a mixing matrix on a
strain stratification, age strata that are not integers or do not start at 0 (the C17 defects `split_omits`, `split_negative`, `split_sum`,
`flow_adj_omits`, `inf_adj_omits`, `mixing_strain`).
-/
set_option linter.unusedSectionVars false
set_option linter.unusedSimpArgs false
set_option linter.unusedVariables false
namespace Summer.Props.C17Strat
open Summer Summer.Build Summer.Generated Summer.Generated.StratApi Summer.Props.C17Source Summer.Props.C17Glue

section
variable {α : Type} [Zero α] [One α] [Add α] [Sub α] [Mul α] [Div α] [NatCast α] [LT α] [DecidableLT α]

/-- the calls a `StratSpec` stands for, in order -/
def build_strat (sp : StratSpec α) : Res (Strat α) := do
  let s0 ← (if sp.kind == .age then age_strat_init sp.name sp.strata sp.comps else strat_init sp.kind sp.name sp.strata sp.comps)
  let s1 ← (match sp.split with
    | none => pure s0
    | some p => set_population_split s0 p)
  let s2 ← sp.flowAdj.foldlM (fun (s : Strat α) d => set_flow_adjustments s d.flow d.adjs (some d.srcStrata) (some d.dstStrata)) s1
  let s3 ← sp.infAdj.foldlM (fun (s : Strat α) ia => add_infectiousness_adjustments s ia.1 ia.2) s2
  match sp.mixing with
  | none => pure s3
  | some m => set_mixing_matrix s3 m

theorem set_flow_adjustments_step (s : Strat α) (d : FlowAdjDecl α) :
    set_flow_adjustments s d.flow d.adjs (some d.srcStrata) (some d.dstStrata)
      = if sameSet (d.adjs.map (·.1)) s.strata then pure { s with flowAdj := s.flowAdj ++ [d] }
        else fail "You must specify all strata when adding flow adjustments." := by
  unfold set_flow_adjustments
  cases sameSet (d.adjs.map (·.1)) s.strata <;> rfl

/-- the flow-adjustment declarations: accepted iff every one names exactly the strata; the object then carries them in call order -/
theorem flowadj_fold (l : List (FlowAdjDecl α)) : ∀ (s : Strat α),
    erase (l.foldlM (fun (s : Strat α) d => set_flow_adjustments s d.flow d.adjs (some d.srcStrata) (some d.dstStrata)) s)
      = if l.all (fun d => sameSet (d.adjs.map (·.1)) s.strata) then some { s with flowAdj := s.flowAdj ++ l } else none := by
  induction l with
  | nil => intro s; simp [erase, pure, Except.pure]
  | cons d rest ih =>
    intro s
    rw [List.foldlM_cons, set_flow_adjustments_step, List.all_cons]
    cases hd : sameSet (d.adjs.map (·.1)) s.strata with
    | false => rfl
    | true =>
      simp only [if_true, pure_bind, Bool.true_and]
      rw [ih]
      simp only [List.append_assoc, List.singleton_append]

/-- the hand model's loop over the declarations -/
theorem flowadj_forIn (l : List (FlowAdjDecl α)) (strata : List String) :
    erase (forIn l PUnit.unit (fun d (_ : PUnit) => do
        guardE (sameSet (d.adjs.map (·.1)) strata) "flow adjustments must specify all strata"
        pure (ForInStep.yield PUnit.unit)))
      = if l.all (fun d => sameSet (d.adjs.map (·.1)) strata) then some PUnit.unit else none := by
  induction l with
  | nil => rfl
  | cons d rest ih =>
    simp only [List.forIn_cons, List.all_cons, bind_assoc, pure_bind]
    by_cases hd : sameSet (d.adjs.map (·.1)) strata = true
    · simp only [hd, guardE, if_true, pure_bind, Bool.true_and]
      exact ih
    · have hd' : sameSet (d.adjs.map (·.1)) strata = false := by simpa using hd
      simp only [hd', guardE, Bool.false_and, Bool.false_eq_true, if_false]
      rfl

/-- acceptance of the infectiousness adjustments given the compartment names already used -/
def infOk (strata : List String) : List String → List (String × List (String × Option (Adj α))) → Bool
  | _, [] => true
  | seen, ia :: rest => sameSet (ia.2.map (·.1)) strata && !seen.contains ia.1 && infOk strata (ia.1 :: seen) rest

theorem infadj_hand (strata : List String) (l : List (String × List (String × Option (Adj α)))) : ∀ (seen : List String),
    (erase (l.foldlM (fun (seen : List String) (ia : String × List (String × Option (Adj α))) => do
        guardE (sameSet (ia.2.map (·.1)) strata) "infectiousness adjustments must specify all strata"
        guardE (!seen.contains ia.1) "duplicate infectiousness adjustment"
        pure (ia.1 :: seen)) seen)).isSome = infOk strata seen l := by
  induction l with
  | nil => intro seen; rfl
  | cons ia rest ih =>
    intro seen
    simp only [List.foldlM_cons, infOk]
    cases h1 : sameSet (ia.2.map (·.1)) strata with
    | false => rfl
    | true =>
      cases h2 : seen.contains ia.1 with
      | true => rfl
      | false =>
        simp only [guardE, Bool.not_false, if_true, pure_bind, Bool.true_and, Bool.and_true]
        exact ih (ia.1 :: seen)

theorem add_inf_step (s : Strat α) (ia : String × List (String × Option (Adj α))) :
    add_infectiousness_adjustments s ia.1 ia.2
      = if sameSet (ia.2.map (·.1)) s.strata && !s.infAdj.any (fun x => x.1 == ia.1) then pure { s with infAdj := s.infAdj ++ [ia] }
        else if sameSet (ia.2.map (·.1)) s.strata then fail "An infectiousness adjustment for this compartment already exists"
        else fail "You must specify all strata when adding infectiousness adjustments." := by
  unfold add_infectiousness_adjustments
  cases sameSet (ia.2.map (·.1)) s.strata <;> cases s.infAdj.any (fun x => x.1 == ia.1) <;> rfl

theorem infadj_fold (l : List (String × List (String × Option (Adj α)))) : ∀ (s : Strat α) (seen : List String),
    (∀ n, seen.contains n = s.infAdj.any (fun ia => ia.1 == n)) →
    erase (l.foldlM (fun (s : Strat α) ia => add_infectiousness_adjustments s ia.1 ia.2) s)
      = if infOk s.strata seen l then some { s with infAdj := s.infAdj ++ l } else none := by
  induction l with
  | nil => intro s seen _; simp [erase, pure, Except.pure, infOk]
  | cons ia rest ih =>
    intro s seen hseen
    rw [List.foldlM_cons, add_inf_step, infOk, hseen ia.1]
    cases h1 : sameSet (ia.2.map (·.1)) s.strata with
    | false => rfl
    | true =>
      cases h2 : s.infAdj.any (fun x => x.1 == ia.1) with
      | true => rfl
      | false =>
        simp only [Bool.not_false, Bool.and_self, if_true, pure_bind, Bool.true_and]
        rw [ih _ (ia.1 :: seen)]
        · simp only [List.append_assoc, List.singleton_append]
        · intro n
          simp only [List.contains_cons, List.any_append, List.any_cons, List.any_nil, Bool.or_false, hseen n]
          rw [Bool.or_comm]
          congr 1
          cases h1 : (n == ia.1) <;> cases h2 : (ia.1 == n) <;> simp_all

theorem erase_isSome_bind {β γ : Type} (a : Res β) (k : Res γ) :
    erase (a >>= fun _ => k) = if (erase a).isSome then erase k else none := by
  cases a <;> rfl

theorem erase_bind {β γ : Type} (a : Res β) (f : β → Res γ) : erase (a >>= f) = (erase a).bind (fun v => erase (f v)) := by
  cases a <;> rfl

theorem erase_guard (c : Bool) (msg : String) : erase (guardE c msg) = if c then some () else none := by
  cases c <;> rfl

/-- the strata the constructor ends up with (`AgeStratification` sorts them numerically) -/
def strataPhase (sp : StratSpec α) : Res (List String) :=
  if sp.kind == .age then do
    let ints ← sp.strata.mapM (fun s => match s.toInt? with | some i => pure i | none => (fail "age strata must be int-compatible" : Res Int))
    let sorted := sortInts ints
    guardE (sorted.head? == some 0) "first age stratum must be 0"
    pure (sorted.map toString)
  else pure sp.strata

theorem init_phase (sp : StratSpec α) :
    erase (if sp.kind == .age then age_strat_init sp.name sp.strata sp.comps else strat_init sp.kind sp.name sp.strata sp.comps)
      = (erase (strataPhase sp)).bind (fun strata => erase (strat_init (α := α) sp.kind sp.name strata sp.comps)) := by
  unfold strataPhase
  by_cases hk : (sp.kind == StratKind.age) = true
  · have hkind : sp.kind = StratKind.age := by simpa using hk
    simp only [hkind, beq_self_eq_true, if_true, age_strat_init, erase_bind, erase_guard, erase_pure]
    cases (sp.strata.mapM (fun s => match s.toInt? with | some i => pure i | none => (fail "age strata must be int-compatible" : Res Int))) with
    | error e => rfl
    | ok ints =>
      simp only [erase_ok, Option.bind_some]
      cases (sortInts ints).head? == some 0 <;> rfl
  · have hk' : (sp.kind == StratKind.age) = false := by simpa using hk
    simp only [hk', Bool.false_eq_true, if_false, erase_pure, Option.bind_some]

/-- the object right after the constructor -/
def S0 (sp : StratSpec α) (strata : List String) : Strat α :=
  { kind := sp.kind, name := sp.name, strata := strata, comps := sp.comps,
    split := strata.foldl (fun acc s => dictSet acc s (.const ((1 : α) / (strata.length : α)))) [],
    flowAdj := [], infAdj := [], mixing := none }

theorem strat_init_eq (sp : StratSpec α) (strata : List String) :
    erase (strat_init (α := α) sp.kind sp.name strata sp.comps) = if strata.length != 0 then some (S0 sp strata) else none := by
  unfold strat_init S0
  by_cases h : (strata.length != 0) = true
  · simp +zetaHave only [h, guardE, if_true, pure_bind]
    rfl
  · have h' : (strata.length != 0) = false := by simpa using h
    simp +zetaHave only [h', guardE, Bool.false_eq_true, if_false]
    rfl

/-- the split phase of `mkStrat` -/
def splitPhase (sp : StratSpec α) (strata : List String) : Res (List (String × Expr α)) :=
  match sp.split with
  | none => pure (strata.foldl (fun acc s => dictSet acc s (.const ((1 : α) / (strata.length : α)))) [])
  | some props => do
      let lits := props.filterMap (fun kv => Expr.isConst kv.2)
      if lits.length == props.length then
        guardE (sameSet (props.map (·.1)) strata) "population split must specify all strata"
        guardE (lits.all (fun v => !(decide (v < 0)))) "population split proportions must be >= 0"
        let s := sumL lits
        let tol : α := (1 : α) / (splitTolDen : α)
        guardE (decide ((1 : α) - s < tol) && decide (s - 1 < tol)) "population split must sum to 1"
      pure props

theorem split_phase (sp : StratSpec α) (strata : List String) :
    erase (match sp.split with
      | none => pure (S0 sp strata)
      | some p => set_population_split (S0 sp strata) p)
      = (erase (splitPhase sp strata)).map (fun split => { S0 sp strata with split := split }) := by
  unfold splitPhase
  cases sp.split with
  | none => rfl
  | some p =>
    simp only [set_population_split, validate_population_split]
    by_cases hl : ((p.filterMap (fun kv => Expr.isConst kv.2)).length == p.length) = true
    · simp only [hl, if_true, erase_bind, erase_guard, erase_pure, S0]
      by_cases h1 : sameSet (p.map (·.1)) strata = true
      · by_cases h2 : (p.filterMap (fun kv => Expr.isConst kv.2)).all (fun v => !(decide (v < 0))) = true
        · by_cases h3 : (decide ((1 : α) - sumL (p.filterMap (fun kv => Expr.isConst kv.2)) < (1 : α) / (splitTolDen : α))
              && decide (sumL (p.filterMap (fun kv => Expr.isConst kv.2)) - 1 < (1 : α) / (splitTolDen : α))) = true
          · simp only [h1, h2, h3, if_true, Option.bind_some, Option.map_some]
          · simp [h1, h2, h3]
        · simp [h1, h2]
      · simp [h1]
    · have hl' : ((p.filterMap (fun kv => Expr.isConst kv.2)).length == p.length) = false := by simpa using hl
      simp only [hl', Bool.false_eq_true, if_false]
      rfl

/-- `Stratification(...)` followed by its setters returns the object of `Build.mkStrat` and raises for exactly the same specifications -/
theorem build_strat_eq (sp : StratSpec α) : erase (build_strat sp) = erase (mkStrat sp) := by
  have hm : mkStrat sp = (strataPhase sp >>= fun strata => do
      guardE (strata.length != 0) "no strata (division by zero)"
      let split ← splitPhase sp strata
      for d in sp.flowAdj do
        guardE (sameSet (d.adjs.map (·.1)) strata) "flow adjustments must specify all strata"
      let _ ← sp.infAdj.foldlM (fun (seen : List String) (ia : String × List (String × Option (Adj α))) => do
          guardE (sameSet (ia.2.map (·.1)) strata) "infectiousness adjustments must specify all strata"
          guardE (!seen.contains ia.1) "duplicate infectiousness adjustment"
          pure (ia.1 :: seen)) []
      guardE (!(sp.mixing.isSome && sp.kind == .strain)) "strain stratifications cannot have a mixing matrix"
      pure ({ kind := sp.kind, name := sp.name, strata := strata, comps := sp.comps, split := split,
              flowAdj := sp.flowAdj, infAdj := sp.infAdj, mixing := sp.mixing } : Strat α)) := rfl
  rw [hm]
  unfold build_strat
  rw [erase_bind, init_phase, erase_bind (strataPhase sp)]
  cases erase (strataPhase sp) with
  | none => rfl
  | some strata =>
    simp only [Option.bind_some]
    rw [strat_init_eq, erase_bind, erase_guard]
    by_cases hlen : (strata.length != 0) = true
    · simp only [hlen, if_true, Option.bind_some]
      rw [erase_bind, split_phase, erase_bind (splitPhase sp strata)]
      cases erase (splitPhase sp strata) with
      | none => rfl
      | some split =>
        simp only [Option.map_some, Option.bind_some]
        rw [erase_bind, flowadj_fold, erase_bind, flowadj_forIn]
        by_cases hfa : sp.flowAdj.all (fun d => sameSet (d.adjs.map (·.1)) strata) = true
        · simp only [S0, hfa, if_true, Option.bind_some, List.nil_append]
          rw [erase_bind, infadj_fold _ _ [] (fun n => rfl), erase_isSome_bind, infadj_hand]
          by_cases hia : infOk strata [] sp.infAdj = true
          · simp only [hia, if_true, Option.bind_some, List.nil_append]
            cases hmx : sp.mixing with
            | none => rfl
            | some mat =>
              simp only [set_mixing_matrix, Strat.isStrain, Option.isSome_some, Bool.true_and, erase_bind, erase_guard, erase_pure]
          · have hia' : infOk strata [] sp.infAdj = false := by simpa using hia
            simp only [hia', Bool.false_eq_true, if_false, Option.bind_none]
        · have hfa' : sp.flowAdj.all (fun d => sameSet (d.adjs.map (·.1)) strata) = false := by simpa using hfa
          simp only [S0, hfa', Bool.false_eq_true, if_false, Option.bind_none]
    · have hlen' : (strata.length != 0) = false := by simpa using hlen
      simp only [hlen', Bool.false_eq_true, if_false, Option.bind_none]

end

#print axioms build_strat_eq

end Summer.Props.C17Strat
