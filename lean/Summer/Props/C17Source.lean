import Summer.Generated.Glue
import Summer.Proofs.ListLemmas
/-
C04 / C13 / C17 — the private flow-adding methods of `CompartmentalModel` are what the SOURCE TEXT of `summer2/model.py` says.

`Summer/Generated/Glue.lean` is regenerated from `/repo` on every run (`harness/translate/gen_rates.py`, section "model.py glue"): the
statements of `_assert_not_finalized`, `_validate_expected_flow_count`, `_add_entry_flow`, `_add_exit_flow` and `_add_transition_flow` are
checked against the expected source text and emitted as statement-aligned Lean definitions (a loop that appends is a `foldl` that appends,
`x or {}` on an optional dict is `getD []`, `self.flows += new_flows` returns the extended model).  The theorems below identify them with
`Build.addEntry`, `Build.addExit`, `Build.addTransitionCore` — the definitions the C04 (`flows_after_stratify`, `add_after_*`), C13
(`getMatching_eq`) and C17 (`rejects_unequal_src_dst`, `rejects_expected_count`, `finalised`) theorems are about: which compartments a new
flow is created for, in which order, that the finalisation guard comes first, that unequal numbers of sources and destinations and an unmet
expected count are refused.
-/
set_option linter.unusedSectionVars false
set_option linter.unusedSimpArgs false
namespace Summer.Props.C17Source
open Summer Summer.Build Summer.Generated.Glue

section
variable {α : Type}

theorem foldl_append_singleton_map {β γ : Type} (l : List β) (g : β → γ) (init : List γ) :
    l.foldl (fun acc x => acc ++ [g x]) init = init ++ l.map g := by
  induction l generalizing init with
  | nil => simp
  | cons x xs ih => simp [List.foldl_cons, ih]

theorem validate_expected_eq (expected : Option Nat) (new_flows : List (Flow α)) :
    _validate_expected_flow_count expected new_flows = checkExpected expected new_flows.length := by
  cases expected with
  | none => rfl
  | some e =>
    simp only [_validate_expected_flow_count, checkExpected]
    congr 1
    cases h1 : (new_flows.length == e) <;> cases h2 : (e == new_flows.length) <;> simp_all

/-- `_add_entry_flow` -/
theorem add_entry_flow_eq (m : Model α) (kind : FlowKind) (name : String) (param : Expr α) (dest : String)
    (dest_strata : Option Strata) (expected : Option Nat) (adjs : List (Adj α)) :
    _add_entry_flow m kind name param dest dest_strata expected adjs
      = addEntry m kind name param dest (dest_strata.getD []) expected adjs := by
  unfold _add_entry_flow addEntry _assert_not_finalized
  simp only [foldl_append_singleton_map, List.nil_append, validate_expected_eq, List.length_map]

/-- `_add_exit_flow` -/
theorem add_exit_flow_eq (m : Model α) (kind : FlowKind) (name : String) (param : Expr α) (source : String)
    (source_strata : Option Strata) (expected : Option Nat) :
    _add_exit_flow m kind name param source source_strata expected
      = addExit m kind name param source (source_strata.getD []) expected := by
  unfold _add_exit_flow addExit _assert_not_finalized
  simp only [foldl_append_singleton_map, List.nil_append, validate_expected_eq, List.length_map]

/-- which definitions raise, whatever the message -/
def erase {β : Type} (r : Res β) : Option β :=
  match r with
  | .ok v => some v
  | .error _ => none

/-- `_add_transition_flow`: the same model, and it raises on exactly the same inputs (finalised model, unknown destination or source
compartment, unequal numbers of sources and destinations, unmet expected count — in this order) -/
theorem add_transition_flow_eq (m : Model α) (kind : FlowKind) (name : String) (param : Expr α) (source dest : String)
    (source_strata dest_strata : Option Strata) (expected : Option Nat) :
    erase (_add_transition_flow m kind name param source dest source_strata dest_strata expected)
      = erase (addTransitionCore m kind name param source dest (source_strata.getD []) (dest_strata.getD []) expected) := by
  unfold _add_transition_flow addTransitionCore _assert_not_finalized get_matching_compartments
  simp only [foldl_append_singleton_map, List.nil_append, validate_expected_eq, List.length_map]
  cases hf : m.finalized
  · cases hd : m.origNames.contains dest
    · simp [guardE, fail, erase, bind, Except.bind, pure, Except.pure, hf, hd]
    · cases hs : m.origNames.contains source
      · simp [guardE, fail, erase, bind, Except.bind, pure, Except.pure, hf, hd, hs]
      · cases hl : ((getMatching m dest (dest_strata.getD [])).length == (getMatching m source (source_strata.getD [])).length)
        · simp [guardE, fail, erase, bind, Except.bind, pure, Except.pure, hf, hd, hs, hl]
        · simp only [guardE, fail, bind, Except.bind, pure, Except.pure, hf, hd, hs, hl, Bool.not_false, if_true]
  · simp [guardE, fail, erase, bind, Except.bind, pure, Except.pure, hf]

end

#print axioms validate_expected_eq
#print axioms add_entry_flow_eq
#print axioms add_exit_flow_eq
#print axioms add_transition_flow_eq

end Summer.Props.C17Source
