import Summer.Proofs.Derived
/-
C08 — each derived output equals its definition applied to the solved trajectory.

Model: `Summer.Derived` (`evalRequest`, `evalAll`, `derivedOutputs`, `flowsForOutputs`).
Specification: `Summer/Spec/Derived.lean` (`compOutputAt`, `flowOutputAt`, `midpointAt`, `aggAt`,
`cumAt`, `funcEnv`, `SourcesAre`, `DistinctNames`, `RunData.WF`), written from the documentation of the
`request_*` methods and independent of the index lists the runner builds.

All theorems hold for every model, any number of times / compartments / flows / requests, every
strata filter, over an arbitrary ordered field — in fact over any field carrying a linear order (the
compatibility of the order with the arithmetic, `IsStrictOrderedRing`, is never needed, so it is not
assumed; every ordered field, e.g. `Rat`, is an instance).
-/
namespace Summer.C08
open Summer Summer.Run Summer.Derived Summer.Spec Summer.Proofs Summer.Proofs.DerivedL

variable {α : Type} [Field α] [LinearOrder α]

/-! ## 1. per-kind definitions -/

/-- Compartment output: one entry per output row; entry `i` is the sum, over the compartments of the
model whose name is requested and whose strata contain the filter, of that compartment's value in
output row `i`.  Never fails; no hypotheses. -/
theorem comp (m : Model α) (d : RunData α) (done : List (String × List α)) (names : List String)
    (flt : Strata) :
    ∃ s, evalRequest m d done (.comp names flt) = some s ∧ s.length = d.outputs.length ∧
      ∀ i, i < d.outputs.length → s.getD i 0 = compOutputAt m names flt (d.outputs.getD i []) :=
  ⟨_, evalRequest_comp m d done names flt, sumCols_length _ _,
    fun i hi => sumCols_comp_getD m d.outputs names flt i hi⟩

/-- Raw flow output: entry `i` is the sum of the rates (row `i` of the flow-rate table) of the flows
with the requested name whose source (if any) satisfies the source filter and whose destination (if
any) satisfies the destination filter.  Never fails; no hypotheses. -/
theorem flow_raw (m : Model α) (d : RunData α) (done : List (String × List α)) (name : String)
    (ss ds : Strata) :
    ∃ s, evalRequest m d done (.flow name ss ds true) = some s ∧ s.length = d.flows.length ∧
      ∀ i, i < d.flows.length → s.getD i 0 = flowOutputAt m name ss ds (d.flows.getD i []) :=
  ⟨_, evalRequest_flow m d done name ss ds true, sumCols_length _ _,
    fun i hi => sumCols_flow_getD m d.flows name ss ds i hi⟩

/-- Non-raw flow output: same length as the raw output; the first value is the raw value, every later
value is the mean of the raw value and its predecessor. -/
theorem flow_midpoint (m : Model α) (d : RunData α) (done : List (String × List α)) (name : String)
    (ss ds : Strata) :
    ∃ raw s, evalRequest m d done (.flow name ss ds true) = some raw ∧
      evalRequest m d done (.flow name ss ds false) = some s ∧
      s.length = raw.length ∧ s.getD 0 0 = raw.getD 0 0 ∧
      (∀ i, i + 1 < raw.length → s.getD (i + 1) 0 = (raw.getD (i + 1) 0 + raw.getD i 0) * (1 / 2)) ∧
      ∀ i, i < raw.length → s.getD i 0 = midpointAt raw i := by
  refine ⟨_, _, evalRequest_flow m d done name ss ds true, evalRequest_flow m d done name ss ds false,
    midpoint_length _, midpoint_getD_zero _, fun i hi => ?_, fun i hi => midpoint_getD _ i hi⟩
  simp only [Bool.false_eq_true, if_false, if_true] at hi ⊢
  rw [midpoint_getD_succ _ i hi, two, one_add_one_eq_two]

/-- Aggregate output: when the named sources are found among the earlier results (`SourcesAre`) and
have one entry per time, entry `i` is the sum of the sources' `i`-th entries. -/
theorem agg (m : Model α) (d : RunData α) (done : List (String × List α)) (sources : List String)
    (srcs : List (List α)) (hsrc : SourcesAre done sources srcs)
    (hlen : ∀ s ∈ srcs, s.length = d.times.length) :
    ∃ s, evalRequest m d done (.agg sources) = some s ∧ s.length = d.times.length ∧
      ∀ i, i < d.times.length → s.getD i 0 = aggAt srcs i := by
  refine ⟨aggSeries d.times.length srcs, ?_, (aggSeries_spec _ srcs hlen).1, (aggSeries_spec _ srcs hlen).2⟩
  rw [evalRequest_agg, (sourcesAre_iff done sources srcs).2 hsrc]; rfl

/-- Cumulative output without a start time: the running sum of the source. -/
theorem cum (m : Model α) (d : RunData α) (done : List (String × List α)) (source : String) (src : List α)
    (hsrc : alookup done source = some src) :
    ∃ s, evalRequest m d done (.cum source none) = some s ∧ s.length = src.length ∧
      ∀ i, i < src.length → s.getD i 0 = sumFromTo src 0 i := by
  refine ⟨cumsum src, ?_, cumsum_length src, fun i hi => cumsum_getD src i hi⟩
  rw [evalRequest_cum_none, hsrc]; rfl

/-- Cumulative output with a start time that is the `k`-th model time (times strictly increasing):
zero before index `k`, the running sum from index `k` afterwards (`cumAt`). -/
theorem cum_start (m : Model α) (d : RunData α) (done : List (String × List α)) (source : String)
    (src : List α) (hsrc : alookup done source = some src) (hsorted : d.times.Pairwise (· < ·))
    (k : Nat) (hk : k < d.times.length) (st : α) (hst : d.times[k] = st) :
    ∃ s, evalRequest m d done (.cum source (some st)) = some s ∧ s.length = src.length ∧
      (∀ i, i < src.length → s.getD i 0 = cumAt src k i) ∧
      (∀ i, i < src.length → i < k → s.getD i 0 = 0) ∧
      (∀ i, i < src.length → k ≤ i → s.getD i 0 = sumFromTo src k i) := by
  have hget : ∀ i, i < src.length → (cumFrom k src).getD i 0 = cumAt src k i :=
    fun i hi => cumFrom_getD k src i hi
  refine ⟨cumFrom k src, ?_, cumFrom_length k src, hget, fun i hi hik => ?_, fun i hi hik => ?_⟩
  · rw [evalRequest_cum_some, hsrc, Option.bind_some]
    have he : effStart d.times st = st := by
      apply effStart_of_le
      intro tmax hl ⟨_, hlt⟩
      have := le_last_of_sorted d.times hsorted tmax hl k hk
      rw [hst] at this
      exact absurd hlt (not_lt.2 this)
    rw [he, ← hst, startIdx_of_sorted d.times hsorted k hk]; rfl
  · rw [hget i hi, cumAt, if_pos hik]
  · rw [hget i hi, cumAt, if_neg (by omega)]

/-- A non-zero start time beyond the last model time is replaced by the last model time. -/
theorem cum_clamped (m : Model α) (d : RunData α) (done : List (String × List α)) (source : String)
    (st tmax : α) (hlast : d.times.getLast? = some tmax) (hnz : st ≠ 0) (hgt : tmax < st) :
    evalRequest m d done (.cum source (some st)) = evalRequest m d done (.cum source (some tmax)) := by
  rw [evalRequest_cum_some, evalRequest_cum_some, effStart_clamp d.times st tmax hlast hnz hgt,
    effStart_of_le d.times tmax (fun t ht => by
      rw [hlast] at ht; cases ht; exact fun h => absurd h.2 (lt_irrefl _))]

/-- consequently (times strictly increasing) only the last entry accumulates -/
theorem cum_clamped_values (m : Model α) (d : RunData α) (done : List (String × List α)) (source : String)
    (src : List α) (hsrc : alookup done source = some src) (hsorted : d.times.Pairwise (· < ·))
    (st tmax : α) (hlast : d.times.getLast? = some tmax) (hnz : st ≠ 0) (hgt : tmax < st) :
    ∃ s, evalRequest m d done (.cum source (some st)) = some s ∧ s.length = src.length ∧
      ∀ i, i < src.length → s.getD i 0 = cumAt src (d.times.length - 1) i := by
  rw [cum_clamped m d done source st tmax hlast hnz hgt]
  have hne : d.times ≠ [] := by intro h; simp [h] at hlast
  have hpos : 0 < d.times.length := List.length_pos_iff.2 hne
  have hk : d.times.length - 1 < d.times.length := by omega
  have hst : d.times[d.times.length - 1] = tmax := by
    rw [List.getLast?_eq_getElem?, List.getElem?_eq_getElem hk] at hlast
    exact Option.some.inj hlast
  obtain ⟨s, h1, h2, h3, _⟩ := cum_start m d done source src hsrc hsorted _ hk tmax hst
  exact ⟨s, h1, h2, h3⟩

/-- A start time that is not a model time (and is not clamped) makes the request undefined (the code
raises `AssertionError`); so does a missing source. -/
theorem cum_not_time (m : Model α) (d : RunData α) (done : List (String × List α)) (source : String)
    (st : α) (hnot : st ∉ d.times)
    (hnc : ∀ tmax, d.times.getLast? = some tmax → ¬ (st ≠ 0 ∧ tmax < st)) :
    evalRequest m d done (.cum source (some st)) = none := by
  rw [evalRequest_cum_some, effStart_of_le d.times st hnc, startIdx_none d.times st hnot]
  cases alookup done source <;> rfl

/-- Function output: given its sources, the request is defined exactly when the expression can be
evaluated at every time, and entry `i` is the value of the expression in the environment
`time := times[i]`, `state := [src₀[i], src₁[i], …]`, `params := d.params`. -/
theorem func (m : Model α) (d : RunData α) (done : List (String × List α)) (e : Expr α)
    (sources : List String) (srcs : List (List α)) (hsrc : SourcesAre done sources srcs) (s : List α) :
    evalRequest m d done (.func e sources) = some s ↔
      s.length = d.times.length ∧
        ∀ i, i < d.times.length → e.eval (funcEnv d srcs i) = some (s.getD i 0) := by
  rw [evalRequest_func, (sourcesAre_iff done sources srcs).2 hsrc, Option.bind_some, mapM_some_iff]
  simp only [List.length_range, List.getElem_range]
  constructor
  · rintro ⟨h1, h2⟩
    exact ⟨h1, fun i hi => by rw [h2 i hi (by omega), getD_eq_getElem]⟩
  · rintro ⟨h1, h2⟩
    exact ⟨h1, fun i hi hi' => by rw [h2 i hi, getD_eq_getElem]⟩

/-- Computed-value output: the series recorded for that computed value. -/
theorem cv (m : Model α) (d : RunData α) (done : List (String × List α)) (name : String) :
    evalRequest m d done (.cv name) = alookup d.computed name :=
  evalRequest_cv m d done name

/-- Every derived series has one entry per model time, provided the trajectory tables do
(`RunData.WF`) and the earlier results do.  This discharges the length hypothesis of `agg`. -/
theorem series_length (m : Model α) (d : RunData α) (hd : RunData.WF d) (done : List (String × List α))
    (hdone : ∀ kv ∈ done, kv.2.length = d.times.length) (r : Request α) (s : List α)
    (h : evalRequest m d done r = some s) : s.length = d.times.length :=
  evalRequest_length m d hd done hdone r s h

/-! ## 2. the flow-rate and computed-value tables -/

/-- `get_flows_for_outputs`: there is one row per (time, output row) pair; row `i` is the flow-rate
vector of the model's right-hand side evaluated at the `i`-th output row and the `i`-th time; the
`j`-th computed-value series carries the name of the `j`-th computed value and its entry `i` is that
expression evaluated at `⟨params, times[i], cleanV outputs[i]⟩`. -/
theorem flow_rows (m : Model α) (b : Backend) (params : List (String × α)) (times : List α)
    (outputs rows : List (List α)) (cvs : List (String × List α))
    (h : flowsForOutputs m b params times outputs = some (rows, cvs)) :
    rows.length = min times.length outputs.length ∧
    (∀ i (ht : i < times.length) (ho : i < outputs.length),
      ∃ s, step m b params times[i] outputs[i] = some s ∧ rows.getD i [] = s.flowRates) ∧
    cvs.length = m.computed.length ∧
    (∀ j (hj : j < m.computed.length), ∃ series,
      cvs[j]? = some (m.computed[j].1, series) ∧
      series.length = min times.length outputs.length ∧
      ∀ i (ht : i < times.length) (ho : i < outputs.length),
        m.computed[j].2.eval ⟨params, times[i], cleanV outputs[i]⟩ = some (series.getD i 0)) := by
  obtain ⟨rs, h1, h2, h3⟩ := (flowsForOutputs_iff m b params times outputs (rows, cvs)).1 h
  simp only [Prod.mk.injEq] at h3
  obtain ⟨hr, hc⟩ := h3
  subst hr hc
  refine ⟨by simpa using h1, fun i ht ho => ?_, by simp, fun j hj => ?_⟩
  · have hi : i < rs.length := by omega
    obtain ⟨s, hs1, hs2, _⟩ := h2 i ht ho hi
    exact ⟨s, hs1, by simp [List.getD_eq_getElem?_getD, hi, hs2]⟩
  · refine ⟨rs.map (fun r => r.2.getD j 0), by simp [hj], by simpa using h1, fun i ht ho => ?_⟩
    have hi : i < rs.length := by omega
    obtain ⟨s, _, _, hs3⟩ := h2 i ht ho hi
    obtain ⟨hl, hv⟩ := (mapM_some_iff _ _ _).1 hs3
    have := hv j hj (by omega)
    simp only [this, List.getD_eq_getElem?_getD, List.getElem?_map, List.getElem?_eq_getElem hi,
      Option.map_some, Option.getD_some, List.getElem?_eq_getElem (show j < rs[i].2.length by omega)]

/-- conversely the tables are defined whenever every evaluation they need is -/
theorem flow_rows_defined (m : Model α) (b : Backend) (params : List (String × α)) (times : List α)
    (outputs : List (List α))
    (hstep : ∀ i (ht : i < times.length) (ho : i < outputs.length),
      (step m b params times[i] outputs[i]).isSome = true)
    (hcv : ∀ i (ht : i < times.length) (ho : i < outputs.length), ∀ kv ∈ m.computed,
      (kv.2.eval ⟨params, times[i], cleanV outputs[i]⟩).isSome = true) :
    (flowsForOutputs m b params times outputs).isSome = true := by
  rw [flowsForOutputs_eq, Option.isSome_map]
  apply mapM_isSome
  intro ty hty
  obtain ⟨i, hi, rfl⟩ := List.mem_iff_getElem.1 hty
  simp only [List.length_zip] at hi
  simp only [List.getElem_zip]
  obtain ⟨s, hs⟩ := Option.isSome_iff_exists.1 (hstep i (by omega) (by omega))
  obtain ⟨c, hc⟩ := Option.isSome_iff_exists.1
    (mapM_isSome _ m.computed (fun kv hkv => hcv i (by omega) (by omega) kv hkv))
  exact Option.isSome_iff_exists.2 ⟨(s.flowRates, c), (rowOut_some m b params _ _).2 ⟨s, hs, rfl, hc⟩⟩

/-- `flow_raw` and `flow_rows` composed: when the flow table of the run data is the one produced by
`flowsForOutputs`, entry `i` of a raw flow output is the sum over the selected flows of their rates
in the evaluation of the right-hand side at the `i`-th time and `i`-th output row. -/
theorem flow_raw_run (m : Model α) (b : Backend) (params : List (String × α)) (d : RunData α)
    (cvs : List (String × List α))
    (h : flowsForOutputs m b params d.times d.outputs = some (d.flows, cvs))
    (done : List (String × List α)) (name : String) (ss ds : Strata) :
    ∃ s, evalRequest m d done (.flow name ss ds true) = some s ∧
      s.length = min d.times.length d.outputs.length ∧
      ∀ i (ht : i < d.times.length) (ho : i < d.outputs.length),
        ∃ st, step m b params d.times[i] d.outputs[i] = some st ∧
          s.getD i 0 = flowOutputAt m name ss ds st.flowRates := by
  obtain ⟨hlen, hrow, _, _⟩ := flow_rows m b params d.times d.outputs d.flows cvs h
  obtain ⟨s, h1, h2, h3⟩ := flow_raw m d done name ss ds
  refine ⟨s, h1, by omega, fun i ht ho => ?_⟩
  obtain ⟨st, hs1, hs2⟩ := hrow i ht ho
  exact ⟨st, hs1, by rw [h3 i (by omega), hs2]⟩

/-- `cv` and `flow_rows` composed (computed-value names pairwise distinct, as dict keys are): the
output requested for the `j`-th computed value is that expression evaluated at each time and cleaned
output row. -/
theorem cv_run (m : Model α) (b : Backend) (params : List (String × α)) (d : RunData α)
    (rows : List (List α))
    (h : flowsForOutputs m b params d.times d.outputs = some (rows, d.computed))
    (hnd : (m.computed.map (·.1)).Nodup) (done : List (String × List α)) (j : Nat) (hj : j < m.computed.length) :
    ∃ s, evalRequest m d done (.cv m.computed[j].1) = some s ∧
      s.length = min d.times.length d.outputs.length ∧
      ∀ i (ht : i < d.times.length) (ho : i < d.outputs.length),
        m.computed[j].2.eval ⟨params, d.times[i], cleanV d.outputs[i]⟩ = some (s.getD i 0) := by
  obtain ⟨_, _, hlen, hcv⟩ := flow_rows m b params d.times d.outputs rows d.computed h
  obtain ⟨series, h1, h2, h3⟩ := hcv j hj
  refine ⟨series, ?_, h2, h3⟩
  have hj' : j < d.computed.length := by omega
  have hnames : d.computed.map (·.1) = m.computed.map (·.1) := by
    apply List.ext_getElem (by simp [hlen])
    intro k hk hk'
    simp only [List.length_map] at hk hk'
    obtain ⟨sk, hk1, _⟩ := hcv k hk'
    rw [List.getElem?_eq_getElem hk] at hk1
    simp only [List.getElem_map, Option.some.inj hk1]
  rw [List.getElem?_eq_getElem hj'] at h1
  have := alookup_nodup d.computed (hnames ▸ hnd) j hj'
  rw [Option.some.inj h1] at this
  rw [cv]; exact this

/-! ## 3. chaining to any depth -/

/-- `evalAll` is characterised by: one result per request, carrying the request's name, whose value
is `evalRequest` applied to the results of the EARLIER requests.  By induction on the position, every
request therefore equals its definition (section 1) applied to the values of its sources, to any
depth of chaining. -/
theorem chain (m : Model α) (d : RunData α) (reqs : List (ReqEntry α)) (all : List (String × List α)) :
    evalAll m d reqs = some all ↔
      all.length = reqs.length ∧
        ∀ k (h : k < reqs.length) (h' : k < all.length),
          all[k].1 = reqs[k].name ∧ evalRequest m d (all.take k) reqs[k].req = some all[k].2 :=
  evalAll_iff m d reqs all

/-- With pairwise distinct request names (they are dict keys in the code), looking up the name of the
`j`-th request among the results available to a later request `k` finds the `j`-th value. -/
theorem chain_lookup (m : Model α) (d : RunData α) (reqs : List (ReqEntry α)) (all : List (String × List α))
    (h : evalAll m d reqs = some all) (hnd : DistinctNames reqs) (j k : Nat) (hjk : j < k)
    (hj : j < reqs.length) (hj' : j < all.length) :
    alookup (all.take k) reqs[j].name = some all[j].2 :=
  evalAll_lookup m d reqs all h hnd j k hjk hj hj'

/-- A name that does not belong to an earlier request is not found (so a request cannot see itself
or a later request). -/
theorem chain_lookup_none (m : Model α) (d : RunData α) (reqs : List (ReqEntry α))
    (all : List (String × List α)) (h : evalAll m d reqs = some all) (k : Nat) (name : String)
    (hn : name ∉ (reqs.take k).map (·.name)) : alookup (all.take k) name = none :=
  evalAll_lookup_none m d reqs all h k name hn

/-- all results have one entry per model time -/
theorem chain_lengths (m : Model α) (d : RunData α) (hd : RunData.WF d) (reqs : List (ReqEntry α))
    (all : List (String × List α)) (h : evalAll m d reqs = some all) :
    ∀ kv ∈ all, kv.2.length = d.times.length :=
  evalAll_lengths m d hd reqs all h

/-! ## 4. what is returned -/

/-- Without a whitelist, `derivedOutputs` returns exactly the requests with `save = true`, in request
order, with the values `evalAll` computed for them (request names pairwise distinct); it is undefined
iff `evalAll` is. -/
theorem saved_only (m : Model α) (d : RunData α) (hw : m.whitelist = []) (hnd : DistinctNames m.requests) :
    derivedOutputs m d =
      (evalAll m d m.requests).map (fun all => ((m.requests.zip all).filter (fun p => p.1.save)).map (·.2)) := by
  cases h : evalAll m d m.requests with
  | none => simp [derivedOutputs, hw, h]
  | some all => rw [derivedOutputs_saved m d hw hnd all h]; rfl

/-- Without the distinctness hypothesis: the results whose name is the name of a saved request (if two
requests could share a name — impossible for dict keys — an unsaved one would be returned along with
its saved namesake, see the example at the end). -/
theorem saved_only_general (m : Model α) (d : RunData α) (hw : m.whitelist = []) :
    derivedOutputs m d =
      (evalAll m d m.requests).map (fun all =>
        all.filter (fun kv => decide (∃ r ∈ m.requests, r.name = kv.1 ∧ r.save = true))) := by
  cases h : evalAll m d m.requests with
  | none => simp [derivedOutputs, hw, h]
  | some all =>
    simp only [derivedOutputs, hw, List.length_nil, beq_self_eq_true, if_true, h, Option.bind_eq_bind,
      Option.bind_some, pure, Option.map_some, Option.some.injEq]
    apply List.filter_congr
    intro kv _
    rw [Bool.eq_iff_iff, decide_eq_true_iff, List.any_eq_true]
    simp only [Bool.and_eq_true, beq_iff_eq]

/-! ## non-vacuity: an age-stratified S/I model, three times, eleven chained requests, on `Rat` -/

section example_
def young : Strata := [("age", "young")]
def old : Strata := [("age", "old")]
def cSy : Comp := ⟨"S", young⟩
def cSo : Comp := ⟨"S", old⟩
def cIy : Comp := ⟨"I", young⟩
def cIo : Comp := ⟨"I", old⟩

def exModel : Model Rat :=
  { t0 := 0, t1 := 2, dt := 1, nTimes := 3,
    comps := [cSy, cSo, cIy, cIo], origNames := ["S", "I"], infectious := ["I"],
    flows := [
      { kind := .transition, name := "infection", src := some cSy, dst := some cIy, param := .const (1/2), adjs := [] },
      { kind := .transition, name := "infection", src := some cSo, dst := some cIo, param := .const (1/4), adjs := [] },
      { kind := .death, name := "death", src := some cIy, dst := none, param := .const (1/10), adjs := [] },
      { kind := .importF, name := "imports", src := none, dst := some cSy, param := .time, adjs := [] } ],
    strats := [], mixingCats := [[]], mixingMats := [], strains := ["default"],
    initDist := none, arrayPop := none, actions := [],
    requests := [
      ⟨"S", .comp ["S"] [], true⟩,
      ⟨"young", .comp ["S", "I"] young, false⟩,
      ⟨"inf_raw", .flow "infection" [] [] true, true⟩,
      ⟨"inf_young", .flow "infection" young [] false, true⟩,
      ⟨"into_young", .flow "imports" [] young true, false⟩,
      ⟨"total", .agg ["S", "inf_raw"], false⟩,
      ⟨"cum_inf", .cum "inf_raw" none, true⟩,
      ⟨"cum_total", .cum "total" (some 1), true⟩,
      ⟨"ratio", .func (.div (.comp 0) (.add (.comp 1) (.param "k"))) ["cum_inf", "S"], true⟩,
      ⟨"pop", .cv "tot", false⟩,
      ⟨"deep", .agg ["ratio", "cum_total", "pop"], true⟩ ],
    computed := [("tot", .popSum), ("ty", .mul .time (.comp 2))], whitelist := [],
    finalized := true }

def exBackend : Backend :=
  { nComps := 4, nFlows := 4, populationIdx := [0, 1, 2, 0], nonPopIdx := [3], crudeIdx := [], replIdx := [],
    deathIdx := [2], infFlowIdx := [], posMap := [(0, 2), (1, 3), (3, 0)], negMap := [(0, 0), (1, 1), (2, 2)],
    catIdx := [[0, 1, 2, 3]], categoryLookup := [0, 0, 0, 0], strainInfIdx := [[2, 3]],
    strainCatIdx := [[[0, 1]]], infStrainLookup := [], infCatLookup := [], procType := none }

def exTimes : List Rat := [0, 1, 2]
/-- an arbitrary trajectory (one negative entry, which `step` cleans to zero) -/
def exOutputs : List (List Rat) := [[90, 50, 10, 5], [80, 45, 18, -9], [70, 40, 25, 12]]
def exParams : List (String × Rat) := [("k", 10)]
def exFlows : List (List Rat) := [[45, 25/2, 1, 0], [40, 45/4, 9/5, 1], [35, 10, 5/2, 2]]
def exCvs : List (String × List Rat) := [("tot", [155, 143, 147]), ("ty", [0, 18, 50])]
def exData : RunData Rat := ⟨exTimes, exOutputs, exFlows, exCvs, exParams⟩
def exAll : List (String × List Rat) :=
  [("S", [140, 125, 110]), ("young", [100, 98, 95]), ("inf_raw", [115/2, 205/4, 45]),
   ("inf_young", [45, 85/2, 75/2]), ("into_young", [0, 1, 2]), ("total", [395/2, 705/4, 155]),
   ("cum_inf", [115/2, 435/4, 615/4]), ("cum_total", [0, 705/4, 1325/4]),
   ("ratio", [23/60, 29/36, 41/32]), ("pop", [155, 143, 147]), ("deep", [9323/60, 5761/18, 15345/32])]

example : prepare exModel = .ok exBackend := by rfl

/-- `flow_rows`: the hypothesis holds, and the rows are the right-hand side at `(outputs[i], times[i])` -/
example : flowsForOutputs exModel exBackend exParams exTimes exOutputs = some (exFlows, exCvs) := by
  decide +kernel
example : (exTimes.zip exOutputs).map (fun ty => (step exModel exBackend exParams ty.1 ty.2).map (·.flowRates)) =
    exFlows.map some := by decide +kernel
example : (exTimes.zip exOutputs).map (fun ty => Expr.eval ⟨exParams, ty.1, cleanV ty.2⟩ (.mul .time (.comp 2))) =
    [some 0, some 18, some 50] := by decide +kernel

example : RunData.WF exData := ⟨rfl, rfl, by decide⟩

/-- `comp`: two of the four compartments are selected by name list + strata filter -/
example : evalRequest exModel exData [] (.comp ["S", "I"] young) = some [100, 98, 95] ∧
    exOutputs.map (compOutputAt exModel ["S", "I"] young) = [100, 98, 95] := by decide +kernel
/-- `flow_raw`: both "infection" flows without filter, only the young one with a source filter, the
sourceless import flow passes any source filter -/
example : evalRequest exModel exData [] (.flow "infection" [] [] true) = some [115/2, 205/4, 45] ∧
    exFlows.map (flowOutputAt exModel "infection" [] []) = [115/2, 205/4, 45] ∧
    exFlows.map (flowOutputAt exModel "infection" young []) = [45, 40, 35] ∧
    exFlows.map (flowOutputAt exModel "imports" old young) = [0, 1, 2] ∧
    exFlows.map (flowOutputAt exModel "imports" old old) = [0, 0, 0] := by decide +kernel
/-- `flow_midpoint` -/
example : evalRequest exModel exData [] (.flow "infection" young [] false) = some [45, 85/2, 75/2] ∧
    (List.range 3).map (midpointAt [45, 40, 35]) = [45, 85/2, (75/2 : Rat)] := by decide +kernel
/-- `agg`: the sources are found, and have one entry per time -/
example : SourcesAre exAll ["S", "inf_raw"] [[140, 125, 110], [115/2, 205/4, 45]] :=
  (sourcesAre_iff _ _ _).1 (by decide +kernel)
example : evalRequest exModel exData exAll (.agg ["S", "inf_raw"]) = some [395/2, 705/4, 155] ∧
    (List.range 3).map (aggAt [[140, 125, 110], [115/2, 205/4, (45 : Rat)]]) = [395/2, 705/4, 155] := by
  decide +kernel
/-- `cum`, `cum_start` (start time `1` is the time of index `1`), `cum_clamped` (start `5 > 2`),
`cum_not_time` (start `1/2`) -/
example : exData.times.Pairwise (· < ·) := by decide +kernel
example : exData.times[1] = 1 ∧ exData.times.getLast? = some 2 ∧ (1/2 : Rat) ∉ exData.times := by decide +kernel
example : alookup exAll "total" = some [395/2, 705/4, 155] := by decide +kernel
example : evalRequest exModel exData exAll (.cum "inf_raw" none) = some [115/2, 435/4, 615/4] ∧
    evalRequest exModel exData exAll (.cum "total" (some 1)) = some [0, 705/4, 1325/4] ∧
    (List.range 3).map (cumAt [395/2, 705/4, (155 : Rat)] 1) = [0, 705/4, 1325/4] ∧
    evalRequest exModel exData exAll (.cum "total" (some 5)) = some [0, 0, 155] ∧
    evalRequest exModel exData exAll (.cum "total" (some (1/2))) = none := by decide +kernel
/-- `func`: `cum_inf / (S + k)` pointwise; undefined when the parameter is missing -/
example : evalRequest exModel exData exAll (.func (.div (.comp 0) (.add (.comp 1) (.param "k"))) ["cum_inf", "S"])
      = some [23/60, 29/36, 41/32] ∧
    (List.range 3).map (fun i => Expr.eval (funcEnv exData [[115/2, 435/4, 615/4], [140, 125, 110]] i)
      (.div (.comp 0) (.add (.comp 1) (.param "k")))) = [some (23/60), some (29/36), some (41/32)] ∧
    evalRequest exModel { exData with params := [] } exAll
      (.func (.div (.comp 0) (.add (.comp 1) (.param "k"))) ["cum_inf", "S"]) = none := by decide +kernel
/-- `cv` -/
example : evalRequest exModel exData [] (.cv "tot") = some [155, 143, 147] := by decide +kernel
/-- `chain`, `chain_lookup`, `saved_only`: eleven requests, chained three deep
(`deep ← cum_total ← total ← inf_raw`) -/
example : evalAll exModel exData exModel.requests = some exAll := by decide +kernel
example : DistinctNames exModel.requests := by decide +kernel
example : exModel.whitelist = [] := rfl
example : derivedOutputs exModel exData = some
    [("S", [140, 125, 110]), ("inf_raw", [115/2, 205/4, 45]), ("inf_young", [45, 85/2, 75/2]),
     ("cum_inf", [115/2, 435/4, 615/4]), ("cum_total", [0, 705/4, 1325/4]),
     ("ratio", [23/60, 29/36, 41/32]), ("deep", [9323/60, 5761/18, 15345/32])] := by decide +kernel

/-- why `saved_only` assumes distinct names: with a duplicated name the unsaved duplicate is returned too -/
example : derivedOutputs { exModel with requests := [⟨"a", .comp ["S"] [], true⟩, ⟨"a", .comp ["I"] [], false⟩] } exData
    = some [("a", [140, 125, 110]), ("a", [15, 9, 37])] := by decide +kernel
/-- `flow_raw_run`, `cv_run` -/
example : flowsForOutputs exModel exBackend exParams exData.times exData.outputs = some (exData.flows, exData.computed) := by
  decide +kernel
example : (exModel.computed.map (·.1)).Nodup := by decide
end example_

#print axioms comp
#print axioms flow_raw
#print axioms flow_midpoint
#print axioms agg
#print axioms cum
#print axioms cum_start
#print axioms cum_clamped
#print axioms cum_clamped_values
#print axioms cum_not_time
#print axioms func
#print axioms cv
#print axioms series_length
#print axioms flow_rows
#print axioms flow_rows_defined
#print axioms flow_raw_run
#print axioms cv_run
#print axioms chain
#print axioms chain_lookup
#print axioms chain_lookup_none
#print axioms chain_lengths
#print axioms saved_only
#print axioms saved_only_general

end Summer.C08
