import Summer.Model.Run
-- placeholder until the proof worker delivers (replaced by the real file)
namespace Summer.Props.C08
theorem placeholder : True := trivial
end Summer.Props.C08
#print axioms Summer.Props.C08.placeholder
