import Summer.Proofs.EndToEnd
import Summer.Proofs.ExprProps
/-
C01 (end to end) — ONE evaluation `Run.step m b p t x` of the model's right-hand side, as a whole,
follows the documented laws: the composition of the four pieces proved separately in `C01`
(`weight_delivery_entry`, `multipliers_length`, `flowRates_eq_spec`, `compRates_eq_spec`).

Model: `Run.step`, `Run.rhs` (= `staticFlowWeights`, `flowWeights`, `mixingMatrix`,
`compInfectiousness`, `infectiousMultipliers`, `flowRates`, `compRates` chained in the `Option` monad).
Specification: `Spec.weight`, `Spec.flowRate`, `Spec.inflow`, `Spec.outflow` (`Summer/Spec/Rates.lean`),
`Spec.EndToEnd.weightsDefined / mixingDefined / infectiousnessDefined`.
-/
namespace Summer.C01Step
open Summer Summer.Run Summer.Spec Summer.Spec.EndToEnd Summer.Proofs Summer.Proofs.EndToEnd

set_option linter.unusedSectionVars false

variable {α : Type} [Field α] [LinearOrder α] [IsStrictOrderedRing α]

/-- **step_eq_spec.**  For every model `m` whose backend `b` comes from `prepare` and in which every
population-proportional flow has a source (`sourcedOk`: decidable, true of all API-built models), every
parameter list `p`, time `t` and RAW state `x` (entries of any sign, any length): whenever the
evaluation is defined, `step m b p t x = some s`,

* (a) the weight of every flow is the flow's parameter with its adjustments applied (`Spec.weight`:
  last `Overwrite`, or the flow's own parameter, times the `Multiply`s that follow), evaluated at THIS
  time `t` and at the CLEANED state — whichever side of the static / time-varying partition the flow
  falls on;
* (b) the rate of every flow is the documented law for its kind (`Spec.flowRate`), read off the
  cleaned state (negative compartment values count as zero), with the multiplier vector `s.mults`
  (one entry per infection flow);
* (c) the rate of every compartment is (sum of the rates of the flows into it) − (sum of the rates of
  the flows out of it);

and the vectors have the right lengths.  No hypothesis relates the length of `x` to the model: a short
state is read as zero beyond its end, exactly as the runner's gathers do. -/
theorem step_eq_spec (m : Model α) (b : Backend) (h : prepare m = .ok b) (hs : Spec.sourcedOk m = true)
    (p : List (String × α)) (t : α) (x : List α) (s : StepOut α) (hstep : step m b p t x = some s) :
    (s.weights.length = m.flows.length ∧ s.mults.length = Spec.nInfection m ∧
      s.flowRates.length = m.flows.length ∧ s.compRates.length = m.comps.length) ∧
    (∀ i (hi : i < m.flows.length),
      Spec.weight m.flows[i] ⟨p, t, cleanV x⟩ = some (s.weights.getD i 0)) ∧
    (∀ i (hi : i < m.flows.length),
      s.flowRates.getD i 0 = Spec.flowRate m s.weights (cleanV x) s.mults i m.flows[i]) ∧
    (∀ c, c < m.comps.length →
      s.compRates.getD c 0 = Spec.inflow m s.flowRates c - Spec.outflow m s.flowRates c) := by
  have hb := backendFor_of_prepare m b h
  obtain ⟨w, mix, ci, hw, _, _, rfl⟩ := (step_some_iff m b p t x s).1 hstep
  obtain ⟨hwl, hwv⟩ := mapM_option_some _ _ _ hw
  have hml := assemble_mults_length hb (cleanV x) w mix ci
  refine ⟨⟨hwl, hml, ?_, ?_⟩, ?_, ?_, ?_⟩
  · exact Proofs.flowRates_length hb w (cleanV x) _ hwl
  · exact Proofs.compRates_length hb _
  · intro i hi
    rw [← realised_eval_eq_weight]
    show (realised m.flows[i]).eval (stepEnv p t x) = some (w.getD i 0)
    rw [hwv i hi (by omega), getD_eq_getElem]
  · intro i hi
    exact (flowRates_getD hb w (cleanV x) (assemble b (cleanV x) w mix ci).mults hwl i hi).trans
      (genRate_eq_flowRate hb hs w (cleanV x) (assemble b (cleanV x) w mix ci).mults hml i hi)
  · intro c hc
    exact compRates_getD_spec hb _ c hc

/-- the remaining components of the result: the mixing matrix and the compartment infectiousness are
those of the model at `(p, t, cleaned x)`; the multipliers are the runner's forces of infection computed
from them and from the cleaned state when the model has an infection flow, and absent otherwise. -/
theorem step_components (m : Model α) (b : Backend) (h : prepare m = .ok b)
    (p : List (String × α)) (t : α) (x : List α) (s : StepOut α) (hstep : step m b p t x = some s) :
    mixingMatrix m ⟨p, t, cleanV x⟩ = some s.mixing ∧ compInfectiousness m p = some s.compInf ∧
    (s.mults, s.perStrain) =
      (if m.flows.any (fun f => Spec.isInfection f.kind) then
        infectiousMultipliers b (cleanV x) s.mixing s.compInf else ([], [])) ∧
    s.flowRates = flowRates b s.weights (cleanV x) s.mults ∧ s.compRates = compRates b s.flowRates := by
  have hb := backendFor_of_prepare m b h
  obtain ⟨w, mix, ci, _, hmix, hci, rfl⟩ := (step_some_iff m b p t x s).1 hstep
  refine ⟨hmix, hci, ?_, rfl, rfl⟩
  rw [← hb.procType]
  rfl

/-- the rate function handed to the solvers is the compartment-rate component of `step` … -/
theorem rhs_eq_step (m : Model α) (b : Backend) (p : List (String × α)) (x : List α) (t : α) (r : List α) :
    rhs m b p x t = some r ↔ ∃ s, step m b p t x = some s ∧ r = s.compRates := by
  unfold rhs
  rw [Option.map_eq_some_iff]
  exact ⟨fun ⟨s, h1, h2⟩ => ⟨s, h1, h2.symm⟩, fun ⟨s, h1, h2⟩ => ⟨s, h1, h2.symm⟩⟩

/-- **rhs corollary.**  … so whenever `rhs m b p x t = some r`, `r` has one entry per compartment and
entry `c` is inflow − outflow of the flow rates `fr`, each of which is the documented law of its flow
at the weights `w`, each of which is the documented adjusted parameter at `(p, t, cleaned x)`. -/
theorem rhs_eq_spec (m : Model α) (b : Backend) (h : prepare m = .ok b) (hs : Spec.sourcedOk m = true)
    (p : List (String × α)) (t : α) (x : List α) (r : List α) (hr : rhs m b p x t = some r) :
    ∃ w mults fr : List α,
      w.length = m.flows.length ∧ mults.length = Spec.nInfection m ∧ fr.length = m.flows.length ∧
      r.length = m.comps.length ∧
      (∀ i (hi : i < m.flows.length), Spec.weight m.flows[i] ⟨p, t, cleanV x⟩ = some (w.getD i 0)) ∧
      (∀ i (hi : i < m.flows.length), fr.getD i 0 = Spec.flowRate m w (cleanV x) mults i m.flows[i]) ∧
      (∀ c, c < m.comps.length → r.getD c 0 = Spec.inflow m fr c - Spec.outflow m fr c) := by
  obtain ⟨s, hstep, rfl⟩ := (rhs_eq_step m b p x t r).1 hr
  obtain ⟨⟨h1, h2, h3, h4⟩, h5, h6, h7⟩ := step_eq_spec m b h hs p t x s hstep
  exact ⟨s.weights, s.mults, s.flowRates, h1, h2, h3, h4, h5, h6, h7⟩

/-! ## when is the evaluation defined? -/

/-- `step` (hence `rhs`) is defined exactly when every realised flow weight evaluates at
`(p, t, cleaned x)`, every entry of every mixing matrix evaluates there, and every infectiousness
adjustment evaluates under the parameters alone.  (`prepare` plays no role: `b` is arbitrary.) -/
theorem step_defined_iff (m : Model α) (b : Backend) (p : List (String × α)) (t : α) (x : List α) :
    (step m b p t x).isSome = true ↔
      weightsDefined m ⟨p, t, cleanV x⟩ ∧ mixingDefined m ⟨p, t, cleanV x⟩ ∧ infectiousnessDefined m p := by
  rw [step_isSome_iff, weights_isSome_iff, mixingMatrix_isSome_iff, compInfectiousness_isSome_iff]
  rfl

/-- the same, as a characterisation of failure: `step` is `none` iff some realised weight, some
mixing-matrix entry or some infectiousness adjustment fails to evaluate. -/
theorem step_none_iff (m : Model α) (b : Backend) (p : List (String × α)) (t : α) (x : List α) :
    step m b p t x = none ↔
      (∃ f ∈ m.flows, Spec.weight f ⟨p, t, cleanV x⟩ = none) ∨
      (∃ mat ∈ m.mixingMats, ∃ row ∈ mat, ∃ e ∈ row, e.eval ⟨p, t, cleanV x⟩ = none) ∨
      (∃ s ∈ m.strats, ∃ ia ∈ s.infAdj, ∃ sa ∈ ia.2, ∃ adj, sa.2 = some adj ∧
        evalStatic p adj.expr = none) := by
  rw [← Option.not_isSome_iff_eq_none, step_defined_iff]
  simp only [weightsDefined, mixingDefined, infectiousnessDefined, not_and_or, not_forall, exists_prop,
    Option.not_isSome_iff_eq_none]

theorem rhs_defined_iff (m : Model α) (b : Backend) (p : List (String × α)) (t : α) (x : List α) :
    (rhs m b p x t).isSome = true ↔
      weightsDefined m ⟨p, t, cleanV x⟩ ∧ mixingDefined m ⟨p, t, cleanV x⟩ ∧ infectiousnessDefined m p := by
  rw [← step_defined_iff m b p t x]
  unfold rhs
  simp

/-- … and an expression fails to evaluate exactly when it mentions a parameter that is missing from the
dictionary or reads a compartment position beyond the end of the state
(`ExprProps.eval_isSome`, restated). -/
theorem eval_defined_iff (env : Env α) (e : Expr α) :
    (e.eval env).isSome = true ↔
      (∀ k ∈ e.params, (alookup env.params k).isSome = true) ∧ Spec.compsInRange env.state.length e = true := by
  rw [ExprProps.eval_isSome, Bool.and_eq_true, ExprProps.allBound_iff]

/-- a flow's weight is defined iff its realised parameter (the adjustment chain folded into one
expression) mentions only bound parameters and in-range compartment positions -/
theorem weight_defined_iff (f : Flow α) (env : Env α) :
    (Spec.weight f env).isSome = true ↔
      (∀ k ∈ (realised f).params, (alookup env.params k).isSome = true) ∧
        Spec.compsInRange env.state.length (realised f) = true := by
  rw [← realised_eval_eq_weight, eval_defined_iff]

/-! ## non-vacuity: the six-kind SIR model of `C01`, one evaluation at `t = 3`, state `[90, 10, -1]` -/
section example_
def cS : Comp := ⟨"S", []⟩
def cI : Comp := ⟨"I", []⟩
def cR : Comp := ⟨"R", []⟩

def exModel : Model Rat :=
  { t0 := 0, t1 := 10, dt := 1, nTimes := 11,
    comps := [cS, cI, cR], origNames := ["S", "I", "R"], infectious := ["I"],
    flows := [
      { kind := .infFreq, name := "infection", src := some cS, dst := some cI, param := .param "beta", adjs := [] },
      { kind := .transition, name := "recovery", src := some cI, dst := some cR, param := .param "gamma",
        adjs := [.mul (.const 3), .ovr (.const (1/4)), .mul (.const 2)] },
      { kind := .death, name := "death", src := some cI, dst := none, param := .const (1/10), adjs := [] },
      { kind := .replBirth, name := "births", src := none, dst := some cS, param := .const 1, adjs := [] },
      { kind := .importF, name := "imports", src := none, dst := some cI, param := .const 5, adjs := [] },
      { kind := .absolute, name := "waning", src := some cR, dst := some cS, param := .time, adjs := [] } ],
    strats := [], mixingCats := [[]], mixingMats := [], strains := ["default"],
    initDist := none, arrayPop := none, actions := [], requests := [], computed := [], whitelist := [],
    finalized := true }

def exBackend : Backend :=
  { nComps := 3, nFlows := 6, populationIdx := [0, 1, 1, 0, 0, 2], nonPopIdx := [3, 4, 5], crudeIdx := [],
    replIdx := [3], deathIdx := [2], infFlowIdx := [0],
    posMap := [(0, 1), (1, 2), (3, 0), (4, 1), (5, 0)], negMap := [(0, 0), (1, 1), (2, 1), (5, 2)],
    catIdx := [[0, 1, 2]], categoryLookup := [0, 0, 0], strainInfIdx := [[1]], strainCatIdx := [[[0]]],
    infStrainLookup := [0], infCatLookup := [0], procType := some true }

def exParams : List (String × Rat) := [("beta", 2), ("gamma", 7)]

def exOut : StepOut Rat :=
  { weights := [2, 1/2, 1/10, 1, 5, 3], mults := [1/10], perStrain := [[1/10]], mixing := [[1]],
    compInf := [1, 1, 1], flowRates := [18, 5, 1, 1, 5, 3], compRates := [-14, 17, 2] }

example : prepare exModel = .ok exBackend := by rfl
example : Spec.sourcedOk exModel = true := by decide
/-- the evaluation is defined (raw state with a negative entry) and returns `exOut` -/
example : (step exModel exBackend exParams 3 [90, 10, -1]).isSome = true := by decide +kernel
example : (step exModel exBackend exParams 3 [90, 10, -1]).map
      (fun o => (o.weights, o.mults, o.flowRates, o.compRates)) =
    some (exOut.weights, exOut.mults, exOut.flowRates, exOut.compRates) := by decide +kernel
example : (step exModel exBackend exParams 3 [90, 10, -1]).map
      (fun o => ((o.perStrain : List (List Rat)), (o.mixing : List (List Rat)), o.compInf)) =
    some (exOut.perStrain, exOut.mixing, exOut.compInf) := by decide +kernel

/-- the theorem applied to it -/
example := fun s => step_eq_spec exModel exBackend (by rfl) (by decide) exParams 3 [90, 10, -1] s
example := rhs_eq_spec exModel exBackend (by rfl) (by decide) exParams 3 [90, 10, -1] [-14, 17, 2]
  (by decide +kernel)

/-- … and its three conclusions checked independently by evaluating the specification -/
example : exModel.flows.map (fun f => Spec.weight f ⟨exParams, 3, cleanV [90, 10, -1]⟩) =
    exOut.weights.map some := by decide +kernel
example : (List.range 6).map (fun i => Spec.flowRate exModel exOut.weights (cleanV [90, 10, -1]) exOut.mults i
      (exModel.flows.getD i exModel.flows[0])) = exOut.flowRates := by decide +kernel
example : (List.range 3).map (fun c => Spec.inflow exModel exOut.flowRates c - Spec.outflow exModel exOut.flowRates c)
    = exOut.compRates := by decide +kernel

/-- failure: with "beta" missing the infection flow's weight is undefined and `step` is `none`;
"gamma" may be missing (it is hidden by the `Overwrite`) -/
example : step exModel exBackend [("gamma", 7)] 3 [90, 10, -1] = none ∧
    Spec.weight exModel.flows[0] ⟨[("gamma", 7)], 3, cleanV [90, 10, -1]⟩ = none ∧
    (step exModel exBackend [("beta", 2)] 3 [90, 10, -1]).isSome = true := by decide +kernel

/-- failure by an out-of-range compartment reference: a weight reading compartment 3 of a 3-vector -/
example : step { exModel with flows := exModel.flows ++
      [{ kind := .importF, name := "bad", src := none, dst := some cS, param := .comp 3, adjs := [] }] }
    exBackend exParams 3 [90, 10, -1] = none := by decide +kernel
end example_

#print axioms step_eq_spec
#print axioms step_components
#print axioms rhs_eq_step
#print axioms rhs_eq_spec
#print axioms step_defined_iff
#print axioms step_none_iff
#print axioms rhs_defined_iff
#print axioms eval_defined_iff
#print axioms weight_defined_iff

end Summer.C01Step
