import Summer.Proofs.ExprProps
import Mathlib.Algebra.Order.Field.Basic
/-
C14 — Pruning derived outputs never changes the values of those that are kept
(`Derived.evalRequest`, `evalAll`, `deps`, `neededSet`, `derivedOutputs`).

Spec notions (`Summer/Spec/ExprGraphSpec.lean`): `WellOrdered` (decidable: every request's `deps`
are names of EARLIER requests and names are pairwise distinct), `DepClosed`, `pruned`.
Structural theorems: valid for every carrier with the core classes the model is generic over.
-/
namespace Summer.C14
open Summer Summer.Spec Summer.ExprProps Summer.Derived

section needed
variable {α : Type}

/-- `C14.needed_closed`: on a well-ordered request list the single backwards pass of `neededSet`
yields a set closed under direct dependencies (so the pruned graph never misses a source, saved or
not). -/
theorem needed_closed (reqs : List (ReqEntry α)) (W : List String) (hwo : WellOrdered reqs) :
    DepClosed (fun k => (neededSet reqs W).contains k) reqs :=
  neededSet_closed_from W reqs [] hwo

/-- every whitelisted name is kept -/
theorem whitelist_subset_needed (reqs : List (ReqEntry α)) (W : List String) (k : String) (hk : k ∈ W) :
    k ∈ neededSet reqs W :=
  subset_neededSet reqs W k hk

end needed

variable {α : Type} [Zero α] [One α] [Add α] [Sub α] [Mul α] [Div α] [LT α] [DecidableLT α]

/-! ### pruning -/

/-- generic core (no order hypothesis at all): filtering the request list by ANY dependency-closed
predicate keeps evaluation successful and leaves every kept value unchanged. -/
theorem filter_sound_of_closed (m : Model α) (d : RunData α) (reqs : List (ReqEntry α)) (keep : String → Bool)
    (hc : DepClosed keep reqs) (full : List (String × List α)) (hfull : evalAll m d reqs = some full) :
    ∃ out, evalAll m d (reqs.filter (fun r => keep r.name)) = some out ∧
      ∀ k, keep k = true → alookup out k = alookup full k := by
  obtain ⟨out, h1, h2⟩ := filter_sim m d keep reqs hc [] [] full (fun _ _ => rfl) hfull
  exact ⟨out, h1, fun k hk => (h2 k hk).symm⟩

/-- `C14.filter_sound`: for every well-ordered request list, every whitelist `W` (any list of names),
if the full evaluation succeeds then the evaluation of the pruned list succeeds and gives every kept
key — every `k ∈ neededSet reqs W`, in particular every `k ∈ W` — the value it has in the full
evaluation (`none = none` if `k` is not a request name at all). -/
theorem filter_sound (m : Model α) (d : RunData α) (reqs : List (ReqEntry α)) (W : List String)
    (hwo : WellOrdered reqs) (full : List (String × List α)) (hfull : evalAll m d reqs = some full) :
    ∃ out, evalAll m d (pruned reqs W) = some out ∧
      ∀ k ∈ neededSet reqs W, alookup out k = alookup full k := by
  obtain ⟨out, h1, h2⟩ := filter_sound_of_closed m d reqs (fun k => (neededSet reqs W).contains k)
    (needed_closed reqs W hwo) full hfull
  exact ⟨out, h1, fun k hk => h2 k (by simpa using hk)⟩

/-- the same, in the form "look `k` up in the pruned run = look `k` up in the full run" -/
theorem filter_sound_lookup (m : Model α) (d : RunData α) (reqs : List (ReqEntry α)) (W : List String)
    (hwo : WellOrdered reqs) (hfull : (evalAll m d reqs).isSome = true) (k : String)
    (hk : k ∈ neededSet reqs W) :
    (evalAll m d (pruned reqs W)).bind (fun out => alookup out k) =
      (evalAll m d reqs).bind (fun out => alookup out k) := by
  cases hf : evalAll m d reqs with
  | none => simp [hf] at hfull
  | some full =>
    obtain ⟨out, h1, h2⟩ := filter_sound m d reqs W hwo full hf
    rw [h1, Option.bind_some, Option.bind_some, h2 k hk]

/-- on failure: pruning can only remove failures — if the pruned evaluation fails, so does the full
one (the converse is false, see the example below: a failing request that is pruned away). -/
theorem pruned_fails_only_if_full_fails (m : Model α) (d : RunData α) (reqs : List (ReqEntry α))
    (W : List String) (hwo : WellOrdered reqs) (h : evalAll m d (pruned reqs W) = none) :
    evalAll m d reqs = none := by
  cases hf : evalAll m d reqs with
  | none => rfl
  | some full =>
    obtain ⟨out, h1, _⟩ := filter_sound m d reqs W hwo full hf
    rw [h1] at h; cases h

/-! ### what `derivedOutputs` returns -/

/-- `C14.whitelist_values`: with a non-empty whitelist, `derivedOutputs` is exactly "look every
whitelisted key up, in whitelist order, in the FULL evaluation" … -/
theorem whitelist_values (m : Model α) (d : RunData α) (hW : m.whitelist ≠ [])
    (hwo : WellOrdered m.requests) (full : List (String × List α))
    (hfull : evalAll m d m.requests = some full) :
    derivedOutputs m d = m.whitelist.mapM (fun k => do let v ← alookup full k; pure (k, v)) := by
  obtain ⟨out, h1, h2⟩ := filter_sound m d m.requests m.whitelist hwo full hfull
  have hlen : (m.whitelist.length == 0) = false := by
    cases hw : m.whitelist with
    | nil => exact absurd hw hW
    | cons _ _ => rfl
  unfold derivedOutputs
  simp only [hlen, Bool.false_eq_true, if_false]
  unfold pruned at h1
  simp only [h1, Option.bind_eq_bind, Option.bind_some]
  apply mapM_congr
  intro k hk
  rw [h2 k (whitelist_subset_needed _ _ k hk)]

/-- … hence, when every whitelisted key is a request name, it returns exactly the keys of the
whitelist, in whitelist order, each with its full-evaluation value … -/
theorem whitelist_values_keys (m : Model α) (d : RunData α) (hW : m.whitelist ≠ [])
    (hwo : WellOrdered m.requests) (full : List (String × List α))
    (hfull : evalAll m d m.requests = some full)
    (hnames : ∀ k ∈ m.whitelist, k ∈ m.requests.map (·.name)) :
    ∃ out, derivedOutputs m d = some out ∧ out.map Prod.fst = m.whitelist ∧
      ∀ kv ∈ out, alookup full kv.1 = some kv.2 := by
  rw [whitelist_values m d hW hwo full hfull]
  have hkeys := evalAll_keys m d m.requests full hfull
  generalize m.whitelist = W at hnames
  clear hW
  induction W with
  | nil => exact ⟨[], rfl, rfl, by simp⟩
  | cons k W ih =>
    obtain ⟨out, ho, hk, hv⟩ := ih (fun k' hk' => hnames k' (List.mem_cons_of_mem _ hk'))
    have hs : (alookup full k).isSome = true := by
      rw [alookup_isSome_iff, hkeys]; exact hnames k List.mem_cons_self
    cases hl : alookup full k with
    | none => simp [hl] at hs
    | some v =>
      refine ⟨(k, v) :: out, ?_, by simp [hk], ?_⟩
      · rw [List.mapM_cons, ho]; simp [hl]
      · intro kv hkv
        rcases List.mem_cons.1 hkv with e | hm
        · subst e; exact hl
        · exact hv kv hm

/-- … and when some whitelisted key is not a request name it returns `none`. -/
theorem whitelist_unknown_key (m : Model α) (d : RunData α) (hwo : WellOrdered m.requests)
    (full : List (String × List α)) (hfull : evalAll m d m.requests = some full)
    (k : String) (hk : k ∈ m.whitelist) (hnot : k ∉ m.requests.map (·.name)) :
    derivedOutputs m d = none := by
  have hW : m.whitelist ≠ [] := by intro e; rw [e] at hk; cases hk
  rw [whitelist_values m d hW hwo full hfull, mapM_eq_none_iff]
  refine ⟨k, hk, ?_⟩
  have : alookup full k = none := by
    rw [alookup_eq_none_iff, evalAll_keys m d m.requests full hfull]; exact hnot
  simp [this]

/-- `C14.save_flags`: with an empty whitelist, `derivedOutputs` returns exactly the requests with
`save = true`, in declaration order, each with its full-evaluation value: save flags only restrict
the returned keys. -/
theorem save_flags (m : Model α) (d : RunData α) (hW : m.whitelist = [])
    (hwo : WellOrdered m.requests) (full : List (String × List α))
    (hfull : evalAll m d m.requests = some full) :
    ∃ out, derivedOutputs m d = some out ∧
      out.map Prod.fst = (m.requests.filter (·.save)).map (·.name) ∧
      ∀ kv ∈ out, alookup full kv.1 = some kv.2 := by
  have hkeys := evalAll_keys m d m.requests full hfull
  have hnd : (m.requests.map (·.name)).Nodup := wellOrderedFrom_nodup m.requests [] hwo
  refine ⟨full.filter (fun kv => m.requests.any (fun r => r.name == kv.1 && r.save)), ?_, ?_, ?_⟩
  · unfold derivedOutputs
    simp [hW, hfull]
  · -- keys
    have h1 : (full.filter (fun kv => m.requests.any (fun r => r.name == kv.1 && r.save))).map Prod.fst
        = (full.map Prod.fst).filter (fun k => m.requests.any (fun r => r.name == k && r.save)) := by
      rw [List.filter_map]; rfl
    rw [h1, hkeys, List.filter_map]
    congr 1
    apply List.filter_congr
    intro r hr
    simp only [Function.comp]
    cases hs : r.save with
    | true => exact List.any_eq_true.2 ⟨r, hr, by simp [hs]⟩
    | false =>
      rw [List.any_eq_false]
      intro r' hr' hh
      simp only [Bool.and_eq_true, beq_iff_eq] at hh
      have : r' = r := eq_of_nodup_map hnd hr' hr hh.1
      rw [this, hs] at hh; exact absurd hh.2 (by simp)
  · intro kv hkv
    have hmem : kv ∈ full := (List.mem_filter.1 hkv).1
    exact alookup_of_mem_nodup (by rw [hkeys]; exact hnd) hmem

/-- with an empty whitelist the call fails exactly when the full evaluation fails -/
theorem save_flags_failure (m : Model α) (d : RunData α) (hW : m.whitelist = [])
    (hfull : evalAll m d m.requests = none) : derivedOutputs m d = none := by
  unfold derivedOutputs
  simp [hW, hfull]

/-! ### declaration order -/

/-- evaluating a well-ordered list whose requests all occur in another well-ordered, successfully
evaluated list succeeds, with the same values -/
theorem sublist_sound (m : Model α) (d : RunData α) (reqs₁ reqs₂ : List (ReqEntry α))
    (h₁ : WellOrdered reqs₁) (h₂ : WellOrdered reqs₂) (hsub : ∀ r ∈ reqs₁, r ∈ reqs₂)
    (out₂ : List (String × List α)) (he : evalAll m d reqs₂ = some out₂) :
    ∃ out₁, evalAll m d reqs₁ = some out₁ ∧ ∀ r ∈ reqs₁, alookup out₁ r.name = alookup out₂ r.name := by
  have hfix := evalFrom_fixpoint m d reqs₂ [] out₂ h₂ he
  obtain ⟨out₁, ho, hag⟩ := evalFrom_unique m d out₂ reqs₁ [] h₁ (fun r hr => hfix r (hsub r hr))
    (by intro k hk; simp at hk)
  refine ⟨out₁, ho, fun r hr => hag _ ?_⟩
  rw [evalAll_keys m d reqs₁ out₁ ho]
  exact List.mem_map.2 ⟨r, hr, rfl⟩

/-- `C14.order_irrelevant`: two declaration orders of the same set of requests, both consistent with
the dependencies, succeed or fail together and give every key the same value. -/
theorem order_irrelevant (m : Model α) (d : RunData α) (reqs₁ reqs₂ : List (ReqEntry α))
    (h₁ : WellOrdered reqs₁) (h₂ : WellOrdered reqs₂) (hsame : ∀ r, r ∈ reqs₁ ↔ r ∈ reqs₂) :
    ((evalAll m d reqs₁).isSome = (evalAll m d reqs₂).isSome) ∧
    ∀ out₁ out₂, evalAll m d reqs₁ = some out₁ → evalAll m d reqs₂ = some out₂ →
      ∀ k, alookup out₁ k = alookup out₂ k := by
  constructor
  · cases e₁ : evalAll m d reqs₁ with
    | some out₁ =>
      obtain ⟨out₂, ho, _⟩ := sublist_sound m d reqs₂ reqs₁ h₂ h₁ (fun r hr => (hsame r).2 hr) out₁ e₁
      simp [ho]
    | none =>
      cases e₂ : evalAll m d reqs₂ with
      | none => rfl
      | some out₂ =>
        obtain ⟨out₁, ho, _⟩ := sublist_sound m d reqs₁ reqs₂ h₁ h₂ (fun r hr => (hsame r).1 hr) out₂ e₂
        rw [ho] at e₁; cases e₁
  · intro out₁ out₂ e₁ e₂ k
    obtain ⟨out₁', ho, hv⟩ := sublist_sound m d reqs₁ reqs₂ h₁ h₂ (fun r hr => (hsame r).1 hr) out₂ e₂
    rw [e₁] at ho; injection ho with ho; subst ho
    by_cases hk : k ∈ reqs₁.map (·.name)
    · obtain ⟨r, hr, e⟩ := List.mem_map.1 hk
      rw [← e]; exact hv r hr
    · have hk₂ : k ∉ reqs₂.map (·.name) := by
        intro hk₂; obtain ⟨r, hr, e⟩ := List.mem_map.1 hk₂
        exact hk (List.mem_map.2 ⟨r, (hsame r).2 hr, e⟩)
      rw [(alookup_eq_none_iff _ _).2 (by rw [evalAll_keys m d reqs₁ out₁ e₁]; exact hk),
        (alookup_eq_none_iff _ _).2 (by rw [evalAll_keys m d reqs₂ out₂ e₂]; exact hk₂)]

/-- … in particular for permutations -/
theorem order_irrelevant_perm (m : Model α) (d : RunData α) (reqs₁ reqs₂ : List (ReqEntry α))
    (h₁ : WellOrdered reqs₁) (h₂ : WellOrdered reqs₂) (hp : reqs₁.Perm reqs₂)
    (out₁ out₂ : List (String × List α)) (e₁ : evalAll m d reqs₁ = some out₁)
    (e₂ : evalAll m d reqs₂ = some out₂) (k : String) : alookup out₁ k = alookup out₂ k :=
  (order_irrelevant m d reqs₁ reqs₂ h₁ h₂ (fun _ => hp.mem_iff)).2 out₁ out₂ e₁ e₂ k

/-! ### non-vacuity -/
section examples
open Summer.ExprProps.Ex

example : WellOrdered exReqs ∧ WellOrdered exReqsBad := by decide +kernel

example : neededSet exReqs ["f"] = ["f", "cuminc", "tot", "inc", "prev", "inc"]
    ∧ (pruned exReqs ["f"]).map (·.name) = ["inc", "prev", "cuminc", "tot", "f"] := by decide +kernel

example : evalAll (exModel exReqs []) exData exReqs = some
    [("inc", [2, 3, 4]), ("prev", [1, 3, 6]), ("cuminc", [2, 5, 9]), ("tot", [3, 6, 10]),
     ("f", [10, 22, 38]), ("other", [7, 8, 9])] := by decide +kernel

/-- whitelist: exactly the whitelisted keys, in whitelist order, full-evaluation values, computed
through unsaved intermediates -/
example : derivedOutputs (exModel exReqs ["f", "prev"]) exData
    = some [("f", [10, 22, 38]), ("prev", [1, 3, 6])] := by decide +kernel

/-- save flags -/
example : derivedOutputs (exModel exReqs []) exData
    = some [("prev", [1, 3, 6]), ("cuminc", [2, 5, 9]), ("f", [10, 22, 38]), ("other", [7, 8, 9])] := by
  decide +kernel

/-- failure: the full evaluation fails, the pruned one succeeds (so `filter_sound` genuinely needs
its success hypothesis, and only `pruned_fails_only_if_full_fails` holds on failure) -/
example : evalAll (exModel exReqsBad []) exData exReqsBad = none
    ∧ derivedOutputs (exModel exReqsBad ["f"]) exData = some [("f", [10, 22, 38])] := by decide +kernel

/-- `WellOrdered` cannot be dropped (model as written): with a re-declared name the backwards pass of
`neededSet` keeps the second `"a"` but not its source `"z"`; the full evaluation succeeds, the pruned
one fails.  (Python dictionaries cannot hold a name twice, so this does not arise in summer2.) -/
example : ¬ WellOrdered exReqsDup
    ∧ (evalAll (exModel [] []) exData exReqsDup).isSome = true
    ∧ neededSet exReqsDup ["c"] = ["c", "a"]
    ∧ evalAll (exModel [] []) exData (pruned exReqsDup ["c"]) = none := by decide +kernel

/-- another dependency-consistent order of the same requests gives the same value -/
example : WellOrdered exReqs' ∧ exReqs'.map (·.name) ≠ exReqs.map (·.name)
    ∧ (evalAll (exModel [] []) exData exReqs').bind (fun o => alookup o "f") = some [10, 22, 38] := by
  decide +kernel

end examples

/-! ### at an arbitrary ordered field -/
example {F : Type} [Field F] [LinearOrder F] [IsStrictOrderedRing F] (m : Model F) (d : RunData F)
    (reqs : List (ReqEntry F)) (W : List String) (hwo : WellOrdered reqs) (full : List (String × List F))
    (hfull : evalAll m d reqs = some full) :
    ∃ out, evalAll m d (pruned reqs W) = some out ∧
      ∀ k ∈ neededSet reqs W, alookup out k = alookup full k :=
  filter_sound m d reqs W hwo full hfull

end Summer.C14

#print axioms Summer.C14.needed_closed
#print axioms Summer.C14.whitelist_subset_needed
#print axioms Summer.C14.filter_sound_of_closed
#print axioms Summer.C14.filter_sound
#print axioms Summer.C14.filter_sound_lookup
#print axioms Summer.C14.pruned_fails_only_if_full_fails
#print axioms Summer.C14.whitelist_values
#print axioms Summer.C14.whitelist_values_keys
#print axioms Summer.C14.whitelist_unknown_key
#print axioms Summer.C14.save_flags
#print axioms Summer.C14.save_flags_failure
#print axioms Summer.C14.sublist_sound
#print axioms Summer.C14.order_irrelevant
#print axioms Summer.C14.order_irrelevant_perm
