import Summer.Proofs.SourceTie
/-
C04 — the hand-written stratification rules are what the SOURCE TEXT says.

`Summer/Generated/Struct.lean` is regenerated from `/repo/summer2/flows.py` and `stratification.py` on every run
(`harness/translate/gen_struct.py`).  The theorems below identify the regenerated `get_flow_adjustment` and the four
`stratify` methods with `Build.getFlowAdjustment`, `Build.stratifyEntry`, `Build.stratifyExit` and
`Build.stratifyTransition` — the definitions the C04 / C03 / C13 theorems are about — up to the text of the error
message (`erase`): both raise on exactly the same inputs and return equal lists of flows otherwise.

Hypotheses (each one is a fact about every object the API can build, proved below or in `C17`):
* `f.dst.isSome` / `f.src.isSome`: the constructors of the entry / exit / transition classes assert
  `type(dest) is Compartment` / `type(source) is Compartment` (the translator refuses the file if they do not);
* `AdjNonempty s`: every declared adjustment dict is non-empty — `set_flow_adjustments` asserts that its keys are
  the stratification's strata, and a stratification has at least one stratum (`Build.mkStrat`).  Python's
  `if flow_adjustments:` treats an empty dict like `None`; the hand model tests `isSome`.
  `adj_nonempty_of_decls` derives it from "every declaration of `s.flowAdj` is non-empty";
* `absoluteShareKinds.contains f.kind` (`hk`): which class's `stratify` the flow dispatches to — `AbsoluteFlow`
  overrides `BaseTransitionFlow.stratify`, the other transition classes inherit it.

`AbsoluteFlow.stratify` calls `get_flow_adjustment` a second time (inside `and`); no extra hypothesis is needed for
that: whenever the second call is reached with a stratified end the first call has already succeeded, and when neither
end is stratified the `and` short-circuits and the single flow is returned unchanged.  Both `BaseTransitionFlow.stratify`
and `Build.stratifyTransition` are first put in one explicit form (`base_transition_eq`, `model_transition_eq`, over
the list `transBase`), from which the two class-level theorems follow.  The examples at the end instantiate the
hypotheses on a concrete `Strat Rat` / `Flow Rat`.
-/
namespace Summer.Props.C04Source
open Summer Summer.Generated.Struct Summer.SourceTie Summer.Props.C13Source

section
variable {α : Type} [Zero α] [One α] [Add α] [Sub α] [Mul α] [Div α] [NatCast α] [LT α] [DecidableLT α]

/-- `Stratification.get_flow_adjustment` -/
theorem get_flow_adjustment_eq (s : Strat α) (f : Flow α) :
    erase (Stratification.get_flow_adjustment s f) = erase (Build.getFlowAdjustment s f) := by
  unfold Stratification.get_flow_adjustment Build.getFlowAdjustment Py.flowAdjustmentsGet
  simp only [bind_pure, List.foldlM_map, erase_foldlM]
  congr 1
  funext acc d
  rcases f with ⟨k, n, src, dst, p, a⟩
  rcases d with ⟨fl, adjs, ss, ds⟩
  cases src <;> cases dst <;> cases ss <;> cases ds <;>
    simp [Py.truthyL, Py.the, _has_strata_eq, erase_bind, erase_guardE, erase_ite]

/-- every adjustment dict that `get_flow_adjustment` can return is non-empty -/
def AdjNonempty (s : Strat α) (f : Flow α) : Prop :=
  ∀ a, erase (Build.getFlowAdjustment s f) = some (some a) → a ≠ []

/-- `BaseExitFlow.stratify` -/
theorem exit_stratify_eq (s : Strat α) (f : Flow α) (c : Comp) (hsrc : f.src = some c) (hdst : f.dst = none)
    (hne : AdjNonempty s f) :
    erase (BaseExitFlow.stratify f s) = erase (Build.stratifyExit f s) := by
  unfold BaseExitFlow.stratify Build.stratifyExit Build.endStratified
  simp only [hsrc, Py.the, Option.getD_some, has_name_in_list_eq, erase_ite, erase_pure, erase_bind, get_flow_adjustment_eq,
    erase_foldlM, Bool.not_eq_true', pure_bind]
  by_cases hst : c.hasNameIn s.comps
  · simp only [hst, Bool.true_eq_false, ↓reduceIte, Bool.not_true, Bool.false_eq_true]
    cases hfa : erase (Build.getFlowAdjustment s f) with
    | none => rfl
    | some fa =>
      simp only [Option.bind_some]
      cases fa with
      | none =>
        simp only [Py.truthyOptL, Bool.false_and, Bool.not_false, erase_guardE, ↓reduceIte, Option.bind_some, erase_pure,
          Bool.false_eq_true]
        rw [foldlM_append_one _ (fun stratum => ({ f with src := f.src.map (fun c => c.stratify s.name stratum), adjs := f.adjs ++ [] } : Flow α))]
        · simp [hsrc]
        · intro acc x
          simp [hsrc, hdst, stratify_eq, ctorAdjustments_map_some]
      | some a =>
        have hane : a ≠ [] := hne a hfa
        have ht : Py.truthyOptL (some a) = true := by
          unfold Py.truthyOptL; cases a <;> simp_all
        simp only [ht, Bool.true_and, Py.theL, Option.getD_some, Py.setEq, Bool.not_not, erase_guardE, erase_pure]
        by_cases hs : sameSet (List.map (fun x => x.fst) a) s.strata
        · simp only [hs, ↓reduceIte, Option.bind_some]
          rw [foldlM_append_one _ (fun stratum => ({ f with src := f.src.map (fun c => c.stratify s.name stratum), adjs := f.adjs ++ Build.adjFor a stratum } : Flow α))]
          · simp [hsrc]
          · intro acc x
            rw [← getJoin_toList]
            rcases f with ⟨k, n, src, dst, p, ad⟩
            simp only at hsrc hdst
            subst hsrc hdst
            by_cases hj : (Py.getJoin a x).isSome
            · obtain ⟨adj, hadj⟩ := Option.isSome_iff_exists.mp hj
              simp [hadj, stratify_eq, ctorAdjustments_append]
            · have hnone : Py.getJoin a x = none := by simpa using hj
              simp [hnone, stratify_eq, ctorAdjustments_map_some]
        · simp [hs]
  · simp [hst]

omit [Zero α] [One α] [Add α] [Sub α] [Mul α] [Div α] [NatCast α] [LT α] [DecidableLT α] in
theorem isBirthFlow_eq (f : Flow α) : Py.isBirthFlow f = Build.isBirth f.kind := rfl

/-- `BaseEntryFlow.stratify` -/
theorem entry_stratify_eq (s : Strat α) (f : Flow α) (c : Comp) (hdst : f.dst = some c) (hsrc : f.src = none)
    (hne : AdjNonempty s f) :
    erase (BaseEntryFlow.stratify f s) = erase (Build.stratifyEntry f s) := by
  unfold BaseEntryFlow.stratify Build.stratifyEntry Build.endStratified
  simp only [hdst, Py.the, Option.getD_some, has_name_in_list_eq, erase_ite, erase_pure, erase_bind, get_flow_adjustment_eq,
    erase_foldlM, Bool.not_eq_true', is_ageing_eq]
  by_cases hst : c.hasNameIn s.comps
  · simp only [hst, Bool.true_eq_false, ↓reduceIte]
    cases hfa : erase (Build.getFlowAdjustment s f) with
    | none => rfl
    | some fa =>
      simp only [Option.bind_some]
      cases fa with
      | none =>
        simp only [Py.truthyOptL, Bool.and_false, Bool.false_and, Bool.not_false, erase_guardE, ↓reduceIte, Option.bind_some,
          erase_pure, Bool.false_eq_true, Option.isSome_none]
        rw [foldlM_append_opt _ (fun stratum =>
          if (Build.isBirth f.kind && s.isAgeing && stratum != "0") = true then none
          else some ({ f with dst := f.dst.map (fun c => c.stratify s.name stratum),
                              adjs := f.adjs ++ (if (Build.isBirth f.kind && s.isAgeing) = true then []
                                                 else [Build.shareAdj s.strata.length]) } : Flow α))]
        · simp [hdst]
        · intro acc x
          rw [isBirthFlow_eq]
          cases hB : (Build.isBirth f.kind && s.isAgeing) <;> cases hx : (x == "0") <;>
            simp [hsrc, hdst, hx, stratify_eq, ctorAdjustments_map_some, ctorAdjustments_append, Build.shareAdj,
              Py.multiply, bne]
      | some a =>
        have hane : a ≠ [] := hne a hfa
        have ht : Py.truthyOptL (some a) = true := by
          unfold Py.truthyOptL; cases a <;> simp_all
        simp only [ht, isBirthFlow_eq, Bool.and_true, Bool.true_and, Py.theL, Option.getD_some, Py.setEq, Bool.not_not,
          erase_guardE, Option.isSome_some]
        cases hB : (Build.isBirth f.kind && s.isAgeing)
        · by_cases hs : sameSet (List.map (fun x => x.fst) a) s.strata
          · simp only [hs, Bool.not_false, ↓reduceIte, Option.bind_some, erase_bind, erase_guardE, erase_pure,
              Bool.false_eq_true, Bool.false_and]
            rw [foldlM_append_opt _ (fun stratum =>
              some ({ f with dst := f.dst.map (fun c => c.stratify s.name stratum),
                             adjs := f.adjs ++ Build.adjFor a stratum } : Flow α))]
            · simp [hdst]
            · intro acc x
              rw [← getJoin_toList]
              by_cases hj : (Py.getJoin a x).isSome
              · obtain ⟨adj, hadj⟩ := Option.isSome_iff_exists.mp hj
                simp [hsrc, hdst, hadj, stratify_eq, ctorAdjustments_append]
              · have hnone : Py.getJoin a x = none := by simpa using hj
                simp [hsrc, hdst, hnone, stratify_eq, ctorAdjustments_map_some]
          · simp [hs]
        · simp
  · simp [hst]

/-- the list of flows built by the loop of `BaseTransitionFlow.stratify`, given the adjustment `fa` that
`get_flow_adjustment` returned (the model's `base`) -/
def transBase (f : Flow α) (s : Strat α) (fa : Option (List (String × Option (Adj α)))) : List (Flow α) :=
  s.strata.map (fun stratum =>
    { f with src := if Build.endStratified f.src s then f.src.map (fun c => c.stratify s.name stratum) else f.src,
             dst := if Build.endStratified f.dst s then f.dst.map (fun c => c.stratify s.name stratum) else f.dst,
             adjs := f.adjs ++
               (if ((Build.endStratified f.dst s && !Build.endStratified f.src s) && !s.isStrain && fa.isNone) = true
                then [Build.shareAdj s.strata.length]
                else match fa with
                  | some a => Build.adjFor a stratum
                  | none => []) })

/-- the validation of the adjustment keys (`set(flow_adjustments.keys()) == set(strat.strata)`) -/
def keysOk (s : Strat α) (fa : Option (List (String × Option (Adj α)))) : Bool :=
  match fa with
  | some a => sameSet (a.map (·.1)) s.strata
  | none => true

/-- `BaseTransitionFlow.stratify` as an explicit value -/
theorem base_transition_eq (s : Strat α) (f : Flow α) (c d : Comp) (hsrc : f.src = some c) (hdst : f.dst = some d)
    (hne : AdjNonempty s f) :
    erase (BaseTransitionFlow.stratify f s) =
      if (!(Build.endStratified f.dst s || Build.endStratified f.src s)) = true then some [f]
      else (erase (Build.getFlowAdjustment s f)).bind (fun fa =>
        if keysOk s fa = true then some (transBase f s fa) else none) := by
  unfold BaseTransitionFlow.stratify Build.endStratified
  simp only [hsrc, hdst, Py.the, Option.getD_some, has_name_in_list_eq, erase_ite, erase_pure, erase_bind,
    get_flow_adjustment_eq, erase_foldlM, is_strain_eq]
  split
  · rfl
  · cases hfa : erase (Build.getFlowAdjustment s f) with
    | none => rfl
    | some fa =>
      simp only [Option.bind_some]
      cases fa with
      | none =>
        simp only [Py.truthyOptL, Bool.false_and, Bool.not_false, erase_guardE, ↓reduceIte, Option.bind_some, keysOk,
          Bool.false_eq_true, Bool.and_true]
        unfold transBase
        rw [foldlM_append_one _ (fun stratum => ({ f with
              src := if Build.endStratified f.src s then f.src.map (fun c => c.stratify s.name stratum) else f.src,
              dst := if Build.endStratified f.dst s then f.dst.map (fun c => c.stratify s.name stratum) else f.dst,
              adjs := f.adjs ++
                (if ((Build.endStratified f.dst s && !Build.endStratified f.src s) && !s.isStrain
                      && (none : Option (List (String × Option (Adj α)))).isNone) = true
                 then [Build.shareAdj s.strata.length] else []) } : Flow α))]
        · simp
        · intro acc x
          simp only [hsrc, hdst, Build.endStratified, stratify_eq, Option.isNone_none, Bool.and_true]
          cases c.hasNameIn s.comps <;> cases d.hasNameIn s.comps <;> cases s.isStrain <;>
            simp [ctorAdjustments_map_some, ctorAdjustments_append, Build.shareAdj, Py.multiply]
      | some a =>
        have hane : a ≠ [] := hne a hfa
        have ht : Py.truthyOptL (some a) = true := by
          unfold Py.truthyOptL; cases a <;> simp_all
        simp only [ht, Bool.true_and, Py.theL, Option.getD_some, Py.setEq, Bool.not_not, erase_guardE, keysOk,
          Bool.not_true, Bool.and_false, Bool.false_eq_true, ↓reduceIte]
        by_cases hs : sameSet (List.map (fun x => x.fst) a) s.strata
        · simp only [hs, ↓reduceIte, Option.bind_some]
          unfold transBase
          rw [foldlM_append_one _ (fun stratum => ({ f with
                src := if Build.endStratified f.src s then f.src.map (fun c => c.stratify s.name stratum) else f.src,
                dst := if Build.endStratified f.dst s then f.dst.map (fun c => c.stratify s.name stratum) else f.dst,
                adjs := f.adjs ++ Build.adjFor a stratum } : Flow α))]
          · simp
          · intro acc x
            rw [← getJoin_toList]
            simp only [hsrc, hdst, Build.endStratified, stratify_eq]
            cases c.hasNameIn s.comps <;> cases d.hasNameIn s.comps <;>
              simp [ctorAdjustments_append]
        · simp [hs]

omit [Zero α] [Add α] [Sub α] [Mul α] [LT α] [DecidableLT α] in
/-- `Build.stratifyTransition` in the same explicit form: `transBase`, then `AbsoluteFlow`'s equal share -/
theorem model_transition_eq (s : Strat α) (f : Flow α) :
    erase (Build.stratifyTransition f s) =
      if (!(Build.endStratified f.dst s || Build.endStratified f.src s)) = true then some [f]
      else (erase (Build.getFlowAdjustment s f)).bind (fun fa =>
        if keysOk s fa = true then
          some (if (Summer.Generated.absoluteShareKinds.contains f.kind && decide ((transBase f s fa).length > 1)
                    && !((Build.endStratified f.dst s && !Build.endStratified f.src s) && !s.isStrain && fa.isNone)) = true
                then (transBase f s fa).map (fun g => { g with adjs := g.adjs ++ [Build.shareAdj (transBase f s fa).length] })
                else transBase f s fa)
        else none) := by
  unfold Build.stratifyTransition
  simp only [erase_ite, erase_pure, erase_bind]
  split
  · rfl
  · cases hfa : erase (Build.getFlowAdjustment s f) with
    | none => rfl
    | some fa =>
      simp only [Option.bind_some]
      cases fa with
      | none =>
        simp only [keysOk, transBase, erase_ite, erase_pure, ↓reduceIte]
        exact (apply_ite some _ _ _).symm
      | some a =>
        simp only [keysOk, transBase, erase_ite, erase_pure, erase_bind, erase_guardE]
        by_cases hs : sameSet (List.map (fun x => x.fst) a) s.strata
        · simp only [hs, ↓reduceIte, Option.bind_some]
          exact (apply_ite some _ _ _).symm
        · simp [hs]

/-- `BaseTransitionFlow.stratify` (the classes that do not override it: `hk`) -/
theorem transition_stratify_eq (s : Strat α) (f : Flow α) (c d : Comp) (hsrc : f.src = some c) (hdst : f.dst = some d)
    (hne : AdjNonempty s f) (hk : Summer.Generated.absoluteShareKinds.contains f.kind = false) :
    erase (BaseTransitionFlow.stratify f s) = erase (Build.stratifyTransition f s) := by
  rw [base_transition_eq s f c d hsrc hdst hne, model_transition_eq]
  simp [hk]

/-- `AbsoluteFlow.stratify` -/
theorem absolute_stratify_eq (s : Strat α) (f : Flow α) (c d : Comp) (hsrc : f.src = some c) (hdst : f.dst = some d)
    (hne : AdjNonempty s f) (hk : Summer.Generated.absoluteShareKinds.contains f.kind = true) :
    erase (AbsoluteFlow.stratify f s) = erase (Build.stratifyTransition f s) := by
  unfold AbsoluteFlow.stratify Py.andM
  simp only [erase_bind, erase_ite, erase_pure, get_flow_adjustment_eq, is_strain_eq]
  rw [base_transition_eq s f c d hsrc hdst hne, model_transition_eq]
  simp only [hsrc, hdst, Py.the, Option.getD_some, has_name_in_list_eq, Build.endStratified, hk, Bool.true_and]
  cases hd : d.hasNameIn s.comps <;> cases hc : c.hasNameIn s.comps <;>
    simp only [Bool.or_false, Bool.or_true, Bool.not_true, Bool.not_false, Bool.false_eq_true, ↓reduceIte,
      Bool.true_and, Bool.false_and, Option.bind_some, List.length_cons, List.length_nil, Nat.zero_add, Nat.lt_irrefl,
      gt_iff_lt, decide_false] <;>
    (cases hfa : erase (Build.getFlowAdjustment s f) with
      | none => rfl
      | some fa =>
        have ht : Py.truthyOptL fa = fa.isSome := by
          cases fa with
          | none => rfl
          | some a =>
            have hane : a ≠ [] := hne a hfa
            unfold Py.truthyOptL; cases a <;> simp_all
        simp only [Option.bind_some, ht]
        by_cases hko : keysOk s fa = true
        · cases hst : s.isStrain <;> cases fa <;>
            simp [hko, Build.shareAdj, Py.multiply, apply_ite some]
        · simp [hko])

omit [Zero α] [One α] [Add α] [Sub α] [Mul α] [Div α] [NatCast α] [LT α] [DecidableLT α] in
/-- `AdjNonempty` holds as soon as every declared adjustment dict is non-empty (which `Build.mkStrat` guarantees:
the keys of every declaration are the strata, and there is at least one stratum).  Invariant of the `foldlM` in
`Build.getFlowAdjustment`: the accumulator is `none` or `some d.adjs` for a `d ∈ s.flowAdj`. -/
theorem adj_nonempty_of_decls (s : Strat α) (f : Flow α) (h : ∀ d ∈ s.flowAdj, d.adjs ≠ []) : AdjNonempty s f := by
  intro a ha
  unfold Build.getFlowAdjustment at ha
  rw [erase_foldlM] at ha
  refine foldlM_option_invariant (fun o => ∀ a, o = some a → a ≠ []) (fun d : FlowAdjDecl α => d.adjs ≠ []) _ ?_ _ ?_
    none _ ?_ ha a rfl
  · intro acc x b hacc hx hb
    simp only [erase_bind, erase_guardE, erase_ite, erase_pure] at hb
    have hcases : ∀ (g1 g2 c1 c2 : Bool),
        ((if g1 = true then some () else none).bind fun _ =>
          (if g2 = true then some () else none).bind fun _ =>
            if c1 = true then some acc else if c2 = true then some acc else some (some x.adjs)) = some b →
        b = acc ∨ b = some x.adjs := by
      intro g1 g2 c1 c2
      cases g1 <;> cases g2 <;> cases c1 <;> cases c2 <;> simp <;> intro e <;> simp [e]
    rcases hcases _ _ _ _ hb with rfl | rfl
    · exact hacc
    · intro a ha; cases ha; exact hx
  · intro d hd
    exact h d ((List.mem_filter.mp hd).1)
  · intro a ha; cases ha

/-! ### the whole `flow.stratify(strat)` call

Python resolves `flow.stratify` on the flow's class.  The regenerated class table (`Generated/Tables.lean`, from the class
statements of `flows.py`) says which classes derive from `BaseEntryFlow`, `BaseExitFlow`, `BaseTransitionFlow` and which
override `stratify` (`absoluteShareKinds`: `AbsoluteFlow`). -/

/-- method resolution of `flow.stratify(strat)` over the regenerated class table -/
def stratifyDispatch (f : Flow α) (s : Strat α) : Res (List (Flow α)) :=
  if Summer.Generated.entryKinds.contains f.kind then BaseEntryFlow.stratify f s
  else if Summer.Generated.exitKinds.contains f.kind then BaseExitFlow.stratify f s
  else if Summer.Generated.absoluteShareKinds.contains f.kind then AbsoluteFlow.stratify f s
  else BaseTransitionFlow.stratify f s

/-- the shape the constructors of `flows.py` enforce: entry flows have a destination and no source, exit flows a source
and no destination, transition-type flows both (`assert type(dest) is Compartment`, …) -/
def WfEnds (f : Flow α) : Prop :=
  if Summer.Generated.entryKinds.contains f.kind then f.src = none ∧ f.dst.isSome
  else if Summer.Generated.exitKinds.contains f.kind then f.dst = none ∧ f.src.isSome
  else f.src.isSome ∧ f.dst.isSome

/-- `flow.stratify(strat)` of the source text is `Build.stratifyFlow` (the definition the C04 / C03 theorems are about),
for every flow class, every stratification kind and every adjustment declaration -/
theorem stratify_dispatch_eq (s : Strat α) (f : Flow α) (hwf : WfEnds f) (hne : AdjNonempty s f) :
    erase (stratifyDispatch f s) = erase (Build.stratifyFlow f s) := by
  unfold stratifyDispatch Build.stratifyFlow Build.isEntry Build.isExit
  unfold WfEnds at hwf
  by_cases he : Summer.Generated.entryKinds.contains f.kind = true
  · simp only [he, ↓reduceIte] at hwf ⊢
    obtain ⟨hs, hd⟩ := hwf
    obtain ⟨c, hc⟩ := Option.isSome_iff_exists.mp hd
    exact entry_stratify_eq s f c hc hs hne
  · simp only [he, Bool.false_eq_true, ↓reduceIte] at hwf ⊢
    by_cases hx : Summer.Generated.exitKinds.contains f.kind = true
    · simp only [hx, ↓reduceIte] at hwf ⊢
      obtain ⟨hd, hs⟩ := hwf
      obtain ⟨c, hc⟩ := Option.isSome_iff_exists.mp hs
      exact exit_stratify_eq s f c hc hd hne
    · simp only [hx, Bool.false_eq_true, ↓reduceIte] at hwf ⊢
      obtain ⟨hs, hd⟩ := hwf
      obtain ⟨c, hc⟩ := Option.isSome_iff_exists.mp hs
      obtain ⟨d, hdd⟩ := Option.isSome_iff_exists.mp hd
      by_cases ha : Summer.Generated.absoluteShareKinds.contains f.kind = true
      · simp only [ha, ↓reduceIte]
        exact absolute_stratify_eq s f c d hc hdd hne ha
      · have ha' : Summer.Generated.absoluteShareKinds.contains f.kind = false := by simpa using ha
        simp only [ha', Bool.false_eq_true, ↓reduceIte]
        exact transition_stratify_eq s f c d hc hdd hne ha'

end

/-! ### non-vacuity: the hypotheses are satisfiable, on an input that exercises the loop and the equal share -/
section
def exStrat : Strat Rat :=
  { kind := .plain, name := "g", strata := ["a", "b"], comps := ["S"], split := [],
    flowAdj := [⟨"fl", [("a", none), ("b", some (.mul (.const 2)))], [], []⟩], infAdj := [], mixing := none }
def exFlow (k : FlowKind) : Flow Rat :=
  { kind := k, name := "fl", src := some ⟨"S", []⟩, dst := some ⟨"I", []⟩, param := .const 1, adjs := [] }

theorem exStrat_adjNonempty (k : FlowKind) : AdjNonempty exStrat (exFlow k) :=
  adj_nonempty_of_decls _ _ (by simp [exStrat])

example : erase (AbsoluteFlow.stratify (exFlow .absolute) exStrat) = erase (Build.stratifyTransition (exFlow .absolute) exStrat) :=
  absolute_stratify_eq exStrat (exFlow .absolute) ⟨"S", []⟩ ⟨"I", []⟩ rfl rfl (exStrat_adjNonempty _) (by decide)

example : erase (BaseTransitionFlow.stratify (exFlow .transition) exStrat) = erase (Build.stratifyTransition (exFlow .transition) exStrat) :=
  transition_stratify_eq exStrat (exFlow .transition) ⟨"S", []⟩ ⟨"I", []⟩ rfl rfl (exStrat_adjNonempty _) (by decide)

/-- the example is not an error case: two flows come out, carrying 1 and 2 adjustments
(`None` + equal share; `Multiply(2)` + equal share) -/
example : (erase (Build.stratifyTransition (exFlow .absolute) exStrat)).map (List.map (fun g => g.adjs.length))
    = some [1, 2] := by decide

def exEntry : Flow Rat :=
  { kind := .importF, name := "fl", src := none, dst := some ⟨"S", []⟩, param := .const 1, adjs := [] }

example : erase (BaseEntryFlow.stratify exEntry exStrat) = erase (Build.stratifyEntry exEntry exStrat) :=
  entry_stratify_eq exStrat exEntry ⟨"S", []⟩ rfl rfl (adj_nonempty_of_decls _ _ (by simp [exStrat]))

example : (erase (Build.stratifyEntry exEntry exStrat)).map (List.map (fun g => g.adjs.length)) = some [0, 1] := by decide
end
#print axioms get_flow_adjustment_eq
#print axioms exit_stratify_eq
#print axioms entry_stratify_eq
#print axioms base_transition_eq
#print axioms model_transition_eq
#print axioms transition_stratify_eq
#print axioms absolute_stratify_eq
#print axioms adj_nonempty_of_decls
#print axioms stratify_dispatch_eq
#print axioms exStrat_adjNonempty
end Summer.Props.C04Source
