import Summer.Generated.Inspect
import Summer.Model.Query
import Summer.Proofs.Structure
import Summer.Props.C13
/-
C13 — `query_compartments` and `query_flows` are what the SOURCE TEXT of `summer2/inspect.py` says.

`Generated/Inspect.lean` is emitted by `harness/translate/gen_rates.py` only when every statement of `inspect.query_compartments`,
`inspect.query_flows` and of the three `CompartmentalModel` methods that delegate to them (`query_compartments`, `query_flows`,
`get_matching_compartments`) is the expected text.  The theorems identify the renderings with `Query.queryCompartments` /
`Query.queryFlows`, the definitions `C13.queryCompartments_eq`, `C13.queryFlows_eq` and `C13.selection_consistent` are about — for strata
filters that do not use the reserved key `name` in the flow-end filters (with that key the text selects on the compartment name alone, a
form the property does not speak about and the hand model does not have).
-/
set_option linter.unusedSectionVars false
namespace Summer.Props.C13Inspect
open Summer Summer.Build Summer.Generated.Inspect Summer.Spec

section
variable {α : Type}

theorem foldl_keep_eq_filter {β : Type} (P : β → Bool) (l : List β) (init : List β) :
    l.foldl (fun acc c => if P c then acc ++ [c] else acc) init = init ++ l.filter P := by
  induction l generalizing init with
  | nil => simp
  | cons a as ih =>
    simp only [List.foldl_cons, ih, List.filter_cons]
    cases P a <;> simp

theorem any_key_iff (st : Strata) (k : String) : st.any (fun p => p.1 == k) = (alookup st k).isSome := by
  induction st with
  | nil => rfl
  | cons p ps ih =>
    simp only [List.any_cons, alookup, List.find?_cons]
    cases h : (p.1 == k) <;> simp_all [alookup]

/-- the `cur_match` loop: a conjunction over the filter's keys -/
theorem cur_match_eq (c : Comp) (query : Strata) (init : Bool) :
    query.foldl (fun (cur : Bool) (kv : String × String) =>
      if c.strata.any (fun p => p.1 == kv.1) then cur && (alookup c.strata kv.1 == some kv.2) else false) init
    = (init && query.all (fun kv => match alookup c.strata kv.1 with
        | some v => v == kv.2
        | none => false)) := by
  induction query generalizing init with
  | nil => simp
  | cons kv rest ih =>
    rw [List.foldl_cons, ih, List.all_cons, any_key_iff]
    cases h : alookup c.strata kv.1 with
    | none => simp
    | some v => cases init <;> simp

/-- `query_compartments` -/
theorem query_compartments_eq (m : Model α) (name : Option String) (flt : Strata) :
    query_compartments m name flt = Query.queryCompartments m name flt := by
  unfold query_compartments Query.queryCompartments
  simp only [cur_match_eq, Bool.true_and]
  rw [foldl_keep_eq_filter]
  simp only [List.nil_append]
  cases name <;> rfl


/-- `CompartmentalModel.get_matching_compartments(name, strata)` is pinned as `return self.query_compartments({'name': name} | strata)`:
on every model with distinct strata keys per compartment the source text of `query_compartments` selects what `Build.getMatching` (the
selection used when flows are added to a stratified model) and the `is_match` filter select -/
theorem get_matching_compartments_eq (m : Model α) (hk : ∀ c ∈ m.comps, KeysNodup c.strata) (name : String) (flt : Strata) :
    query_compartments m (some name) flt = getMatching m name flt
    ∧ query_compartments m (some name) flt = m.comps.filter (fun c => c.isMatch name flt) := by
  have h := Summer.C13.agree_comps m hk name flt
  rw [query_compartments_eq]
  exact ⟨h.1.symm, h.1.symm.trans h.2.1⟩

/-! ### `query_flows` with end filters that may name the compartment -/

/-- THE specification of one end filter of `query_flows`: if the filter names a compartment (reserved key `name`) the end must exist and
carry that name; every other key/value pair must be among the strata of the end when there is one (a missing end never fails a strata
filter) -/
def endSelected (flt : Strata) (e : Option Comp) : Prop :=
  (match alookup flt "name", e with
    | none, _ => True
    | some n, some c => c.name = n
    | some _, none => False) ∧
  (match e with
    | none => True
    | some c => ∀ kv ∈ flt, kv.1 ≠ "name" → kv ∈ c.strata)

instance (flt : Strata) (e : Option Comp) : Decidable (endSelected flt e) := by
  unfold endSelected
  cases alookup flt "name" <;> cases e <;> infer_instance

def flowSelectedEnds (name : Option String) (ss ds : Strata) (f : Flow α) : Prop :=
  (match name with | none => True | some n => f.name = n) ∧ endSelected ss f.src ∧ endSelected ds f.dst

instance (name : Option String) (ss ds : Strata) (f : Flow α) : Decidable (flowSelectedEnds name ss ds f) := by
  unfold flowSelectedEnds
  cases name <;> infer_instance

theorem rest_iff (c : Comp) (flt : Strata) :
    c.hasStrata (flt.filter (fun p => p.1 != "name")) = true ↔ ∀ kv ∈ flt, kv.1 ≠ "name" → kv ∈ c.strata := by
  rw [Proofs.Structure.hasStrata_iff]
  constructor
  · intro h kv hkv hne
    exact h kv (List.mem_filter.mpr ⟨hkv, by simpa using hne⟩)
  · intro h kv hkv
    obtain ⟨h1, h2⟩ := List.mem_filter.mp hkv
    exact h kv h1 (by simpa using h2)

theorem alookup_nil_name (k : String) : alookup ([] : Strata) k = none := rfl

/-- an end filter is one `filter` with the specification's predicate -/
theorem endFilter_eq (flt : Strata) (endOf : Flow α → Option Comp) (flows : List (Flow α × Nat)) :
    Query.endFilter flt endOf flows = flows.filter (fun f => decide (endSelected flt (endOf f.1))) := by
  unfold Query.endFilter
  cases flt with
  | nil =>
    simp only [List.length_nil, bne_self_eq_false, Bool.false_eq_true, if_false]
    symm
    apply List.filter_eq_self.mpr
    intro f _
    rw [decide_eq_true_iff]
    unfold endSelected
    rw [alookup_nil_name]
    cases endOf f.1 <;> simp
  | cons a rest =>
    have hl : ((a :: rest).length != 0) = true := by simp
    simp only [hl, if_true]
    cases hn : alookup (a :: rest) "name" with
    | none =>
      simp only []
      apply List.filter_congr
      intro f _
      rw [Bool.eq_iff_iff, decide_eq_true_iff]
      unfold endSelected
      rw [hn]
      cases he : endOf f.1 with
      | none => simp
      | some c => simp only [true_and]; exact rest_iff c (a :: rest)
    | some n =>
      simp only [List.filter_filter]
      apply List.filter_congr
      intro f _
      rw [Bool.eq_iff_iff, decide_eq_true_iff]
      unfold endSelected
      rw [hn]
      cases he : endOf f.1 with
      | none => simp
      | some c =>
        simp only [Bool.and_eq_true, beq_iff_eq]
        rw [rest_iff c (a :: rest)]
        exact And.comm

/-- `query_flows` (hand model) selects exactly the flows the specification names, by position, in model order -/
theorem queryFlowsEnds_eq (m : Model α) (name : Option String) (ss ds : Strata) :
    Query.queryFlowsEnds m name ss ds = indicesWhere (fun f => decide (flowSelectedEnds name ss ds f)) m.flows := by
  rw [← Proofs.Structure.idxWhere_eq]
  unfold Query.queryFlowsEnds Run.idxWhere
  simp +zetaHave only [endFilter_eq, List.filter_filter]
  refine congrArg (List.map _) (List.filter_congr ?_)
  intro f _
  rw [Bool.eq_iff_iff]
  simp only [Bool.and_eq_true, decide_eq_true_iff]
  unfold flowSelectedEnds
  cases name with
  | none => simp only [true_and, and_true]; exact And.comm
  | some n => simp only [beq_iff_eq]; constructor <;> (intro h; obtain ⟨a, b, c⟩ := h; first | exact ⟨c, b, a⟩ | exact ⟨c, a, b⟩ | exact ⟨b, c, a⟩)

/-- the source text of `query_flows` (regenerated) is the hand model, reported as positions in `model.flows` -/
theorem query_flows_eq (m : Model α) (name : Option String) (ss ds : Strata) :
    (query_flows m name ss ds).map (·.2) = Query.queryFlowsEnds m name ss ds := by
  unfold query_flows Query.queryFlowsEnds Query.endFilter
  cases name with
  | none =>
    have hT : m.flows.zipIdx.filter (fun fi => match (none : Option String) with | some n => fi.1.name == n | none => true) = m.flows.zipIdx :=
      List.filter_eq_self.mpr (fun _ _ => rfl)
    rw [hT]
    rfl
  | some n =>
    have : (fun (f : Flow α × Nat) => n == f.1.name) = (fun (fi : Flow α × Nat) => fi.1.name == n) := by
      funext f
      cases h1 : (n == f.1.name) <;> cases h2 : (f.1.name == n) <;> simp_all
    dsimp only
    rw [this]
    rfl

/-- without the reserved key the specification is `Spec.flowSelected` (the one `C13.queryFlows_eq` uses) -/
theorem flowSelectedEnds_plain (n : String) (ss ds : Strata) (f : Flow α)
    (hs : ∀ kv ∈ ss, kv.1 ≠ "name") (hd : ∀ kv ∈ ds, kv.1 ≠ "name") :
    flowSelectedEnds (some n) ss ds f ↔ Spec.flowSelected n ss ds f := by
  have hnone : ∀ (flt : Strata), (∀ kv ∈ flt, kv.1 ≠ "name") → alookup flt "name" = none := by
    intro flt h
    have hf : flt.find? (fun p => p.fst == "name") = none := by
      rw [List.find?_eq_none]
      intro kv hkv hk
      exact h kv hkv (by simpa using hk)
    unfold alookup
    rw [hf]
  have hend : ∀ (flt : Strata) (e : Option Comp), (∀ kv ∈ flt, kv.1 ≠ "name") → (endSelected flt e ↔ Spec.endOk flt e) := by
    intro flt e h
    unfold endSelected Spec.endOk
    rw [hnone flt h]
    cases e with
    | none => simp
    | some c => simp only [true_and]; exact ⟨fun g kv hkv => g kv hkv (h kv hkv), fun g kv hkv _ => g kv hkv⟩
  unfold flowSelectedEnds Spec.flowSelected
  rw [hend ss f.src hs, hend ds f.dst hd]


/-- with plain strata filters the repaired `query_flows` selects what every other flow matcher selects (`C13.queryFlows_eq`, `agree_flows`) -/
theorem queryFlowsEnds_plain (m : Model α) (n : String) (ss ds : Strata)
    (hs : ∀ kv ∈ ss, kv.1 ≠ "name") (hd : ∀ kv ∈ ds, kv.1 ≠ "name") :
    Query.queryFlowsEnds m (some n) ss ds = Query.queryFlows m (some n) ss ds := by
  rw [queryFlowsEnds_eq, Summer.C13.queryFlows_eq]
  unfold selectFlowIdx
  congr 1
  funext f
  exact decide_eq_decide.mpr (flowSelectedEnds_plain n ss ds f hs hd)

/-- the finding repaired by the `fix:` commit, as data: asking for source compartment `I` with `age = young` no longer returns the flow out
of `I` `age = old` -/
def exYoung : Comp := { name := "I", strata := [("age", "young")] }
def exOld : Comp := { name := "I", strata := [("age", "old")] }
def exModel : Model Int :=
  { t0 := 0, t1 := 1, dt := 1, nTimes := 2, comps := [exYoung, exOld], origNames := ["I"], infectious := ["I"],
    flows := [{ kind := .death, name := "d", src := some exYoung, dst := none, param := .const 1, adjs := [] },
              { kind := .death, name := "d", src := some exOld, dst := none, param := .const 1, adjs := [] }],
    strats := [], mixingCats := [[]], mixingMats := [], strains := ["default"], initDist := none, arrayPop := none, actions := [],
    requests := [], computed := [], whitelist := [], finalized := false }

example : Query.queryFlowsEnds exModel none [("name", "I"), ("age", "young")] [] = [0] := by decide
example : Query.queryFlowsEnds exModel none [("age", "old")] [] = [1] := by decide

end

#print axioms query_compartments_eq
#print axioms query_flows_eq
#print axioms get_matching_compartments_eq
#print axioms queryFlowsEnds_eq
#print axioms flowSelectedEnds_plain
#print axioms queryFlowsEnds_plain

end Summer.Props.C13Inspect
