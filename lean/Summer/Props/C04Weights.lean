import Summer.Generated.Mixing
/-
C01 / C02 / C03 / C04 — the realised weight of every flow is what the SOURCE TEXT of `param_impl.py::map_flow_keys` says.

`Generated/Mixing.lean::map_flow_keys` is emitted by `harness/translate/gen_rates.py` only when every statement of `map_flow_keys` is the
expected text (a chain of graph objects per flow: parameter first, an `Overwrite` restarts the chain, other adjustments are appended; the
weight is the left-to-right product of the chain).  `map_flow_keys_eq` identifies it with `Run.realised`, the definition the weight theorems
are about (`C04.weights_after_stratify`, `C02.repl_births_sum`, `C03.agg_weights`, `C01.step_eq_spec` through `Run.flowWeights`):
constant folding that keeps only part of the chain, or an `Overwrite` that does not reset everything before it, changes the source text
and so breaks the obligation.
-/
set_option linter.unusedSectionVars false
namespace Summer.Props.C04Weights
open Summer Summer.Run Summer.Generated.Mixing

section
variable {α : Type}

/-- the product of a non-empty chain -/
def chainProd (hd : Expr α) (tl : List (Expr α)) : Expr α := tl.foldl (fun o p => Expr.mul o p) hd

theorem chain_fold (g : List (Expr α) → Adj α → List (Expr α)) (r : Expr α → Adj α → Expr α)
    (hg1 : ∀ ff e, g ff (.ovr e) = [e]) (hg2 : ∀ ff e, g ff (.mul e) = ff ++ [e])
    (hr1 : ∀ acc e, r acc (.ovr e) = e) (hr2 : ∀ acc e, r acc (.mul e) = Expr.mul acc e)
    (adjs : List (Adj α)) : ∀ (hd : Expr α) (tl : List (Expr α)) (d : Expr α),
    (adjs.foldl g (hd :: tl)).tail.foldl (fun (o : Expr α) p => Expr.mul o p) ((adjs.foldl g (hd :: tl)).headD d)
    = adjs.foldl r (chainProd hd tl) := by
  induction adjs with
  | nil => intro hd tl d; rfl
  | cons a as ih =>
    intro hd tl d
    cases a with
    | ovr e =>
      have := ih e [] d
      simpa only [chainProd, List.foldl_cons, List.foldl_nil, hg1, hr1] using this
    | mul e =>
      have := ih hd (tl ++ [e]) d
      simpa only [chainProd, List.foldl_cons, List.foldl_nil, List.cons_append, List.foldl_append, hg2, hr2] using this

/-- `map_flow_keys` computes `Run.realised` for every flow, in flow order -/
theorem map_flow_keys_eq (flows : List (Flow α)) : map_flow_keys flows = flows.map realised := by
  unfold map_flow_keys
  congr 1
  funext f
  unfold realised
  exact chain_fold _ _ (fun _ _ => rfl) (fun _ _ => rfl) (fun _ _ => rfl) (fun _ _ => rfl) f.adjs f.param [] f.param

/-- an `Overwrite` discards the parameter and everything declared before it; later multipliers apply to the overwriting value -/
example (p a b c : Expr Int) :
    map_flow_keys [({ kind := .transition, name := "f", src := none, dst := none, param := p, adjs := [.mul a, .ovr b, .mul c] } : Flow Int)]
      = [Expr.mul b c] := rfl

/-- two multipliers are both kept, in order -/
example (p a b : Expr Int) :
    map_flow_keys [({ kind := .transition, name := "f", src := none, dst := none, param := p, adjs := [.mul a, .mul b] } : Flow Int)]
      = [Expr.mul (Expr.mul p a) b] := rfl

end

#print axioms map_flow_keys_eq

end Summer.Props.C04Weights
