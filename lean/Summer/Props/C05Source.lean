import Summer.Generated.Mixing
import Summer.Props.C01Rates
/-
C05 — the mixing matrix of a model is what the SOURCE TEXT of `summer2/parameters/param_impl.py::finalize_parameters` says:
the stratifications' matrices, collected in the order the stratifications were applied, combined left to right with the
Kronecker product (`compute_final_matrix`), `[[1.0]]` when there is none.  `Summer/Generated/Mixing.lean` is regenerated from
`/repo` on every run (`harness/translate/gen_rates.py`).  `mixingMatrix_eq` identifies it with `Run.mixingMatrix`, the
definition `C05.kron_fold_entry` / `C05.foi_eq_spec` are about.  (The force-of-infection arithmetic itself — `get_force_of_infection`,
`get_infectious_multipliers` — is tied in `Summer/Props/C01Rates.lean`.)
-/
set_option linter.unusedSectionVars false
namespace Summer.Props.C05Source
open Summer Summer.Run Summer.Generated.Mixing

section
variable {α : Type} [Zero α] [One α] [Add α] [Sub α] [Mul α] [Div α] [LT α] [DecidableLT α]

/-- several matrices: a left fold of the Kronecker product, in the order given -/
theorem compute_final_matrix_eq (base : Matrix α) (args : List (Matrix α)) :
    compute_final_matrix base args = args.foldl kron base := rfl

theorem final_mixing_matrix_eq (mats : List (Matrix α)) :
    final_mixing_matrix mats = (match mats with
      | [] => [[1]]
      | m0 :: rest => rest.foldl kron m0) := by
  cases mats with
  | nil => rfl
  | cons m0 rest => cases rest <;> rfl

/-- `model.mixing_matrix` evaluated in an environment -/
theorem mixingMatrix_eq (m : Model α) (env : Env α) :
    mixingMatrix m env = (m.mixingMats.mapM (evalMatrix env)).map final_mixing_matrix := by
  unfold mixingMatrix
  cases m.mixingMats.mapM (evalMatrix env) with
  | none => rfl
  | some mats =>
    simp only [Option.bind_eq_bind, Option.bind_some, Option.map_some, final_mixing_matrix_eq]
    cases mats <;> rfl

end

/-! non-vacuity: the order matters (the Kronecker product does not commute), three matrices associate to the left -/
example : final_mixing_matrix (α := Rat) [[[1, 2], [3, 4]], [[0, 5], [6, 7]]] =
    [[0, 5, 0, 10], [6, 7, 12, 14], [0, 15, 0, 20], [18, 21, 24, 28]] := by decide +kernel
example : final_mixing_matrix (α := Rat) [[[0, 5], [6, 7]], [[1, 2], [3, 4]]] ≠
    final_mixing_matrix (α := Rat) [[[1, 2], [3, 4]], [[0, 5], [6, 7]]] := by decide +kernel
example : final_mixing_matrix (α := Rat) [] = [[1]] ∧ final_mixing_matrix (α := Rat) [[[2, 3]]] = [[2, 3]] := by decide +kernel

#print axioms compute_final_matrix_eq
#print axioms final_mixing_matrix_eq
#print axioms mixingMatrix_eq

end Summer.Props.C05Source
