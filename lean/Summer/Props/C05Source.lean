import Summer.Generated.Mixing
import Summer.Props.C01Rates
import Summer.Proofs.Aggregate
/-
C05 — the mixing matrix of a model is what the SOURCE TEXT of `summer2/parameters/param_impl.py::finalize_parameters` says:
the stratifications' matrices, collected in the order the stratifications were applied, combined left to right with the
Kronecker product (`compute_final_matrix`), `[[1.0]]` when there is none.  `Summer/Generated/Mixing.lean` is regenerated from
`/repo` on every run (`harness/translate/gen_rates.py`).  `mixingMatrix_eq` identifies it with `Run.mixingMatrix`, the
definition `C05.kron_fold_entry` / `C05.foi_eq_spec` are about.  (The force-of-infection arithmetic itself — `get_force_of_infection`,
`get_infectious_multipliers` — is tied in `Summer/Props/C01Rates.lean`.)
-/
set_option linter.unusedSectionVars false
namespace Summer.Props.C05Source
open Summer Summer.Run Summer.Generated.Mixing

section
variable {α : Type} [Zero α] [One α] [Add α] [Sub α] [Mul α] [Div α] [LT α] [DecidableLT α]

/-- several matrices: a left fold of the Kronecker product, in the order given -/
theorem compute_final_matrix_eq (base : Matrix α) (args : List (Matrix α)) :
    compute_final_matrix base args = args.foldl kron base := rfl

theorem final_mixing_matrix_eq (mats : List (Matrix α)) :
    final_mixing_matrix mats = (match mats with
      | [] => [[1]]
      | m0 :: rest => rest.foldl kron m0) := by
  cases mats with
  | nil => rfl
  | cons m0 rest => cases rest <;> rfl

/-- `model.mixing_matrix` evaluated in an environment -/
theorem mixingMatrix_eq (m : Model α) (env : Env α) :
    mixingMatrix m env = (m.mixingMats.mapM (evalMatrix env)).map final_mixing_matrix := by
  unfold mixingMatrix
  cases m.mixingMats.mapM (evalMatrix env) with
  | none => rfl
  | some mats =>
    simp only [Option.bind_eq_bind, Option.bind_some, Option.map_some, final_mixing_matrix_eq]
    cases mats <;> rfl

/-- a successful `Option` fold is the pure fold of any step that agrees with it where it succeeds -/
theorem foldl_of_foldlM {β γ : Type} (f : γ → β → Option γ) (g : γ → β → γ) (l : List β)
    (hfg : ∀ a x r, x ∈ l → f a x = some r → g a x = r) (a r : γ) (h : l.foldlM f a = some r) : l.foldl g a = r := by
  induction l generalizing a with
  | nil => simpa using h
  | cons x xs ih =>
    simp only [List.foldlM_cons, Option.bind_eq_bind, Option.bind_eq_some_iff] at h
    obtain ⟨a', ha', hrest⟩ := h
    simp only [List.foldl_cons]
    rw [hfg a x a' (by simp) ha']
    exact ih (fun a x r hx => hfg a x r (by simp [hx])) a' hrest

theorem compIdx_of_mem (comps : List Comp) (c : Comp) (h : c ∈ comps) : ∃ i, compIdx comps c = some i := by
  obtain ⟨i, hi, _⟩ := Proofs.indexOf?_mem comps c h
  exact ⟨i, hi⟩

theorem inf_step (comps : List Comp) (adj : Adj α) (v : α) (acc : List α) (c : Comp) (i : Nat)
    (hi : compIdx comps c = some i) :
    (if Py.isOverwrite adj = true then acc.set ((compIdx comps c).getD 0) v
      else acc.set ((compIdx comps c).getD 0) (v * acc.getD ((compIdx comps c).getD 0) 0))
    = (match compIdx comps c with
        | none => acc
        | some i => match adj with
          | .ovr _ => acc.set i v
          | .mul _ => acc.set i (v * acc.getD i 0)) := by
  rw [hi]
  cases adj <;> simp [Py.isOverwrite]

/-- `get_compartment_infectiousness`: when every adjustment parameter evaluates (which is when the hand model's
`Run.compInfectiousness` is defined), the translated triple loop computes the same vector -/
theorem get_compartment_infectiousness_eq (m : Model α) (params : List (String × α)) (ci : List α)
    (h : compInfectiousness m params = some ci) :
    Generated.Rates.get_compartment_infectiousness m (fun adj => (evalStatic params adj.expr).getD 0) = ci := by
  unfold compInfectiousness at h
  unfold Generated.Rates.get_compartment_infectiousness
  refine foldl_of_foldlM _ _ m.strats ?_ _ ci h
  intro acc s r _ hs
  refine foldl_of_foldlM _ _ s.infAdj ?_ _ r hs
  intro acc ia r _ hia
  refine foldl_of_foldlM _ _ ia.2 ?_ _ r hia
  intro acc sa r _ hsa
  cases hadj : sa.2 with
  | none => simpa [hadj] using hsa
  | some adj =>
    simp only [hadj, Option.bind_eq_bind, Option.bind_eq_some_iff, Option.pure_def, Option.some.injEq] at hsa
    obtain ⟨v, hv, hr⟩ := hsa
    simp only [hv, Option.getD_some]
    subst hr
    have hmem : ∀ c ∈ Build.getMatching m ia.1 [(s.name, sa.1)], c ∈ m.comps := by
      intro c hc
      simp only [Build.getMatching, List.mem_filter] at hc
      exact hc.1.1
    generalize Build.getMatching m ia.1 [(s.name, sa.1)] = targets at hmem
    induction targets generalizing acc with
    | nil => rfl
    | cons c cs ih =>
      simp only [List.foldl_cons]
      obtain ⟨i, hi⟩ := compIdx_of_mem m.comps c (hmem c (by simp))
      have hstep := inf_step m.comps adj v acc c i hi
      rw [hstep]
      exact ih _ (fun c' hc' => hmem c' (by simp [hc']))

end

/-! non-vacuity: the order matters (the Kronecker product does not commute), three matrices associate to the left -/
example : final_mixing_matrix (α := Rat) [[[1, 2], [3, 4]], [[0, 5], [6, 7]]] =
    [[0, 5, 0, 10], [6, 7, 12, 14], [0, 15, 0, 20], [18, 21, 24, 28]] := by decide +kernel
example : final_mixing_matrix (α := Rat) [[[0, 5], [6, 7]], [[1, 2], [3, 4]]] ≠
    final_mixing_matrix (α := Rat) [[[1, 2], [3, 4]], [[0, 5], [6, 7]]] := by decide +kernel
example : final_mixing_matrix (α := Rat) [] = [[1]] ∧ final_mixing_matrix (α := Rat) [[[2, 3]]] = [[2, 3]] := by decide +kernel

#print axioms compute_final_matrix_eq
#print axioms final_mixing_matrix_eq
#print axioms mixingMatrix_eq
#print axioms get_compartment_infectiousness_eq

end Summer.Props.C05Source
