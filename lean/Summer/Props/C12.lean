import Summer.Proofs.Structure
/-
C12 (structure part) — deterministic order, distinctness, flow ends.

* `in_place`      : a stratification replaces each stratified compartment, in place, by its strata in
                    declaration order and leaves everything else where it was.
* `nodup`         : compartments stay pairwise distinct (structural equality of `Comp`, which is what
                    the model compares; injectivity of `Comp.serialize` is NOT claimed — that is the
                    recorded naming assumption: no `X` in names/keys, no `_` in stratification names).
* `endpoints`     : the invariant `Spec.Inv` (⊇ `Spec.WF`: every flow end is a compartment of the model)
                    holds for every model reachable through the build API, including after flows are
                    added to an already stratified model; the index found by `Run.compIdx` is the
                    position of the end.

`Spec.Reachable` : constructor (distinct compartment names), any `addFlow`, any accepted
`stratifyWith` whose strata list has no duplicates (the Python constructor does not check this; it is
the hypothesis `s.strata.Nodup`), any other call that leaves compartments/flows/stratifications alone.
-/
namespace Summer.C12
open Summer Summer.Build Summer.Spec Summer.Proofs.Structure

section
variable {α : Type}

/-! ### `C12.in_place` -/

theorem in_place (comps : List Comp) (s : Strat α) :
    stratifyComps comps s
      = comps.flatMap (fun c => if c.name ∈ s.comps then s.strata.map (c.stratify s.name) else [c]) :=
  stratifyComps_eq comps s

/-- a stratified compartment is replaced in place by its strata, in declaration order -/
theorem in_place_stratified (l1 l2 : List Comp) (c : Comp) (s : Strat α) (h : c.name ∈ s.comps) :
    stratifyComps (l1 ++ c :: l2) s
      = stratifyComps l1 s ++ s.strata.map (c.stratify s.name) ++ stratifyComps l2 s := by
  rw [stratifyComps_append, stratifyComps_cons_in c l2 s h, List.append_assoc]

/-- an untouched compartment stays where it was -/
theorem in_place_untouched (l1 l2 : List Comp) (c : Comp) (s : Strat α) (h : c.name ∉ s.comps) :
    stratifyComps (l1 ++ c :: l2) s = stratifyComps l1 s ++ c :: stratifyComps l2 s := by
  rw [stratifyComps_append, stratifyComps_cons_out c l2 s h]

/-- the relative order of the untouched compartments is preserved -/
theorem untouched_order (comps : List Comp) (s : Strat α) :
    (stratifyComps comps s).filter (fun c => decide (c.name ∉ s.comps))
      = comps.filter (fun c => decide (c.name ∉ s.comps)) :=
  stratifyComps_untouched comps s

theorem length (comps : List Comp) (s : Strat α) :
    (stratifyComps comps s).length
      = (comps.map (fun c => if c.name ∈ s.comps then s.strata.length else 1)).sum :=
  stratifyComps_length comps s

example : stratifyComps [⟨"S", []⟩, ⟨"I", []⟩, ⟨"R", []⟩] (Spec.Ex.strat .plain "loc" ["u", "r"] ["I"] [])
    = [⟨"S", []⟩, ⟨"I", [("loc", "u")]⟩, ⟨"I", [("loc", "r")]⟩, ⟨"R", []⟩] := by decide

/-! ### `C12.nodup` -/

/-- one stratification step: distinct compartments, distinct strata and a fresh stratification name
give distinct compartments, and strata dictionaries keep distinct keys -/
theorem nodup {comps : List Comp} {s : Strat α} (hn : comps.Nodup) (hs : s.strata.Nodup)
    (hfresh : ∀ c ∈ comps, ¬ HasKey c.strata s.name) (hk : ∀ c ∈ comps, KeysNodup c.strata) :
    (stratifyComps comps s).Nodup ∧ ∀ c ∈ stratifyComps comps s, KeysNodup c.strata :=
  ⟨stratifyComps_nodup hn hs hfresh, stratifyComps_keys hk⟩

example : let comps : List Comp := [⟨"S", [("age", "0")]⟩, ⟨"S", [("age", "5")]⟩]
    let s := Spec.Ex.strat .plain "loc" ["u", "r"] ["S"] []
    comps.Nodup ∧ s.strata.Nodup ∧ (∀ c ∈ comps, ¬ HasKey c.strata s.name) ∧ (∀ c ∈ comps, KeysNodup c.strata) := by
  decide

/-- the hypothesis `s.strata.Nodup` cannot be dropped: repeated strata give repeated compartments -/
example : ¬ (stratifyComps [⟨"S", []⟩] (Spec.Ex.strat .plain "loc" ["u", "u"] ["S"] [])).Nodup := by decide

end

section
variable {α : Type} [One α] [Div α] [NatCast α]

/-- `stratify_with` refuses a name that already exists, so the name is fresh for every compartment -/
theorem stratifyWith_fresh {m m' : Model α} {s : Strat α} (h : Inv m) (hok : stratifyWith m s = .ok m') :
    (∀ c ∈ m.comps, ¬ HasKey c.strata s.name) ∧ m'.comps = stratifyComps m.comps s := by
  rcases stratifyWith_ok (shape_lite h) hok with ⟨_, R⟩
  exact ⟨fresh_of_inv h R.fresh, R.comps⟩

/-! ### `C12.endpoints` : the invariant is established and preserved -/

omit [One α] [Div α] [NatCast α] in
theorem inv_mkModel [LT α] [DecidableLT α] {t0 t1 dt : α} {ws : Option Nat} {names inf : List String} {m : Model α}
    (hn : names.Nodup) (h : mkModel t0 t1 dt ws names inf = .ok m) : Inv m :=
  (Proofs.Structure.inv_mkModel hn h).1

/-- all six `FlowOp` constructors -/
theorem inv_addFlow {m m' : Model α} {op : FlowOp α} (h : Inv m) (hok : addFlow m op = .ok m') : Inv m' :=
  Proofs.Structure.inv_addFlow h hok

theorem inv_stratifyWith {m m' : Model α} {s : Strat α} (h : Inv m) (hs : s.strata.Nodup)
    (hok : stratifyWith m s = .ok m') : Inv m' :=
  Proofs.Structure.inv_stratifyWith h hs hok

/-- every reachable model satisfies the invariant -/
theorem reachable_inv [LT α] [DecidableLT α] {m : Model α} (h : Reachable m) : Inv m :=
  Proofs.Structure.reachable_inv h

/-- `C12.nodup` for every reachable model -/
theorem reachable_nodup [LT α] [DecidableLT α] {m : Model α} (h : Reachable m) :
    m.comps.Nodup ∧ ∀ c ∈ m.comps, KeysNodup c.strata :=
  ⟨(reachable_inv h).nodup, (reachable_inv h).keys⟩

/-- `C12.endpoints`: in every reachable model every flow end is a compartment of the model, the
index computed by `Run.compIdx` (used by `prepare`) exists, points at that compartment, and is its
only position. -/
theorem endpoints [LT α] [DecidableLT α] {m : Model α} (h : Reachable m) {f : Flow α} (hf : f ∈ m.flows) :
    (∀ c, f.src = some c → c ∈ m.comps ∧ ∃ i, Run.compIdx m.comps c = some i ∧ m.comps[i]? = some c
        ∧ ∀ j, m.comps[j]? = some c → j = i) ∧
    (∀ c, f.dst = some c → c ∈ m.comps ∧ ∃ i, Run.compIdx m.comps c = some i ∧ m.comps[i]? = some c
        ∧ ∀ j, m.comps[j]? = some c → j = i) := by
  have hI := reachable_inv h
  have hw := compIdx_of_wf hI.wf hf
  refine ⟨fun c hc => ⟨(hI.wf f hf).1 c hc, ?_⟩, fun c hc => ⟨(hI.wf f hf).2 c hc, ?_⟩⟩
  · rcases hw.1 c hc with ⟨i, h1, h2⟩
    exact ⟨i, h1, h2, fun j hj => indexOf?_unique hI.nodup h1 hj⟩
  · rcases hw.2 c hc with ⟨i, h1, h2⟩
    exact ⟨i, h1, h2, fun j hj => indexOf?_unique hI.nodup h1 hj⟩

/-- flows have the ends their class prescribes, in every reachable model -/
theorem reachable_shape [LT α] [DecidableLT α] {m : Model α} (h : Reachable m) : ∀ f ∈ m.flows, FlowShape f :=
  (reachable_inv h).shape

end

/-! ### non-vacuity: a reachable model with a stratification followed by a flow added afterwards -/

open Spec.Ex in
example : ∃ m0 m1 m2 : Model Int,
    mkModel 0 10 1 (some 10) ["S", "I"] ["I"] = .ok m0
    ∧ stratifyWith m0 (strat .plain "loc" ["u", "r"] ["S"] []) = .ok m1
    ∧ addFlow m1 (.transition .infFreq "infection" true (.const 2) "S" "I" [("loc", "u")] [] none) = .ok m2
    ∧ Reachable m2 ∧ m2.comps.length = 3 ∧ m2.flows.length = 1 :=
  ⟨_, _, _, rfl, rfl, rfl,
    Reachable.flow _ _ (.transition .infFreq "infection" true (.const 2) "S" "I" [("loc", "u")] [] none) (Reachable.strat _ _ (strat .plain "loc" ["u", "r"] ["S"] []) (Reachable.mk 0 10 1 (some 10) ["S", "I"] ["I"] _ (by decide) rfl)
      (by decide) rfl) rfl, rfl, rfl⟩

end Summer.C12

#print axioms Summer.C12.in_place
#print axioms Summer.C12.in_place_stratified
#print axioms Summer.C12.in_place_untouched
#print axioms Summer.C12.untouched_order
#print axioms Summer.C12.length
#print axioms Summer.C12.nodup
#print axioms Summer.C12.stratifyWith_fresh
#print axioms Summer.C12.inv_mkModel
#print axioms Summer.C12.inv_addFlow
#print axioms Summer.C12.inv_stratifyWith
#print axioms Summer.C12.reachable_inv
#print axioms Summer.C12.reachable_nodup
#print axioms Summer.C12.endpoints
#print axioms Summer.C12.reachable_shape
