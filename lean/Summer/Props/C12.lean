import Summer.Model.Build
namespace Summer.Props.C12
theorem placeholder : True := trivial
end Summer.Props.C12
#print axioms Summer.Props.C12.placeholder
