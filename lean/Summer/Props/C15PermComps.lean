import Summer.Proofs.InvariancePermComps
/-
C15 — invariances, part "reordering the COMPARTMENTS of a model".

"Reordering compartments, flows, strata or independent stratifications, or renaming them, permutes and
relabels the results correspondingly without changing any value."

`Summer/Props/C15.lean` proves the flow-reordering case through `Run.step`/`Run.rhs`, and for compartment
reordering only the rate laws GIVEN the same weights and multipliers.  This file proves the compartment
case through the whole right-hand side: the index tables of `Run.prepare` for the reordered model, the
compartment infectiousness, the category populations, the per-strain infectious populations, the force
of infection, the infection multipliers, the weights and the mixing matrix; then the vector field and the
Euler, RK4 and Dormand–Prince trajectories.

Model: `Summer.Run` (`prepare`, `step`, `rhs`), `Summer.Solvers` (`euler`, `rk4`, `odeint`).
Specification vocabulary: `Summer/Spec/Invariance.lean` (`withComps`, `relabel`, `field`) and
`Summer/Spec/InvariancePermComps.lean` (`posFreeModel`, `permModel`, `foiAligned`, `relabelOut`,
`LinRelabel`, `RelabelInvariantCtl`).

Setting of every theorem: `m.comps` is duplicate free, `cs'` is a permutation of it; flows, stratifications
and mixing categories are unchanged (flows refer to compartments by identity, not by position);
`relabel m cs' v` is the per-compartment vector `v` of `m` read in the order `cs'`.

Hypotheses that the proofs force (each is shown necessary by a machine-checked counterexample in the
last section, or explained there):
* `sourcedOk m`   every population-proportional flow has a source compartment (otherwise the runner reads
                  position 0 of the state, which is a different compartment after reordering);
* `foiAligned b`  no infection flow, or every mixing category holds equally many infectious compartments
                  of each strain (otherwise `np.reshape` cuts the flat infectious list across category
                  boundaries and the force of infection depends on the compartment order);
* `posFreeModel m` no flow weight / mixing entry reads a compartment BY POSITION (`Expr.comp i`); this
                  one is removed by the general theorems about `permModel`, where such reads follow their
                  compartment to its new position;
* `x.length = m.comps.length`  the state has one entry per compartment;
* `m.comps.Nodup`  no compartment is listed twice (always true in summer2).

`α` is an arbitrary ordered field.
-/
set_option linter.unusedSectionVars false

namespace Summer.Props.C15PermComps
open Summer Summer.Run Summer.Spec Summer.Solvers Summer.Spec.Solvers Summer.Spec.PermComps
open Summer.Spec.AggregateMore Summer.Proofs Summer.Proofs.InvPermComps

/-! ## 1. the index tables of the reordered model -/
section prepare
variable {α : Type}

/-- **`prepare` succeeds for the reordered model whenever it does for `m`** (and conversely, `Perm`
being symmetric), so the hypothesis `prepare (withComps m cs') = .ok b'` below is no restriction.
No hypothesis on duplicates is needed here. -/
theorem perm_comps_prepare (m : Model α) (cs' : List Comp) (b : Backend) (h : prepare m = .ok b)
    (hp : cs'.Perm m.comps) : ∃ b', prepare (withComps m cs') = .ok b' :=
  prepare_ok_perm_comps m cs' b h hp

end prepare

section prepareField
variable {α : Type} [Field α] [LinearOrder α] [IsStrictOrderedRing α]

/-- the index tables do not look at the weights: `permModel` and `withComps` have the same tables -/
theorem perm_comps_prepare_general (m : Model α) (cs' : List Comp) :
    prepare (permModel m cs') = prepare (withComps m cs') :=
  prepare_permModel m cs'

/-- the side condition `foiAligned` does not depend on the order of the compartments -/
theorem perm_comps_aligned (m : Model α) (cs' : List Comp) (b b' : Backend) (h : prepare m = .ok b)
    (h' : prepare (withComps m cs') = .ok b') (hp : cs'.Perm m.comps) : foiAligned b' = foiAligned b := by
  have ht := foiTables_of_prepare m b h
  have ht' := foiTables_of_prepare _ b' h'
  unfold foiAligned
  rw [procType_perm_comps ht ht', catsUniform_perm_comps ht ht' hp]

/-- deliverable (1): a model without infection flows satisfies `foiAligned` -/
theorem aligned_of_no_infection (m : Model α) (b : Backend) (h : prepare m = .ok b)
    (hno : m.flows.all (fun f => !isInfection f.kind) = true) : foiAligned b = true := by
  have hb := backendFor_of_prepare m b h
  have hp := hb.procType
  have : m.flows.any (fun f => isInfection f.kind) = false := by
    rw [List.any_eq_false]
    intro f hf
    have := List.all_eq_true.1 hno f hf
    simpa using this
  rw [this] at hp
  unfold foiAligned
  cases hpt : b.procType with
  | none => rfl
  | some o => rw [hpt] at hp; cases hp

/-- deliverable (2): a model with at most one mixing category (in particular every model without a
mixing matrix, whose only category is `{}`) satisfies `foiAligned`, whatever its strains -/
theorem aligned_of_single_category (m : Model α) (b : Backend) (h : prepare m = .ok b)
    (h1 : m.mixingCats.length ≤ 1) : foiAligned b = true := by
  have ht := foiTables_of_prepare m b h
  unfold foiAligned catsUniform
  rw [ht.catIdx]
  have : (Proofs.catIdxOf m).length ≤ 1 := by simpa [Proofs.catIdxOf] using h1
  rw [Bool.or_eq_true]
  right
  rw [List.all_eq_true]
  intro inf _
  match hc : Proofs.catIdxOf m, this with
  | [], _ => simp
  | [r], _ => simp

end prepareField

/-! ## 2. one evaluation of the right-hand side -/
section stepThm
variable {α : Type} [Field α] [LinearOrder α] [IsStrictOrderedRing α]

/-- **`C15PermComps.perm_comps_step`.**  `m` reads no compartment by position.  One evaluation of the
reordered model on the relabelled state is defined exactly when that of `m` on the original state is,
and then its output is the output of `m` with the two per-compartment vectors (compartment
infectiousness, compartment rates) relabelled and everything else (weights, infection multipliers,
per-strain forces of infection, mixing matrix, flow rates) unchanged. -/
theorem perm_comps_step (m : Model α) (cs' : List Comp) (b b' : Backend) (h : prepare m = .ok b)
    (h' : prepare (withComps m cs') = .ok b') (hs : sourcedOk m = true) (hu : foiAligned b = true)
    (hpf : posFreeModel m = true) (hnd : m.comps.Nodup) (hp : cs'.Perm m.comps)
    (p : List (String × α)) (t : α) (x : List α) (hx : x.length = m.comps.length) :
    step (withComps m cs') b' p t (relabel m cs' x) = (step m b p t x).map (relabelOut m cs') :=
  step_perm_comps m cs' b b' h h' hs hu hpf hnd hp p t x hx

/-- **`C15PermComps.perm_comps_rhs`** (the target statement): the right-hand side of the reordered
model at the relabelled state is the relabelled right-hand side (both defined or both undefined). -/
theorem perm_comps_rhs (m : Model α) (cs' : List Comp) (b b' : Backend) (h : prepare m = .ok b)
    (h' : prepare (withComps m cs') = .ok b') (hs : sourcedOk m = true) (hu : foiAligned b = true)
    (hpf : posFreeModel m = true) (hnd : m.comps.Nodup) (hp : cs'.Perm m.comps)
    (p : List (String × α)) (x : List α) (t : α) (hx : x.length = m.comps.length) :
    rhs (withComps m cs') b' p (relabel m cs' x) t = (rhs m b p x t).map (relabel m cs') :=
  rhs_of_step (perm_comps_step m cs' b b' h h' hs hu hpf hnd hp p t x hx)

/-- `perm_comps_step` field by field: flow rates, weights, infection multipliers, per-strain forces of
infection and the mixing matrix are unchanged; compartment infectiousness and compartment rates are
relabelled; and the reordered model fails exactly when `m` does. -/
theorem perm_comps_step_fields (m : Model α) (cs' : List Comp) (b b' : Backend) (h : prepare m = .ok b)
    (h' : prepare (withComps m cs') = .ok b') (hs : sourcedOk m = true) (hu : foiAligned b = true)
    (hpf : posFreeModel m = true) (hnd : m.comps.Nodup) (hp : cs'.Perm m.comps)
    (p : List (String × α)) (t : α) (x : List α) (hx : x.length = m.comps.length) :
    (∀ o, step m b p t x = some o → ∃ o', step (withComps m cs') b' p t (relabel m cs' x) = some o' ∧
      o'.flowRates = o.flowRates ∧ o'.weights = o.weights ∧ o'.mults = o.mults ∧
      o'.perStrain = o.perStrain ∧ o'.mixing = o.mixing ∧
      o'.compInf = relabel m cs' o.compInf ∧ o'.compRates = relabel m cs' o.compRates) ∧
    (step m b p t x = none → step (withComps m cs') b' p t (relabel m cs' x) = none) := by
  rw [perm_comps_step m cs' b b' h h' hs hu hpf hnd hp p t x hx]
  refine ⟨fun o ho => ?_, fun hn => by rw [hn]; rfl⟩
  rw [ho]
  exact ⟨_, rfl, rfl, rfl, rfl, rfl, rfl, rfl, rfl⟩

/-- **general case** (no restriction on the expressions): in `permModel m cs'` every positional read
`Expr.comp i` of a flow weight or mixing-matrix entry follows its compartment to the new position. -/
theorem perm_comps_step_general (m : Model α) (cs' : List Comp) (b b' : Backend) (h : prepare m = .ok b)
    (h' : prepare (permModel m cs') = .ok b') (hs : sourcedOk m = true) (hu : foiAligned b = true)
    (hnd : m.comps.Nodup) (hp : cs'.Perm m.comps)
    (p : List (String × α)) (t : α) (x : List α) (hx : x.length = m.comps.length) :
    step (permModel m cs') b' p t (relabel m cs' x) = (step m b p t x).map (relabelOut m cs') :=
  step_permModel m cs' b b' h h' hs hu hnd hp p t x hx

theorem perm_comps_rhs_general (m : Model α) (cs' : List Comp) (b b' : Backend) (h : prepare m = .ok b)
    (h' : prepare (permModel m cs') = .ok b') (hs : sourcedOk m = true) (hu : foiAligned b = true)
    (hnd : m.comps.Nodup) (hp : cs'.Perm m.comps)
    (p : List (String × α)) (x : List α) (t : α) (hx : x.length = m.comps.length) :
    rhs (permModel m cs') b' p (relabel m cs' x) t = (rhs m b p x t).map (relabel m cs') :=
  rhs_of_step (perm_comps_step_general m cs' b b' h h' hs hu hnd hp p t x hx)

/-- the two building blocks on their own: the compartment infectiousness of the reordered model is the
relabelled one (defined exactly when that of `m` is) … -/
theorem perm_comps_infectiousness (m : Model α) (cs' : List Comp) (hnd : m.comps.Nodup)
    (hp : cs'.Perm m.comps) (p : List (String × α)) :
    compInfectiousness (withComps m cs') p = (compInfectiousness m p).map (relabel m cs') :=
  compInfectiousness_perm_comps m cs' hnd hp p

/-- … and the infection multipliers and per-strain forces of infection, computed from the index tables
of the reordered model at the relabelled state and infectiousness, are unchanged. -/
theorem perm_comps_multipliers (m : Model α) (cs' : List Comp) (b b' : Backend) (h : prepare m = .ok b)
    (h' : prepare (withComps m cs') = .ok b') (hu : catsUniform b = true) (hnd : m.comps.Nodup)
    (hp : cs'.Perm m.comps) (xc ci : List α) (hx : xc.length = m.comps.length)
    (hc : ci.length = m.comps.length) (mix : Matrix α) :
    infectiousMultipliers b' (relabel m cs' xc) mix (relabel m cs' ci) = infectiousMultipliers b xc mix ci :=
  infectiousMultipliers_perm_comps (backendFor_of_prepare m b h) (foiTables_of_prepare m b h)
    (foiTables_of_prepare _ b' h') hu hnd hp xc ci hx hc mix

end stepThm

/-! ## 3. solvers under a linear relabelling (generic) -/
section solverGeneric
variable {α : Type} [Field α]

/-- **generic solver lemma**: `σ` a length-preserving relabelling of the vectors of length `n` commuting
with `vadd`/`vscale`; `f` maps length `n` to length `n`; `f' (σ y) t = σ (f y t)`.  Then the Euler and RK4
trajectories from `σ y0` under `f'` are the trajectories from `y0` under `f`, relabelled row by row. -/
theorem perm_solver {n : Nat} {σ : List α → List α} (hσ : LinRelabel n σ) (f f' : List α → α → List α)
    (hf : ∀ y t, y.length = n → (f y t).length = n) (h : ∀ y t, y.length = n → f' (σ y) t = σ (f y t))
    (y0 : List α) (hy0 : y0.length = n) (times : List α) :
    euler f' (σ y0) times = (euler f y0 times).map σ ∧ rk4 f' (σ y0) times = (rk4 f y0 times).map σ :=
  ⟨euler_relabel hσ f f' hf h y0 hy0 times, rk4_relabel hσ f f' hf h y0 hy0 times⟩

/-- the same for Dormand–Prince with dense output, for a step controller whose error ratio is invariant
under the relabelling (`RelabelInvariantCtl`) and a tableau with at least one fit row -/
theorem perm_solver_odeint {n : Nat} {σ : List α → List α} (hσ : LinRelabel n σ) (tb : Tableau α)
    (hfit : tb.fitRows ≠ []) (ctl : Control α) (f f' : List α → α → List α)
    (hf : ∀ y t, y.length = n → (f y t).length = n) (h : ∀ y t, y.length = n → f' (σ y) t = σ (f y t))
    (hctl : RelabelInvariantCtl ctl n σ) (fuel : Nat) (dt0 : α) (y0 : List α) (hy0 : y0.length = n)
    (ts : List α) :
    odeint tb ctl f' fuel dt0 (σ y0) ts = (odeint tb ctl f fuel dt0 y0 ts).map σ :=
  odeint_relabel hσ tb hfit ctl f f' hf h hctl fuel dt0 y0 hy0 ts

/-- the compartment relabelling is such a `σ` -/
theorem relabel_linear (m : Model α) (cs' : List Comp) (hl : cs'.length = m.comps.length) :
    LinRelabel m.comps.length (relabel m cs') :=
  linRelabel_relabel m cs' hl

end solverGeneric

/-! ## 4. the vector field and whole trajectories -/
section trajectories
variable {α : Type} [Field α] [LinearOrder α] [IsStrictOrderedRing α]

/-- the vector field handed to the solvers commutes with the relabelling -/
theorem perm_comps_field (m : Model α) (cs' : List Comp) (b b' : Backend) (h : prepare m = .ok b)
    (h' : prepare (withComps m cs') = .ok b') (hs : sourcedOk m = true) (hu : foiAligned b = true)
    (hpf : posFreeModel m = true) (hnd : m.comps.Nodup) (hp : cs'.Perm m.comps)
    (p : List (String × α)) (y : List α) (t : α) (hy : y.length = m.comps.length) :
    field (withComps m cs') b' p (relabel m cs' y) t = relabel m cs' (field m b p y t) :=
  field_of_rhs rfl y t (perm_comps_rhs m cs' b b' h h' hs hu hpf hnd hp p y t hy)

theorem perm_comps_field_general (m : Model α) (cs' : List Comp) (b b' : Backend) (h : prepare m = .ok b)
    (h' : prepare (permModel m cs') = .ok b') (hs : sourcedOk m = true) (hu : foiAligned b = true)
    (hnd : m.comps.Nodup) (hp : cs'.Perm m.comps)
    (p : List (String × α)) (y : List α) (t : α) (hy : y.length = m.comps.length) :
    field (permModel m cs') b' p (relabel m cs' y) t = relabel m cs' (field m b p y t) :=
  field_of_rhs rfl y t (perm_comps_rhs_general m cs' b b' h h' hs hu hnd hp p y t hy)

/-- **whole Euler and RK4 trajectories** of the reordered model from the relabelled initial state are the
trajectories of `m`, relabelled row by row -/
theorem perm_comps_trajectory (m : Model α) (cs' : List Comp) (b b' : Backend) (h : prepare m = .ok b)
    (h' : prepare (withComps m cs') = .ok b') (hs : sourcedOk m = true) (hu : foiAligned b = true)
    (hpf : posFreeModel m = true) (hnd : m.comps.Nodup) (hp : cs'.Perm m.comps)
    (p : List (String × α)) (y0 : List α) (hy0 : y0.length = m.comps.length) (times : List α) :
    euler (field (withComps m cs') b' p) (relabel m cs' y0) times
        = (euler (field m b p) y0 times).map (relabel m cs') ∧
    rk4 (field (withComps m cs') b' p) (relabel m cs' y0) times
        = (rk4 (field m b p) y0 times).map (relabel m cs') :=
  perm_solver (linRelabel_relabel m cs' hp.length_eq) _ _
    (fun y t _ => field_length (backendFor_of_prepare m b h) p y t)
    (fun y t hy => perm_comps_field m cs' b b' h h' hs hu hpf hnd hp p y t hy) y0 hy0 times

theorem perm_comps_trajectory_general (m : Model α) (cs' : List Comp) (b b' : Backend) (h : prepare m = .ok b)
    (h' : prepare (permModel m cs') = .ok b') (hs : sourcedOk m = true) (hu : foiAligned b = true)
    (hnd : m.comps.Nodup) (hp : cs'.Perm m.comps)
    (p : List (String × α)) (y0 : List α) (hy0 : y0.length = m.comps.length) (times : List α) :
    euler (field (permModel m cs') b' p) (relabel m cs' y0) times
        = (euler (field m b p) y0 times).map (relabel m cs') ∧
    rk4 (field (permModel m cs') b' p) (relabel m cs' y0) times
        = (rk4 (field m b p) y0 times).map (relabel m cs') :=
  perm_solver (linRelabel_relabel m cs' hp.length_eq) _ _
    (fun y t _ => field_length (backendFor_of_prepare m b h) p y t)
    (fun y t hy => perm_comps_field_general m cs' b b' h h' hs hu hnd hp p y t hy) y0 hy0 times

/-- **Dormand–Prince trajectories** (`odeint`), for a step controller whose error ratio is invariant
under the relabelling -/
theorem perm_comps_trajectory_odeint (m : Model α) (cs' : List Comp) (b b' : Backend) (h : prepare m = .ok b)
    (h' : prepare (withComps m cs') = .ok b') (hs : sourcedOk m = true) (hu : foiAligned b = true)
    (hpf : posFreeModel m = true) (hnd : m.comps.Nodup) (hp : cs'.Perm m.comps)
    (p : List (String × α)) (tb : Tableau α) (hfit : tb.fitRows ≠ []) (ctl : Control α)
    (hctl : RelabelInvariantCtl ctl m.comps.length (relabel m cs')) (fuel : Nat) (dt0 : α)
    (y0 : List α) (hy0 : y0.length = m.comps.length) (ts : List α) :
    odeint tb ctl (field (withComps m cs') b' p) fuel dt0 (relabel m cs' y0) ts
      = (odeint tb ctl (field m b p) fuel dt0 y0 ts).map (relabel m cs') :=
  perm_solver_odeint (linRelabel_relabel m cs' hp.length_eq) tb hfit ctl _ _
    (fun y t _ => field_length (backendFor_of_prepare m b h) p y t)
    (fun y t hy => perm_comps_field m cs' b b' h h' hs hu hpf hnd hp p y t hy) hctl fuel dt0 y0 hy0 ts

theorem perm_comps_trajectory_odeint_general (m : Model α) (cs' : List Comp) (b b' : Backend)
    (h : prepare m = .ok b) (h' : prepare (permModel m cs') = .ok b') (hs : sourcedOk m = true)
    (hu : foiAligned b = true) (hnd : m.comps.Nodup) (hp : cs'.Perm m.comps)
    (p : List (String × α)) (tb : Tableau α) (hfit : tb.fitRows ≠ []) (ctl : Control α)
    (hctl : RelabelInvariantCtl ctl m.comps.length (relabel m cs')) (fuel : Nat) (dt0 : α)
    (y0 : List α) (hy0 : y0.length = m.comps.length) (ts : List α) :
    odeint tb ctl (field (permModel m cs') b' p) fuel dt0 (relabel m cs' y0) ts
      = (odeint tb ctl (field m b p) fuel dt0 y0 ts).map (relabel m cs') :=
  perm_solver_odeint (linRelabel_relabel m cs' hp.length_eq) tb hfit ctl _ _
    (fun y t _ => field_length (backendFor_of_prepare m b h) p y t)
    (fun y t hy => perm_comps_field_general m cs' b b' h h' hs hu hnd hp p y t hy) hctl fuel dt0 y0 hy0 ts

/-- a step controller whose error ratio is a sum over the entries of a function of the three
corresponding entries (such as the mean-square error ratio of `runner/jax/ode.py`, up to the final
square root and division by `n`, which are functions of the sum) is invariant under the compartment
relabelling -/
theorem sum_ctl_relabelInvariant (m : Model α) (cs' : List Comp) (hnd : m.comps.Nodup)
    (hp : cs'.Perm m.comps) (ctl : Control α) (g : α → α → α → α) (post : α → α)
    (hctl : ∀ err y0 y1, ctl.errorRatio err y0 y1
      = post (sumL ((List.range err.length).map (fun i => g (err.getD i 0) (y0.getD i 0) (y1.getD i 0))))) :
    RelabelInvariantCtl ctl m.comps.length (relabel m cs') := by
  intro err y0 y1 he h0 h1
  rw [hctl, hctl]
  congr 1
  -- both sides are the sum of `G c = g (err c) (y0 c) (y1 c)` over a compartment list
  let G : Comp → α := fun c => g (valOf m err c) (valOf m y0 c) (valOf m y1 c)
  have hL : ∀ (cs : List Comp) (v0 v1 v2 : List α), v0 = cs.map (valOf m err) → v1 = cs.map (valOf m y0) →
      v2 = cs.map (valOf m y1) →
      (List.range v0.length).map (fun i => g (v0.getD i 0) (v1.getD i 0) (v2.getD i 0)) = cs.map G := by
    intro cs v0 v1 v2 e0 e1 e2
    subst e0 e1 e2
    apply List.ext_getElem
    · simp
    · intro i hi1 hi2
      have hi : i < cs.length := by simpa using hi2
      simp [G, List.getD_eq_getElem?_getD, hi]
  rw [relabel_eq_map, relabel_eq_map, relabel_eq_map, hL cs' _ _ _ rfl rfl rfl,
    hL m.comps err y0 y1 (Invariance.relabel_self m hnd err he).symm (Invariance.relabel_self m hnd y0 h0).symm
      (Invariance.relabel_self m hnd y1 h1).symm]
  exact Invariance.sumL_perm (hp.map G)

end trajectories

/-! ## 5. non-vacuity: a stratified SIR model with a 2×2 mixing matrix (on `Rat`) -/
section examples
open Summer.Proofs.Invariance

def young : Strata := [("age", "young")]
def old : Strata := [("age", "old")]
def cSy : Comp := ⟨"S", young⟩
def cSo : Comp := ⟨"S", old⟩
def cIy : Comp := ⟨"I", young⟩
def cIo : Comp := ⟨"I", old⟩
def cRy : Comp := ⟨"R", young⟩
def cRo : Comp := ⟨"R", old⟩

def mkInf (s d : Comp) : Flow Rat :=
  { kind := .infFreq, name := "infection", src := some s, dst := some d, param := .param "beta", adjs := [] }
def mkRec (s d : Comp) : Flow Rat :=
  { kind := .transition, name := "recovery", src := some s, dst := some d, param := .param "gamma",
    adjs := [.mul (.const 2)] }

/-- SIR × {young, old}: frequency-dependent infection within each age group through the 2×2 mixing
matrix `[[2,1],[1,3]]`, young infectious twice as infectious, recovery, death of old infectious,
replacement births and crude births (weight `1/N`, reading the total population) into young S. -/
def exM : Model Rat :=
  { t0 := 0, t1 := 4, dt := 1, nTimes := 5,
    comps := [cSy, cSo, cIy, cIo, cRy, cRo], origNames := ["S", "I", "R"], infectious := ["I"],
    flows := [mkInf cSy cIy, mkInf cSo cIo, mkRec cIy cRy, mkRec cIo cRo,
      { kind := .death, name := "death", src := some cIo, dst := none, param := .const (1/10), adjs := [] },
      { kind := .replBirth, name := "births", src := none, dst := some cSy, param := .const 1, adjs := [] },
      { kind := .crudeBirth, name := "crude", src := none, dst := some cSy, param := .div (.const 1) .popSum,
        adjs := [] }],
    strats := [
      { kind := .age, name := "age", strata := ["young", "old"], comps := ["S", "I", "R"], split := [],
        flowAdj := [], infAdj := [("I", [("young", some (.mul (.const 2))), ("old", none)])],
        mixing := some [[.const 2, .const 1], [.const 1, .const 3]] }],
    mixingCats := [young, old],
    mixingMats := [[[.const 2, .const 1], [.const 1, .const 3]]],
    strains := ["default"],
    initDist := none, arrayPop := none, actions := [], requests := [], computed := [], whitelist := [],
    finalized := true }

/-- a non-trivial permutation of the six compartments -/
def exCs' : List Comp := [cRo, cIy, cSo, cSy, cRy, cIo]
def exP : List (String × Rat) := [("beta", 1/2), ("gamma", 1/4)]
def exX : List Rat := [90, 80, 10, 20, 0, 5]

def exB : Backend :=
  { nComps := 6, nFlows := 7, populationIdx := [0, 1, 2, 3, 3, 0, 0], nonPopIdx := [5], crudeIdx := [6],
    replIdx := [5], deathIdx := [4], infFlowIdx := [0, 1],
    posMap := [(0, 2), (1, 3), (2, 4), (3, 5), (5, 0), (6, 0)],
    negMap := [(0, 0), (1, 1), (2, 2), (3, 3), (4, 3)],
    catIdx := [[0, 2, 4], [1, 3, 5]], categoryLookup := [0, 1, 0, 1, 0, 1],
    strainInfIdx := [[2, 3]], strainCatIdx := [[[0], [1]]],
    infStrainLookup := [0, 0], infCatLookup := [0, 1], procType := some true }

/-- the index tables of the reordered model: every table that mentions a compartment position differs -/
def exB' : Backend :=
  { nComps := 6, nFlows := 7, populationIdx := [3, 2, 1, 5, 5, 0, 0], nonPopIdx := [5], crudeIdx := [6],
    replIdx := [5], deathIdx := [4], infFlowIdx := [0, 1],
    posMap := [(0, 1), (1, 5), (2, 4), (3, 0), (5, 3), (6, 3)],
    negMap := [(0, 3), (1, 2), (2, 1), (3, 5), (4, 5)],
    catIdx := [[1, 3, 4], [0, 2, 5]], categoryLookup := [1, 0, 1, 0, 0, 1],
    strainInfIdx := [[1, 5]], strainCatIdx := [[[0], [1]]],
    infStrainLookup := [0, 0], infCatLookup := [0, 1], procType := some true }

/-- all hypotheses of `perm_comps_rhs` hold for the example -/
example : prepare exM = .ok exB := by rfl
example : prepare (withComps exM exCs') = .ok exB' := by rfl
example : sourcedOk exM = true ∧ foiAligned exB = true ∧ posFreeModel exM = true := by decide
example : exM.comps.Nodup ∧ exCs'.Perm exM.comps ∧ exCs' ≠ exM.comps := by decide
example : exX.length = exM.comps.length := rfl

/-- the relabelled state -/
example : relabel exM exCs' exX = [5, 10, 80, 90, 0, 20] := by decide +kernel

/-- both sides of `perm_comps_rhs`, evaluated by the kernel, independently of the theorem -/
example : rhs exM exB exP exX 0 = some [-165/7, -216/7, 151/7, 132/7, 5, 10] := by decide +kernel
example : rhs (withComps exM exCs') exB' exP (relabel exM exCs' exX) 0
    = some [10, 151/7, -216/7, -165/7, 5, 132/7] := by decide +kernel
example : rhs (withComps exM exCs') exB' exP (relabel exM exCs' exX) 0
    = (rhs exM exB exP exX 0).map (relabel exM exCs') := by decide +kernel

/-- the theorem applied to the example -/
example : rhs (withComps exM exCs') exB' exP (relabel exM exCs' exX) 0
    = (rhs exM exB exP exX 0).map (relabel exM exCs') :=
  perm_comps_rhs exM exCs' exB exB' (by rfl) (by rfl) (by decide) (by decide) (by decide) (by decide) (by decide)
    exP exX 0 rfl

/-- both sides of `perm_comps_step`: flow rates, multipliers, per-strain force of infection and mixing
matrix agree; infectiousness and compartment rates are relabelled -/
example : (step exM exB exP 0 exX).map (fun o => (o.flowRates, o.mults, o.compInf))
    = some ([186/7, 216/7, 5, 10, 2, 2, 1], [62/105, 27/35], [1, 1, 2, 1, 1, 1]) := by decide +kernel
example : (step (withComps exM exCs') exB' exP 0 (relabel exM exCs' exX)).map
      (fun o => (o.flowRates, o.mults, o.compInf))
    = some ([186/7, 216/7, 5, 10, 2, 2, 1], [62/105, 27/35], [1, 2, 1, 1, 1, 1]) := by decide +kernel
example : (step exM exB exP 0 exX).map (fun o => (o.perStrain, o.mixing))
    = some ([[62/105, 27/35]], [[2, 1], [1, 3]]) := by decide +kernel
example : (step (withComps exM exCs') exB' exP 0 (relabel exM exCs' exX)).map (fun o => (o.perStrain, o.mixing))
    = some ([[62/105, 27/35]], [[2, 1], [1, 3]]) := by decide +kernel

/-- an RK4 trajectory of the reordered model is the relabelled trajectory (kernel evaluation of both
sides, three rows) -/
example : rk4 (field (withComps exM exCs') exB' exP) (relabel exM exCs' exX) [0, 1, 2]
    = (rk4 (field exM exB exP) exX [0, 1, 2]).map (relabel exM exCs') := by decide +kernel

/-- a model with two strains (the example of the renaming section of `Proofs/Invariance.lean`: S, I by
age with a 2×2 mixing matrix, I by strain, infectiousness adjustments by age and by strain), its
compartments reversed -/
example : (prepare InvRename.exModel).toOption.map
      (fun b => (foiAligned b, sourcedOk InvRename.exModel, posFreeModel InvRename.exModel))
    = some (true, true, true) := by decide +kernel
example : (prepare (withComps InvRename.exModel InvRename.exComps.reverse)).toOption.bind
      (fun b' => rhs (withComps InvRename.exModel InvRename.exComps.reverse) b' []
        (relabel InvRename.exModel InvRename.exComps.reverse [90, 80, 5, 3, 2, 1]) 0)
    = (prepare InvRename.exModel).toOption.bind
      (fun b => (rhs InvRename.exModel b [] [90, 80, 5, 3, 2, 1] 0).map
        (relabel InvRename.exModel InvRename.exComps.reverse)) := by decide +kernel
example : ((prepare InvRename.exModel).toOption.bind
      (fun b => rhs InvRename.exModel b [] [90, 80, 5, 3, 2, 1] 0)).isSome = true := by decide +kernel

/-- `RelabelInvariantCtl` is satisfiable: a controller with a sum-of-squares error ratio -/
example : RelabelInvariantCtl
    ({ errorRatio := fun err y0 y1 => sumL ((List.range err.length).map
          (fun i => (fun e a b => e * e / (1 + a * a + b * b)) (err.getD i 0) (y0.getD i 0) (y1.getD i 0))),
       optimalStep := fun dt _ => dt, accept := fun r => decide (r ≤ 1), lt := fun a b => decide (a < b),
       pos := fun dt => decide (0 < dt) } : Control Rat) exM.comps.length (relabel exM exCs') :=
  sum_ctl_relabelInvariant exM exCs' (by decide) (by decide) _
    (fun e a b => e * e / (1 + a * a + b * b)) id (fun _ _ _ => rfl)

end examples

/-! ## 6. the hypotheses are needed (machine-checked counterexamples) -/
section counterexamples

def kk (a s : String) : Strata := [("age", a), ("k", s)]
def a0 : Comp := ⟨"I", kk "young" "1"⟩
def a1 : Comp := ⟨"I", kk "young" "2"⟩
def a2 : Comp := ⟨"I", kk "young" "3"⟩
def a3 : Comp := ⟨"I", kk "old" "1"⟩
def a4 : Comp := ⟨"S", kk "old" "1"⟩
def a5 : Comp := ⟨"S", kk "old" "2"⟩

/-- `foiAligned` fails: two mixing categories of three compartments each, but THREE infectious
compartments in "young" and ONE in "old".  The four infectious compartments divide into `2` rows of
`2`, so `prepare` (like `np.reshape`) accepts the model, and the second row mixes a young compartment
with the old one: which young compartment depends on the compartment order. -/
def badM : Model Rat :=
  { t0 := 0, t1 := 4, dt := 1, nTimes := 5,
    comps := [a0, a1, a2, a3, a4, a5], origNames := ["S", "I"], infectious := ["I"],
    flows := [{ kind := .infDens, name := "infection", src := some a4, dst := some a3, param := .const 1,
                adjs := [] }],
    strats := [], mixingCats := [[("age", "young")], [("age", "old")]],
    mixingMats := [[[.const 1, .const 0], [.const 0, .const 1]]],
    strains := ["default"],
    initDist := none, arrayPop := none, actions := [], requests := [], computed := [], whitelist := [],
    finalized := true }
/-- move the third compartment to the front -/
def badCs' : List Comp := [a2, a0, a1, a3, a4, a5]
def badX : List Rat := [1, 2, 4, 8, 16, 32]

example : (prepare badM).toOption.map (fun b => (foiAligned b, b.strainCatIdx))
    = some (false, [[[0, 1], [2, 3]]]) := by decide +kernel
example : sourcedOk badM = true ∧ posFreeModel badM = true ∧ badM.comps.Nodup ∧ badCs'.Perm badM.comps := by
  decide
/-- the reordered model is accepted too, and its right-hand side at the relabelled state is NOT the
relabelled right-hand side: the force of infection on "old" is `x[a2] + x[a3] = 12` for `badM` but
`x[a1] + x[a3] = 10` for the reordered model -/
example : (prepare badM).toOption.bind (fun b => (rhs badM b [] badX 0).map (relabel badM badCs'))
    = some [0, 0, 0, 192, -192, 0] := by decide +kernel
example : (prepare (withComps badM badCs')).toOption.bind
      (fun b' => rhs (withComps badM badCs') b' [] (relabel badM badCs' badX) 0)
    = some [0, 0, 0, 160, -160, 0] := by decide +kernel

def cS : Comp := ⟨"S", []⟩
def cI : Comp := ⟨"I", []⟩

/-- `posFreeModel` fails: the weight of the transition reads `CompartmentValues[0]` -/
def posM : Model Rat :=
  { badM with
    comps := [cS, cI], mixingCats := [[]], mixingMats := []
    flows := [{ kind := .transition, name := "t", src := some cS, dst := some cI, param := .comp 0, adjs := [] }] }

example : posFreeModel posM = false ∧ sourcedOk posM = true ∧ posM.comps.Nodup := by decide
/-- `withComps` keeps the positional read (now pointing at `I`): the rates differ … -/
example : (prepare posM).toOption.bind (fun b => (rhs posM b [] [3, 5] 0).map (relabel posM [cI, cS]))
    = some [9, -9] := by decide +kernel
example : (prepare (withComps posM [cI, cS])).toOption.bind
      (fun b' => rhs (withComps posM [cI, cS]) b' [] (relabel posM [cI, cS] [3, 5]) 0)
    = some [15, -15] := by decide +kernel
/-- … while in `permModel` the read follows `S` to position `1` (general theorem) -/
example : (permModel posM [cI, cS]).flows.map (fun f => match f.param with | .comp i => some i | _ => none)
    = [some 1] := by decide
example : (prepare (permModel posM [cI, cS])).toOption.bind
      (fun b' => rhs (permModel posM [cI, cS]) b' [] (relabel posM [cI, cS] [3, 5]) 0)
    = some [9, -9] := by decide +kernel

/-- `sourcedOk` fails: a transition flow without a source (the building API cannot produce one); the
runner multiplies its weight by position `0` of the state -/
def srcM : Model Rat :=
  { posM with
    flows := [{ kind := .transition, name := "t", src := none, dst := some cI, param := .const 1, adjs := [] }] }

example : sourcedOk srcM = false ∧ posFreeModel srcM = true := by decide
example : (prepare srcM).toOption.bind (fun b => (rhs srcM b [] [3, 5] 0).map (relabel srcM [cI, cS]))
    = some [3, 0] := by decide +kernel
example : (prepare (withComps srcM [cI, cS])).toOption.bind
      (fun b' => rhs (withComps srcM [cI, cS]) b' [] (relabel srcM [cI, cS] [3, 5]) 0)
    = some [5, 0] := by decide +kernel

/-- the state must have one entry per compartment: `relabel` drops the entries beyond `m.comps.length`,
while the runner sums the whole state for a crude-birth flow -/
def crudeM : Model Rat :=
  { posM with
    flows := [{ kind := .crudeBirth, name := "b", src := none, dst := some cI, param := .const 1, adjs := [] }] }

example : sourcedOk crudeM = true ∧ posFreeModel crudeM = true ∧ crudeM.comps.Nodup := by decide
example : (prepare crudeM).toOption.bind (fun b => (rhs crudeM b [] [3, 5, 7] 0).map (relabel crudeM [cI, cS]))
    = some [15, 0] := by decide +kernel
example : (prepare (withComps crudeM [cI, cS])).toOption.bind
      (fun b' => rhs (withComps crudeM [cI, cS]) b' [] (relabel crudeM [cI, cS] [3, 5, 7]) 0)
    = some [8, 0] := by decide +kernel

/-- the compartment list must be duplicate free (it always is in summer2: compartment names plus strata
are unique): with `S` listed twice a flow out of `S` is attached to the FIRST copy, and which position
that is changes under a permutation that moves another compartment in front -/
def dupM : Model Rat :=
  { posM with
    comps := [cS, cS, cI]
    flows := [{ kind := .transition, name := "t", src := some cS, dst := some cI, param := .const 1, adjs := [] }] }

example : sourcedOk dupM = true ∧ posFreeModel dupM = true ∧ ¬ dupM.comps.Nodup ∧
    [cI, cS, cS].Perm dupM.comps := by decide
example : (prepare dupM).toOption.bind (fun b => (rhs dupM b [] [1, 2, 4] 0).map (relabel dupM [cI, cS, cS]))
    = some [1, -1, -1] := by decide +kernel
example : (prepare (withComps dupM [cI, cS, cS])).toOption.bind
      (fun b' => rhs (withComps dupM [cI, cS, cS]) b' [] (relabel dupM [cI, cS, cS] [1, 2, 4]) 0)
    = some [1, -1, 0] := by decide +kernel

end counterexamples

end Summer.Props.C15PermComps

#print axioms Summer.Props.C15PermComps.perm_comps_prepare
#print axioms Summer.Props.C15PermComps.perm_comps_prepare_general
#print axioms Summer.Props.C15PermComps.perm_comps_aligned
#print axioms Summer.Props.C15PermComps.aligned_of_no_infection
#print axioms Summer.Props.C15PermComps.aligned_of_single_category
#print axioms Summer.Props.C15PermComps.perm_comps_step
#print axioms Summer.Props.C15PermComps.perm_comps_rhs
#print axioms Summer.Props.C15PermComps.perm_comps_step_fields
#print axioms Summer.Props.C15PermComps.perm_comps_step_general
#print axioms Summer.Props.C15PermComps.perm_comps_rhs_general
#print axioms Summer.Props.C15PermComps.perm_comps_infectiousness
#print axioms Summer.Props.C15PermComps.perm_comps_multipliers
#print axioms Summer.Props.C15PermComps.perm_solver
#print axioms Summer.Props.C15PermComps.perm_solver_odeint
#print axioms Summer.Props.C15PermComps.relabel_linear
#print axioms Summer.Props.C15PermComps.perm_comps_field
#print axioms Summer.Props.C15PermComps.perm_comps_field_general
#print axioms Summer.Props.C15PermComps.perm_comps_trajectory
#print axioms Summer.Props.C15PermComps.perm_comps_trajectory_general
#print axioms Summer.Props.C15PermComps.perm_comps_trajectory_odeint
#print axioms Summer.Props.C15PermComps.perm_comps_trajectory_odeint_general
#print axioms Summer.Props.C15PermComps.sum_ctl_relabelInvariant
