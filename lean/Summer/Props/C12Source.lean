import Summer.Generated.DatesSrc
/-
C12 / C17 — the time grid and the date labels are what the SOURCE TEXT of `model.py` / `utils.py` says.

`Generated/DatesSrc.lean` is emitted only when the first fifteen statements of `CompartmentalModel.__init__` (reference date, datetime
conversion, the three grid assertions, `np.linspace`, the infectious-subset assertion), `_get_ref_idx`, `get_epoch`, `utils.ref_times_to_dti`
and `Epoch.__init__ / number_to_datetime / datetime_to_number` are the expected text (and no later statement of `__init__` touches the grid
or the reference date).  The theorems identify the renderings with `Dates.construct`, `Dates.refIdx`, `Dates.toNum`, `Dates.toDate` — the
definitions `C12Dates.datetime_times`, `numeric_times_labels`, `constructor_accepts_iff`, `epoch_roundtrip_*`, `index_increasing` are about.
-/
namespace Summer.Props.C12Source
open Summer Summer.Dates Summer.Generated.DatesSrc

theorem datetime_to_number_eq (ref unit d : Int) : datetime_to_number ref unit d = toNum ref unit d := rfl

theorem number_to_datetime_eq (rnd : Rat → Int) (ref unit : Int) (n : Rat) : number_to_datetime rnd ref unit n = toDate rnd ref unit n := rfl

theorem grid_core (ref_date : Option Int) (x y dt : Rat) :
    (if ¬ (y > x) then none
      else if dt = 0 then none
      else
        if ¬ (1 + (y - x) / dt ≥ 1) then none
        else if ¬ (fmod1 (1 + (y - x) / dt) = 0) then none
        else some ({ refDate := ref_date, times := linspace x y (1 + (y - x) / dt).floor.toNat, timestep := dt } : TimeGrid))
    = (match (gridPoints x y dt).map (linspace x y) with
        | none => none
        | some ts => some { refDate := ref_date, times := ts, timestep := dt }) := by
  unfold gridPoints numSteps
  by_cases h1 : y > x
  · by_cases h2 : dt = 0
    · simp [h1, h2]
    · by_cases h3 : 1 + (y - x) / dt ≥ 1
      · by_cases h4 : fmod1 (1 + (y - x) / dt) = 0
        · simp [h1, h2, h3, h4]
        · simp [h1, h2, h3, h4]
      · simp [h1, h2, h3]
  · simp [h1]

/-- the head of `CompartmentalModel.__init__` -/
theorem init_times_eq (ref_date : Option Int) (unit : Int) (a b : TimeVal) (dt : Rat) :
    init_times ref_date unit a b dt = construct ref_date unit a b dt := by
  unfold init_times construct resolveTimes gridTimes
  cases a with
  | num x =>
    cases b with
    | num y => exact grid_core ref_date x y dt
    | date e => rfl
  | date s =>
    cases b with
    | num y => rfl
    | date e =>
      cases ref_date with
      | none => rfl
      | some ref => exact grid_core (some ref) (toNum ref unit s) (toNum ref unit e) dt

/-- `_get_ref_idx` (labels of `get_outputs_df` / `get_derived_outputs_df`): `timedelta(t)` counts days -/
theorem get_ref_idx_eq (rnd : Rat → Int) (g : TimeGrid) : _get_ref_idx rnd g = refIdx rnd dayUnit g := by
  unfold _get_ref_idx refIdx ref_times_to_dti toDate
  cases g.refDate with
  | none => rfl
  | some ref => simp [List.map_map, Function.comp]

#print axioms init_times_eq
#print axioms get_ref_idx_eq

end Summer.Props.C12Source
