import Summer.Props.C08
import Summer.Props.C07Pipeline
import Summer.Props.C14Source
/-
C08 / C10 end to end — the derived outputs of a successful run, read from the source text of `build_run_model.run_model`
(`C07Pipeline.run_model_eq`) and of `build_derived_outputs_runner` (`C14Source.derived_outputs_runner_eq`), are the documented functions of
the RETURNED trajectory: a raw flow output's `i`-th value is the summed rate of the selected flows in the evaluation of the model's
right-hand side at `(times[i], outputs[i])` under this call's parameters; a compartment output's `i`-th value is the sum of the selected
columns of `outputs[i]`.  Composes `run_model_derived` with `C08.flow_raw_run` and `C08.comp`.
-/
namespace Summer.Props.C08EndToEnd
open Summer Summer.Run Summer.Derived Summer.Spec Summer.Pipeline Summer.Generated.PipelineSrc Summer.Props.C07Pipeline

section
variable {α : Type} [Field α] [LinearOrder α]

theorem raw_flow_of_run (m : Model α) (b : Backend) (solve : (List α → α → List α) → List α → List α → List (List α))
    (doBase params : List (String × α)) (outs : List (List α)) (d : List (String × List α))
    (h : run_model m b solve doBase params = some (outs, d)) (done : List (String × List α)) (name : String) (ss ds : Strata) :
    ∃ flows cvs, ∃ s,
      evalRequest m { times := modelTimes m, outputs := outs, flows := flows, computed := cvs, params := params ++ doBase } done (.flow name ss ds true) = some s ∧
      ∀ i (ht : i < (modelTimes m).length) (ho : i < outs.length),
        ∃ st, step m b params (modelTimes m)[i] outs[i] = some st ∧ s.getD i 0 = flowOutputAt m name ss ds st.flowRates := by
  obtain ⟨flows, cvs, hf, _⟩ := run_model_derived m b solve doBase params outs d h
  obtain ⟨s, h1, _, h3⟩ := Summer.C08.flow_raw_run m b params
    { times := modelTimes m, outputs := outs, flows := flows, computed := cvs, params := params ++ doBase } cvs hf done name ss ds
  exact ⟨flows, cvs, s, h1, h3⟩

theorem comp_of_run (m : Model α) (b : Backend) (solve : (List α → α → List α) → List α → List α → List (List α))
    (doBase params : List (String × α)) (outs : List (List α)) (d : List (String × List α))
    (h : run_model m b solve doBase params = some (outs, d)) (done : List (String × List α)) (names : List String) (flt : Strata) :
    ∃ flows cvs, ∃ s,
      evalRequest m { times := modelTimes m, outputs := outs, flows := flows, computed := cvs, params := params ++ doBase } done (.comp names flt) = some s ∧
      s.length = outs.length ∧ ∀ i, i < outs.length → s.getD i 0 = compOutputAt m names flt (outs.getD i []) := by
  obtain ⟨flows, cvs, _, _⟩ := run_model_derived m b solve doBase params outs d h
  obtain ⟨s, h1, h2, h3⟩ := Summer.C08.comp m
    { times := modelTimes m, outputs := outs, flows := flows, computed := cvs, params := params ++ doBase } done names flt
  exact ⟨flows, cvs, s, h1, h2, h3⟩

end

#print axioms raw_flow_of_run
#print axioms comp_of_run

end Summer.Props.C08EndToEnd
