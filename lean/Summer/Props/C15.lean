import Summer.Proofs.Invariance
/-
C15 — invariances.

"Reordering compartments, flows, strata or independent stratifications, or renaming them, permutes and
relabels the results correspondingly without changing any value, and adding a transition, infection or
death flow before an unadjusted stratification that covers both its endpoints gives the same model as
adding it afterwards.  Shifting the time span of a model with no explicit time dependence shifts its
outputs unchanged, and multiplying all populations and absolute inflows by k multiplies all outputs by
k for frequency-dependent transmission (with the contact rate divided by k for density-dependent
transmission)."

Model: `Summer.Run` (`prepare`, `step`, `rhs`), `Summer.Solvers` (`euler`, `rk4`, `odeint`),
`Summer.Build` (`addFlow`, `stratifyWith`), `Summer.Derived.flowsForOutputs`.
Specification vocabulary: `Summer/Spec/Invariance.lean`.

`α` is an arbitrary ordered field unless a weaker structure is stated.
-/
set_option linter.unusedSectionVars false

namespace Summer.Props.C15
open Summer Summer.Run Summer.Spec Summer.Solvers Summer.Spec.Solvers Summer.Proofs Summer.Proofs.Invariance

/-! ## a concrete model for the non-vacuity examples (on `Rat`) -/
section exampleModel
def cS : Comp := ⟨"S", []⟩
def cI : Comp := ⟨"I", []⟩
def cR : Comp := ⟨"R", []⟩

def fInf : Flow Rat := { kind := .infFreq, name := "infection", src := some cS, dst := some cI, param := .param "beta", adjs := [] }
def fRec : Flow Rat := { kind := .transition, name := "recovery", src := some cI, dst := some cR, param := .param "gamma", adjs := [.mul (.const 2)] }
def fDeath : Flow Rat := { kind := .death, name := "death", src := some cI, dst := none, param := .const (1/10), adjs := [] }
def fBirth : Flow Rat := { kind := .replBirth, name := "births", src := none, dst := some cS, param := .const 1, adjs := [] }
def fImp : Flow Rat := { kind := .importF, name := "imports", src := none, dst := some cI, param := .const 5, adjs := [] }

/-- S, I, R with frequency-dependent infection, recovery, death from I, replacement births, imports;
one computed value (the total population).  All weights are parameters or literals. -/
def exModel : Model Rat :=
  { t0 := 0, t1 := 4, dt := 1, nTimes := 5,
    comps := [cS, cI, cR], origNames := ["S", "I", "R"], infectious := ["I"],
    flows := [fInf, fRec, fDeath, fBirth, fImp],
    strats := [], mixingCats := [[]], mixingMats := [], strains := ["default"],
    initDist := none, arrayPop := none, actions := [], requests := [], computed := [("n", .popSum)],
    whitelist := [], finalized := true }

def exBackend : Backend :=
  { nComps := 3, nFlows := 5, populationIdx := [0, 1, 1, 0, 0], nonPopIdx := [3, 4], crudeIdx := [],
    replIdx := [3], deathIdx := [2], infFlowIdx := [0],
    posMap := [(0, 1), (1, 2), (3, 0), (4, 1)], negMap := [(0, 0), (1, 1), (2, 1)],
    catIdx := [[0, 1, 2]], categoryLookup := [0, 0, 0], strainInfIdx := [[1]], strainCatIdx := [[[0]]],
    infStrainLookup := [0], infCatLookup := [0], procType := some true }

def exParams : List (String × Rat) := [("beta", 2), ("gamma", 1/4)]

example : prepare exModel = .ok exBackend := by rfl

/-- the same model with density-dependent transmission -/
def exModelD : Model Rat := { exModel with flows := [{ fInf with kind := .infDens }, fRec, fDeath, fBirth, fImp] }
def exBackendD : Backend := { exBackend with procType := some false }
example : prepare exModelD = .ok exBackendD := by rfl

/-- a model whose recovery rate is the current time (NOT time free) -/
def exModelT : Model Rat := { exModel with flows := [fInf, { fRec with param := .time }, fDeath, fBirth, fImp] }
end exampleModel

/-! ## 1. time shift -/

section timeShiftCore
/- generic over the core arithmetic classes: valid for `Float` as well -/
variable {α : Type} [Zero α] [One α] [Add α] [Sub α] [Mul α] [Div α] [LT α] [DecidableLT α]

omit [One α] in
/-- An expression that does not mention time has the same value (or is undefined) at all times. -/
theorem time_shift_eval (e : Expr α) (h : e.usesTime = false) (p : List (String × α)) (t t' : α) (x : List α) :
    e.eval ⟨p, t, x⟩ = e.eval ⟨p, t', x⟩ :=
  eval_time_indep p t t' x e h

/-- If no realised flow weight and no mixing-matrix entry mentions time (`timeFreeRates`, decidable),
one evaluation of the model (`step`: weights, multipliers, mixing matrix, flow rates, compartment
rates) is the same at all times — including whether it is defined. -/
theorem time_shift_step (m : Model α) (hm : timeFreeRates m = true) (b : Backend) (p : List (String × α))
    (x : List α) (t t' : α) : step m b p t x = step m b p t' x :=
  step_time_indep m hm b p x t t'

/-- `C15.time_shift`, right-hand side. -/
theorem time_shift (m : Model α) (hm : timeFreeRates m = true) (b : Backend) (p : List (String × α))
    (x : List α) (t t' : α) : rhs m b p x t = rhs m b p x t' :=
  rhs_time_indep m hm b p x t t'

/-- the total vector field handed to the solvers ignores its time argument -/
theorem time_shift_field (m : Model α) (hm : timeFreeRates m = true) (b : Backend) (p : List (String × α))
    (x : List α) (t t' : α) : field m b p x t = field m b p x t' := by
  unfold field; rw [time_shift m hm b p x t t']

/-- derived-output stage: the flow-rate rows and the computed-value series are unchanged when the
time grid is moved (by any map `φ` of the times, in particular `· + δ`), for a model in which
additionally no computed value mentions time (`timeFree`). -/
theorem time_shift_flows_for_outputs (m : Model α) (hm : timeFree m = true) (b : Backend) (p : List (String × α))
    (φ : α → α) (times : List α) (outputs : List (List α)) :
    Derived.flowsForOutputs m b p (times.map φ) outputs = Derived.flowsForOutputs m b p times outputs :=
  flowsForOutputs_shift m hm b p φ times outputs

end timeShiftCore

section timeShiftSolvers
variable {α : Type} [Field α]

/-- **Euler on a shifted grid.**  For ANY vector field that ignores time, the rows computed on the grid
`times + δ` are the rows computed on `times` (the step `times[1] - times[0]` is unchanged).  No
hypothesis on the grid (empty and one-point grids included). -/
theorem time_shift_euler (f : List α → α → List α) (hf : ∀ y t t', f y t = f y t') (y0 times : List α) (δ : α) :
    euler f y0 (times.map (· + δ)) = euler f y0 times :=
  euler_shift f hf y0 times δ

theorem time_shift_rk4 (f : List α → α → List α) (hf : ∀ y t t', f y t = f y t') (y0 times : List α) (δ : α) :
    rk4 f y0 (times.map (· + δ)) = rk4 f y0 times :=
  rk4_shift f hf y0 times δ

/-- **Dormand–Prince on a shifted grid**, for any tableau, fuel, initial step and any step controller
whose comparison `t < target` is invariant under adding `δ` to both sides (`ShiftInvariantCtl`; the
error ratio, the step-size rule and the acceptance test are arbitrary). -/
theorem time_shift_odeint (tb : Tableau α) (ctl : Control α) (f : List α → α → List α)
    (hf : ∀ y t t', f y t = f y t') (δ : α) (hctl : ShiftInvariantCtl ctl δ) (fuel : Nat) (dt0 : α)
    (y0 ts : List α) :
    odeint tb ctl f fuel dt0 y0 (ts.map (· + δ)) = odeint tb ctl f fuel dt0 y0 ts :=
  odeint_shift tb ctl f hf δ hctl fuel dt0 y0 ts

/-- moving the time span of a model by `δ` moves its time grid by `δ` -/
theorem time_shift_grid (δ : α) (m : Model α) : modelTimes (shiftTime δ m) = (modelTimes m).map (· + δ) :=
  modelTimes_shiftTime δ m

end timeShiftSolvers

section timeShiftModel
variable {α : Type} [Field α] [LinearOrder α] [IsStrictOrderedRing α]

/-- **Shifting the time span of a model with no explicit time dependence shifts its outputs
unchanged** (Euler): the model with `t0, t1` moved by `δ` has the same index tables, the same initial
population, its time grid is the old one moved by `δ`, and the rows of compartment values on the new
grid are exactly the old rows. -/
theorem time_shift_model_euler (m : Model α) (hm : timeFreeRates m = true) (δ : α) (b : Backend)
    (p : List (String × α)) (y0 : List α) :
    prepare (shiftTime δ m) = prepare m ∧
    initialPopulation (shiftTime δ m) p = initialPopulation m p ∧
    modelTimes (shiftTime δ m) = (modelTimes m).map (· + δ) ∧
    euler (field (shiftTime δ m) b p) y0 (modelTimes (shiftTime δ m)) = euler (field m b p) y0 (modelTimes m) := by
  refine ⟨rfl, rfl, modelTimes_shiftTime δ m, ?_⟩
  rw [modelTimes_shiftTime]
  exact euler_shift (field m b p) (fun y t t' => time_shift_field m hm b p y t t') y0 _ δ

theorem time_shift_model_rk4 (m : Model α) (hm : timeFreeRates m = true) (δ : α) (b : Backend)
    (p : List (String × α)) (y0 : List α) :
    rk4 (field (shiftTime δ m) b p) y0 (modelTimes (shiftTime δ m)) = rk4 (field m b p) y0 (modelTimes m) := by
  rw [modelTimes_shiftTime]
  exact rk4_shift (field m b p) (fun y t t' => time_shift_field m hm b p y t t') y0 _ δ

theorem time_shift_model_odeint (m : Model α) (hm : timeFreeRates m = true) (δ : α) (b : Backend)
    (p : List (String × α)) (y0 : List α) (tb : Tableau α) (ctl : Control α) (hctl : ShiftInvariantCtl ctl δ)
    (fuel : Nat) (dt0 : α) :
    odeint tb ctl (field (shiftTime δ m) b p) fuel dt0 y0 (modelTimes (shiftTime δ m))
      = odeint tb ctl (field m b p) fuel dt0 y0 (modelTimes m) := by
  rw [modelTimes_shiftTime]
  exact odeint_shift tb ctl (field m b p) (fun y t t' => time_shift_field m hm b p y t t') δ hctl fuel dt0 y0 _

/-- the comparison `<` of an ordered field is a shift-invariant controller comparison -/
theorem lt_shiftInvariant (ctl : Control α) (h : ∀ a b, ctl.lt a b = decide (a < b)) (δ : α) :
    ShiftInvariantCtl ctl δ := by
  intro a b; rw [h, h]; simp

end timeShiftModel

section timeShiftExamples
/-- non-vacuity: the example model satisfies the hypotheses ... -/
example : timeFreeRates exModel = true ∧ timeFree exModel = true := by decide
/-- ... its right-hand side is defined and non-zero ... -/
example : rhs exModel exBackend exParams [90, 10, 0] 3 = some [-17, 17, 5] := by decide +kernel
/-- ... and the trajectory on the shifted span `[7, 11]` is the (non-trivial) trajectory on `[0, 4]` -/
example : modelTimes (shiftTime 7 exModel) = [7, 8, 9, 10, 11] := by decide +kernel
example : euler (field (shiftTime 7 exModel) exBackend exParams) [90, 10, 0] (modelTimes (shiftTime 7 exModel))
      = euler (field exModel exBackend exParams) [90, 10, 0] (modelTimes exModel) ∧
    (euler (field exModel exBackend exParams) [90, 10, 0] (modelTimes exModel)).take 3
      = [[90, 10, 0], [73, 27, 5], [2671 / 70, 1867 / 35, 37 / 2]] := by decide +kernel
/-- the hypothesis is needed: with a recovery rate equal to the current time the right-hand side
differs between `t = 1` and `t = 2` -/
example : timeFreeRates exModelT = false ∧
    rhs exModelT exBackend exParams [90, 10, 0] 1 ≠ rhs exModelT exBackend exParams [90, 10, 0] 2 := by
  decide +kernel
/-- the exact comparison of an ordered field gives a shift-invariant controller -/
example : ShiftInvariantCtl
    ({ errorRatio := fun _ _ _ => 0, optimalStep := fun d _ => d, accept := fun _ => true,
       lt := fun a b => decide (a < b), pos := fun d => decide (0 < d) } : Control Rat) 7 :=
  lt_shiftInvariant _ (fun _ _ => rfl) 7
end timeShiftExamples

/-! ## 2. population scaling -/

section scaleSolver
variable {α : Type} [Field α]

/-- **`C15.scale_solver`** — generic solver lemma.  If two vector fields are related by
`f' (k·y) t = k·f y t` (for `f' = f`: `f` is homogeneous of degree one for the factor `k`), the Euler
and RK4 trajectories from `k·y0` under `f'` are `k` times the trajectories from `y0` under `f`, row
by row.  Any `k`, any grid, any dimension. -/
theorem scale_solver (f f' : List α → α → List α) (k : α)
    (h : ∀ y t, f' (vscale k y) t = vscale k (f y t)) (y0 times : List α) :
    euler f' (vscale k y0) times = (euler f y0 times).map (vscale k) ∧
    rk4 f' (vscale k y0) times = (rk4 f y0 times).map (vscale k) :=
  ⟨euler_scale f f' k h y0 times, rk4_scale f f' k h y0 times⟩

/-- the special case of one homogeneous field -/
theorem scale_solver_homogeneous (f : List α → α → List α) (k : α) (h : Homogeneous k f) (y0 times : List α) :
    euler f (vscale k y0) times = (euler f y0 times).map (vscale k) ∧
    rk4 f (vscale k y0) times = (rk4 f y0 times).map (vscale k) :=
  scale_solver f f k h y0 times

/-- the adaptive Dormand–Prince solver: the same, provided the error ratio of the step controller is
invariant under multiplying the error estimate and both states by `k` (`ScaleInvariantCtl`: true for a
purely relative tolerance; with a non-zero absolute tolerance the step sequence, hence the dense
output, is in general NOT scale invariant).  Any tableau, fuel, initial step. -/
theorem scale_solver_odeint (tb : Tableau α) (ctl : Control α) (f f' : List α → α → List α) (k : α)
    (h : ∀ y t, f' (vscale k y) t = vscale k (f y t)) (hctl : ScaleInvariantCtl ctl k) (fuel : Nat) (dt0 : α)
    (y0 ts : List α) :
    odeint tb ctl f' fuel dt0 (vscale k y0) ts = (odeint tb ctl f fuel dt0 y0 ts).map (vscale k) :=
  odeint_scale tb ctl f f' k h hctl fuel dt0 y0 ts

end scaleSolver

section scaleRates
variable {α : Type} [Field α]

/-- frequency-dependent force of infection is homogeneous of degree ZERO: multipliers and per-strain
vectors at `k·x` are those at `x`.  Only `k ≠ 0` is needed — also when a category population is zero,
since then both prevalences are `0` by the convention `a / 0 = 0` shared by `Rat` and every field. -/
theorem scale_multipliers_freq (b : Backend) (hp : b.procType = some true) (k : α) (hk : k ≠ 0)
    (x : List α) (mix : Matrix α) (ci : List α) :
    infectiousMultipliers b (vscale k x) mix ci = infectiousMultipliers b x mix ci :=
  infectiousMultipliers_scale_freq b hp k hk x mix ci

/-- density-dependent force of infection is homogeneous of degree ONE -/
theorem scale_multipliers_dens (b : Backend) (hp : b.procType = some false) (k : α) (hk : k ≠ 0)
    (x : List α) (mix : Matrix α) (ci : List α) :
    infectiousMultipliers b (vscale k x) mix ci
      = (vscale k (infectiousMultipliers b x mix ci).1, (infectiousMultipliers b x mix ci).2.map (vscale k)) :=
  infectiousMultipliers_scale_dens b (by rw [hp]; simp) k hk x mix ci

/-- **`C15.scale_rates`** — degree-one homogeneity of the rate laws.  `b` has the index tables of `m`
(`BackendFor`, implied by `prepare m = .ok b`), one weight per flow, one multiplier per infection
flow, `k ≠ 0`.  Multiply the (cleaned) state by `k`, the weights of the import and absolute flows by
`k` and leave all other weights unchanged (`dens = false`, multipliers unchanged: frequency-dependent
or no transmission); or additionally divide the infection weights by `k` while the multipliers are
`k` times larger (`dens = true`: density-dependent).  Then every flow rate and every compartment rate
is multiplied by `k`. -/
theorem scale_rates (m : Model α) (b : Backend) (hb : BackendFor m b) (k : α) (hk : k ≠ 0) (dens : Bool)
    (w xc mults : List α) (hw : w.length = m.flows.length) (hm : mults.length = nInfection m) :
    flowRates b (scaleWeights m k dens w) (vscale k xc) (if dens then vscale k mults else mults)
      = vscale k (flowRates b w xc mults) ∧
    compRates b (flowRates b (scaleWeights m k dens w) (vscale k xc) (if dens then vscale k mults else mults))
      = vscale k (compRates b (flowRates b w xc mults)) := by
  have h := flowRates_scale hb k hk dens w xc mults hw hm
  exact ⟨h, by rw [h, compRates_scale]⟩

/-- the scaled weight vector, entry-wise: `k·wᵢ` for imports and absolute flows, `wᵢ/k` for infection
flows when `dens`, `wᵢ` otherwise -/
theorem scaleWeights_entry (m : Model α) (k : α) (dens : Bool) (w : List α) (hw : w.length = m.flows.length)
    (i : Nat) (hi : i < m.flows.length) :
    (scaleWeights m k dens w).getD i 0 =
      if isAbsInflow m.flows[i].kind then w.getD i 0 * k
      else if dens && isInfection m.flows[i].kind then w.getD i 0 * (1 / k) else w.getD i 0 := by
  rw [scaleWeights_getD k dens w hw i hi]
  unfold weightFactor
  split
  · rfl
  · split
    · rfl
    · rw [mul_one]

theorem scale_compRates (b : Backend) (k : α) (r : List α) : compRates b (vscale k r) = vscale k (compRates b r) :=
  compRates_scale b k r

end scaleRates

section scaleModel
variable {α : Type} [Field α] [LinearOrder α] [IsStrictOrderedRing α]

/-- cleaning commutes with scaling by a positive factor -/
theorem scale_clean (k : α) (hk : 0 < k) (x : List α) : cleanV (vscale k x) = vscale k (cleanV x) :=
  cleanV_scale k hk x

/-- the scaled model (`scaleModel k dens m`: a final `Multiply(k)` on every import / absolute flow,
and a final `Multiply(1/k)` on every infection flow when `dens`) has the same index tables -/
theorem scale_prepare (k : α) (dens : Bool) (m : Model α) : prepare (scaleModel k dens m) = prepare m :=
  prepare_scaleModel k dens m

/-- **degree-one homogeneity of the model's right-hand side.**  Hypotheses: `b` has the index tables
of `m`; no realised weight and no mixing-matrix entry reads the compartment values (`stateFreeI`,
decidable; they may depend on parameters and time); `k > 0`; `dens` is `true` exactly when
transmission is density dependent.  Then at every state and time the right-hand side of the scaled
model at `k·x` is `k` times that of `m` at `x` (and defined exactly when the latter is). -/
theorem scale_rhs (m : Model α) (b : Backend) (hb : BackendFor m b) (hm : stateFreeI m = true) (k : α) (hk : 0 < k)
    (dens : Bool) (hd : dens = (b.procType == some false)) (p : List (String × α)) (x : List α) (t : α) :
    rhs (scaleModel k dens m) b p (vscale k x) t = (rhs m b p x t).map (vscale k) :=
  rhs_scale hb hm k hk dens hd p x t

/-- **Multiplying all populations and absolute inflows by `k` multiplies all outputs by `k`**
(Euler and RK4; frequency-dependent transmission with `dens = false`, density-dependent with
`dens = true` and the contact rates divided by `k`).  `y0` is the initial population of `m`; the
scaled model is started from `k·y0`; every row of compartment values is `k` times the old row. -/
theorem scale_trajectory (m : Model α) (b : Backend) (hprep : prepare m = .ok b) (hm : stateFreeI m = true)
    (k : α) (hk : 0 < k) (dens : Bool) (hd : dens = (b.procType == some false)) (p : List (String × α))
    (y0 times : List α) :
    prepare (scaleModel k dens m) = .ok b ∧
    euler (field (scaleModel k dens m) b p) (vscale k y0) times = (euler (field m b p) y0 times).map (vscale k) ∧
    rk4 (field (scaleModel k dens m) b p) (vscale k y0) times = (rk4 (field m b p) y0 times).map (vscale k) := by
  have hb := backendFor_of_prepare m b hprep
  have h := scale_solver (field m b p) (field (scaleModel k dens m) b p) k
    (fun y t => field_scale hb hm k hk dens hd p y t) y0 times
  exact ⟨by rw [prepare_scaleModel]; exact hprep, h.1, h.2⟩

theorem scale_trajectory_odeint (m : Model α) (b : Backend) (hprep : prepare m = .ok b) (hm : stateFreeI m = true)
    (k : α) (hk : 0 < k) (dens : Bool) (hd : dens = (b.procType == some false)) (p : List (String × α))
    (tb : Tableau α) (ctl : Control α) (hctl : ScaleInvariantCtl ctl k) (fuel : Nat) (dt0 : α) (y0 ts : List α) :
    odeint tb ctl (field (scaleModel k dens m) b p) fuel dt0 (vscale k y0) ts
      = (odeint tb ctl (field m b p) fuel dt0 y0 ts).map (vscale k) :=
  odeint_scale tb ctl (field m b p) (field (scaleModel k dens m) b p) k
    (fun y t => field_scale (backendFor_of_prepare m b hprep) hm k hk dens hd p y t) hctl fuel dt0 y0 ts

end scaleModel

section scaleExamples
/-- non-vacuity (frequency dependent): hypotheses hold for the example model with `k = 3` ... -/
example : stateFreeI exModel = true ∧ (false = (exBackend.procType == some false)) := by decide
/-- ... the scaled model has its import multiplied by 3 and everything else untouched ... -/
example : (scaleModel (3 : Rat) false exModel).flows.map (fun f => (f.name, f.adjs.length)) =
    [("infection", 0), ("recovery", 1), ("death", 0), ("births", 0), ("imports", 1)] := by decide
/-- ... and the right-hand side at `3·x` is 3 times the (non-zero) right-hand side at `x` -/
example : rhs (scaleModel 3 false exModel) exBackend exParams [270, 30, 0] 0 = some [-51, 51, 15] ∧
    rhs exModel exBackend exParams [90, 10, 0] 0 = some [-17, 17, 5] := by decide +kernel
example : rk4 (field (scaleModel 3 false exModel) exBackend exParams) (vscale 3 [90, 10, 0]) [0, 1]
    = (rk4 (field exModel exBackend exParams) [90, 10, 0] [0, 1]).map (vscale 3) := by decide +kernel
/-- without scaling the import the outputs do NOT scale (the hypothesis on absolute inflows is needed) -/
example : rhs exModel exBackend exParams [270, 30, 0] 0 ≠ (rhs exModel exBackend exParams [90, 10, 0] 0).map (vscale 3) := by
  decide +kernel
/-- density dependent: with the contact rate divided by `k` -/
example : stateFreeI exModelD = true ∧ (true = (exBackendD.procType == some false)) := by decide
example : rhs (scaleModel 3 true exModelD) exBackendD exParams [270, 30, 0] 0
      = (rhs exModelD exBackendD exParams [90, 10, 0] 0).map (vscale 3) ∧
    rhs exModelD exBackendD exParams [90, 10, 0] 0 = some [-1799, 1799, 5] := by decide +kernel
/-- and density-dependent transmission does NOT scale if the contact rate is kept -/
example : rhs (scaleModel 3 false exModelD) exBackendD exParams [270, 30, 0] 0
      ≠ (rhs exModelD exBackendD exParams [90, 10, 0] 0).map (vscale 3) := by decide +kernel
/-- a controller with a purely relative error ratio (`max |err| / max(|y0|, |y1|)` summed crudely as
`Σ|err| / Σ(|y0| + |y1|)`) is scale invariant for `k = 3` -/
example : ScaleInvariantCtl
    ({ errorRatio := fun err y0 y1 => sumL (err.map abs) / (sumL (y0.map abs) + sumL (y1.map abs)),
       optimalStep := fun d _ => d, accept := fun r => decide (r ≤ 1),
       lt := fun a b => decide (a < b), pos := fun d => decide (0 < d) } : Control Rat) 3 := by
  intro err y0 y1
  have h : ∀ l : List Rat, sumL ((vscale 3 l).map abs) = 3 * sumL (l.map abs) := by
    intro l
    induction l with
    | nil => simp [vscale, sumL]
    | cons a l ih =>
      simp only [vscale, List.map_cons, sumL] at ih ⊢
      rw [ih, abs_mul]; norm_num; ring
  simp only [h]
  rw [← mul_add, mul_div_mul_left _ _ (by norm_num : (3 : Rat) ≠ 0)]
end scaleExamples

/-! ## 3. reordering flows and compartments -/

section permSpec
variable {α : Type} [Field α]

/-- **`C15.perm_equivariant`, flows (specification level).**  The inflow into and the outflow from
every compartment only depend on the multiset of (flow, rate) pairs. -/
theorem perm_inflow_outflow (m : Model α) (fl' : List (Flow α)) (r r' : List α)
    (h : (fl'.zip r').Perm (m.flows.zip r)) (c : Nat) :
    inflow (withFlows m fl') r' c = inflow m r c ∧ outflow (withFlows m fl') r' c = outflow m r c :=
  ⟨inflow_perm m fl' r r' h c, outflow_perm m fl' r r' h c⟩

/-- hence the compartment-rate vector is unchanged under a simultaneous permutation of the flow list
and the flow rates (index tables of the two models: `BackendFor`) -/
theorem perm_flows_compRates (m : Model α) (fl' : List (Flow α)) (b b' : Backend) (hb : BackendFor m b)
    (hb' : BackendFor (withFlows m fl') b') (r r' : List α) (h : (fl'.zip r').Perm (m.flows.zip r)) :
    compRates b' r' = compRates b r :=
  compRates_perm_flows m fl' b b' hb hb' r r' h

/-- **compartments, entry-wise**: the rate of a compartment does not depend on where it sits in the
compartment list (`i`, `i'` its positions in `m.comps` and in any other list `cs'`). -/
theorem perm_comps_entry (m : Model α) (cs' : List Comp) (b b' : Backend) (hb : BackendFor m b)
    (hb' : BackendFor (withComps m cs') b') (r : List α) (c : Comp) (i i' : Nat)
    (hi : compIdx m.comps c = some i) (hi' : compIdx cs' c = some i') :
    (compRates b' r).getD i' 0 = (compRates b r).getD i 0 :=
  compRates_comp_entry m cs' b b' hb hb' r c i i' hi hi'

/-- **compartments, vector form**: for a permutation `cs'` of a duplicate-free compartment list, the
compartment-rate vector of the reordered model is the old one read through the relabelling
`c ↦ position of c in m.comps`. -/
theorem perm_comps_compRates (m : Model α) (cs' : List Comp) (b b' : Backend) (hb : BackendFor m b)
    (hb' : BackendFor (withComps m cs') b') (r : List α) (hnd : m.comps.Nodup) (hp : cs'.Perm m.comps) :
    compRates b' r = cs'.map (fun c => (compRates b r).getD ((compIdx m.comps c).getD 0) 0) :=
  compRates_perm_comps m cs' b b' hb hb' r (hp.nodup_iff.2 hnd) (fun _ hc => hp.mem_iff.1 hc)

end permSpec

section permModel
variable {α : Type} [Field α] [LinearOrder α] [IsStrictOrderedRing α]

/-- **Reordering the flows of a model** (`fl'` a permutation of `m.flows`; both models have index
tables).  One evaluation of the reordered model is defined exactly when that of `m` is; it has the same
compartment rates, mixing matrix, compartment infectiousness and per-strain forces of infection; its
flow rates are those of `m` in the new order (as a permutation of (flow, rate) pairs). -/
theorem perm_flows_step (m : Model α) (fl' : List (Flow α)) (b b' : Backend) (h : prepare m = .ok b)
    (h' : prepare (withFlows m fl') = .ok b') (hp : fl'.Perm m.flows) (p : List (String × α)) (t : α)
    (x : List α) :
    (∀ o, step m b p t x = some o → ∃ o', step (withFlows m fl') b' p t x = some o' ∧
      o'.compRates = o.compRates ∧ (fl'.zip o'.flowRates).Perm (m.flows.zip o.flowRates) ∧
      o'.mixing = o.mixing ∧ o'.compInf = o.compInf ∧
      (∀ pt, b.procType = some pt → o'.perStrain = o.perStrain)) ∧
    (step m b p t x = none → step (withFlows m fl') b' p t x = none) :=
  step_perm_flows m fl' b b' h h' hp p t x

/-- hence the right-hand side, the vector field and every solver trajectory are literally unchanged -/
theorem perm_flows_rhs (m : Model α) (fl' : List (Flow α)) (b b' : Backend) (h : prepare m = .ok b)
    (h' : prepare (withFlows m fl') = .ok b') (hp : fl'.Perm m.flows) (p : List (String × α)) :
    rhs (withFlows m fl') b' p = rhs m b p ∧ field (withFlows m fl') b' p = field m b p := by
  have h1 : rhs (withFlows m fl') b' p = rhs m b p := by
    funext x t; exact rhs_perm_flows m fl' b b' h h' hp p x t
  refine ⟨h1, ?_⟩
  unfold field; rw [h1]; rfl

/-- `prepare` succeeds for the reordered model whenever it does for `m` (and conversely, the relation
being symmetric), so the hypothesis `h'` above is no restriction. -/
theorem perm_flows_prepare (m : Model α) (fl' : List (Flow α)) (b : Backend) (h : prepare m = .ok b)
    (hp : fl'.Perm m.flows) : ∃ b', prepare (withFlows m fl') = .ok b' :=
  prepare_ok_perm_flows m fl' b h hp

/-- **compartments: the rate laws are equivariant.**  `cs'` a permutation of the duplicate-free
compartment list; every population-proportional flow has a source (`sourcedOk`); the state has one
entry per compartment.  With the same weights and multipliers, the flow rates computed from the
relabelled state are unchanged, and the compartment rates are the relabelled compartment rates. -/
theorem perm_comps_rates (m : Model α) (cs' : List Comp) (b b' : Backend) (hb : BackendFor m b)
    (hb' : BackendFor (withComps m cs') b') (hs : sourcedOk m = true) (hnd : m.comps.Nodup)
    (hp : cs'.Perm m.comps) (w xc mults : List α) (hw : w.length = m.flows.length)
    (hx : xc.length = m.comps.length) :
    flowRates b' w (relabel m cs' xc) mults = flowRates b w xc mults ∧
    compRates b' (flowRates b' w (relabel m cs' xc) mults)
      = relabel m cs' (compRates b (flowRates b w xc mults)) :=
  ⟨flowRates_perm_comps m cs' b b' hb hb' hs hnd hp w xc mults hw hx,
   rates_perm_comps m cs' b b' hb hb' hs hnd hp w xc mults hw hx⟩

end permModel

section strataOrder
open Summer.Build
variable {α : Type}

/-- **Reordering the strata of a stratification** permutes the stratified compartment list. -/
theorem perm_strata (comps : List Comp) (s s' : Strat α) (hn : s'.name = s.name) (hc : s'.comps = s.comps)
    (hp : s'.strata.Perm s.strata) : (stratifyComps comps s').Perm (stratifyComps comps s) :=
  stratifyComps_perm_strata comps s s' hn hc hp

/-- **Reordering two independent stratifications** (different names): the two compartment lists agree
up to a permutation and up to the insertion order of the strata dictionaries (`compSem` reads a
compartment as its name and its strata *as a lookup function*, which is how Python compares them). -/
theorem perm_stratifications (comps : List Comp) (s1 s2 : Strat α) (hne : s1.name ≠ s2.name) :
    ((stratifyComps (stratifyComps comps s1) s2).map compSem).Perm
      ((stratifyComps (stratifyComps comps s2) s1).map compSem) :=
  stratifyComps_comm comps s1 s2 hne

end strataOrder

section permExamples
/-- non-vacuity, flows: swap the first two flows of the example model -/
def exFlows' : List (Flow Rat) := [fRec, fInf, fDeath, fBirth, fImp]
def exBackend' : Backend :=
  { exBackend with
    populationIdx := [1, 0, 1, 0, 0], infFlowIdx := [1],
    posMap := [(0, 2), (1, 1), (3, 0), (4, 1)], negMap := [(0, 1), (1, 0), (2, 1)] }
example : prepare (withFlows exModel exFlows') = .ok exBackend' := by rfl
example : exFlows'.Perm exModel.flows := List.Perm.swap _ _ _
/-- the two evaluations: same compartment rates, flow rates swapped -/
example : (step exModel exBackend exParams 0 [90, 10, 0]).map (fun o => (o.flowRates, o.compRates))
      = some ([18, 5, 1, 1, 5], [-17, 17, 5]) ∧
    (step (withFlows exModel exFlows') exBackend' exParams 0 [90, 10, 0]).map (fun o => (o.flowRates, o.compRates))
      = some ([5, 18, 1, 1, 5], [-17, 17, 5]) := by decide +kernel
/-- non-vacuity, compartments: rotate the compartment list -/
def exComps' : List Comp := [cR, cS, cI]
def exBackendC : Backend :=
  { exBackend with
    populationIdx := [1, 2, 2, 0, 0], posMap := [(0, 2), (1, 0), (3, 1), (4, 2)],
    negMap := [(0, 1), (1, 2), (2, 2)], strainInfIdx := [[2]] }
example : prepare (withComps exModel exComps') = .ok exBackendC := by rfl
example : exModel.comps.Nodup ∧ exComps'.Perm exModel.comps := by decide
example : compRates exBackend ([18, 5, 1, 1, 5] : List Rat) = [-17, 17, 5] ∧
    compRates exBackendC ([18, 5, 1, 1, 5] : List Rat) = [5, -17, 17] := by decide +kernel
/-- relabelled state and rates for the rotated compartment list -/
example : sourcedOk exModel = true ∧ relabel exModel exComps' ([90, 10, 0] : List Rat) = [0, 90, 10] := by
  decide +kernel
example : flowRates exBackendC ([2, 1/2, 1/10, 1, 5] : List Rat) [0, 90, 10] [1/10] = [18, 5, 1, 1, 5] ∧
    flowRates exBackend ([2, 1/2, 1/10, 1, 5] : List Rat) [90, 10, 0] [1/10] = [18, 5, 1, 1, 5] := by
  decide +kernel
/-- strata order / independent stratifications: two stratifications of S and I -/
def exAge : Strat Rat :=
  { kind := .plain, name := "age", strata := ["young", "old"], comps := ["S", "I"], split := [], flowAdj := [],
    infAdj := [], mixing := none }
def exLoc : Strat Rat :=
  { kind := .plain, name := "loc", strata := ["urban", "rural"], comps := ["S", "I", "R"], split := [],
    flowAdj := [], infAdj := [], mixing := none }
example : Build.stratifyComps [cS, cI, cR] { exAge with strata := ["old", "young"] } =
      [⟨"S", [("age", "old")]⟩, ⟨"S", [("age", "young")]⟩, ⟨"I", [("age", "old")]⟩, ⟨"I", [("age", "young")]⟩, cR] ∧
    Build.stratifyComps [cS, cI, cR] exAge =
      [⟨"S", [("age", "young")]⟩, ⟨"S", [("age", "old")]⟩, ⟨"I", [("age", "young")]⟩, ⟨"I", [("age", "old")]⟩, cR] := by
  decide
example : exAge.name ≠ exLoc.name ∧
    (Build.stratifyComps (Build.stratifyComps [cS, cI, cR] exAge) exLoc).take 3 =
      [⟨"S", [("age", "young"), ("loc", "urban")]⟩, ⟨"S", [("age", "young"), ("loc", "rural")]⟩,
       ⟨"S", [("age", "old"), ("loc", "urban")]⟩] ∧
    (Build.stratifyComps (Build.stratifyComps [cS, cI, cR] exLoc) exAge).take 3 =
      [⟨"S", [("loc", "urban"), ("age", "young")]⟩, ⟨"S", [("loc", "urban"), ("age", "old")]⟩,
       ⟨"S", [("loc", "rural"), ("age", "young")]⟩] := by decide
end permExamples

/-! ## 4. renaming -/

section rename
open Summer.Build Summer.Proofs.InvRename
variable {α : Type} {ρn ρk ρv : String → String}

/-- **`C15.rename`, structure.**  For injective renamings of compartment names (`ρn`), stratification
names (`ρk`) and stratum labels (`ρv`): matching, strata tests, `getMatching`, `stratifyComps` and
`compIdx` commute with renaming. -/
theorem rename_structural (hn : Function.Injective ρn) (hk : Function.Injective ρk) (hv : Function.Injective ρv) :
    (∀ (c : Comp) (name : String) (flt : Strata),
      (renComp ρn ρk ρv c).isMatch (ρn name) (renStrata ρk ρv flt) = c.isMatch name flt) ∧
    (∀ (c : Comp) (flt : Strata), (renComp ρn ρk ρv c).hasStrata (renStrata ρk ρv flt) = c.hasStrata flt) ∧
    (∀ (m : Model α) (name : String) (flt : Strata),
      getMatching (renModel ρn ρk ρv m) (ρn name) (renStrata ρk ρv flt)
        = (getMatching m name flt).map (renComp ρn ρk ρv)) ∧
    (∀ (comps : List Comp) (s : Strat α),
      stratifyComps (comps.map (renComp ρn ρk ρv)) (renStrat ρn ρk ρv s)
        = (stratifyComps comps s).map (renComp ρn ρk ρv)) ∧
    (∀ (comps : List Comp) (c : Comp),
      compIdx (comps.map (renComp ρn ρk ρv)) (renComp ρn ρk ρv c) = compIdx comps c) :=
  ⟨isMatch_ren hn hk hv, hasStrata_ren hk hv, getMatching_ren hn hk hv, stratifyComps_ren hn hk,
   compIdx_ren hn hk hv⟩

/-- **`C15.rename`, index tables.**  Under a `GoodRenaming` (three injective maps that fix the two
strings the run-time code hard-codes: the stratification name `"strain"` and the strain label
`"default"`), `prepare` of the renamed model is IDENTICAL to `prepare` of the model: same tables, or
the same error. -/
theorem rename_prepare (h : GoodRenaming ρn ρk ρv) (m : Model α) :
    prepare (renModel ρn ρk ρv m) = prepare m :=
  prepare_ren h m

end rename

section renameNumeric
open Summer.Proofs.InvRename
variable {α : Type} [Zero α] [One α] [Add α] [Sub α] [Mul α] [Div α] [LT α] [DecidableLT α]
variable {ρn ρk ρv : String → String}

/-- **`C15.rename`, values.**  With the same index tables, compartment infectiousness, one full
evaluation (`step`: weights, multipliers, flow rates, compartment rates) and the right-hand side of
the renamed model are identical to those of the model — at every parameter set, state and time, and
including definedness.  Hence every solver trajectory is identical; the results are "relabelled"
only in that position `i` now carries the name `renComp (m.comps[i])`.  (Generic over the core
classes: also valid for `Float`.) -/
theorem rename (hn : Function.Injective ρn) (hk : Function.Injective ρk) (hv : Function.Injective ρv)
    (hstrain : ρk "strain" = "strain") (hdefault : ρv "default" = "default")
    (m : Model α) (b : Backend) (hb : prepare m = .ok b) :
    prepare (renModel ρn ρk ρv m) = .ok b ∧
      (renModel ρn ρk ρv m).comps = m.comps.map (renComp ρn ρk ρv) ∧
      (∀ params, compInfectiousness (renModel ρn ρk ρv m) params = compInfectiousness m params) ∧
      (∀ params t x, step (renModel ρn ρk ρv m) b params t x = step m b params t x) ∧
      (∀ params x t, rhs (renModel ρn ρk ρv m) b params x t = rhs m b params x t) :=
  rename_invariant hn hk hv hstrain hdefault m b hb

end renameNumeric

section renameExamples
open Summer.Proofs.InvRename
/-- non-vacuity: a 6-compartment model (S, I × age; I × strain) with mixing matrix and infectiousness
adjustment, renamed by S↔I, age→agegroup, young↔old.  The hypotheses hold, `prepare` succeeds, and
the two sides of the theorem are computed independently and agree. -/
example : GoodRenaming InvRename.exN InvRename.exK InvRename.exV := InvRename.exGood
example : (prepare InvRename.exModel).toOption.isSome = true := by decide +kernel
example : (prepare (renModel InvRename.exN InvRename.exK InvRename.exV InvRename.exModel)).toOption
    = (prepare InvRename.exModel).toOption := by decide +kernel
/-- the hypothesis `ρk "strain" = "strain"` is needed: renaming the strain stratification makes
`prepare` fail -/
example : (prepare (renModel InvRename.exN (InvRename.swap "strain" "lineage") InvRename.exV InvRename.exModel)).toOption
    = none := by decide +kernel
end renameExamples

/-! ## 5. adding a flow before or after a stratification -/

section flowOrder
open Summer.Build Summer.Proofs.InvFlowOrder
variable {α : Type} [One α] [Div α] [NatCast α]

/-- **`C15.flow_before_after`, transition / infection flow.**  `s` is a non-age stratification with at
least one stratum that contains both the source and the destination name, and none of whose flow
adjustments names the flow; the flow is added without strata filters and without expected count.
Then adding the flow and stratifying succeeds exactly when stratifying and adding the flow does, and
the two resulting models are EQUAL (compartments, flows in the same order with identical
adjustments, and every other field). -/
theorem flow_before_after (m : Model α) (s : Strat α) (kind : FlowKind) (name : String)
    (ok : Bool) (param : Expr α) (source dest : String)
    (hage : s.isAgeing = false) (hne : s.strata ≠ [])
    (hkind : kind = .transition ∨ kind = .infFreq ∨ kind = .infDens)
    (hsrc : s.comps.contains source = true) (hdst : s.comps.contains dest = true)
    (hadj : s.flowAdj.all (fun d => d.flow != name) = true) :
    ∀ m' : Model α,
      (addFlow m (.transition kind name ok param source dest [] [] none) >>= fun m1 => stratifyWith m1 s)
          = .ok m' ↔
      (stratifyWith m s >>= fun m1 => addFlow m1 (.transition kind name ok param source dest [] [] none))
          = .ok m' :=
  flow_before_after_transition m s kind name ok param source dest hage hne hkind hsrc hdst hadj

/-- the same when the stratification contains NEITHER endpoint (`hsd`: both or neither) -/
theorem flow_before_after_gen (m : Model α) (s : Strat α) (kind : FlowKind) (name : String)
    (ok : Bool) (param : Expr α) (source dest : String)
    (hage : s.isAgeing = false) (hne : s.strata ≠ []) (hkind : kind ≠ .absolute)
    (hsd : s.comps.contains source = s.comps.contains dest)
    (hadj : s.flowAdj.all (fun d => d.flow != name) = true) :
    ∀ m' : Model α,
      (addFlow m (.transition kind name ok param source dest [] [] none) >>= fun m1 => stratifyWith m1 s)
          = .ok m' ↔
      (stratifyWith m s >>= fun m1 => addFlow m1 (.transition kind name ok param source dest [] [] none))
          = .ok m' :=
  flow_before_after_transition_gen m s kind name ok param source dest hage hne hkind hsd hadj

/-- **death flow** (no hypothesis on the source or on the strata is needed) -/
theorem flow_before_after_death (m : Model α) (s : Strat α) (name : String) (ok : Bool)
    (param : Expr α) (source : String) (hage : s.isAgeing = false)
    (hadj : s.flowAdj.all (fun d => d.flow != name) = true) :
    ∀ m' : Model α,
      (addFlow m (.death name ok param source [] none) >>= fun m1 => stratifyWith m1 s) = .ok m' ↔
      (stratifyWith m s >>= fun m1 => addFlow m1 (.death name ok param source [] none)) = .ok m' :=
  flow_before_after_death_gen m s name ok param source hage hadj

/-- **age stratification**: both orders succeed together and give the same model up to the order of
the flows (the block of new flows and the block of ageing flows swap places). -/
theorem flow_before_after_age (m : Model α) (s : Strat α) (kind : FlowKind) (name : String)
    (ok : Bool) (param : Expr α) (source dest : String)
    (hage : s.isAgeing = true) (hne : s.strata ≠ []) (hkind : kind ≠ .absolute)
    (hadj : s.flowAdj.all (fun d => d.flow != name) = true) :
    (∀ m', (addFlow m (.transition kind name ok param source dest [] [] none) >>= fun m1 => stratifyWith m1 s)
        = .ok m' →
      ∃ m'', (stratifyWith m s >>= fun m1 => addFlow m1 (.transition kind name ok param source dest [] [] none))
        = .ok m'' ∧ SameUpToFlowOrder m' m'') ∧
    (∀ m'', (stratifyWith m s >>= fun m1 => addFlow m1 (.transition kind name ok param source dest [] [] none))
        = .ok m'' →
      ∃ m', (addFlow m (.transition kind name ok param source dest [] [] none) >>= fun m1 => stratifyWith m1 s)
        = .ok m' ∧ SameUpToFlowOrder m' m'') :=
  flow_before_after_transition_age m s kind name ok param source dest hage hne hkind hadj

theorem flow_before_after_death_age (m : Model α) (s : Strat α) (name : String) (ok : Bool)
    (param : Expr α) (source : String) (hage : s.isAgeing = true)
    (hadj : s.flowAdj.all (fun d => d.flow != name) = true) :
    (∀ m', (addFlow m (.death name ok param source [] none) >>= fun m1 => stratifyWith m1 s) = .ok m' →
      ∃ m'', (stratifyWith m s >>= fun m1 => addFlow m1 (.death name ok param source [] none)) = .ok m'' ∧
        SameUpToFlowOrder m' m'') ∧
    (∀ m'', (stratifyWith m s >>= fun m1 => addFlow m1 (.death name ok param source [] none)) = .ok m'' →
      ∃ m', (addFlow m (.death name ok param source [] none) >>= fun m1 => stratifyWith m1 s) = .ok m' ∧
        SameUpToFlowOrder m' m'') :=
  InvFlowOrder.flow_before_after_death_age m s name ok param source hage hadj

end flowOrder

section flowOrderExamples
open Summer.Proofs.InvFlowOrder
/-- non-vacuity (S/I/R on `Rat`, a 2-stratum stratification of S and I that adjusts another flow,
an infection flow S → I): both orders succeed and give the same compartments and flows -/
example : (InvFlowOrder.flowsOf (InvFlowOrder.before InvFlowOrder.exStrat InvFlowOrder.exInf)).isSome = true ∧
    InvFlowOrder.flowsOf (InvFlowOrder.after InvFlowOrder.exStrat InvFlowOrder.exInf)
      = InvFlowOrder.flowsOf (InvFlowOrder.before InvFlowOrder.exStrat InvFlowOrder.exInf) ∧
    InvFlowOrder.compsOf (InvFlowOrder.after InvFlowOrder.exStrat InvFlowOrder.exInf)
      = InvFlowOrder.compsOf (InvFlowOrder.before InvFlowOrder.exStrat InvFlowOrder.exInf) := by decide
/-- "covers both its endpoints" is needed: with only S stratified the before-order succeeds and the
after-order fails -/
example : (InvFlowOrder.flowsOf (InvFlowOrder.before (InvFlowOrder.exStrat ["S"]) InvFlowOrder.exInf)).isSome = true ∧
    (InvFlowOrder.flowsOf (InvFlowOrder.after (InvFlowOrder.exStrat ["S"]) InvFlowOrder.exInf)).isSome = false := by
  decide
end flowOrderExamples

#print axioms time_shift_eval
#print axioms time_shift_step
#print axioms time_shift
#print axioms time_shift_field
#print axioms time_shift_flows_for_outputs
#print axioms time_shift_euler
#print axioms time_shift_rk4
#print axioms time_shift_odeint
#print axioms time_shift_grid
#print axioms time_shift_model_euler
#print axioms time_shift_model_rk4
#print axioms time_shift_model_odeint
#print axioms lt_shiftInvariant
#print axioms scale_solver
#print axioms scale_solver_homogeneous
#print axioms scale_solver_odeint
#print axioms scale_multipliers_freq
#print axioms scale_multipliers_dens
#print axioms scale_rates
#print axioms scaleWeights_entry
#print axioms scale_compRates
#print axioms scale_clean
#print axioms scale_prepare
#print axioms scale_rhs
#print axioms scale_trajectory
#print axioms scale_trajectory_odeint
#print axioms perm_inflow_outflow
#print axioms perm_flows_compRates
#print axioms perm_comps_entry
#print axioms perm_comps_compRates
#print axioms perm_flows_step
#print axioms perm_flows_rhs
#print axioms perm_flows_prepare
#print axioms perm_comps_rates
#print axioms perm_strata
#print axioms perm_stratifications
#print axioms rename_structural
#print axioms rename_prepare
#print axioms rename
#print axioms flow_before_after
#print axioms flow_before_after_gen
#print axioms flow_before_after_death
#print axioms flow_before_after_age
#print axioms flow_before_after_death_age

end Summer.Props.C15
