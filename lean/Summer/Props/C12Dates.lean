import Summer.Proofs.Dates
import Summer.Props.C12Grid
/-
C12 (dates part): the `Epoch` conversions, the datetime branch of `CompartmentalModel.__init__`, the grid validation, and
the labelling of the output frames (`Summer/Model/Dates.lean`).

Datetimes are integers (microseconds), model times are exact rationals, `unit > 0` is `Epoch.unit` in microseconds
(`dayUnit` by default), `rnd` is the rounding of `timedelta * float` to whole microseconds; only the contract
`IsRounding rnd` (exact on integers, within 1/2) is assumed, plus `IsMonotoneRounding rnd` where stated.  Python's
round-half-even (`roundHalfEven`) satisfies both (`roundHalfEven_ok`).  Floats are NOT modelled.
-/
namespace Summer.Props.C12Dates
open Summer Summer.Dates Summer.Proofs.Dates

/-- Python's rounding rule satisfies the contract assumed of `rnd` everywhere below, and is monotone. -/
theorem roundHalfEven_ok : IsRounding roundHalfEven ∧ IsMonotoneRounding roundHalfEven :=
  ⟨roundHalfEven_isRounding, roundHalfEven_monotone⟩

/-! ## 1. datetime → number → datetime is the identity -/

/-- `number_to_datetime (datetime_to_number d) = d` for every datetime, reference date and unit `> 0`. -/
theorem epoch_roundtrip_date {rnd : ℚ → ℤ} (hr : IsRounding rnd) (ref unit d : ℤ) (hu : 0 < unit) :
    toDate rnd ref unit (toNum ref unit d) = d :=
  toDate_toNum hr ref unit d hu

example : toDate roundHalfEven 1704067200000000 dayUnit (toNum 1704067200000000 dayUnit 1709251200123457)
    = 1709251200123457 :=
  epoch_roundtrip_date roundHalfEven_ok.1 _ _ _ (by decide)

/-! ## 2. number → datetime → number -/

/-- `datetime_to_number (number_to_datetime t) = t` exactly when `t` is a whole number of microseconds
(`t * unit ∈ ℤ`), and only then. -/
theorem epoch_roundtrip_num {rnd : ℚ → ℤ} (hr : IsRounding rnd) (ref unit : ℤ) (hu : 0 < unit) (t : ℚ) :
    toNum ref unit (toDate rnd ref unit t) = t ↔ ∃ m : ℤ, t * (unit : ℚ) = (m : ℚ) :=
  toNum_toDate_eq_iff hr ref unit hu t

/-- In general the round trip moves `t` by at most half a microsecond, i.e. `1 / (2·unit)` time units. -/
theorem epoch_roundtrip_num_bound {rnd : ℚ → ℤ} (hr : IsRounding rnd) (ref unit : ℤ) (hu : 0 < unit) (t : ℚ) :
    |toNum ref unit (toDate rnd ref unit t) - t| ≤ 1 / (2 * (unit : ℚ)) :=
  toNum_toDate_abs hr ref unit hu t

-- 2.5 days is a whole number of microseconds: exact
example : toNum 1000 dayUnit (toDate roundHalfEven 1000 dayUnit (5 / 2)) = 5 / 2 :=
  (epoch_roundtrip_num roundHalfEven_ok.1 1000 dayUnit (by decide) (5 / 2)).mpr ⟨216000000000, by norm_num [dayUnit]⟩
-- a third of a microsecond is not: the round trip is not the identity, the bound is attained non-trivially
example : toNum 0 dayUnit (toDate roundHalfEven 0 dayUnit (1 / (3 * 86400000000))) = 0 := by decide +kernel
example : toNum 0 dayUnit (toDate roundHalfEven 0 dayUnit (1 / (3 * 86400000000))) ≠ 1 / (3 * 86400000000) := by
  decide +kernel

/-! ## 3. datetime start / end times, and the labels of the output frames -/

/-- A model given datetimes `ds`, `de` and a reference date: whenever the constructor accepts,
the numeric end points are `toNum ds`, `toNum de`; there are `n ≥ 1` steps of size `dt > 0`, `ds < de` and
`de - ds = n·dt·unit` microseconds; `times[i] = toNum ds + i·dt`; the frame index has `n + 1` entries, entry `i` is the
datetime `toDate times[i] = ref + rnd ((toNum ds + i·dt)·unit)`; the first label is exactly `ds` and the last exactly `de`. -/
theorem datetime_times {rnd : ℚ → ℤ} (hr : IsRounding rnd) (ref unit ds de : ℤ) (hu : 0 < unit) (dt : ℚ) (g : TimeGrid)
    (h : construct (some ref) unit (.date ds) (.date de) dt = some g) :
    ∃ n : ℕ, 1 ≤ n ∧ 0 < dt ∧ ds < de ∧ ((de - ds : ℤ) : ℚ) = (n : ℚ) * dt * (unit : ℚ) ∧
      g.refDate = some ref ∧ g.timestep = dt ∧
      g.times = linspace (toNum ref unit ds) (toNum ref unit de) (n + 1) ∧
      g.times.length = n + 1 ∧ (refIdx rnd unit g).length = n + 1 ∧
      (∀ i, i ≤ n → g.times.getD i 0 = toNum ref unit ds + (i : ℚ) * dt ∧
        (refIdx rnd unit g).getD i (.num 0) = .date (toDate rnd ref unit (g.times.getD i 0)) ∧
        toDate rnd ref unit (g.times.getD i 0) = ref + rnd ((toNum ref unit ds + (i : ℚ) * dt) * (unit : ℚ))) ∧
      (refIdx rnd unit g).getD 0 (.num 0) = .date ds ∧
      (refIdx rnd unit g).getD n (.num 0) = .date de := by
  obtain ⟨t0, t1, n, hres, hn, rfl⟩ := (construct_eq_some_iff _ _ _ _ _ _).mp h
  rw [resolveTimes_dates] at hres
  obtain ⟨rfl, rfl⟩ := Prod.mk.inj (Option.some.inj hres)
  obtain ⟨n', hn', h1, hdt, -, hlen, hget, hend⟩ := gridTimes_eq_some (gridTimes_of_gridSteps hn)
  obtain rfl : n' = n := Option.some.inj (hn'.symm.trans hn)
  have hlt := ((gridSteps_eq_some_iff _ _ _ _).mp hn).1
  have hu' : (unit : ℚ) ≠ 0 := by exact_mod_cast hu.ne'
  have hlab : ∀ i, i ≤ n' →
      (refIdx rnd unit ⟨some ref, linspace (toNum ref unit ds) (toNum ref unit de) (n' + 1), dt⟩).getD i (.num 0) =
        .date (toDate rnd ref unit ((linspace (toNum ref unit ds) (toNum ref unit de) (n' + 1)).getD i 0)) :=
    fun i hi => refIdx_some_getD rnd unit ref _ dt i (by rw [hlen]; omega)
  refine ⟨n', h1, hdt, (toNum_lt_toNum ref unit ds de hu).mp hlt, ?_, rfl, rfl, rfl, hlen, ?_, ?_, ?_, ?_⟩
  · have := ((gridSteps_eq_some_iff _ _ _ _).mp hn).2.2
    unfold toNum at this
    field_simp at this
    push_cast at this ⊢
    linarith
  · simp [refIdx, hlen]
  · intro i hi
    refine ⟨hget i hi, hlab i hi, ?_⟩
    rw [hget i hi]
    rfl
  · rw [hlab 0 (by omega), hget 0 (by omega)]
    simp only [Nat.cast_zero, zero_mul, add_zero]
    rw [epoch_roundtrip_date hr ref unit ds hu]
  · rw [hlab n' le_rfl, hget n' le_rfl, ← hend, epoch_roundtrip_date hr ref unit de hu]

/-- If moreover the time step is a whole number `m` of microseconds (`dt·unit = m`, e.g. any whole number of days), label
`i` is exactly `ds + i·m` — no rounding error anywhere. -/
theorem datetime_times_whole {rnd : ℚ → ℤ} (hr : IsRounding rnd) (ref unit ds de : ℤ) (hu : 0 < unit) (dt : ℚ)
    (g : TimeGrid) (h : construct (some ref) unit (.date ds) (.date de) dt = some g)
    (m : ℤ) (hm : dt * (unit : ℚ) = (m : ℚ)) (i : ℕ) (hi : i < g.times.length) :
    (refIdx rnd unit g).getD i (.num 0) = .date (ds + (i : ℤ) * m) := by
  obtain ⟨n, -, -, -, -, -, -, -, hlen, -, hget, -, -⟩ := datetime_times hr ref unit ds de hu dt g h
  obtain ⟨h1, h2, -⟩ := hget i (by omega)
  rw [h2, h1, toDate_of_whole hr ref unit _ ((ds - ref) + (i : ℤ) * m)]
  · congr 1; omega
  · rw [add_mul, toNum_mul_unit ref unit ds hu, mul_assoc, hm]
    push_cast
    ring

/-- Numeric start/end times with a reference date: label `i` is `toDate (t0 + i·dt) = ref + rnd ((t0 + i·dt)·unit)`; when
`t0·unit = a` and `dt·unit = m` are whole numbers of microseconds (in particular for whole-day `t0`, `dt`) it is exactly
`ref + a + i·m`. -/
theorem numeric_times_labels {rnd : ℚ → ℤ} (hr : IsRounding rnd) (ref unit : ℤ) (t0 t1 dt : ℚ) (g : TimeGrid)
    (h : construct (some ref) unit (.num t0) (.num t1) dt = some g) (i : ℕ) (hi : i < g.times.length) :
    g.times.getD i 0 = t0 + (i : ℚ) * dt ∧
    (refIdx rnd unit g).getD i (.num 0) = .date (ref + rnd ((t0 + (i : ℚ) * dt) * (unit : ℚ))) ∧
    (∀ a m : ℤ, t0 * (unit : ℚ) = (a : ℚ) → dt * (unit : ℚ) = (m : ℚ) →
      (refIdx rnd unit g).getD i (.num 0) = .date (ref + a + (i : ℤ) * m)) := by
  obtain ⟨t0', t1', n, hres, hn, rfl⟩ := (construct_eq_some_iff _ _ _ _ _ _).mp h
  rw [resolveTimes_nums] at hres
  obtain ⟨rfl, rfl⟩ := Prod.mk.inj (Option.some.inj hres)
  obtain ⟨n', hn', -, -, -, hlen, hget, -⟩ := gridTimes_eq_some (gridTimes_of_gridSteps hn)
  obtain rfl : n' = n := Option.some.inj (hn'.symm.trans hn)
  simp only at hi
  rw [hlen] at hi
  have hl := refIdx_some_getD rnd unit ref _ dt i (by rw [hlen]; exact hi)
  rw [hget i (by omega)] at hl
  refine ⟨hget i (by omega), hl, ?_⟩
  intro a m ha hm
  rw [hl, toDate_of_whole hr ref unit _ (a + (i : ℤ) * m)]
  · congr 1; omega
  · rw [add_mul, ha, mul_assoc, hm]
    push_cast
    ring

/-- Without a reference date the frame index is the numeric grid itself, and datetime arguments are rejected
(`TypeError`); a datetime mixed with a number is rejected too. -/
theorem no_ref_date (rnd : ℚ → ℤ) (unit : ℤ) (dt : ℚ) :
    (∀ t0 t1 g, construct none unit (.num t0) (.num t1) dt = some g → refIdx rnd unit g = g.times.map .num) ∧
    (∀ ds de, construct none unit (.date ds) (.date de) dt = none) ∧
    (∀ r d t, construct r unit (.date d) (.num t) dt = none ∧ construct r unit (.num t) (.date d) dt = none) := by
  refine ⟨?_, fun _ _ => rfl, fun _ _ _ => ⟨rfl, rfl⟩⟩
  intro t0 t1 g h
  obtain ⟨_, _, _, -, -, rfl⟩ := (construct_eq_some_iff _ _ _ _ _ _).mp h
  rfl

/-! ### monotonicity of the labels -/

/-- `toDate` is monotone when the rounding is. -/
theorem toDate_monotone {rnd : ℚ → ℤ} (hm : IsMonotoneRounding rnd) (ref unit : ℤ) (hu : 0 < unit) (s t : ℚ)
    (hst : s ≤ t) : toDate rnd ref unit s ≤ toDate rnd ref unit t :=
  toDate_mono hm ref unit hu hst

/-- Strictness: times MORE than one microsecond apart get strictly increasing datetimes (any rounding, monotone or not);
times at least one microsecond apart get weakly increasing datetimes.  Exactly one microsecond apart is NOT enough for
strictness (see the counterexample below: round-half-even sends 1.5 µs and 2.5 µs both to 2 µs). -/
theorem toDate_strictMono_of_gt_one_us {rnd : ℚ → ℤ} (hr : IsRounding rnd) (ref unit : ℤ) (s t : ℚ) :
    (1 < (t - s) * (unit : ℚ) → toDate rnd ref unit s < toDate rnd ref unit t) ∧
    (1 ≤ (t - s) * (unit : ℚ) → toDate rnd ref unit s ≤ toDate rnd ref unit t) :=
  ⟨toDate_strict hr ref unit, toDate_le_of_one_le hr ref unit⟩

/-- On whole-microsecond times `toDate` is strictly monotone (and injective): `toDate s < toDate t ↔ s < t`. -/
theorem toDate_lt_iff_of_whole {rnd : ℚ → ℤ} (hr : IsRounding rnd) (ref unit : ℤ) (hu : 0 < unit) (s t : ℚ) (a b : ℤ)
    (hs : s * (unit : ℚ) = (a : ℚ)) (ht : t * (unit : ℚ) = (b : ℚ)) :
    toDate rnd ref unit s < toDate rnd ref unit t ↔ s < t := by
  have hu' : (0 : ℚ) < (unit : ℚ) := by exact_mod_cast hu
  rw [toDate_of_whole hr ref unit s a hs, toDate_of_whole hr ref unit t b ht, ← mul_lt_mul_iff_left₀ hu', hs, ht,
    Int.cast_lt]
  omega

/-- The datetime labels of an accepted model are weakly increasing for a monotone rounding, and strictly increasing as
soon as the time step is longer than one microsecond (`dt·unit > 1`). -/
theorem index_increasing {rnd : ℚ → ℤ} (hr : IsRounding rnd) (ref unit : ℤ) (hu : 0 < unit) (a b : TimeVal) (dt : ℚ)
    (g : TimeGrid) (h : construct (some ref) unit a b dt = some g) (i j : ℕ) (hij : i < j) (hj : j < g.times.length) :
    ∃ di dj : ℤ, (refIdx rnd unit g).getD i (.num 0) = .date di ∧ (refIdx rnd unit g).getD j (.num 0) = .date dj ∧
      (IsMonotoneRounding rnd → di ≤ dj) ∧ (1 < dt * (unit : ℚ) → di < dj) := by
  obtain ⟨t0, t1, n, hres, hn, rfl⟩ := (construct_eq_some_iff _ _ _ _ _ _).mp h
  obtain ⟨n', hn', -, hdt, -, hlen, hget, -⟩ := gridTimes_eq_some (gridTimes_of_gridSteps hn)
  obtain rfl : n' = n := Option.some.inj (hn'.symm.trans hn)
  simp only at hj
  rw [hlen] at hj
  have hu' : (0 : ℚ) < (unit : ℚ) := by exact_mod_cast hu
  have hc : (i : ℚ) + 1 ≤ (j : ℚ) := by exact_mod_cast hij
  refine ⟨_, _, refIdx_some_getD rnd unit ref _ dt i (by rw [hlen]; omega),
    refIdx_some_getD rnd unit ref _ dt j (by rw [hlen]; omega), ?_, ?_⟩
  · intro hm
    rw [hget i (by omega), hget j (by omega)]
    exact toDate_mono hm ref unit hu (by nlinarith)
  · intro hstep
    rw [hget i (by omega), hget j (by omega)]
    apply toDate_strict hr
    have : 0 < dt * (unit : ℚ) := by positivity
    nlinarith

-- a concrete model: 1 Jan 2024 .. 3 Jan 2024 (as µs offsets from `ref`), half-day steps
example : (construct (some 1000) dayUnit (.date (1000 + 3 * dayUnit)) (.date (1000 + 5 * dayUnit)) (1 / 2)).map
      (refIdx roundHalfEven dayUnit) =
    some [.date 259200001000, .date 302400001000, .date 345600001000, .date 388800001000, .date 432000001000] := by
  decide +kernel
example : construct (some 1000) dayUnit (.date (1000 + 3 * dayUnit)) (.date (1000 + 5 * dayUnit)) (1 / 2) =
    some ⟨some 1000, [3, 7 / 2, 4, 9 / 2, 5], 1 / 2⟩ := by decide +kernel
-- `datetime_times_whole` applied to it: half a day is 43 200 000 000 µs, label 3 is `ds + 3·43 200 000 000`
example : (refIdx roundHalfEven dayUnit ⟨some 1000, [3, 7 / 2, 4, 9 / 2, 5], 1 / 2⟩).getD 3 (.num 0) =
    .date (1000 + 3 * dayUnit + (3 : ℕ) * 43200000000) :=
  datetime_times_whole roundHalfEven_ok.1 1000 dayUnit (1000 + 3 * dayUnit) (1000 + 5 * dayUnit) (by decide) (1 / 2) _
    (by decide +kernel) 43200000000 (by norm_num [dayUnit]) 3 (by decide)
-- numeric times with a reference date
example : (construct (some 1000) dayUnit (.num 0) (.num 2) 1).map (refIdx roundHalfEven dayUnit) =
    some [.date 1000, .date 86400001000, .date 172800001000] := by decide +kernel
-- counterexample to strictness at exactly one microsecond (unit = 1 µs): 1.5 µs and 2.5 µs both become 2 µs
example : toDate roundHalfEven 0 1 (3 / 2) = 2 ∧ toDate roundHalfEven 0 1 (5 / 2) = 2 := by decide +kernel
-- the hypotheses of the monotonicity statements are satisfiable
example : toDate roundHalfEven 0 dayUnit (1 / 3) < toDate roundHalfEven 0 dayUnit (1 / 2) :=
  (toDate_strictMono_of_gt_one_us roundHalfEven_ok.1 0 dayUnit (1 / 3) (1 / 2)).1 (by norm_num [dayUnit])

/-! ## 4. the grid validation -/

/-- Decision logic of the constructor's grid validation.  The constructor accepts (returns a step count) iff the three
Python assertions hold literally (and `timestep ≠ 0`, else `ZeroDivisionError`), iff — with `k = (t1 - t0)/dt` —
`t0 < t1 ∧ k ≥ 0 ∧ k ∈ ℤ`, iff `dt > 0` divides the span a whole number `n ≥ 1` of times. -/
theorem constructor_accepts_iff (t0 t1 dt : ℚ) :
    ((∃ n, gridSteps t0 t1 dt = some n) ↔
      t1 > t0 ∧ dt ≠ 0 ∧ numSteps t0 t1 dt ≥ 1 ∧ fmod1 (numSteps t0 t1 dt) = 0) ∧
    ((∃ n, gridSteps t0 t1 dt = some n) ↔
      t0 < t1 ∧ dt ≠ 0 ∧ 0 ≤ (t1 - t0) / dt ∧ ∃ z : ℤ, (t1 - t0) / dt = (z : ℚ)) ∧
    ((∃ n, gridSteps t0 t1 dt = some n) ↔ 0 < dt ∧ ∃ n : ℕ, 1 ≤ n ∧ t1 - t0 = (n : ℚ) * dt) :=
  ⟨(gridSteps_isSome_iff_gridPoints t0 t1 dt).trans (gridPoints_isSome_iff t0 t1 dt),
   accepts_iff_quotient t0 t1 dt, accepts_iff_divides t0 t1 dt⟩

/-- The value returned: `gridSteps t0 t1 dt = some n` iff `t0 < t1`, `dt ≠ 0` and the span is exactly `n` steps; then
necessarily `n ≥ 1`, `dt > 0`, and `int(num_steps) = n + 1` grid points. -/
theorem gridSteps_eq_some_iff (t0 t1 dt : ℚ) (n : ℕ) :
    (gridSteps t0 t1 dt = some n ↔ t0 < t1 ∧ dt ≠ 0 ∧ t1 - t0 = (n : ℚ) * dt) ∧
    (gridSteps t0 t1 dt = some n → 1 ≤ n ∧ 0 < dt ∧ gridPoints t0 t1 dt = some (n + 1)) :=
  ⟨Proofs.Dates.gridSteps_eq_some_iff t0 t1 dt n,
   fun h => ⟨(gridSteps_pos h).1, (gridSteps_pos h).2, gridPoints_of_gridSteps h⟩⟩

/-- The Lean driver's `wholeSteps` (`Driver/Main.lean`; `driverWholeSteps` is its rational core) computes the same
number; the only difference is that it does not test `t0 < t1` (`Build.mkModel` does). -/
theorem gridSteps_eq_driverWholeSteps (t0 t1 dt : ℚ) :
    gridSteps t0 t1 dt = if t0 < t1 then driverWholeSteps t0 t1 dt else none :=
  gridSteps_eq_driver t0 t1 dt

/-- `Build.mkModel` fed with the driver's `wholeSteps` accepts iff `gridSteps` does (and the infectious compartments are
a subset of the compartments); the resulting model has `nTimes = n + 1` and the same end points and step. -/
theorem mkModel_accepts_iff (t0 t1 dt : ℚ) (comps inf : List String) :
    ((∃ m, Build.mkModel t0 t1 dt (driverWholeSteps t0 t1 dt) comps inf = .ok m) ↔
      (∃ n, gridSteps t0 t1 dt = some n) ∧ (inf.all (comps.contains ·)) = true) ∧
    (∀ m, Build.mkModel t0 t1 dt (driverWholeSteps t0 t1 dt) comps inf = .ok m →
      ∃ n, gridSteps t0 t1 dt = some n ∧ m.t0 = t0 ∧ m.t1 = t1 ∧ m.dt = dt ∧ m.nTimes = n + 1) := by
  refine ⟨⟨?_, ?_⟩, ?_⟩
  · rintro ⟨m, hm⟩
    obtain ⟨n, hn, -, -, -, -, hi⟩ := mkModel_ok t0 t1 dt comps inf m hm
    exact ⟨⟨n, hn⟩, hi⟩
  · rintro ⟨⟨n, hn⟩, hi⟩
    exact mkModel_ok_of_gridSteps t0 t1 dt comps inf n hn hi
  · intro m hm
    obtain ⟨n, hn, h1, h2, h3, h4, -⟩ := mkModel_ok t0 t1 dt comps inf m hm
    exact ⟨n, hn, h1, h2, h3, h4⟩

/-- The resulting grid `np.linspace(t0, t1, n + 1)` is `times[i] = t0 + i·dt`, ending exactly at `t1`
(by `Summer.Props.C12.grid_uniform`). -/
theorem accepted_grid (t0 t1 dt : ℚ) (n : ℕ) (h : gridSteps t0 t1 dt = some n) :
    gridTimes t0 t1 dt = some (linspace t0 t1 (n + 1)) ∧
    (linspace t0 t1 (n + 1)).length = n + 1 ∧
    (∀ i, i ≤ n → (linspace t0 t1 (n + 1)).getD i 0 = t0 + (i : ℚ) * dt) ∧
    (linspace t0 t1 (n + 1)).getD n 0 = t1 := by
  obtain ⟨hn, -⟩ := gridSteps_pos h
  have hspan := ((Proofs.Dates.gridSteps_eq_some_iff t0 t1 dt n).mp h).2.2
  have ht1 : t1 = t0 + (((n + 1 : ℕ) : ℚ) - 1) * dt := by push_cast; linarith
  have hget : ∀ i, i ≤ n → (linspace t0 t1 (n + 1)).getD i 0 = t0 + (i : ℚ) * dt := by
    intro i hi
    have := Summer.Props.C12.grid_uniform t0 dt (n + 1) (by omega) i (by omega)
    rwa [← ht1] at this
  refine ⟨gridTimes_of_gridSteps h, Summer.Props.C12.grid_length t0 t1 (n + 1), hget, ?_⟩
  rw [hget n le_rfl]
  linarith

/-! non-vacuity of section 4 -/
example : gridSteps 0 10 (1 / 2) = some 20 := by decide +kernel
example : gridSteps 0 10 (1 / 2) = some 20 :=
  ((gridSteps_eq_some_iff 0 10 (1 / 2) 20).1).mpr ⟨by norm_num, by norm_num, by norm_num⟩
example : gridSteps 0 10 3 = none ∧ gridSteps 0 10 (-1) = none ∧ gridSteps 0 10 0 = none ∧ gridSteps 5 5 1 = none := by
  decide +kernel
example : gridTimes 1 3 (1 / 2) = some [1, 3 / 2, 2, 5 / 2, 3] := by decide +kernel
example : ∃ m, Build.mkModel (0 : ℚ) 10 (1 / 2) (driverWholeSteps 0 10 (1 / 2)) ["S", "I"] ["I"] = .ok m :=
  ((mkModel_accepts_iff 0 10 (1 / 2) ["S", "I"] ["I"]).1).mpr ⟨⟨20, by decide +kernel⟩, by decide⟩

end Summer.Props.C12Dates

#print axioms Summer.Props.C12Dates.roundHalfEven_ok
#print axioms Summer.Props.C12Dates.epoch_roundtrip_date
#print axioms Summer.Props.C12Dates.epoch_roundtrip_num
#print axioms Summer.Props.C12Dates.epoch_roundtrip_num_bound
#print axioms Summer.Props.C12Dates.datetime_times
#print axioms Summer.Props.C12Dates.datetime_times_whole
#print axioms Summer.Props.C12Dates.numeric_times_labels
#print axioms Summer.Props.C12Dates.no_ref_date
#print axioms Summer.Props.C12Dates.toDate_monotone
#print axioms Summer.Props.C12Dates.toDate_strictMono_of_gt_one_us
#print axioms Summer.Props.C12Dates.toDate_lt_iff_of_whole
#print axioms Summer.Props.C12Dates.index_increasing
#print axioms Summer.Props.C12Dates.constructor_accepts_iff
#print axioms Summer.Props.C12Dates.gridSteps_eq_some_iff
#print axioms Summer.Props.C12Dates.gridSteps_eq_driverWholeSteps
#print axioms Summer.Props.C12Dates.mkModel_accepts_iff
#print axioms Summer.Props.C12Dates.accepted_grid
