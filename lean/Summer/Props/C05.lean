import Summer.Proofs.FOI
/-
C05 — the force of infection follows the mixing, strain and infectiousness definition.
-/
namespace Summer.Props.C05
open Summer Summer.Run Summer.Build Summer.Spec Summer.Proofs.FOI

/-! ### 5. Kronecker products (`finalize_parameters`: `kron` of the mixing matrices, left to right) -/

/-- Shape and entries of one Kronecker product: for `A : p × p'` and `B : q × q'`, `kron A B` is
`pq × p'q'` and its entry at `(i·q + k, j·q' + l)` is `A[i][j] · B[k][l]`. -/
theorem kron_entry {α : Type} [Mul α] [Zero α] (A B : Matrix α) (p p' q q' : Nat)
    (hA : IsShape A p p') (hB : IsShape B q q') :
    IsShape (kron A B) (p * q) (p' * q') ∧
    ∀ i j k l, i < p → j < p' → k < q → l < q' →
      mget (kron A B) (i * q + k) (j * q' + l) = mget A i j * mget B k l :=
  ⟨isShape_kron A B p p' q q' hA hB, fun i j k l hi hj hk hl =>
    mget_kron_shape A B p p' q q' hA hB i k j l hi hk hj hl⟩

/-- The left fold `rest.foldl kron m0` of `mixingMatrix`: with `ds` listing, for every further
matrix, the matrix together with a row digit and a column digit, the product is square of size
`n0 · Π sizes`, and its entry at the mixed-radix (row-major) indices of the digits is the
left-to-right product of the individual entries. -/
theorem kron_fold_entry {α : Type} [Mul α] [Zero α] (m0 : Matrix α) (n0 : Nat)
    (h0 : IsShape m0 n0 n0) (i0 j0 : Nat) (hi0 : i0 < n0) (hj0 : j0 < n0)
    (ds : List (Matrix α × Nat × Nat))
    (hds : ∀ d ∈ ds, IsShape d.1 d.1.length d.1.length ∧ d.2.1 < d.1.length ∧ d.2.2 < d.1.length) :
    IsShape ((ds.map (·.1)).foldl kron m0) (ds.foldl (fun n d => n * d.1.length) n0)
        (ds.foldl (fun n d => n * d.1.length) n0) ∧
    mixIdx i0 (ds.map (fun d => (d.1.length, d.2.1))) < ds.foldl (fun n d => n * d.1.length) n0 ∧
    mixIdx j0 (ds.map (fun d => (d.1.length, d.2.2))) < ds.foldl (fun n d => n * d.1.length) n0 ∧
    mget ((ds.map (·.1)).foldl kron m0) (mixIdx i0 (ds.map (fun d => (d.1.length, d.2.1))))
        (mixIdx j0 (ds.map (fun d => (d.1.length, d.2.2))))
      = ds.foldl (fun acc d => acc * mget d.1 d.2.1 d.2.2) (mget m0 i0 j0) :=
  kronFold_entry m0 n0 h0 i0 j0 hi0 hj0 ds hds

/-- `mixingMatrix` is that fold of the evaluated matrices, in order of application
(and `[[1]]` when there is none). -/
theorem mixingMatrix_eq {α : Type} [Zero α] [One α] [Add α] [Sub α] [Mul α] [Div α] [LT α]
    [DecidableLT α] (m : Model α) (env : Env α) :
    (m.mixingMats.mapM (evalMatrix env) = some [] → mixingMatrix m env = some [[1]]) ∧
    (∀ m0 rest, m.mixingMats.mapM (evalMatrix env) = some (m0 :: rest) →
      mixingMatrix m env = some (rest.foldl kron m0)) := by
  constructor
  · intro h; unfold mixingMatrix; rw [h]; rfl
  · intro m0 rest h; unfold mixingMatrix; rw [h]; rfl

/-- non-vacuity: a 2×2 and a 3×3 matrix; entry `(1·3+2, 0·3+1)` of the product -/
example :
    let A : Matrix Rat := [[1, 2], [3, 4]]
    let B : Matrix Rat := [[1, 0, 2], [0, 1, 0], [5, 7, 1]]
    IsShape A 2 2 ∧ IsShape B 3 3 ∧ mget (kron A B) (1 * 3 + 2) (0 * 3 + 1) = 3 * 7 := by
  refine ⟨⟨rfl, by decide⟩, ⟨rfl, by decide⟩, by decide +kernel⟩

example :
    let A : Matrix Rat := [[1, 2], [3, 4]]
    let B : Matrix Rat := [[1, 0, 2], [0, 1, 0], [5, 7, 1]]
    let C : Matrix Rat := [[2, 3], [5, 7]]
    (∀ d ∈ [(B, 2, 1), (C, 1, 0)], IsShape d.1 d.1.length d.1.length ∧ d.2.1 < d.1.length ∧ d.2.2 < d.1.length) ∧
    mget ([B, C].foldl kron A) (mixIdx 1 [(3, 2), (2, 1)]) (mixIdx 0 [(3, 1), (2, 0)]) = 3 * 7 * 5 := by
  refine ⟨?_, by decide +kernel⟩
  intro d hd
  simp only [List.mem_cons, List.not_mem_nil, or_false] at hd
  rcases hd with rfl | rfl <;> exact ⟨⟨rfl, by decide⟩, by decide, by decide⟩

/-! ### 6. mixing categories are enumerated in the order of the Kronecker indices -/

/-- One `stratify_with` update of the mixing categories
(`mixingCats.flatMap (fun mc => strata.map (fun st => dictSet mc name st))`): there are `p·q`
categories and category number `i·q + k` is old category `i` extended with stratum `k` — the same
row-major index as row/column `i·q + k` of `kron A B` (`kron_entry`). -/
theorem categories_order (cats : List Strata) (name : String) (strata : List String) :
    (cats.flatMap (fun mc => strata.map (fun st => dictSet mc name st))).length
      = cats.length * strata.length ∧
    ∀ i k, i < cats.length → k < strata.length →
      (cats.flatMap (fun mc => strata.map (fun st => dictSet mc name st))).getD (i * strata.length + k) []
        = dictSet (cats.getD i []) name (strata.getD k "") :=
  ⟨length_catsStep cats name strata, fun i k hi hk => getD_catsStep cats name strata i k hi hk⟩

/-- Successive updates (`ds` lists name, strata and a chosen stratum digit per stratification with
a mixing matrix): the category at the mixed-radix index of the digits — the very index used in
`kron_fold_entry` when the `t`-th matrix has one row per stratum — is the initial category extended
with the chosen strata in order. -/
theorem categories_order_fold (cats0 : List Strata) (i0 : Nat) (hi0 : i0 < cats0.length)
    (ds : List (String × List String × Nat)) (hds : ∀ d ∈ ds, d.2.2 < d.2.1.length) :
    (ds.foldl (fun cats d => cats.flatMap (fun mc => d.2.1.map (fun st => dictSet mc d.1 st))) cats0).length
      = ds.foldl (fun n d => n * d.2.1.length) cats0.length ∧
    mixIdx i0 (ds.map (fun d => (d.2.1.length, d.2.2)))
      < (ds.foldl (fun cats d => cats.flatMap (fun mc => d.2.1.map (fun st => dictSet mc d.1 st))) cats0).length ∧
    (ds.foldl (fun cats d => cats.flatMap (fun mc => d.2.1.map (fun st => dictSet mc d.1 st))) cats0).getD
        (mixIdx i0 (ds.map (fun d => (d.2.1.length, d.2.2)))) []
      = ds.foldl (fun mc d => dictSet mc d.1 (d.2.1.getD d.2.2 "")) (cats0.getD i0 []) :=
  catsFold_entry cats0 i0 hi0 ds hds

/-- `stratify_with` keeps the category list and the matrix list in lockstep: a stratification with
a mixing matrix refines every category by its strata (in order) and appends its matrix; one without
leaves both unchanged. -/
theorem categories_stratifyWith {α : Type} [One α] [Div α] [NatCast α] (m : Model α) (s : Strat α)
    (m' : Model α) (h : stratifyWith m s = .ok m') :
    (s.mixing = none → m'.mixingCats = m.mixingCats ∧ m'.mixingMats = m.mixingMats) ∧
    (∀ mat, s.mixing = some mat →
      m'.mixingCats = m.mixingCats.flatMap (fun mc => s.strata.map (fun st => dictSet mc s.name st)) ∧
      m'.mixingMats = m.mixingMats ++ [mat]) := by
  have hs := stratifyWith_mixing m s m' h
  constructor
  · intro hm; rw [hm] at hs
    exact ⟨congrArg Prod.fst hs, congrArg Prod.snd hs⟩
  · intro mat hm; rw [hm] at hs
    exact ⟨congrArg Prod.fst hs, congrArg Prod.snd hs⟩

/-- For a sequence of `stratify_with` calls the final categories are the fold of the refinements of
the stratifications that carry a mixing matrix, and the matrix list is the list of their matrices, in
the same order — so `categories_order_fold` and `kron_fold_entry` index them identically. -/
theorem categories_stratifyWith_seq {α : Type} [One α] [Div α] [NatCast α] (ss : List (Strat α))
    (m m' : Model α) (h : ss.foldlM stratifyWith m = .ok m') :
    m'.mixingCats = (ss.filter (fun s => s.mixing.isSome)).foldl
        (fun cats s => cats.flatMap (fun mc => s.strata.map (fun st => dictSet mc s.name st))) m.mixingCats ∧
    m'.mixingMats = m.mixingMats ++ ss.filterMap (fun s => s.mixing) :=
  stratifyWith_seq ss m m' h

section cat_examples
def exMix : Strat Rat :=
  { kind := .plain, name := "loc", strata := ["a", "b"], comps := ["S", "I"], split := [], flowAdj := [],
    infAdj := [], mixing := some [[.const 1, .const 2], [.const 3, .const 4]] }
def exM0 : Model Rat :=
  { t0 := 0, t1 := 1, dt := 1, nTimes := 2, comps := [⟨"S", []⟩, ⟨"I", []⟩], origNames := ["S", "I"],
    infectious := ["I"], flows := [], strats := [], mixingCats := [[]], mixingMats := [],
    strains := ["default"], initDist := none, arrayPop := none, actions := [], requests := [],
    computed := [], whitelist := [], finalized := false }

/-- non-vacuity of `categories_stratifyWith`: a successful `stratify_with` with a mixing matrix -/
example : ∃ m', stratifyWith exM0 exMix = .ok m' ∧ m'.mixingCats = [[("loc", "a")], [("loc", "b")]] := by
  refine ⟨_, rfl, ?_⟩
  decide +kernel
end cat_examples

/-- non-vacuity: from the initial `[[]]`, `age` (2 strata) then `loc` (3 strata); category `1·3 + 2` -/
example :
    let ds : List (String × List String × Nat) := [("age", ["0", "5"], 1), ("loc", ["a", "b", "c"], 2)]
    (∀ d ∈ ds, d.2.2 < d.2.1.length) ∧
    (ds.foldl (fun cats d => cats.flatMap (fun mc => d.2.1.map (fun st => dictSet mc d.1 st))) [[]]).getD
        (mixIdx 0 (ds.map (fun d => (d.2.1.length, d.2.2)))) []
      = [("age", "5"), ("loc", "c")] ∧
    mixIdx 0 (ds.map (fun d => (d.2.1.length, d.2.2))) = 1 * 3 + 2 := by
  decide +kernel

/-! ### 7. force of infection and multipliers -/

/-- `forceOfInfection` for one strain, for all sizes and without any shape hypothesis (out-of-range
reads are `0` on both sides): for every category row `i` of the mixing matrix,
density `= Σ_j mix[i][j] · P_j` and frequency `= Σ_j mix[i][j] · (P_j / N_j)` where
`P_j = Σ_{p ∈ catIndexer[j]} infVals[p] · infness[p]` and `N_j = catPops[j]`. -/
theorem foi_eq_spec {α : Type} [Field α] (infVals infness : List α) (catIndexer : List (List Nat))
    (mix : Matrix α) (catPops : List α) :
    forceOfInfection infVals infness catIndexer mix catPops
      = (mix.map (fun row => sumRange catIndexer.length
            (fun j => row.getD j 0 * infPop infVals infness catIndexer j)),
         mix.map (fun row => sumRange catIndexer.length
            (fun j => row.getD j 0 * (infPop infVals infness catIndexer j / catPops.getD j 0)))) :=
  forceOfInfection_eq infVals infness catIndexer mix catPops

/-- the same statement entrywise -/
theorem foi_entry {α : Type} [Field α] (infVals infness : List α) (catIndexer : List (List Nat))
    (mix : Matrix α) (catPops : List α) (i : Nat) (hi : i < mix.length) :
    (forceOfInfection infVals infness catIndexer mix catPops).1.getD i 0
      = sumRange catIndexer.length (fun j => mget mix i j * infPop infVals infness catIndexer j) ∧
    (forceOfInfection infVals infness catIndexer mix catPops).2.getD i 0
      = sumRange catIndexer.length
          (fun j => mget mix i j * (infPop infVals infness catIndexer j / catPops.getD j 0)) := by
  rw [foi_eq_spec]
  exact ⟨getD_map' mix _ i [] 0 hi, getD_map' mix _ i [] 0 hi⟩

/-- `infectiousMultipliers`: the per-strain vectors are the force of infection (frequency or
density according to the infection process type) of the strain's infectious compartments, and the
multiplier of the `k`-th infection flow is entry `infCatLookup[k]` of the vector of strain
`infStrainLookup[k]`. -/
theorem multipliers {α : Type} [Field α] (b : Backend) (x : List α) (mix : Matrix α)
    (compInf : List α) :
    (infectiousMultipliers b x mix compInf).2
      = (b.strainInfIdx.zip b.strainCatIdx).map (fun sc =>
          if b.procType == some true then
            mix.map (foiFrequency (gather x sc.1) (gather compInf sc.1) sc.2
              (b.catIdx.map (fun row => sumL (gather x row))))
          else mix.map (foiDensity (gather x sc.1) (gather compInf sc.1) sc.2)) ∧
    (infectiousMultipliers b x mix compInf).1.length
      = min b.infStrainLookup.length b.infCatLookup.length ∧
    ∀ k (hs : k < b.infStrainLookup.length) (hc : k < b.infCatLookup.length),
      (infectiousMultipliers b x mix compInf).1.getD k 0
        = (((infectiousMultipliers b x mix compInf).2).getD b.infStrainLookup[k] []).getD b.infCatLookup[k] 0 := by
  rw [infectiousMultipliers_eq]
  refine ⟨rfl, by simp, fun k hs hc => ?_⟩
  exact getD_map_zip _ _ _ k hs hc

/-- non-vacuity / sanity: two categories, three infectious compartments -/
example :
    forceOfInfection [(10 : Rat), 20, 30] [1, 1/2, 2] [[0, 1], [2]] [[1, 2], [3, 4]] [100, 200]
      = ([20 * 1 + 60 * 2, 20 * 3 + 60 * 4], [1 / 5 + 2 * (3 / 10), 3 / 5 + 4 * (3 / 10)]) := by
  decide +kernel

/-! ### 8. compartment infectiousness -/

/-- `compInfectiousness` (all compartments, duplicate-free compartment list): the computation
succeeds exactly when the per-compartment specification does, the result has one entry per
compartment, and the entry of compartment `i` is `infSpec`: starting from `1`, the adjustments that
target the compartment (same name, and its stratum of the adjusting stratification) are applied in
the order stratifications × `add_infectiousness_adjustments` calls × strata — `Multiply` scales the
current value, `Overwrite` replaces it. -/
theorem infectiousness {α : Type} [Zero α] [One α] [Add α] [Sub α] [Mul α] [Div α] [LT α]
    [DecidableLT α] (m : Model α) (params : List (String × α)) (hnd : m.comps.Nodup) :
    (∀ r, compInfectiousness m params = some r → r.length = m.comps.length) ∧
    ∀ (i : Nat) (hi : i < m.comps.length),
      (compInfectiousness m params).map (fun r => r.getD i 0) = infSpec m params m.comps[i] := by
  rw [compInfectiousness_eq]
  refine ⟨fun r h => ?_, fun i hi => ?_⟩
  · rw [mfold_len m params _ _ r h]; simp
  · have := (mfold_corr m hnd params i hi (infAdjList m) (List.replicate m.comps.length 1) (by simp)).1
    rw [this]
    have h1 : (List.replicate m.comps.length (1 : α)).getD i 0 = 1 := by
      simp [List.getD_eq_getElem?_getD, hi]
    rw [h1]
    rfl

/-- `infectiousness` holds verbatim over every ordered field -/
example {α : Type} [Field α] [LinearOrder α] [IsStrictOrderedRing α] (m : Model α)
    (params : List (String × α)) (hnd : m.comps.Nodup) (i : Nat) (hi : i < m.comps.length) :
    (compInfectiousness m params).map (fun r => r.getD i 0) = infSpec m params m.comps[i] :=
  (infectiousness m params hnd).2 i hi

section inf_examples
def exAge : Strat Rat :=
  { kind := .age, name := "age", strata := ["0", "5"], comps := ["S", "I"], split := [], flowAdj := [],
    infAdj := [("I", [("0", some (.mul (.const 2))), ("5", some (.ovr (.param "k")))])], mixing := none }
def exLoc : Strat Rat :=
  { kind := .plain, name := "loc", strata := ["a", "b"], comps := ["I"], split := [], flowAdj := [],
    infAdj := [("I", [("a", some (.mul (.const 3))), ("b", none)])], mixing := none }
def exModel (comps : List Comp) : Model Rat :=
  { t0 := 0, t1 := 1, dt := 1, nTimes := 2, comps := comps, origNames := ["S", "I"],
    infectious := ["I"], flows := [], strats := [exAge, exLoc], mixingCats := [[]], mixingMats := [],
    strains := ["default"], initDist := none, arrayPop := none, actions := [], requests := [],
    computed := [], whitelist := [], finalized := false }
def exComps : List Comp :=
  [⟨"S", [("age", "0")]⟩, ⟨"S", [("age", "5")]⟩,
   ⟨"I", [("age", "0"), ("loc", "a")]⟩, ⟨"I", [("age", "0"), ("loc", "b")]⟩,
   ⟨"I", [("age", "5"), ("loc", "a")]⟩, ⟨"I", [("age", "5"), ("loc", "b")]⟩]

/-- non-vacuity of `infectiousness` -/
example : (exModel exComps).comps.Nodup := by decide

#eval compInfectiousness (exModel exComps) [("k", 7)]                  -- some [1, 1, 6, 2, 21, 7]
#eval exComps.map (infSpec (exModel exComps) [("k", (7 : Rat))])       -- the same, per compartment
#eval compInfectiousness (exModel exComps) ([] : List (String × Rat))  -- none (parameter `k` missing)

/-- `Nodup` is necessary: with a repeated compartment the scatter finds the first copy twice -/
def exDup : List Comp := [⟨"I", [("age", "0"), ("loc", "b")]⟩, ⟨"I", [("age", "0"), ("loc", "b")]⟩]
#eval compInfectiousness (exModel exDup) [("k", 7)]                    -- some [4, 1]
#eval exDup.map (infSpec (exModel exDup) [("k", (7 : Rat))])           -- [some 2, some 2]
end inf_examples

#print axioms kron_entry
#print axioms kron_fold_entry
#print axioms mixingMatrix_eq
#print axioms categories_order
#print axioms categories_order_fold
#print axioms categories_stratifyWith
#print axioms categories_stratifyWith_seq
#print axioms infectiousness
#print axioms foi_eq_spec
#print axioms foi_entry
#print axioms multipliers
end Summer.Props.C05
