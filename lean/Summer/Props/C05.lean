import Summer.Model.Run
-- placeholder until the proof worker delivers (replaced by the real file)
namespace Summer.Props.C05
theorem placeholder : True := trivial
end Summer.Props.C05
#print axioms Summer.Props.C05.placeholder
