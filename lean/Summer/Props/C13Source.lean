import Summer.Generated.Struct
import Summer.Model.Build
/-
C13 / C12 — the hand-written matching predicates are what the SOURCE TEXT says.

`Summer/Generated/Struct.lean` is regenerated from `/repo/summer2/compartment.py`, `flows.py` and `stratification.py`
on every run (`harness/translate/gen_struct.py`).  The theorems below identify each regenerated definition with the
definition of `Summer/Model/Structure.lean` / `Build.lean` that the C13, C12 and C04 theorems are about.
-/
namespace Summer.Props.C13Source
open Summer Summer.Generated.Struct

theorem has_strata_eq (c : Comp) (flt : Strata) : Compartment.has_strata c flt = c.hasStrata flt := rfl
theorem _has_strata_eq (c : Comp) (flt : Strata) : Compartment._has_strata c flt = c.hasStrata flt := rfl

theorem is_match_eq (c : Comp) (name : String) (flt : Strata) : Compartment.is_match c name flt = c.isMatch name flt := by
  unfold Compartment.is_match Comp.isMatch
  rw [has_strata_eq]
  by_cases h : name = c.name
  · subst h; rfl
  · have h' : ¬ c.name = name := fun e => h e.symm
    rw [beq_eq_false_iff_ne.mpr h, beq_eq_false_iff_ne.mpr h']

theorem has_stratum_eq (c : Comp) (k v : String) : Compartment.has_stratum c k v = c.hasStratum k v := rfl

theorem has_name_in_list_eq {α : Type} (c : Comp) (s : Strat α) :
    Compartment.has_name_in_list_comps c (Py.stratCompartments s) = c.hasNameIn s.comps := by
  unfold Compartment.has_name_in_list_comps Compartment.has_name_comp Py.stratCompartments Comp.hasNameIn
  rw [List.any_map]
  induction s.comps with
  | nil => rfl
  | cons x xs ih =>
    simp only [List.any_cons, List.contains_cons, Function.comp] at ih ⊢
    rw [ih]

theorem orEmpty_eq {β : Type} (l : List β) : Py.orEmpty l = l := by
  unfold Py.orEmpty Py.truthyL
  cases l <;> simp

theorem stratify_eq (c : Comp) (sname stratum : String) : Compartment.stratify c sname stratum = c.stratify sname stratum := by
  unfold Compartment.stratify Comp.stratify
  simp [orEmpty_eq]

theorem serialize_eq (c : Comp) : Compartment.serialize c = c.serialize := rfl

theorem is_ageing_eq {α : Type} (s : Strat α) : Stratification.is_ageing s = s.isAgeing := by
  unfold Stratification.is_ageing Strat.isAgeing; cases s.kind <;> rfl
theorem is_strain_eq {α : Type} (s : Strat α) : Stratification.is_strain s = s.isStrain := by
  unfold Stratification.is_strain Strat.isStrain; cases s.kind <;> rfl

theorem flow_is_match_eq {α : Type} (f : Flow α) (name : String) (ss ds : Strata) :
    BaseFlow.is_match f name ss ds = Build.flowIsMatch f name ss ds := by
  unfold BaseFlow.is_match Build.flowIsMatch Py.truthyL Py.the
  rcases f with ⟨k, n, src, dst, p, a⟩
  cases src <;> cases dst <;> cases ss <;> cases ds <;> simp [has_strata_eq]

#print axioms is_match_eq
#print axioms has_name_in_list_eq
#print axioms stratify_eq
#print axioms serialize_eq
#print axioms flow_is_match_eq
end Summer.Props.C13Source
