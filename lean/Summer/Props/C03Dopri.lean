import Summer.Props.C03More
import Summer.Proofs.AggregateDopri
/-
C03 (continued) — the ADAPTIVE solver.

`C03.euler_agg_partial` and `C03More.rk4_agg` show that aggregation commutes with the two fixed-step schemes.  For the
Dormand–Prince solver the step sizes are chosen from an error norm (`mean_error_ratio`: a root mean square over the
COMPARTMENTS), which a stratified model computes over more entries than the unstratified one — so the two runs take
different steps and their trajectories agree only to the solver's tolerance (that part stays an executed oracle).
What IS exact, and proved here for every tableau, every step size and every controller:

* `dopri_step_agg`   — one Dormand–Prince step (accepted or rejected) of the stratified model, aggregated, is the
                       step of the unstratified model from the aggregated state: solution, last slope, error estimate
                       and all seven slopes;
* `dense_agg`        — the quartic dense-output fit and its evaluation at any relative time commute with aggregation;
* `odeint_agg_same_decisions` — the whole adaptive trajectory commutes with aggregation whenever the two controllers take the same
                       decisions (`AggDopri.CtlCompat`: the stratified error ratio equals the unstratified error ratio of
                       the aggregated vectors) — the exact statement of "the only difference is the error norm".

All three need the stage states of the stratified run to stay non-negative (`hQ` / `AggDopri.ScanOK`), because the runner
cleans the state before computing the rates (`clean (-1) + clean 2 ≠ clean 1`), exactly as in `rk4_agg`.
-/
set_option linter.unusedSectionVars false

namespace Summer.C03Dopri
open Summer Summer.Build Summer.Run Summer.Spec Summer.Solvers Summer.Spec.Solvers Summer.Proofs Summer.Proofs.AggDopri

section
variable {α : Type} [Field α] [LinearOrder α] [IsStrictOrderedRing α]

/-- the region on which aggregation commutes with the right-hand sides -/
def NonNeg (n' : Nat) (z : List α) : Prop := z.length = n' ∧ ∀ v ∈ z, 0 ≤ v

/-- aggregation over the strata of `s` is a linear map from stratified to unstratified states -/
theorem agg_linMap (m m' : Model α) (s : Strat α) :
    LinMap m'.comps.length m.comps.length (Spec.agg m.comps s : List α → List α) where
  len := fun a _ => Proofs.agg_length m.comps s a
  add := fun a b ha hb => AggregateMoreRk4.aggBy_vadd _ _ _ a b (by rw [ha, hb])
  smul := fun k a => AggregateMoreRk4.aggBy_vscale _ _ k _ a

theorem field_length (m' : Model α) (b' : Backend) (hb' : prepare m' = .ok b') (params : List (String × α))
    (y : List α) (t : α) (_hy : y.length = m'.comps.length) : (C03.field m' b' params y t).length = m'.comps.length := by
  unfold C03.field
  cases hr : rhs m' b' params y t with
  | none => simp
  | some r =>
    obtain ⟨w, mults, _, rfl⟩ := rhs_some m' b' params y t r hr
    simp [Proofs.compRates_length (backendFor_of_prepare m' b' hb')]

/-- on non-negative stratified states, the unstratified field at the aggregated state is the aggregated stratified field -/
theorem field_agg (m m' : Model α) (s : Strat α) (b b' : Backend) (params : List (String × α))
    (hrhs : ∀ (x' : List α) (t : α) (r r' : List α), x'.length = m'.comps.length → (∀ v ∈ x', 0 ≤ v) →
      rhs m' b' params x' t = some r' → rhs m b params (Spec.agg m.comps s x') t = some r →
      Spec.agg m.comps s r' = r)
    (hdef : ∀ (x' : List α) (t : α), x'.length = m'.comps.length → (∀ v ∈ x', 0 ≤ v) →
      (rhs m' b' params x' t).isSome = true ∧ (rhs m b params (Spec.agg m.comps s x') t).isSome = true)
    (y : List α) (t : α) (_hy : y.length = m'.comps.length) (hq : NonNeg m'.comps.length y) :
    C03.field m b params (Spec.agg m.comps s y) t = Spec.agg m.comps s (C03.field m' b' params y t) := by
  obtain ⟨hlen, hnn⟩ := hq
  obtain ⟨h1, h2⟩ := hdef y t hlen hnn
  obtain ⟨r', hr'⟩ := Option.isSome_iff_exists.1 h1
  obtain ⟨r, hr⟩ := Option.isSome_iff_exists.1 h2
  have hagg := hrhs y t r r' hlen hnn hr' hr
  unfold C03.field
  rw [hr', hr]
  simp only [Option.getD_some]
  exact hagg.symm

/-- **One Dormand–Prince step commutes with aggregation** (any tableau, any step size; accepted or rejected). -/
theorem dopri_step_agg (m m' : Model α) (s : Strat α) (b b' : Backend) (hb' : prepare m' = .ok b')
    (params : List (String × α)) (tb : Tableau α)
    (hrhs : ∀ (x' : List α) (t : α) (r r' : List α), x'.length = m'.comps.length → (∀ v ∈ x', 0 ≤ v) →
      rhs m' b' params x' t = some r' → rhs m b params (Spec.agg m.comps s x') t = some r →
      Spec.agg m.comps s r' = r)
    (hdef : ∀ (x' : List α) (t : α), x'.length = m'.comps.length → (∀ v ∈ x', 0 ≤ v) →
      (rhs m' b' params x' t).isSome = true ∧ (rhs m b params (Spec.agg m.comps s x') t).isSome = true)
    (y0' f0' : List α) (hy0 : y0'.length = m'.comps.length) (hf0 : f0'.length = m'.comps.length) (t0 dt : α)
    (hQ : ∀ z ∈ rkStageStates tb (C03.field m' b' params) y0' f0' t0 dt, NonNeg m'.comps.length z) :
    rkStep tb (C03.field m b params) (Spec.agg m.comps s y0') (Spec.agg m.comps s f0') t0 dt
      = (Spec.agg m.comps s (rkStep tb (C03.field m' b' params) y0' f0' t0 dt).1,
         Spec.agg m.comps s (rkStep tb (C03.field m' b' params) y0' f0' t0 dt).2.1,
         Spec.agg m.comps s (rkStep tb (C03.field m' b' params) y0' f0' t0 dt).2.2.1,
         (rkStep tb (C03.field m' b' params) y0' f0' t0 dt).2.2.2.map (Spec.agg m.comps s)) :=
  rkStep_map (agg_linMap m m' s) tb _ _ (NonNeg m'.comps.length) (field_length m' b' hb' params)
    (field_agg m m' s b b' params hrhs hdef) y0' f0' hy0 hf0 t0 dt hQ

/-- **The dense output commutes with aggregation**: the fit of the quartic through a step and its value at any
relative time `x`. -/
theorem dense_agg (m m' : Model α) (s : Strat α) (tb : Tableau α) (hfit : tb.fitRows ≠ [])
    (y0' y1' : List α) (ks' : List (List α)) (dt x : α)
    (hy0 : y0'.length = m'.comps.length) (hy1 : y1'.length = m'.comps.length)
    (hks : ∀ v ∈ ks', v.length = m'.comps.length) (h7 : ks'.length = 7) :
    polyval (interpFit tb (Spec.agg m.comps s y0') (Spec.agg m.comps s y1') (ks'.map (Spec.agg m.comps s)) dt) x
      = Spec.agg m.comps s (polyval (interpFit tb y0' y1' ks' dt) x) := by
  rw [interpFit_map (agg_linMap m m' s) tb y0' y1' ks' dt hy0 hy1 hks h7]
  have hlenrows : ∀ v ∈ interpFit tb y0' y1' ks' dt, v.length = m'.comps.length := by
    intro v hv
    unfold interpFit at hv
    rw [hy0] at hv
    obtain ⟨row, _, rfl⟩ := List.mem_map.1 hv
    apply Summer.Proofs.Solvers.length_lincomb
    intro w hw
    have l0 : (ks'.getD 0 []).length = m'.comps.length := by
      have : 0 < ks'.length := by omega
      rw [List.getD_eq_getElem?_getD, List.getElem?_eq_getElem this]
      exact hks _ (List.getElem_mem _)
    have l6 : (ks'.getD 6 []).length = m'.comps.length := by
      have : 6 < ks'.length := by omega
      rw [List.getD_eq_getElem?_getD, List.getElem?_eq_getElem this]
      exact hks _ (List.getElem_mem _)
    have lm := Summer.Proofs.Solvers.length_lincomb m'.comps.length tb.cMid _ hks
    simp only [List.mem_cons, List.not_mem_nil, or_false] at hw
    rcases hw with rfl | rfl | rfl | rfl | rfl
    · rw [Summer.Proofs.Solvers.length_vscale]; exact l0
    · rw [Summer.Proofs.Solvers.length_vscale]; exact l6
    · exact hy0
    · exact hy1
    · rw [Summer.Proofs.Solvers.length_vadd, Summer.Proofs.Solvers.length_vscale, hy0, lm]; exact Nat.min_self _
  cases hc : interpFit tb y0' y1' ks' dt with
  | nil =>
    exfalso
    unfold interpFit at hc
    simp only [List.map_eq_nil_iff] at hc
    exact hfit hc
  | cons c cs =>
    rw [hc] at hlenrows
    exact polyval_map (agg_linMap m m' s) c cs x (hlenrows c (by simp)) (fun v hv => hlenrows v (by simp [hv]))

/-- **Adaptive trajectories commute with aggregation when the two controllers take the same decisions.**  `ctl'` is the
controller of the stratified run, `ctl` that of the unstratified run; `hctl` says the stratified error ratio is the
unstratified error ratio of the aggregated vectors.  (The real `mean_error_ratio` is a root mean square over the entries,
so it does NOT satisfy `hctl` — the two real runs choose different steps, which is why their agreement is to tolerance
only and remains an executed oracle.) -/
theorem odeint_agg_same_decisions (m m' : Model α) (s : Strat α) (b b' : Backend) (hb' : prepare m' = .ok b')
    (params : List (String × α)) (tb : Tableau α) (hfit : tb.fitRows ≠ []) (ctl' ctl : Control α)
    (hctl : CtlCompat ctl' ctl m'.comps.length (Spec.agg m.comps s))
    (hrhs : ∀ (x' : List α) (t : α) (r r' : List α), x'.length = m'.comps.length → (∀ v ∈ x', 0 ≤ v) →
      rhs m' b' params x' t = some r' → rhs m b params (Spec.agg m.comps s x') t = some r →
      Spec.agg m.comps s r' = r)
    (hdef : ∀ (x' : List α) (t : α), x'.length = m'.comps.length → (∀ v ∈ x', 0 ≤ v) →
      (rhs m' b' params x' t).isSome = true ∧ (rhs m b params (Spec.agg m.comps s x') t).isSome = true)
    (fuel : Nat) (dt0 : α) (x0' : List α) (hx0 : NonNeg m'.comps.length x0') (ts : List α)
    (hok : ScanOK (NonNeg m'.comps.length) tb ctl' (C03.field m' b' params) fuel (ts.drop 1)
      (odeInit (C03.field m' b' params) dt0 x0' (ts.getD 0 0))) :
    odeint tb ctl (C03.field m b params) fuel dt0 (Spec.agg m.comps s x0') ts
      = (odeint tb ctl' (C03.field m' b' params) fuel dt0 x0' ts).map (Spec.agg m.comps s) :=
  odeint_map (agg_linMap m m' s) tb hfit ctl' ctl _ _ (NonNeg m'.comps.length) (field_length m' b' hb' params)
    (field_agg m m' s b b' params hrhs hdef) hctl fuel dt0 x0' hx0.1 hx0 ts hok

end

section example_
open Summer.C03 Summer.C03More

/-- the Dormand–Prince tableau regenerated from `runner/jax/ode.py`, over the rationals -/
def tbR : Tableau Rat := genTableau id

/-- one Dormand–Prince step of size 1/4 of the location-stratified SIR model (with an infection flow) from the state `xl`:
all six stage states are non-negative (`decide +kernel`), so the theorem applies — aggregated, the step is the step of the
SIR model from the aggregated state -/
example :
    rkStep tbR (C03.field sirModel sirB []) (Spec.agg sirModel.comps locStrat xl)
        (Spec.agg sirModel.comps locStrat (C03.field sirLoc sirLocB [] xl 0)) 0 (1/4)
      = (Spec.agg sirModel.comps locStrat (rkStep tbR (C03.field sirLoc sirLocB []) xl (C03.field sirLoc sirLocB [] xl 0) 0 (1/4)).1,
         Spec.agg sirModel.comps locStrat (rkStep tbR (C03.field sirLoc sirLocB []) xl (C03.field sirLoc sirLocB [] xl 0) 0 (1/4)).2.1,
         Spec.agg sirModel.comps locStrat (rkStep tbR (C03.field sirLoc sirLocB []) xl (C03.field sirLoc sirLocB [] xl 0) 0 (1/4)).2.2.1,
         (rkStep tbR (C03.field sirLoc sirLocB []) xl (C03.field sirLoc sirLocB [] xl 0) 0 (1/4)).2.2.2.map
           (Spec.agg sirModel.comps locStrat)) :=
  dopri_step_agg sirModel sirLoc locStrat sirB sirLocB (by rfl) [] tbR
    (fun x' t r r' hl hnn hr' hr =>
      rhs_agg_partial_single_category sirModel sirLoc locStrat sirB sirLocB (by rfl) (by rfl) (by rfl) rfl rfl rfl
        (by decide) (by decide) (by decide) (by decide) (by decide) (by decide) (by decide) (by decide) rfl rfl
        (by decide) (by decide) [] t x' hl hnn r r' hr' hr)
    (fun x' t _ _ => ⟨by rfl, by rfl⟩)
    xl (C03.field sirLoc sirLocB [] xl 0) (by decide) (by decide +kernel) 0 (1/4)
    (by unfold NonNeg; decide +kernel)

/-- the step is not trivial: the aggregated solution after the step -/
example : (rkStep tbR (C03.field sirModel sirB []) (Spec.agg sirModel.comps locStrat xl)
      (C03.field sirModel sirB [] (Spec.agg sirModel.comps locStrat xl) 0) 0 (1/4)).1 ≠ Spec.agg sirModel.comps locStrat xl := by
  decide +kernel
end example_

#print axioms dopri_step_agg
#print axioms dense_agg
#print axioms odeint_agg_same_decisions

end Summer.C03Dopri
