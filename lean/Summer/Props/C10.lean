import Summer.Proofs.ExprProps
import Mathlib.Algebra.Order.Field.Basic
/-
C10 — Time- and state-dependent inputs are evaluated at the current time and state
(expression level: `Expr.eval`, `Run.evalStatic`, `Run.staticFlowWeights`, `Run.flowWeights`,
`Run.realised`).

Structural theorems: they hold for every carrier with the core classes the model is generic over,
in particular for every ordered field (see the last `example`) and for `Rat` as executed.
-/
namespace Summer.C10
open Summer Summer.Spec Summer.ExprProps Summer.Run

variable {α : Type} [Zero α] [Add α] [Sub α] [Mul α] [Div α] [LT α] [DecidableLT α]

/-! ### static coincidence -/

/-- `C10.static_coincidence`: an expression that reaches no `model_variables` node has the same
value (or the same failure) at every time and state. -/
theorem static_coincidence (e : Expr α) (h : e.usesModelVars = false) (p : List (String × α))
    (t t' : α) (x x' : List α) : e.eval ⟨p, t, x⟩ = e.eval ⟨p, t', x'⟩ :=
  static_eval p t t' x x' e h

theorem static_coincidenceList (l : List (Expr α)) (h : Expr.usesModelVarsList l = false)
    (p : List (String × α)) (t t' : α) (x x' : List α) :
    Expr.evalList ⟨p, t, x⟩ l = Expr.evalList ⟨p, t', x'⟩ l :=
  static_evalList p t t' x x' l h

/-- … in particular it is the value computed once by the static stage -/
theorem static_coincidence_evalStatic (e : Expr α) (h : e.usesModelVars = false) (p : List (String × α))
    (t : α) (x : List α) : e.eval ⟨p, t, x⟩ = evalStatic p e :=
  (evalStatic_eq p t x e h).symm

example : (Expr.mul (.param "b") (.const 2) : Expr Rat).usesModelVars = false
    ∧ (Expr.mul (.param "b") (.const 2) : Expr Rat).eval ⟨[("b", 3)], 7, [1, 2]⟩ = some 6 := by
  decide +kernel

/-- `C10.time_only_irrelevance`: an expression without a `time` leaf does not depend on the time
(it may depend on the state). -/
theorem time_only_irrelevance (e : Expr α) (h : e.usesTime = false) (p : List (String × α))
    (t t' : α) (x : List α) : e.eval ⟨p, t, x⟩ = e.eval ⟨p, t', x⟩ :=
  timeFree_eval p t t' x e h

theorem time_only_irrelevanceList (l : List (Expr α)) (h : Expr.usesTimeList l = false)
    (p : List (String × α)) (t t' : α) (x : List α) :
    Expr.evalList ⟨p, t, x⟩ l = Expr.evalList ⟨p, t', x⟩ l :=
  timeFree_evalList p t t' x l h

example : (Expr.mul (.param "b") (.comp 1) : Expr Rat).usesTime = false
    ∧ (Expr.mul (.param "b") (.comp 1) : Expr Rat).usesModelVars = true
    ∧ (Expr.mul (.param "b") (.comp 1) : Expr Rat).eval ⟨[("b", 3)], 7, [1, 2]⟩ = some 6 := by
  decide +kernel

/-! ### the static / per-evaluation split of the flow weights -/

/-- `C10.split_correct`: when the static stage succeeded with `s`, the weights delivered by
`flowWeights` at `(t, x)` are, flow by flow and in flow order, the flow's own realised weight
evaluated at THIS `(t, x)` — whether the weight was computed statically or per evaluation, and
irrespective of flows sharing a name or an (equal) expression.  Equality includes failure. -/
theorem split_correct (m : Model α) (p : List (String × α)) (t : α) (x : List α) (s : List α)
    (hs : staticFlowWeights m p = some s) :
    flowWeights m ⟨p, t, x⟩ s = m.flows.mapM (fun f => (realised f).eval ⟨p, t, x⟩) :=
  split_list p t x m.flows s hs

/-- the two stages composed equal direct evaluation, with NO hypothesis (failure included) -/
theorem split_correct_total (m : Model α) (p : List (String × α)) (t : α) (x : List α) :
    (staticFlowWeights m p).bind (flowWeights m ⟨p, t, x⟩) =
      m.flows.mapM (fun f => (realised f).eval ⟨p, t, x⟩) := by
  cases hs : staticFlowWeights m p with
  | some s => exact split_correct m p t x s hs
  | none =>
    rw [Option.bind_none]; symm
    rw [staticFlowWeights_eq, static_none_iff] at hs
    obtain ⟨f, hf, hu, hb⟩ := hs
    rw [mapM_eq_none_iff]
    refine ⟨f, hf, ?_⟩
    have := static_eval_isSome p t x _ hu
    rw [hb] at this
    cases h : (realised f).eval ⟨p, t, x⟩ with
    | none => rfl
    | some _ => rw [h] at this; cases this

/-- `C10.weight_current`, index form: the `i`-th delivered weight is the `i`-th flow's realised
weight at the current `(t, x)`. -/
theorem weight_current (m : Model α) (p : List (String × α)) (t : α) (x : List α) (s w : List α)
    (hs : staticFlowWeights m p = some s) (hw : flowWeights m ⟨p, t, x⟩ s = some w) :
    w.length = m.flows.length ∧
      ∀ (i : Nat) (h₁ : i < m.flows.length) (h₂ : i < w.length),
        (realised m.flows[i]).eval ⟨p, t, x⟩ = some w[i] := by
  rw [split_correct m p t x s hs] at hw
  exact mapM_some_getElem hw

/-- when the static stage fails: exactly when some flow whose realised weight is static mentions a
parameter that is not bound (independently of `t`, `x`) … -/
theorem static_none_iff (m : Model α) (p : List (String × α)) :
    staticFlowWeights m p = none ↔
      ∃ f ∈ m.flows, (realised f).usesModelVars = false ∧ allBound p (realised f).params = false :=
  ExprProps.static_none_iff p m.flows

/-- … and the static stage never fails because of a time/state-dependent weight -/
theorem static_some_of_bound (m : Model α) (p : List (String × α))
    (h : ∀ f ∈ m.flows, (realised f).usesModelVars = false → allBound p (realised f).params = true) :
    ∃ s, staticFlowWeights m p = some s := by
  cases hs : staticFlowWeights m p with
  | some s => exact ⟨s, rfl⟩
  | none =>
    obtain ⟨f, hf, hu, hb⟩ := (static_none_iff m p).1 hs
    rw [h f hf hu] at hb; cases hb

/-- non-vacuity: two flows with the same name and syntactically equal adjustments, one static and
one time- and state-dependent weight, and an `Overwrite`; evaluated at two different `(t, x)`. -/
example :
    let f1 : Flow Rat := ⟨.transition, "rec", none, none, .param "g", [.mul (.const 2)]⟩
    let f2 : Flow Rat := ⟨.transition, "rec", none, none, .mul .time (.comp 0), [.mul (.const 2)]⟩
    let f3 : Flow Rat := ⟨.transition, "rec", none, none, .time, [.mul (.const 2), .ovr (.param "g")]⟩
    let m : Model Rat := {
      t0 := 0, t1 := 1, dt := 1, nTimes := 2, comps := [], origNames := [],
      infectious := [], flows := [f1, f2, f3], strats := [], mixingCats := [[]], mixingMats := [],
      strains := [], initDist := none, arrayPop := none, actions := [], requests := [], computed := [],
      whitelist := [], finalized := true }
    staticFlowWeights m [("g", 5)] = some [10, 0, 5]
    ∧ flowWeights m ⟨[("g", 5)], 3, [7]⟩ [10, 0, 5] = some [10, 42, 5]
    ∧ flowWeights m ⟨[("g", 5)], 4, [1]⟩ [10, 0, 5] = some [10, 8, 5]
    ∧ staticFlowWeights m [] = none := by decide +kernel

/-! ### at an arbitrary ordered field -/
example {F : Type} [Field F] [LinearOrder F] [IsStrictOrderedRing F] (m : Model F)
    (p : List (String × F)) (t : F) (x : List F) :
    (staticFlowWeights m p).bind (flowWeights m ⟨p, t, x⟩) =
      m.flows.mapM (fun f => (realised f).eval ⟨p, t, x⟩) :=
  split_correct_total m p t x

end Summer.C10

#print axioms Summer.C10.static_coincidence
#print axioms Summer.C10.static_coincidenceList
#print axioms Summer.C10.static_coincidence_evalStatic
#print axioms Summer.C10.time_only_irrelevance
#print axioms Summer.C10.time_only_irrelevanceList
#print axioms Summer.C10.split_correct
#print axioms Summer.C10.split_correct_total
#print axioms Summer.C10.weight_current
#print axioms Summer.C10.static_none_iff
#print axioms Summer.C10.static_some_of_bound
