import Summer.Model.Run
-- placeholder until the proof worker delivers (replaced by the real file)
namespace Summer.Props.C10
theorem placeholder : True := trivial
end Summer.Props.C10
#print axioms Summer.Props.C10.placeholder
