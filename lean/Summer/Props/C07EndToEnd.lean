import Summer.Props.C07
import Summer.Props.C07Pipeline
/-
C07 end to end — a successful `model.run(parameters, solver="euler" | "rk4")`, read from the source text of `build_run_model.run_model`
(`C07Pipeline.run_model_eq`), returns the classical fixed-step recurrence of the MODEL'S right-hand side, started at the model's initial
population under the same parameters, on the model's time grid.  This composes the source tie of the run closure with `C07.euler_rows` /
`C07.rk4_rows`; the right-hand side `fieldFn` is `Run.rhs` (`C01.rhs_eq_spec`: the documented per-flow laws).
-/
namespace Summer.Props.C07EndToEnd
open Summer Summer.Run Summer.Pipeline Summer.Solvers Summer.Generated.PipelineSrc Summer.Props.C07Pipeline

section
variable {α : Type} [Field α] [LT α] [DecidableLT α]

theorem euler_run (m : Model α) (b : Backend) (doBase params : List (String × α)) (outs : List (List α)) (d : List (String × List α))
    (h : run_model m b (fun f x0 ts => euler f x0 ts) doBase params = some (outs, d)) (hne : modelTimes m ≠ []) :
    ∃ x0, initialPopulation m params = some x0 ∧ outs.length = (modelTimes m).length ∧ outs.getD 0 [] = x0 ∧
      ∀ i, i + 1 < (modelTimes m).length →
        outs.getD (i + 1) [] = vadd (outs.getD i [])
          (vscale ((modelTimes m).getD 1 0 - (modelTimes m).getD 0 0) (fieldFn m b params (outs.getD i []) ((modelTimes m).getD i 0))) := by
  obtain ⟨x0, hx, ho⟩ := run_model_outputs m b _ doBase params outs d h
  subst ho
  have hr := Summer.Props.C07.euler_rows (fieldFn m b params) x0 (modelTimes m) hne
  exact ⟨x0, hx, hr.1, hr.2.1, hr.2.2⟩

theorem rk4_run (m : Model α) (b : Backend) (doBase params : List (String × α)) (outs : List (List α)) (d : List (String × List α))
    (h : run_model m b (fun f x0 ts => rk4 f x0 ts) doBase params = some (outs, d)) (hne : modelTimes m ≠ []) :
    ∃ x0, initialPopulation m params = some x0 ∧ outs.length = (modelTimes m).length ∧ outs.getD 0 [] = x0 ∧
      ∀ i, i + 1 < (modelTimes m).length →
        outs.getD (i + 1) [] = rk4Step (fieldFn m b params) ((modelTimes m).getD 1 0 - (modelTimes m).getD 0 0) (outs.getD i []) ((modelTimes m).getD i 0) := by
  obtain ⟨x0, hx, ho⟩ := run_model_outputs m b _ doBase params outs d h
  subst ho
  have hr := Summer.Props.C07.rk4_rows (fieldFn m b params) x0 (modelTimes m) hne
  exact ⟨x0, hx, hr.1, hr.2.1, hr.2.2⟩

end

#print axioms euler_run
#print axioms rk4_run

end Summer.Props.C07EndToEnd
