import Summer.Proofs.Rates
/-
C02 — conservation at the level of the rate function: what the compartment rates add up to.
(The solver-level invariants are separate.)
-/
namespace Summer.C02
open Summer Summer.Run Summer.Spec Summer.Proofs

section
/- Only the field axioms are needed, so these hold in particular over every ordered field. -/
variable {α : Type} [Field α]

/-- The compartment rates add up to (total of the entry flows) − (total of the exit flows), for every
rate vector `r` (no hypothesis on its length: flows and rates are paired positionally). -/
theorem total_rate (m : Model α) (b : Backend) (h : prepare m = .ok b) (r : List α) :
    sumL (compRates b r) = Spec.entryTotal m r - Spec.exitTotal m r :=
  sum_compRates (backendFor_of_prepare m b h) r

/-- Column `j` of the application matrix: flow `j` enters the rate of compartment `c` with coefficient
`[c is its destination] − [c is its source]`. -/
theorem column (m : Model α) (b : Backend) (h : prepare m = .ok b) (c j : Nat) (hc : c < m.comps.length)
    (hj : j < m.flows.length) :
    Spec.entry (applicationMatrix b : Matrix α) c j =
      (if Spec.dstIx m m.flows[j] = some c then 1 else 0) - (if Spec.srcIx m m.flows[j] = some c then 1 else 0) := by
  rw [appMat_entry (backendFor_of_prepare m b h) c j hc hj]
  simp only [coef, beq_iff_eq]

/-- A flow with both ends (source position `s`, destination position `d`, `s ≠ d`) contributes `+1·r_j`
to its destination, `−1·r_j` to its source and nothing to any other compartment. -/
theorem transition_balanced (m : Model α) (b : Backend) (h : prepare m = .ok b) (j : Nat)
    (hj : j < m.flows.length) (s d : Nat) (hs : Spec.srcIx m m.flows[j] = some s)
    (hd : Spec.dstIx m m.flows[j] = some d) (hsd : s ≠ d) (c : Nat) (hc : c < m.comps.length) :
    Spec.entry (applicationMatrix b : Matrix α) c j = if c = d then 1 else if c = s then -1 else 0 := by
  rw [column m b h c j hc hj, hs, hd]
  by_cases h1 : c = d
  · subst h1
    have : ¬ s = c := hsd
    simp [this]
  · by_cases h2 : c = s
    · subst h2
      have : ¬ d = c := fun e => h1 e.symm
      simp [this, h1]
    · have h1' : ¬ d = c := fun e => h1 e.symm
      have h2' : ¬ s = c := fun e => h2 e.symm
      simp [h1, h2, h1', h2']

/-- a self-loop contributes nothing anywhere -/
theorem self_loop_cancels (m : Model α) (b : Backend) (h : prepare m = .ok b) (j : Nat)
    (hj : j < m.flows.length) (s : Nat) (hs : Spec.srcIx m m.flows[j] = some s)
    (hd : Spec.dstIx m m.flows[j] = some s) (c : Nat) (hc : c < m.comps.length) :
    Spec.entry (applicationMatrix b : Matrix α) c j = 0 := by
  rw [column m b h c j hc hj, hs, hd]; simp

omit [Field α] in
/-- both ends of such a flow are genuine compartment positions, so the two contributions are not lost -/
theorem ends_in_range (m : Model α) (f : Flow α) (s d : Nat) :
    (Spec.srcIx m f = some s → s < m.comps.length) ∧ (Spec.dstIx m f = some d → d < m.comps.length) :=
  ⟨srcIx_lt m f s, dstIx_lt m f d⟩

/-- A model without entry flows (every flow has a source) and without exit flows (every flow has a
destination) conserves the total: the compartment rates sum to zero for every rate vector. -/
theorem closed_rates (m : Model α) (b : Backend) (h : prepare m = .ok b)
    (hentry : ∀ f ∈ m.flows, f.src.isSome = true) (hexit : ∀ f ∈ m.flows, f.dst.isSome = true)
    (r : List α) : sumL (compRates b r) = 0 := by
  rw [total_rate m b h r]
  have h1 : Spec.entryTotal m r = 0 := by
    unfold Spec.entryTotal
    apply sumL_eq_zero_of_all_zero
    intro v hv
    simp only [List.mem_map, List.mem_filter] at hv
    obtain ⟨fr, ⟨hmem, hnone⟩, rfl⟩ := hv
    have := hentry fr.1 (List.of_mem_zip (show (fr.1, fr.2) ∈ m.flows.zip r from hmem)).1
    cases hsrc : fr.1.src <;> simp [hsrc] at this hnone
  have h2 : Spec.exitTotal m r = 0 := by
    unfold Spec.exitTotal
    apply sumL_eq_zero_of_all_zero
    intro v hv
    simp only [List.mem_map, List.mem_filter] at hv
    obtain ⟨fr, ⟨hmem, hnone⟩, rfl⟩ := hv
    have := hexit fr.1 (List.of_mem_zip (show (fr.1, fr.2) ∈ m.flows.zip r from hmem)).1
    cases hdst : fr.1.dst <;> simp [hdst] at this hnone
  rw [h1, h2, sub_zero]

end

/-! ## non-vacuity -/
section example_
def cS : Comp := ⟨"S", []⟩
def cI : Comp := ⟨"I", []⟩
def cR : Comp := ⟨"R", []⟩

def mk (flows : List (Flow Rat)) : Model Rat :=
  { t0 := 0, t1 := 10, dt := 1, nTimes := 11,
    comps := [cS, cI, cR], origNames := ["S", "I", "R"], infectious := ["I"], flows := flows,
    strats := [], mixingCats := [[]], mixingMats := [], strains := ["default"],
    initDist := none, arrayPop := none, actions := [], requests := [], computed := [], whitelist := [],
    finalized := true }

/-- open model: births, imports, a death flow, and internal flows -/
def openModel : Model Rat := mk
  [ { kind := .infFreq, name := "infection", src := some cS, dst := some cI, param := .const 2, adjs := [] },
    { kind := .transition, name := "recovery", src := some cI, dst := some cR, param := .const (1/2), adjs := [] },
    { kind := .death, name := "death", src := some cI, dst := none, param := .const (1/10), adjs := [] },
    { kind := .crudeBirth, name := "births", src := none, dst := some cS, param := .const (1/50), adjs := [] },
    { kind := .importF, name := "imports", src := none, dst := some cI, param := .const 5, adjs := [] },
    { kind := .absolute, name := "waning", src := some cR, dst := some cS, param := .const 3, adjs := [] } ]

/-- closed model: internal flows only -/
def closedModel : Model Rat := mk
  [ { kind := .infDens, name := "infection", src := some cS, dst := some cI, param := .const 2, adjs := [] },
    { kind := .transition, name := "recovery", src := some cI, dst := some cR, param := .const (1/2), adjs := [] },
    { kind := .absolute, name := "waning", src := some cR, dst := some cS, param := .const 3, adjs := [] } ]

example : (prepare openModel).toOption.isSome = true := by decide
example : (prepare closedModel).toOption.isSome = true := by decide
example : (∀ f ∈ closedModel.flows, f.src.isSome = true) ∧ (∀ f ∈ closedModel.flows, f.dst.isSome = true) := by
  decide

/-- for an arbitrary (even negative) rate vector the total is entries − exits: 7 + 11 − 5 = 13 -/
example : (prepare openModel).toOption.map (fun b => (compRates b ([1, -2, 5, 7, 11, 13] : List Rat), sumL (compRates b ([1, -2, 5, 7, 11, 13] : List Rat)))) =
    some ([19, 9, -15], 13) ∧
    Spec.entryTotal openModel [1, -2, 5, 7, 11, 13] - Spec.exitTotal openModel [1, -2, 5, 7, 11, 13] = (13 : Rat) := by
  decide +kernel
example : (prepare closedModel).toOption.map (fun b => (compRates b ([4, -2, 9] : List Rat), sumL (compRates b ([4, -2, 9] : List Rat)))) =
    some ([5, 6, -11], 0) := by decide +kernel
/-- the application matrix of the open model (rows = compartments, columns = flows) -/
example : (prepare openModel).toOption.map (fun b => (applicationMatrix b : Matrix Rat)) =
    some [[-1, 0, 0, 1, 0, 1], [1, -1, -1, 0, 1, 0], [0, 1, 0, 0, 0, -1]] := by decide +kernel
end example_

#print axioms total_rate
#print axioms column
#print axioms transition_balanced
#print axioms self_loop_cancels
#print axioms ends_in_range
#print axioms closed_rates

end Summer.C02
