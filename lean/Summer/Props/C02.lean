import Summer.Model.Run
namespace Summer.Props.C02
theorem placeholder : True := trivial
end Summer.Props.C02
#print axioms Summer.Props.C02.placeholder
