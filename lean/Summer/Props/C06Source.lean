import Summer.Generated.InitPop
import Summer.Proofs.ListLemmas
/-
C06 — the initial population is what the SOURCE TEXT of `summer2/runner/jax/stratify.py` says.

`Summer/Generated/InitPop.lean` is regenerated from `/repo` on every run (`harness/translate/gen_rates.py`):
* `stratify_compartment_values` — the closure `get_stratify_compartments_func` returns (pass-through scatter, then one
  scatter per stratum of the base values times that stratum's proportion), translated statement by statement;
* `calculate_initial_population` — the closure `get_calculate_initial_pop` returns for a dict distribution (the fill loop
  over the original compartment names, then the replay of the tracked actions in order), whose statements are checked
  against the expected source text and emitted in a fixed shape.

`stratify_compartment_values_eq` identifies the first with `Run.stratifyValues`; `calculate_initial_population_eq`
identifies the second, with the stratification closures and `get_rebalanced_population` instantiated by the hand
model's functions, with `Run.initialPopulation` — the definition `C06.init_eq_spec`, `C06.totals`, `C06.rebalance` are about.
(`C08Source.stratify_compartments_eq` ties the index arrays `_stratify_compartments` stores on the stratification.)
-/
set_option linter.unusedSectionVars false
namespace Summer.Props.C06Source
open Summer Summer.Run Summer.Build Summer.Generated.InitPop

section
variable {α : Type} [Zero α] [One α] [Add α] [Sub α] [Mul α] [Div α] [LT α] [DecidableLT α]

/-- the run-time scatter of one stratification -/
theorem stratify_compartment_values_eq (ix : StratIdx) (strata : List String) (split : List (String × α)) (vals : List α) :
    stratify_compartment_values ix strata split vals = stratifyValues ix strata split vals := rfl

/-- the fill loop writes the evaluated distribution in the order of the original compartment names -/
theorem fill_eq (names : List String) (f : String → α) :
    names.zipIdx.foldl (fun acc ci => acc.set ci.2 (f ci.1)) (List.replicate names.length (0 : α)) = names.map f := by
  have gen : ∀ (pre : List α) (names : List String),
      (names.zipIdx pre.length).foldl (fun acc ci => acc.set ci.2 (f ci.1)) (pre ++ List.replicate names.length (0 : α))
        = pre ++ names.map f := by
    intro pre names
    induction names generalizing pre with
    | nil => simp
    | cons n ns ih =>
      simp only [List.zipIdx_cons, List.foldl_cons, List.length_cons, List.replicate_succ, List.map_cons]
      have hset : (pre ++ (0 : α) :: List.replicate ns.length 0).set pre.length (f n)
          = (pre ++ [f n]) ++ List.replicate ns.length 0 := by
        rw [List.set_append_right _ _ (Nat.le_refl _)]
        simp
      rw [hset]
      have := ih (pre ++ [f n])
      simp only [List.length_append, List.length_singleton] at this
      rw [this]
      simp
  simpa using gen [] names

/-- what the Python closures capture for one tracked action, once the parameters are known -/
abbrev StratAct (α : Type) := StratIdx × List String × List (String × α)
abbrev RebAct (α : Type) := String × Strata × List (String × α)

/-- walk the compartment list through the tracked actions (as the builder loop of `get_calculate_initial_pop` does for the
index arrays) and evaluate the split / proportion dictionaries -/
def resolveActions (m : Model α) (params : List (String × α)) :
    List (BuildAction α) → List Comp → Option (List (StratAct α ⊕ RebAct α))
  | [], _ => some []
  | .stratify name :: rest, comps => do
      let s ← m.strats.find? (fun (s : Strat α) => s.name == name)
      let split ← evalDict params s.split
      let tl ← resolveActions m params rest (stratifyComps comps s)
      pure (.inl (stratIndexArrays comps s, s.strata, split) :: tl)
  | .rebalance r :: rest, comps => do
      let props ← evalDict params r.props
      let tl ← resolveActions m params rest comps
      pure (.inr (r.strat, r.destFilter, props) :: tl)

theorem replay_eq (m : Model α) (params : List (String × α)) (acts : List (BuildAction α)) (comps : List Comp) (vals : List α) :
    Option.map (fun (st : List Comp × List α) => st.2) (acts.foldlM (fun (st : List Comp × List α) (a : BuildAction α) =>
        match a with
        | .stratify name => do
            let s ← m.strats.find? (fun (s : Strat α) => s.name == name)
            let split ← evalDict params s.split
            let ix := stratIndexArrays st.1 s
            pure (stratifyComps st.1 s, stratifyValues ix s.strata split st.2)
        | .rebalance r => do
            let props ← evalDict params r.props
            pure (st.1, rebalance m.comps r.strat r.destFilter props st.2)) (comps, vals))
      = (resolveActions m params acts comps).map (fun ras =>
          ras.foldl (fun acc action =>
            match action with
            | .inl (sa : StratAct α) => stratify_compartment_values sa.1 sa.2.1 sa.2.2 acc
            | .inr (rb : RebAct α) => rebalance m.comps rb.1 rb.2.1 rb.2.2 acc) vals) := by
  induction acts generalizing comps vals with
  | nil => simp [resolveActions]
  | cons a rest ih =>
    cases a with
    | stratify name =>
      simp only [List.foldlM_cons, resolveActions, Option.bind_eq_bind, Option.pure_def]
      cases hs : m.strats.find? (fun (s : Strat α) => s.name == name) with
      | none => simp
      | some s =>
        cases hsp : evalDict params s.split with
        | none => simp [hsp]
        | some split =>
          simp only [hsp, Option.bind_some, Option.map_bind]
          have ih' := ih (stratifyComps comps s) (stratifyValues (stratIndexArrays comps s) s.strata split vals)
          simp only [Option.bind_eq_bind, Option.pure_def] at ih'
          rw [ih']
          cases resolveActions m params rest (stratifyComps comps s) with
          | none => simp
          | some tl => simp [stratify_compartment_values_eq]
    | rebalance r =>
      simp only [List.foldlM_cons, resolveActions, Option.bind_eq_bind, Option.pure_def]
      cases hp : evalDict params r.props with
      | none => simp [hp]
      | some props =>
        simp only [hp, Option.bind_some, Option.map_bind]
        have ih' := ih comps (rebalance m.comps r.strat r.destFilter props vals)
        simp only [Option.bind_eq_bind, Option.pure_def] at ih'
        rw [ih']
        cases resolveActions m params rest comps with
        | none => simp
        | some tl => simp

/-- `replay_eq` for any step function that agrees with the hand model's step (used to match the anonymous function inside
`Run.initialPopulation` without restating it) -/
theorem replay_eq' (m : Model α) (params : List (String × α))
    (step : List Comp × List α → BuildAction α → Option (List Comp × List α))
    (hstep : ∀ st a, step st a = (match a with
        | .stratify name => do
            let s ← m.strats.find? (fun (s : Strat α) => s.name == name)
            let split ← evalDict params s.split
            let ix := stratIndexArrays st.1 s
            pure (stratifyComps st.1 s, stratifyValues ix s.strata split st.2)
        | .rebalance r => do
            let props ← evalDict params r.props
            pure (st.1, rebalance m.comps r.strat r.destFilter props st.2)))
    (acts : List (BuildAction α)) (comps : List Comp) (vals : List α) :
    Option.map (fun (st : List Comp × List α) => st.2) (acts.foldlM step (comps, vals))
      = (resolveActions m params acts comps).map (fun ras =>
          ras.foldl (fun acc action =>
            match action with
            | .inl (sa : StratAct α) => stratify_compartment_values sa.1 sa.2.1 sa.2.2 acc
            | .inr (rb : RebAct α) => rebalance m.comps rb.1 rb.2.1 rb.2.2 acc) vals) := by
  have : step = _ := funext fun st => funext fun a => hstep st a
  subst this
  exact replay_eq m params acts comps vals

theorem bind_some_eq_map {β γ : Type} (x : Option β) (f : β → γ) : x.bind (fun r => some (f r)) = x.map f := by
  cases x <;> rfl

/-- `calculate_initial_population` (dict distribution): the translated closure, with the per-stratification closures and
`get_rebalanced_population` instantiated by the hand model, IS `Run.initialPopulation` -/
theorem calculate_initial_population_eq (m : Model α) (params : List (String × α)) (h : m.arrayPop = none) :
    initialPopulation m params = (do
      let dist ← m.initDist
      let dvals ← evalDict params dist
      let acts ← resolveActions m params m.actions (m.origNames.map (fun n => ⟨n, []⟩))
      pure (calculate_initial_population m.origNames dvals acts
        (fun (sa : StratAct α) => stratify_compartment_values sa.1 sa.2.1 sa.2.2)
        (fun (rb : RebAct α) => rebalance m.comps rb.1 rb.2.1 rb.2.2))) := by
  unfold initialPopulation
  simp only [h]
  cases hdist : m.initDist with
  | none => simp
  | some dist =>
    simp only [Option.bind_eq_bind, Option.bind_some, Option.pure_def]
    cases hd : evalDict params dist with
    | none => simp
    | some dvals =>
      simp only [Option.bind_some]
      unfold calculate_initial_population
      simp only [fill_eq m.origNames (fun n => (alookup dvals n).getD 0)]
      rw [bind_some_eq_map, bind_some_eq_map]
      refine Eq.trans (replay_eq' m params _ ?_ m.actions _ _) ?_
      · intro st a
        cases a <;> rfl
      · congr 1
        funext ras
        congr 1
        funext acc action
        cases action <;> rfl

/-- `get_rebalanced_population` (with its helpers `filter_by_strata`, `get_unique_strat_groups`) is `Run.rebalance` -/
theorem get_rebalanced_population_eq (comps : List Comp) (pop : List α) (strat : String) (destFilter : Strata)
    (props : List (String × α)) :
    get_rebalanced_population comps pop strat destFilter props = rebalance comps strat destFilter props pop := rfl

end

/-! non-vacuity: compartments `[S, I, R]`, `I` stratified into `a`, `b` with split 1/4 : 3/4; a distribution given in another
order than the compartment names, one stratify action and one rebalance action replayed in order -/
example : stratify_compartment_values (α := Rat) ⟨[1], [0, 2], [0, 3], [("a", [1]), ("b", [2])], 4⟩ ["a", "b"]
    [("b", 3/4), ("a", 1/4)] [10, 20, 30] = [10, 5, 15, 30] := by decide +kernel
/-- a rebalance over `vac` restricted to `loc = u`: only the two `S`/`I` groups at `u` are redistributed (3/4 : 1/4), totals kept -/
example : get_rebalanced_population (α := Rat)
      [⟨"S", [("loc", "u"), ("vac", "n")]⟩, ⟨"S", [("loc", "u"), ("vac", "y")]⟩, ⟨"S", [("loc", "v"), ("vac", "n")]⟩,
       ⟨"S", [("loc", "v"), ("vac", "y")]⟩, ⟨"I", [("loc", "u")]⟩]
      [10, 30, 5, 7, 9] "vac" [("loc", "u")] [("n", 3/4), ("y", 1/4)] = [30, 10, 5, 7, 9] := by decide +kernel
example : calculate_initial_population (α := Rat) (σ := Rat) (ρ := Rat) ["S", "I"] [("I", 5), ("S", 95)] [.inl 2, .inr 1, .inl 3]
    (fun k v => v.map (· * k)) (fun k v => v.map (· + k)) = [573, 33] := by decide +kernel

#print axioms stratify_compartment_values_eq
#print axioms fill_eq
#print axioms replay_eq
#print axioms calculate_initial_population_eq
#print axioms get_rebalanced_population_eq

end Summer.Props.C06Source
