import Summer.Generated.SessionSrc
/-
C11 / C09 — the session state machine is what the SOURCE TEXT of `model.py` says.

`Generated/SessionSrc.lean` is emitted (by `harness/translate/gen_rates.py`, on every run) only when every statement of
`CompartmentalModel.run`, `get_runner`, `finalize`, `get_input_parameters`, `set_default_parameters`, `get_default_parameters`,
`ModelResults.__init__` and `ModelResults.run` is the expected text; it renders them on the `Session` record (`model._runner` = `cached`,
`model._default_parameters` = `defaults`, `ModelResults.default_parameters` = `defaultsSnap`, `model.outputs` = `outputs`).  The theorems
identify the renderings with `Session.step`, the function `C11.history_independent`, `C11.snapshot_never_stale`, `C11.explicit_runner_pure`
and C09's `defaults_model` are about: which call invalidates the cached runner, that an explicit runner never replaces it, that a
`ModelResults` object snapshots the defaults when it is built, that `solver` is only looked at when a runner is built.  What
`build_run_model` captures and what its closure reads (`build_run_model`, `run_func` in the generated file) are MODELLED, as in
`Model/Session.lean`; the correspondence on call histories (`props/c11.py`, session mode) is what ties those two to the running code.
-/
namespace Summer.Props.C11Source
open Summer.Session Summer.Generated.SessionSrc

section
variable {δ ν σ : Type}

theorem build_runner_eq (s : Session δ ν σ) (base : Dict ν) (dyn : Option (List String)) (solver : σ) :
    (get_runner s base dyn solver).2 = buildRunner s.defn s.defaults base dyn solver := by
  unfold get_runner buildRunner build_run_model model_results_init
  simp +zetaHave only []
  cases collect (Dict.filterKeys s.defn.inputParams base).get (frozenKeys s.defn dyn) <;> rfl

theorem get_runner_finalizes (s : Session δ ν σ) (base : Dict ν) (dyn : Option (List String)) (solver : σ) :
    (get_runner s base dyn solver).1 = { s with finalized := true } := by
  unfold get_runner
  simp +zetaHave only []
  cases build_run_model s.defn (Dict.filterKeys s.defn.inputParams base) dyn <;> rfl

theorem model_results_run_eq (s : Session δ ν σ) (r : Runner ν σ) (p : Dict ν) :
    model_results_run s r p = (s.record (r.run s.defn p), r.run s.defn p) := rfl

/-- `set_default_parameters` -/
theorem set_default_parameters_eq (s : Session δ ν σ) (d : Dict ν) :
    (set_default_parameters s d, (Outcome.done : Outcome ν σ)) = step s (.setDefaults d) := rfl

/-- `get_runner` (an explicit runner held by the caller) -/
theorem get_runner_eq (s : Session δ ν σ) (base : Dict ν) (dyn : Option (List String)) (solver : σ) :
    (match get_runner s base dyn solver with
      | (s', none) => (s', Outcome.error .build)
      | (s', some r) => ({ s' with runners := s'.runners ++ [r] }, Outcome.built s'.runners.length))
    = step s (.getRunner base dyn solver) := by
  have h1 := build_runner_eq s base dyn solver
  have h2 := get_runner_finalizes s base dyn solver
  rcases hg : get_runner s base dyn solver with ⟨s', r'⟩
  rw [hg] at h1 h2
  simp only at h1 h2
  subst h2
  simp only [step, ← h1]
  cases r' <;> rfl

/-- `model.run` -/
theorem run_eq (s : Session δ ν σ) (p : Dict ν) (solver : σ) (rebuild : Bool) :
    run s p solver rebuild = step s (.run p solver rebuild) := by
  simp +zetaHave only [run, step]
  generalize hs0 : (if rebuild = true then { s with cached := none } else s) = s0
  cases hc : s0.cached with
  | some r => rfl
  | none =>
    have h1 := build_runner_eq s0 p none solver
    have h2 := get_runner_finalizes s0 p none solver
    rcases hg : get_runner s0 p none solver with ⟨s', r'⟩
    rw [hg] at h1 h2
    simp only at h1 h2
    subst h2
    simp only [← h1]
    cases r' <;> simp only [hc] <;> rfl

/-- a call on an explicit runner -/
theorem runner_run_eq (s : Session δ ν σ) (h : Nat) (p : Dict ν) :
    (match s.runners[h]? with
      | none => (s, Outcome.error .badHandle)
      | some r => model_results_run s r p) = step s (.runnerRun h p) := by
  simp only [step]
  cases s.runners[h]? <;> rfl

/-- one call of a history, executed by the source renderings -/
def srcStep (s : Session δ ν σ) : Op ν σ → Session δ ν σ × Outcome ν σ
  | .setDefaults d => (set_default_parameters s d, .done)
  | .run p solver rebuild => run s p solver rebuild
  | .getRunner base dyn solver =>
    match get_runner s base dyn solver with
    | (s', none) => (s', .error .build)
    | (s', some r) => ({ s' with runners := s'.runners ++ [r] }, .built s'.runners.length)
  | .runnerRun h p =>
    match s.runners[h]? with
    | none => (s, .error .badHandle)
    | some r => model_results_run s r p

/-- every call of every history: the source renderings ARE the session model -/
theorem src_step_eq (s : Session δ ν σ) (op : Op ν σ) : srcStep s op = step s op := by
  cases op with
  | setDefaults d => exact set_default_parameters_eq s d
  | run p solver rebuild => exact run_eq s p solver rebuild
  | getRunner base dyn solver => exact get_runner_eq s base dyn solver
  | runnerRun h p => exact runner_run_eq s h p


/-- a whole call history executed by the source renderings -/
def srcTrace (s : Session δ ν σ) : List (Op ν σ) → List (Outcome ν σ)
  | [] => []
  | op :: ops => (srcStep s op).2 :: srcTrace (srcStep s op).1 ops

def srcExec (s : Session δ ν σ) : List (Op ν σ) → Session δ ν σ
  | [] => s
  | op :: ops => srcExec (srcStep s op).1 ops

/-- every history: the outcomes and the final session of the source renderings are those of the session model, so every C11 theorem about
`Session.trace` / `Session.exec` (`history_independent`, `snapshot_never_stale`, `explicit_runner_pure`, `definition_unchanged`) speaks about
the source text of `run`, `get_runner`, `set_default_parameters` and `ModelResults` -/
theorem src_trace_eq (ops : List (Op ν σ)) : ∀ (s : Session δ ν σ), srcTrace s ops = trace s ops ∧ srcExec s ops = exec s ops := by
  induction ops with
  | nil => intro s; exact ⟨rfl, rfl⟩
  | cons op rest ih =>
    intro s
    simp only [srcTrace, srcExec, trace, exec, src_step_eq]
    exact ⟨by rw [(ih _).1], (ih _).2⟩

end

#print axioms src_trace_eq
#print axioms src_step_eq
#print axioms run_eq
#print axioms get_runner_eq
#print axioms set_default_parameters_eq

end Summer.Props.C11Source
