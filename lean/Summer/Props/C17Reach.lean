import Summer.Props.C17Strat
import Summer.Props.C17GlueReq
/-
C03 / C04 / C06 / C12 / C15 / C17 — the models the SOURCE TEXT of the build API can produce are exactly the models of the hand model.

Every theorem about built models (`C12.reachable_inv`, `C17.reachable_names`, `C06.init_eq_spec`, the C03 / C15 build-sequence theorems …) is
stated over `Spec.ReachableB`, the inductive closure of the hand model's API (`Build.addFlow`, `mkStrat` + `stratifyWith`,
`setInitialPopulation`, …).  `ReachableSrc` is the same closure with every step replaced by the statement-aligned rendering of the
corresponding method of `summer2/model.py` / `summer2/stratification.py` that `harness/translate/gen_rates.py` regenerates from `/repo` on
every run (`Generated/Glue.lean`, `Generated/StratApi.lean`); only the constructor (`mkModel`, whose time grid is tied separately by
`C12Grid`) and `finalize` are shared.  `reachable_src_iff` proves the two closures equal: a change to the text of any of these methods either
is refused by the translator (missing definition → this module does not build → broken obligation) or has to go through this proof.
-/
set_option linter.unusedSectionVars false
namespace Summer.Props.C17Reach
open Summer Summer.Build Summer.Spec Summer.Generated Summer.Generated.Glue Summer.Generated.StratApi
open Summer.Props.C17Source Summer.Props.C17Glue Summer.Props.C17Strat

section
variable {α : Type} [Zero α] [One α] [Add α] [Sub α] [Mul α] [Div α] [NatCast α] [LT α] [DecidableLT α]

theorem ok_iff_of_erase {β : Type} {a b : Res β} (h : erase a = erase b) (v : β) : a = .ok v ↔ b = .ok v := by
  cases a with
  | error ea => cases b with
    | error eb => constructor <;> (intro h'; cases h')
    | ok vb => simp [erase] at h
  | ok va => cases b with
    | error eb => simp [erase] at h
    | ok vb =>
      simp only [erase, Option.some.injEq] at h
      subst h
      exact Iff.rfl

/-- the closeness test of `adjust_population_split` as the hand model performs it -/
def closeToOne (rebalTolDen : Nat) (props : List (String × Expr α)) : Bool :=
  ((props.filterMap (fun kv => Expr.isConst kv.2)).length == props.length) &&
    (decide (sumL (props.filterMap (fun kv => Expr.isConst kv.2)) - 1 < (1 : α) / (rebalTolDen : α))
      && decide ((1 : α) - sumL (props.filterMap (fun kv => Expr.isConst kv.2)) < (1 : α) / (rebalTolDen : α)))

/-- the models the regenerated source renderings can build -/
inductive ReachableSrc : Model α → Prop
  | mk {t0 t1 dt : α} {ws comps inf m} : mkModel t0 t1 dt ws comps inf = .ok m → ReachableSrc m
  | addFlow {m m' op} : ReachableSrc m → glueAddFlow m op = .ok m' → ReachableSrc m'
  | stratify {m m' sp s} : ReachableSrc m → build_strat sp = .ok s → stratify_with m s = .ok m' → ReachableSrc m'
  | setInitialPopulation {m m' isDict dist} : ReachableSrc m → set_initial_population m isDict dist = .ok m' → ReachableSrc m'
  | initPopArray {m m' arr} : ReachableSrc m → init_population_with_graphobject m arr = .ok m' → ReachableSrc m'
  | adjustPopulationSplit {m m' den} {r : Rebalance α} :
      ReachableSrc m → adjust_population_split m r.strat r.destFilter r.props (closeToOne den r.props) = .ok m' → ReachableSrc m'
  | addRequest {m m' e} : ReachableSrc m → glueRequest m e = .ok m' → ReachableSrc m'
  | addComputedValue {m m' name e} : ReachableSrc m → add_computed_value_func m name e = .ok m' → ReachableSrc m'
  | finalize {m} : ReachableSrc m → ReachableSrc { m with finalized := true }

theorem reachable_of_src {m : Model α} (h : ReachableSrc m) : ReachableB m := by
  induction h with
  | mk h => exact .mk h
  | addFlow _ h ih => exact .addFlow ih ((ok_iff_of_erase (add_flow_eq _ _) _).mp h)
  | stratify _ hs h ih =>
    exact .stratify ih ((ok_iff_of_erase (build_strat_eq _) _).mp hs) ((ok_iff_of_erase (stratify_with_eq_reachable ih _) _).mp h)
  | setInitialPopulation _ h ih => exact .setInitialPopulation ih ((ok_iff_of_erase (set_initial_population_eq _ _ _) _).mp h)
  | initPopArray _ h ih => exact .initPopArray ih ((ok_iff_of_erase (init_population_with_graphobject_eq _ _) _).mp h)
  | adjustPopulationSplit _ h ih => exact .adjustPopulationSplit ih ((ok_iff_of_erase (adjust_population_split_eq _ _ _) _).mp h)
  | addRequest _ h ih => exact .addRequest ih ((ok_iff_of_erase (request_eq _ _) _).mp h)
  | addComputedValue _ h ih => exact .addComputedValue ih ((ok_iff_of_erase (add_computed_value_eq _ _ _) _).mp h)
  | finalize _ ih => exact .finalize ih

theorem src_of_reachable {m : Model α} (h : ReachableB m) : ReachableSrc m := by
  induction h with
  | mk h => exact .mk h
  | addFlow hr h ih => exact .addFlow ih ((ok_iff_of_erase (add_flow_eq _ _) _).mpr h)
  | stratify hr hs h ih =>
    exact .stratify ih ((ok_iff_of_erase (build_strat_eq _) _).mpr hs) ((ok_iff_of_erase (stratify_with_eq_reachable hr _) _).mpr h)
  | setInitialPopulation _ h ih => exact .setInitialPopulation ih ((ok_iff_of_erase (set_initial_population_eq _ _ _) _).mpr h)
  | initPopArray _ h ih => exact .initPopArray ih ((ok_iff_of_erase (init_population_with_graphobject_eq _ _) _).mpr h)
  | adjustPopulationSplit _ h ih => exact .adjustPopulationSplit ih ((ok_iff_of_erase (adjust_population_split_eq _ _ _) _).mpr h)
  | addRequest _ h ih => exact .addRequest ih ((ok_iff_of_erase (request_eq _ _) _).mpr h)
  | addComputedValue _ h ih => exact .addComputedValue ih ((ok_iff_of_erase (add_computed_value_eq _ _ _) _).mpr h)
  | finalize _ ih => exact .finalize ih

/-- the source-text API and the hand model build exactly the same models -/
theorem reachable_src_iff (m : Model α) : ReachableSrc m ↔ ReachableB m := ⟨reachable_of_src, src_of_reachable⟩

/-- non-vacuity: a two-compartment model with one death flow, built through the source renderings -/
example : ∃ m : Model Int, ReachableSrc m ∧ m.flows.length = 1 ∧ m.comps.length = 2 :=
  ⟨_, .addFlow (op := .death "d" true (.const 1) "I" [] none)
        (.mk (t0 := 0) (t1 := 2) (dt := 1) (ws := some 2) (comps := ["S", "I"]) (inf := ["I"]) rfl) rfl, rfl, rfl⟩

end

#print axioms reachable_src_iff

end Summer.Props.C17Reach
