import Summer.Model.Run
-- placeholder until the proof worker delivers (replaced by the real file)
namespace Summer.Props.C01
theorem placeholder : True := trivial
end Summer.Props.C01
#print axioms Summer.Props.C01.placeholder
