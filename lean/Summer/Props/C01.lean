import Summer.Proofs.Rates
/-
C01 — rates follow the documented per-flow laws.

Model: `Summer.Run` (`realised`, `staticFlowWeights`, `flowWeights`, `prepare`, `flowRates`,
`compRates`).  Specification: `Summer.Spec` (`Summer/Spec/Rates.lean`), written from the documentation
and independent of the runner's index tables.
-/
namespace Summer.C01
open Summer Summer.Run Summer.Spec Summer.Proofs

/-! ## 1–2. realised weights.  Generic over the core arithmetic classes (so also valid for `Float`). -/

section weights
variable {α : Type} [Zero α] [One α] [Add α] [Sub α] [Mul α] [Div α] [LT α] [DecidableLT α]

/-- The realised parameter of a flow evaluates (as an optional value) to the documented adjustment
rule: the value of the last `Overwrite` (or of the flow's own parameter if there is none) times the
`Multiply` adjustments that follow it, in order.  It is undefined exactly when that base or one of
those multipliers is undefined; whatever precedes the last `Overwrite` is irrelevant, including its
definedness. -/
theorem weight_chain (f : Flow α) (env : Env α) : (realised f).eval env = Spec.weight f env :=
  realised_eval_eq_weight f env

/-- the same, for the "left-to-right pass over optional values" reading of the rule -/
theorem weight_chain_fold (f : Flow α) (env : Env α) : (realised f).eval env = Spec.weightFold f env :=
  realised_eval_eq_weightFold f env

/-- the two readings of the documented rule agree -/
theorem weight_readings_agree (f : Flow α) (env : Env α) : Spec.weight f env = Spec.weightFold f env := by
  rw [← weight_chain, weight_chain_fold]

omit [One α] in
/-- Coincidence: an expression without model variables does not see time or state. -/
theorem static_coincidence (e : Expr α) (h : e.usesModelVars = false) (p : List (String × α)) (t t' : α)
    (x x' : List α) : e.eval ⟨p, t, x⟩ = e.eval ⟨p, t', x'⟩ :=
  eval_coincidence p t t' x x' e h

/-- Delivery: whichever side of the static / time-varying partition a flow falls on, the weight
vector handed to `flowRates` is the list of the values of the realised parameters in the current
environment (and it is undefined iff one of them is). -/
theorem weight_delivery (m : Model α) (env : Env α) (static : List α)
    (hs : staticFlowWeights m env.params = some static) :
    flowWeights m env static = m.flows.mapM (fun f => (realised f).eval env) :=
  flowWeights_eq_mapM m env env.params static rfl hs

/-- entry-wise form of `weight_delivery` -/
theorem weight_delivery_entry (m : Model α) (env : Env α) (static w : List α)
    (hs : staticFlowWeights m env.params = some static) (hw : flowWeights m env static = some w) :
    w.length = m.flows.length ∧
      ∀ i (hi : i < m.flows.length), Spec.weight m.flows[i] env = some (w.getD i 0) := by
  rw [weight_delivery m env static hs] at hw
  obtain ⟨h1, h2⟩ := mapM_option_some _ _ _ hw
  refine ⟨h1, fun i hi => ?_⟩
  rw [← weight_chain, h2 i hi (by omega), getD_eq_getElem]

end weights

/-! ## 3–4. flow rates and compartment rates -/

/-- `prepare` produces a backend whose index tables satisfy the explicit well-formedness predicate
(purely structural: no arithmetic). -/
theorem backend_wf {α : Type} (m : Model α) (b : Backend) (h : prepare m = .ok b) : Spec.BackendFor m b :=
  backendFor_of_prepare m b h

section rates
/- Only the field axioms are needed for the rate laws, so these hold in particular over every ordered
field (`[Field α] [LinearOrder α] [IsStrictOrderedRing α]`). -/
variable {α : Type} [Field α]

/-- the multiplier vector computed by the runner has one entry per infection flow -/
theorem multipliers_length (m : Model α) (b : Backend) (h : prepare m = .ok b) (x : List α) (mix : Matrix α)
    (ci : List α) : (infectiousMultipliers b x mix ci).1.length = Spec.nInfection m :=
  infectiousMultipliers_length (backendFor_of_prepare m b h) x mix ci

theorem flowRates_length (m : Model α) (b : Backend) (h : prepare m = .ok b) (w xc mults : List α)
    (hw : w.length = m.flows.length) : (flowRates b w xc mults).length = m.flows.length :=
  Proofs.flowRates_length (backendFor_of_prepare m b h) w xc mults hw

/-- Every flow's rate is the documented law for its kind:
transition/death `w·x[src]`; infection `w·x[src]·mult`; crude birth `w·Σx`; import/absolute `w`;
replacement birth `w·(total death rate)`.

Hypotheses: the backend comes from `prepare`; every population-proportional flow has a source
(`sourcedOk`, decidable, true of all API-built models); one weight per flow; one multiplier per
infection flow. -/
theorem flowRates_eq_spec (m : Model α) (b : Backend) (h : prepare m = .ok b) (hs : Spec.sourcedOk m = true)
    (w xc mults : List α) (hw : w.length = m.flows.length) (hm : mults.length = Spec.nInfection m)
    (i : Nat) (hi : i < m.flows.length) :
    (flowRates b w xc mults).getD i 0 = Spec.flowRate m w xc mults i m.flows[i] := by
  have hb := backendFor_of_prepare m b h
  rw [flowRates_getD hb w xc mults hw i hi, genRate_eq_flowRate hb hs w xc mults hm i hi]

/-- the same from the explicit predicate instead of `prepare` -/
theorem flowRates_eq_spec_of_wf (m : Model α) (b : Backend) (hb : Spec.BackendFor m b)
    (hs : Spec.sourcedOk m = true) (w xc mults : List α) (hw : w.length = m.flows.length)
    (hm : mults.length = Spec.nInfection m) (i : Nat) (hi : i < m.flows.length) :
    (flowRates b w xc mults).getD i 0 = Spec.flowRate m w xc mults i m.flows[i] := by
  rw [flowRates_getD hb w xc mults hw i hi, genRate_eq_flowRate hb hs w xc mults hm i hi]

theorem compRates_length (m : Model α) (b : Backend) (h : prepare m = .ok b) (r : List α) :
    (compRates b r).length = m.comps.length :=
  Proofs.compRates_length (backendFor_of_prepare m b h) r

/-- The rate of compartment `c` is the sum of the rates of the flows into it minus the sum of the
rates of the flows out of it (a self-loop appears in both sums and cancels).  No hypothesis on the
length of `r`: both sides pair flows with rates positionally and ignore the excess. -/
theorem compRates_eq_spec (m : Model α) (b : Backend) (h : prepare m = .ok b) (r : List α) (c : Nat)
    (hc : c < m.comps.length) :
    (compRates b r).getD c 0 = Spec.inflow m r c - Spec.outflow m r c :=
  compRates_getD_spec (backendFor_of_prepare m b h) r c hc

end rates

/-! ## non-vacuity: a concrete SIR model with six kinds of flow, evaluated on `Rat` -/

section example_
def cS : Comp := ⟨"S", []⟩
def cI : Comp := ⟨"I", []⟩
def cR : Comp := ⟨"R", []⟩

/-- S, I, R with: frequency-dependent infection, recovery (whose rate has been multiplied, overwritten
and multiplied again), death from I, replacement births into S, imports into I and an absolute
"waning" flow R → S whose rate is the current time. -/
def exModel : Model Rat :=
  { t0 := 0, t1 := 10, dt := 1, nTimes := 11,
    comps := [cS, cI, cR], origNames := ["S", "I", "R"], infectious := ["I"],
    flows := [
      { kind := .infFreq, name := "infection", src := some cS, dst := some cI, param := .param "beta", adjs := [] },
      { kind := .transition, name := "recovery", src := some cI, dst := some cR, param := .param "gamma",
        adjs := [.mul (.const 3), .ovr (.const (1/4)), .mul (.const 2)] },
      { kind := .death, name := "death", src := some cI, dst := none, param := .const (1/10), adjs := [] },
      { kind := .replBirth, name := "births", src := none, dst := some cS, param := .const 1, adjs := [] },
      { kind := .importF, name := "imports", src := none, dst := some cI, param := .const 5, adjs := [] },
      { kind := .absolute, name := "waning", src := some cR, dst := some cS, param := .time, adjs := [] } ],
    strats := [], mixingCats := [[]], mixingMats := [], strains := ["default"],
    initDist := none, arrayPop := none, actions := [], requests := [], computed := [], whitelist := [],
    finalized := true }

def exBackend : Backend :=
  { nComps := 3, nFlows := 6, populationIdx := [0, 1, 1, 0, 0, 2], nonPopIdx := [3, 4, 5], crudeIdx := [],
    replIdx := [3], deathIdx := [2], infFlowIdx := [0],
    posMap := [(0, 1), (1, 2), (3, 0), (4, 1), (5, 0)], negMap := [(0, 0), (1, 1), (2, 1), (5, 2)],
    catIdx := [[0, 1, 2]], categoryLookup := [0, 0, 0], strainInfIdx := [[1]], strainCatIdx := [[[0]]],
    infStrainLookup := [0], infCatLookup := [0], procType := some true }

def exParams : List (String × Rat) := [("beta", 2), ("gamma", 7)]

/-- the hypotheses of the theorems are satisfied -/
example : prepare exModel = .ok exBackend := by rfl
example : Spec.sourcedOk exModel = true := by decide
example : Spec.nInfection exModel = 1 := by decide

/-- one evaluation of the right-hand side at `t = 3`, state `[90, 10, -1]` (cleaned to `[90, 10, 0]`):
weights, multipliers, flow rates, compartment rates -/
example : (step exModel exBackend exParams 3 [90, 10, -1]).map
      (fun o => (o.weights, o.mults, o.flowRates, o.compRates)) =
    some ([2, 1/2, 1/10, 1, 5, 3], [1/10], [18, 5, 1, 1, 5, 3], [-14, 17, 2]) := by decide +kernel

/-- and the specification computes the same numbers independently -/
example : (List.range 6).map (fun i =>
      Spec.flowRate exModel [2, 1/2, 1/10, 1, 5, 3] [90, 10, 0] [1/10] i (exModel.flows.getD i exModel.flows[0])) =
    [18, 5, 1, 1, 5, 3] := by decide +kernel
example : (List.range 3).map (fun c =>
      Spec.inflow exModel [18, 5, 1, 1, 5, 3] c - Spec.outflow exModel [18, 5, 1, 1, 5, 3] c) =
    [-14, 17, 2] := by decide +kernel
example : exModel.flows.map (fun f => Spec.weight f ⟨exParams, 3, [90, 10, 0]⟩) =
    [some 2, some (1/2), some (1/10), some 1, some 5, some 3] := by decide +kernel
/-- an `Overwrite` hides an undefined earlier value: "gamma" is missing here, the weight is still 1/2 -/
example : Spec.weight exModel.flows[1] ⟨[("beta", 2)], 3, [90, 10, 0]⟩ = some (1/2) ∧
    Spec.weight exModel.flows[0] ⟨[], 3, [90, 10, 0]⟩ = none := by decide +kernel
end example_

#print axioms weight_chain
#print axioms weight_chain_fold
#print axioms weight_readings_agree
#print axioms static_coincidence
#print axioms weight_delivery
#print axioms weight_delivery_entry
#print axioms backend_wf
#print axioms multipliers_length
#print axioms flowRates_length
#print axioms flowRates_eq_spec
#print axioms flowRates_eq_spec_of_wf
#print axioms compRates_length
#print axioms compRates_eq_spec

end Summer.C01
