import Summer.Model.Run
namespace Summer.Props.C02Solvers
theorem placeholder : True := trivial
end Summer.Props.C02Solvers
#print axioms Summer.Props.C02Solvers.placeholder
