import Summer.Proofs.Solvers
/-
C02 (solver part): conservation along trajectories.

If a linear functional `L` (e.g. the total population `sumL`, or any weighted sum `dot w`) annihilates
the vector field, every row produced by `euler`, `rk4` and the adaptive Dormand–Prince `odeint` has the same
`L`-value as the initial state: for any times, any step size, any tableau coefficients
`alpha/beta/cSol/cError/cMid`, any step controller and any fuel.  The only tableau property used (by the
dense output) is the column sums of the five fit rows (`FitColSums`), which hold for the generated rows.

`α` is an arbitrary field (so in particular any ordered field).
-/
namespace Summer.Props.C02
open Summer Summer.Solvers Summer.Spec.Solvers Summer.Proofs.Solvers

variable {α : Type} [Field α]

/-- `dot w` and `sumL` are linear on vectors of any fixed length `n` (w.r.t. the truncating `vadd`). -/
theorem linear_functionals (n : Nat) (w : List α) : LinOn n (dot w) ∧ LinOn n (sumL : List α → α) :=
  ⟨linOn_dot w n, linOn_sumL n⟩

/-- Main theorem.  `L` linear on length-`n` vectors, `f` maps length-`n` states to length-`n` vectors
with `L (f y t) = 0`.  Then every row of each of the three solvers has length `n` and `L row = L y0`. -/
theorem linear_invariant {n : Nat} {L : List α → α} (hL : LinOn n L) (f : List α → α → List α)
    (hf : ∀ y t, y.length = n → (f y t).length = n ∧ L (f y t) = 0)
    (y0 : List α) (hy0 : y0.length = n) (times : List α) :
    (∀ r ∈ euler f y0 times, r.length = n ∧ L r = L y0) ∧
    (∀ r ∈ rk4 f y0 times, r.length = n ∧ L r = L y0) ∧
    (∀ (tb : Tableau α), FitColSums tb.fitRows → ∀ (ctl : Control α) (fuel : Nat) (dt0 : α),
      ∀ r ∈ odeint tb ctl f fuel dt0 y0 times, r.length = n ∧ L r = L y0) :=
  ⟨euler_linear hL hf y0 hy0 times, rk4_linear hL hf y0 hy0 times,
    fun tb hfit ctl fuel dt0 => odeint_linear hL tb hfit ctl hf fuel dt0 y0 hy0 times⟩

/-- instance: weighted sums `dot w` -/
theorem linear_invariant_dot (w : List α) (n : Nat) (f : List α → α → List α)
    (hf : ∀ y t, y.length = n → (f y t).length = n ∧ dot w (f y t) = 0)
    (y0 : List α) (hy0 : y0.length = n) (times : List α) :
    (∀ r ∈ euler f y0 times, dot w r = dot w y0) ∧
    (∀ r ∈ rk4 f y0 times, dot w r = dot w y0) ∧
    (∀ (tb : Tableau α), FitColSums tb.fitRows → ∀ (ctl : Control α) (fuel : Nat) (dt0 : α),
      ∀ r ∈ odeint tb ctl f fuel dt0 y0 times, dot w r = dot w y0) := by
  obtain ⟨h1, h2, h3⟩ := linear_invariant (linOn_dot w n) f hf y0 hy0 times
  exact ⟨fun r hr => (h1 r hr).2, fun r hr => (h2 r hr).2, fun tb hfit ctl fuel dt0 r hr => (h3 tb hfit ctl fuel dt0 r hr).2⟩

/-- Closed population: if the compartment rates always sum to zero, every output row of each of the
three solvers sums to the initial total (and has the right number of compartments). -/
theorem closed_population (n : Nat) (f : List α → α → List α)
    (hf : ∀ y t, y.length = n → (f y t).length = n ∧ sumL (f y t) = 0)
    (y0 : List α) (hy0 : y0.length = n) (times : List α) :
    (∀ r ∈ euler f y0 times, r.length = n ∧ sumL r = sumL y0) ∧
    (∀ r ∈ rk4 f y0 times, r.length = n ∧ sumL r = sumL y0) ∧
    (∀ (tb : Tableau α), FitColSums tb.fitRows → ∀ (ctl : Control α) (fuel : Nat) (dt0 : α),
      ∀ r ∈ odeint tb ctl f fuel dt0 y0 times, r.length = n ∧ sumL r = sumL y0) :=
  linear_invariant (linOn_sumL n) f hf y0 hy0 times

/-- One Dormand–Prince step, for EVERY `dt` (accepted or not) and EVERY tableau: `L y1 = L y0`,
`L f1 = 0`, the error estimate has `L err = 0`, and all 7 stages are annihilated by `L`. -/
theorem rkStep_invariant {n : Nat} {L : List α → α} (hL : LinOn n L) (tb : Tableau α)
    (f : List α → α → List α) (hf : ∀ y t, y.length = n → (f y t).length = n ∧ L (f y t) = 0)
    (y0 f0 : List α) (hy0 : y0.length = n) (hf0 : f0.length = n ∧ L f0 = 0) (t0 dt : α) :
    let r := rkStep tb f y0 f0 t0 dt
    (r.1.length = n ∧ L r.1 = L y0) ∧ (r.2.1.length = n ∧ L r.2.1 = 0) ∧
    (r.2.2.1.length = n ∧ L r.2.2.1 = 0) ∧ (∀ v ∈ r.2.2.2, v.length = n ∧ L v = 0) ∧ r.2.2.2.length = 7 :=
  rkStep_linear hL tb hf y0 f0 hy0 hf0 t0 dt

/-- Dense output of a step conserves `L` at EVERY `θ` (also outside `[0,1]`): needs only the column sums
of the fit rows. -/
theorem dense_invariant {n : Nat} {L : List α → α} (hL : LinOn n L) (tb : Tableau α)
    (hfit : FitColSums tb.fitRows)
    (f : List α → α → List α) (hf : ∀ y t, y.length = n → (f y t).length = n ∧ L (f y t) = 0)
    (y0 f0 : List α) (hy0 : y0.length = n) (hf0 : f0.length = n ∧ L f0 = 0) (t0 dt θ : α) :
    let r := rkStep tb f y0 f0 t0 dt
    (polyval (interpFit tb y0 r.1 r.2.2.2 dt) θ).length = n ∧
    L (polyval (interpFit tb y0 r.1 r.2.2.2 dt) θ) = L y0 := by
  obtain ⟨⟨h1l, h1L⟩, _, _, hk, hklen⟩ := rkStep_linear hL tb hf y0 f0 hy0 hf0 t0 dt
  exact interpFit_linear hL tb hfit y0 _ _ dt (L y0) hy0 h1l rfl h1L hk hklen θ

/-- the column-sum hypothesis holds for the generated fit rows transported by any ring hom `ℚ →+* α`
(and for `ℚ` itself with `id`, which is what the driver runs) -/
theorem fitColSums_generated (φ : ℚ →+* α) : FitColSums (genTableau φ).fitRows := fitColSums_gen φ

theorem fitColSums_generated_rat : FitColSums (genTableau (id : ℚ → ℚ)).fitRows := fitColSums_rat

/-- hence, for the generated tableau, every controller, every fuel -/
theorem closed_population_dopri (φ : ℚ →+* α) (n : Nat) (f : List α → α → List α)
    (hf : ∀ y t, y.length = n → (f y t).length = n ∧ sumL (f y t) = 0)
    (y0 : List α) (hy0 : y0.length = n) (ts : List α) (ctl : Control α) (fuel : Nat) (dt0 : α) :
    ∀ r ∈ odeint (genTableau φ) ctl f fuel dt0 y0 ts, r.length = n ∧ sumL r = sumL y0 :=
  (closed_population n f hf y0 hy0 ts).2.2 _ (fitColSums_gen φ) ctl fuel dt0

/-! non-vacuity: `exField` is a nonlinear, time-dependent 3-compartment field on `ℚ` with `sumL = 0` -/
example : ∀ y t, y.length = 3 → (exField y t).length = 3 ∧ sumL (exField y t) = 0 := exField_ok
example : ∀ r ∈ rk4 exField [99, 1, 0] [0, 1/2, 1], r.length = 3 ∧ sumL r = 100 := by
  have := (closed_population 3 exField exField_ok [99, 1, 0] rfl [0, 1/2, 1]).2.1
  intro r hr; obtain ⟨h1, h2⟩ := this r hr; refine ⟨h1, h2.trans (by decide +kernel)⟩
example : ∀ r ∈ odeint (genTableau id) exCtl exField 10 (1/4) [99, 1, 0] [0, 1/4, 1/2],
    r.length = 3 ∧ sumL r = sumL [(99 : ℚ), 1, 0] :=
  closed_population_dopri (RingHom.id ℚ) 3 exField exField_ok [99, 1, 0] rfl [0, 1/4, 1/2] exCtl 10 (1/4)
-- the trajectory is not constant (the invariant is not trivially true)
example : (euler exField [99, 1, 0] [0, 1/2, 1]).getD 2 [] = [38351313/400000, 1374687/400000, 137/200] := by
  decide +kernel
example : (odeint (genTableau id) exCtl exField 10 (1/4) [99, 1, 0] [0, 1/4]).map sumL = [100, 100] := by
  decide +kernel
-- a weighted invariant: `dot [1, 1, 0]` is conserved by a field moving mass between the first two entries only
example : ∀ r ∈ euler (fun y (t : ℚ) => match y with | [a, b, _] => [-(t * a), t * a, b] | _ => y.map fun _ => 0)
    [3, 4, 5] [0, 1, 2], dot [1, 1, 0] r = 7 := by
  have := (linear_invariant_dot [1, 1, 0] 3
    (fun y (t : ℚ) => match y with | [a, b, _] => [-(t * a), t * a, b] | _ => y.map fun _ => 0)
    (by
      intro y t hy
      match y, hy with
      | [a, b, _], _ => refine ⟨rfl, ?_⟩; simp [dot, vmul, sumL])
    [3, 4, 5] rfl [0, 1, 2]).1
  intro r hr; exact (this r hr).trans (by decide +kernel)

end Summer.Props.C02

#print axioms Summer.Props.C02.linear_functionals
#print axioms Summer.Props.C02.linear_invariant
#print axioms Summer.Props.C02.linear_invariant_dot
#print axioms Summer.Props.C02.closed_population
#print axioms Summer.Props.C02.rkStep_invariant
#print axioms Summer.Props.C02.dense_invariant
#print axioms Summer.Props.C02.fitColSums_generated
#print axioms Summer.Props.C02.fitColSums_generated_rat
#print axioms Summer.Props.C02.closed_population_dopri
