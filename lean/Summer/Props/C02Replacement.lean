import Summer.Proofs.EndToEnd
/-
C02 (replacement births) — a model whose only entry flow is a replacement-birth flow keeps the total
population constant in the presence of deaths.

Three layers:

* (a) rate level: if the entry flows are exactly the replacement-birth flows, the exit flows exactly
  the death flows and the replacement flows' weights add up to `1`, the compartment rates add up to
  `0` at every state (in general they add up to `(Σ weights − 1) · (total death rate)`);
* (b) building level: `add_replacement_birth_flow` into a destination that matches exactly ONE
  compartment creates one flow of realised weight `1`, and every later API call that is not a birth
  flow — in particular every stratification without flow adjustments — keeps the replacement flows'
  weights adding up to `1` (an ordinary stratification replaces a flow of weight `w` by `n` copies of
  weight `w·(1/n)`, an age stratification by the single age-`0` copy of weight `w`:
  `C03.weights_entry` / `C03.weights_birth_age`);
* (c) the excluded case, RECORDED KNOWN FINDING: when the destination filter of
  `add_replacement_birth_flow` matches `k > 1` compartments (the flow is added after a stratification),
  `k` flows of weight `1` EACH are created, so births = `k` × deaths and the total grows.

Model: `Build.addFlow`, `Build.stratifyWith`, `Build.stratifyFlow`, `Run.prepare`, `Run.step`,
`Run.flowRates`, `Run.compRates`.  Specification: `Spec.EndToEnd` (`entriesAreReplacement`,
`exitsAreDeaths`, `replWeightTotal`, `replWeightSum`, `plainStrat`, `BuildStep`), `Spec.deathTotal`,
`Spec.copiesA`.
-/
namespace Summer.C02Replacement
open Summer Summer.Build Summer.Run Summer.Spec Summer.Spec.EndToEnd Summer.Proofs Summer.Proofs.EndToEnd

set_option linter.unusedSectionVars false

variable {α : Type} [Field α] [LinearOrder α] [IsStrictOrderedRing α]

/-! ## (a) the rate function -/

/-- **replacement_balanced.**  Backend from `prepare`; every population-proportional flow has a source
(`sourcedOk`); the flows without a source are exactly the replacement-birth flows
(`entriesAreReplacement`) and the flows without a destination exactly the death flows
(`exitsAreDeaths`) — all three decidable.  If the weights of the replacement-birth flows add up to `1`
then for every weight vector `w` (one per flow), every (cleaned) state `xc` and every multiplier vector
(one per infection flow) the compartment rates add up to zero: births replace deaths exactly. -/
theorem replacement_balanced (m : Model α) (b : Backend) (h : prepare m = .ok b)
    (hs : Spec.sourcedOk m = true) (hen : entriesAreReplacement m = true) (hex : exitsAreDeaths m = true)
    (w xc mults : List α) (hwl : w.length = m.flows.length) (hml : mults.length = Spec.nInfection m)
    (hsum : replWeightTotal m w = 1) :
    sumL (compRates b (flowRates b w xc mults)) = 0 :=
  replacement_balanced_aux (backendFor_of_prepare m b h) hs hen hex w xc mults hwl hml hsum

/-- Without the hypothesis on the weights: the total changes at the rate
`(Σ replacement weights − 1) · (total death rate)`. -/
theorem replacement_total (m : Model α) (b : Backend) (h : prepare m = .ok b)
    (hs : Spec.sourcedOk m = true) (hen : entriesAreReplacement m = true) (hex : exitsAreDeaths m = true)
    (w xc mults : List α) (hwl : w.length = m.flows.length) (hml : mults.length = Spec.nInfection m) :
    sumL (compRates b (flowRates b w xc mults)) = (replWeightTotal m w - 1) * Spec.deathTotal m w xc :=
  replacement_total_aux (backendFor_of_prepare m b h) hs hen hex w xc mults hwl hml

/-- the two totals separately: births = `Σ weights ·` deaths, exits = deaths -/
theorem births_and_deaths (m : Model α) (b : Backend) (h : prepare m = .ok b)
    (hs : Spec.sourcedOk m = true) (hen : entriesAreReplacement m = true) (hex : exitsAreDeaths m = true)
    (w xc mults : List α) (hwl : w.length = m.flows.length) (hml : mults.length = Spec.nInfection m) :
    Spec.entryTotal m (flowRates b w xc mults) = replWeightTotal m w * Spec.deathTotal m w xc ∧
    Spec.exitTotal m (flowRates b w xc mults) = Spec.deathTotal m w xc :=
  ⟨entryTotal_replacement (backendFor_of_prepare m b h) hs hen w xc mults hwl hml,
   exitTotal_deaths (backendFor_of_prepare m b h) hs hex w xc mults hwl hml⟩

/-- **The same for one evaluation of the right-hand side.**  If the realised weights of the
replacement-birth flows, evaluated at `(p, t, cleaned x)`, add up to `1`, then whenever
`step m b p t x = some s` the compartment rates of that evaluation add up to zero (raw state `x`
arbitrary). -/
theorem replacement_step_balanced (m : Model α) (b : Backend) (h : prepare m = .ok b)
    (hs : Spec.sourcedOk m = true) (hen : entriesAreReplacement m = true) (hex : exitsAreDeaths m = true)
    (p : List (String × α)) (t : α) (x : List α) (s : StepOut α) (hstep : step m b p t x = some s)
    (hsum : replWeightSum ⟨p, t, cleanV x⟩ m.flows = 1) :
    sumL s.compRates = 0 := by
  have hb := backendFor_of_prepare m b h
  obtain ⟨w, mix, ci, hw, _, _, rfl⟩ := (step_some_iff m b p t x s).1 hstep
  have hwl : w.length = m.flows.length := (mapM_option_some _ _ _ hw).1
  have hwe := mapM_eval_eq_map _ _ _ hw
  refine replacement_balanced_aux hb hs hen hex w (cleanV x) _ hwl
    (assemble_mults_length hb (cleanV x) w mix ci) ?_
  rw [hwe]
  exact (replWeightTotal_map m _).trans hsum

/-- the same for the rate function handed to the solvers -/
theorem replacement_rhs_balanced (m : Model α) (b : Backend) (h : prepare m = .ok b)
    (hs : Spec.sourcedOk m = true) (hen : entriesAreReplacement m = true) (hex : exitsAreDeaths m = true)
    (p : List (String × α)) (t : α) (x : List α) (r : List α) (hr : rhs m b p x t = some r)
    (hsum : replWeightSum ⟨p, t, cleanV x⟩ m.flows = 1) :
    sumL r = 0 := by
  unfold rhs at hr
  rw [Option.map_eq_some_iff] at hr
  obtain ⟨s, hstep, rfl⟩ := hr
  exact replacement_step_balanced m b h hs hen hex p t x s hstep hsum

/-! ## (b) where the weights come from -/

/-- `add_replacement_birth_flow`: accepted only when the model has no birth flow yet; it appends one
flow of kind replacement-birth, without source, of rate parameter `1` and without adjustments, PER
compartment matched by the destination filter. -/
theorem replacement_flow_created (m m' : Model α) (name dest : String) (ds : Strata) (ex : Option Nat)
    (h : addFlow m (.replBirth name dest ds ex) = .ok m') :
    hasBirthFlow m = false ∧
    m'.flows = m.flows ++ (m.comps.filter (fun c => c.isMatch dest ds)).map
      (fun d => ({ kind := .replBirth, name := name, src := none, dst := some d, param := .const 1, adjs := [] } : Flow α)) :=
  addFlow_replBirth m m' name dest ds ex h

/-- … so afterwards the replacement weights add up (in every environment) to the NUMBER of matched
compartments … -/
theorem replacement_flow_weight_count (env : Env α) (m m' : Model α) (name dest : String) (ds : Strata)
    (ex : Option Nat) (h : addFlow m (.replBirth name dest ds ex) = .ok m') :
    replWeightSum env m'.flows = ((m.comps.filter (fun c => c.isMatch dest ds)).length : α) :=
  addFlow_replBirth_sum env m m' name dest ds ex h

/-- … which is `1` when the destination matches exactly one compartment. -/
theorem replacement_flow_weight (env : Env α) (m m' : Model α) (name dest : String) (ds : Strata)
    (ex : Option Nat) (h : addFlow m (.replBirth name dest ds ex) = .ok m')
    (hone : (m.comps.filter (fun c => c.isMatch dest ds)).length = 1) :
    replWeightSum env m'.flows = 1 := by
  rw [replacement_flow_weight_count env m m' name dest ds ex h, hone]; simp

/-- One flow under one stratification without flow adjustments (`plainStrat`: distinct, non-empty
strata, `"0"` among them for an age stratification): `stratifyFlow` returns the documented copies
(`Spec.copiesA`: for a replacement-birth flow with a stratified destination either `n` copies of weight
`w·(1/n)` or the single age-`0` copy of weight `w`, see `C03.weights_entry`, `C03.weights_birth_age`),
all of the parent's kind, and their replacement weights add up to the parent's. -/
theorem replacement_copies (env : Env α) (s : Strat α) (hp : plainStrat s) (f : Flow α) :
    stratifyFlow f s = .ok (Spec.copiesA s f) ∧ (∀ g ∈ Spec.copiesA s f, g.kind = f.kind) ∧
    replWeightSum env (Spec.copiesA s f) = replWeightSum env [f] :=
  ⟨stratifyFlow_unadj s f hp.1, fun g hg => copies_kind s f g hg, replWeightSum_copies env s hp f⟩

/-- **Induction over a sequence of stratifications, on a LIST of flows.**  Applying `stratifyFlow` for
`s₁`, then for `s₂`, … to every flow of a list (each time concatenating the copies in order) leaves the
sum of the replacement-birth weights unchanged, whatever the list and however many stratifications. -/
theorem replacement_copies_sum (env : Env α) (ss : List (Strat α)) (hp : ∀ s ∈ ss, plainStrat s)
    (fs : List (Flow α)) :
    replWeightSum env (ss.foldl (fun fs s => fs.flatMap (Spec.copiesA s)) fs) = replWeightSum env fs :=
  replWeightSum_strats env ss hp fs

/-- `stratify_with` of a stratification without flow adjustments (any kind, with or without mixing
matrix or infectiousness adjustments) replaces the flows by their copies, followed by ageing flows,
which are transitions. -/
theorem stratifyWith_flow_list (m m' : Model α) (s : Strat α) (h : stratifyWith m s = .ok m')
    (hfa : s.flowAdj = []) :
    ∃ extra, m'.flows = m.flows.flatMap (Spec.copiesA s) ++ extra ∧ ∀ g ∈ extra, g.kind = .transition :=
  stratifyWith_flows m m' s h hfa

/-- hence it keeps the replacement weights' total -/
theorem stratifyWith_keeps_sum (env : Env α) (m m' : Model α) (s : Strat α)
    (h : stratifyWith m s = .ok m') (hp : plainStrat s) :
    replWeightSum env m'.flows = replWeightSum env m.flows :=
  stratifyWith_replWeightSum env m m' s h hp

/-- and so does every flow addition that is not a birth flow (imports, deaths, universal deaths,
transition / infection / absolute flows): it appends flows none of which is a replacement birth -/
theorem addFlow_keeps_sum (env : Env α) (m m' : Model α) (op : FlowOp α) (hop : isBirthOp op = false)
    (h : addFlow m op = .ok m') : replWeightSum env m'.flows = replWeightSum env m.flows :=
  addFlow_replWeightSum env m m' op hop h

/-- **replacement_weights_sum.**  Start from any model `m0`, add a replacement-birth flow whose
destination matches exactly one compartment, then perform ANY sequence of further API calls each of
which is either a flow addition other than a birth flow or a `stratify_with` without flow adjustments
(`BuildStep.plain`).  In the resulting model the realised weights of the replacement-birth flows add up
to `1`, in every environment (they are constants). -/
theorem replacement_weights_sum (env : Env α) (m0 m1 m' : Model α) (name dest : String) (ds : Strata)
    (ex : Option Nat) (h1 : addFlow m0 (.replBirth name dest ds ex) = .ok m1)
    (hone : (m0.comps.filter (fun c => c.isMatch dest ds)).length = 1)
    (steps : List (BuildStep α)) (hp : ∀ st ∈ steps, st.plain)
    (h : steps.foldlM applyStep m1 = .ok m') :
    replWeightSum env m'.flows = 1 := by
  rw [steps_replWeightSum env steps m1 m' hp h]
  exact replacement_flow_weight env m0 m1 name dest ds ex h1 hone

/-- **End to end.**  For a model built that way in which, at the end, the entry flows are exactly the
replacement-birth flows and the exit flows exactly the death flows: every defined evaluation of the
right-hand side has compartment rates adding up to zero — the total population is stationary under the
rate function, deaths included. -/
theorem replacement_conserved (m0 m1 m' : Model α) (name dest : String) (ds : Strata)
    (ex : Option Nat) (h1 : addFlow m0 (.replBirth name dest ds ex) = .ok m1)
    (hone : (m0.comps.filter (fun c => c.isMatch dest ds)).length = 1)
    (steps : List (BuildStep α)) (hp : ∀ st ∈ steps, st.plain)
    (h : steps.foldlM applyStep m1 = .ok m')
    (b : Backend) (hprep : prepare m' = .ok b) (hs : Spec.sourcedOk m' = true)
    (hen : entriesAreReplacement m' = true) (hex : exitsAreDeaths m' = true)
    (p : List (String × α)) (t : α) (x : List α) (r : List α) (hr : rhs m' b p x t = some r) :
    sumL r = 0 :=
  replacement_rhs_balanced m' b hprep hs hen hex p t x r hr
    (replacement_weights_sum _ m0 m1 m' name dest ds ex h1 hone steps hp h)

/-! ## non-vacuity -/
section example_
def getOk {β} (d : β) : Res β → β
  | .ok v => v
  | .error _ => d
def noBackend : Backend := ⟨0, 0, [], [], [], [], [], [], [], [], [], [], [], [], [], [], none⟩

/-- an empty S-I-R model under construction -/
def m0 : Model Rat :=
  { t0 := 0, t1 := 10, dt := 1, nTimes := 11,
    comps := [⟨"S", []⟩, ⟨"I", []⟩, ⟨"R", []⟩], origNames := ["S", "I", "R"], infectious := ["I"],
    flows := [], strats := [], mixingCats := [[]], mixingMats := [], strains := ["default"],
    initDist := none, arrayPop := none, actions := [], requests := [], computed := [], whitelist := [],
    finalized := false }

def locStrat : Strat Rat :=
  { kind := .plain, name := "loc", strata := ["urban", "rural"], comps := ["S", "I"],
    split := [("urban", .const (1/2)), ("rural", .const (1/2))], flowAdj := [], infAdj := [], mixing := none }

def sexStrat : Strat Rat :=
  { kind := .plain, name := "sex", strata := ["f", "m", "x"], comps := ["S", "I", "R"],
    split := [("f", .const (1/3)), ("m", .const (1/3)), ("x", .const (1/3))], flowAdj := [], infAdj := [],
    mixing := none }

example : plainStrat locStrat ∧ plainStrat sexStrat :=
  ⟨⟨rfl, by decide, by decide, by decide⟩, ⟨rfl, by decide, by decide, by decide⟩⟩

/-- births into S first … -/
def m1 : Model Rat := getOk m0 (addFlow m0 (.replBirth "births" "S" [] none))

/-- … then infection, recovery, a universal death flow, two stratifications and a further death flow -/
def steps : List (BuildStep Rat) :=
  [ .flow (.transition .infFreq "infection" true (.param "beta") "S" "I" [] [] none),
    .flow (.transition .transition "recovery" true (.const (1/2)) "I" "R" [] [] none),
    .flow (.universalDeath "death" true (.const (1/10))),
    .strat locStrat,
    .flow (.death "urban_death" true (.time) "I" [("loc", "urban")] none),
    .strat sexStrat ]

def built : Model Rat := getOk m0 (steps.foldlM applyStep m1)
def builtB : Backend := getOk noBackend (prepare built)

theorem h_m1 : addFlow m0 (.replBirth "births" "S" [] none) = .ok m1 := by rfl
theorem h_built : steps.foldlM applyStep m1 = .ok built := by rfl
theorem h_prep : prepare built = .ok builtB := by rfl
theorem h_plain : ∀ st ∈ steps, st.plain := by
  intro st hst
  simp only [steps, List.mem_cons, List.not_mem_nil, or_false] at hst
  rcases hst with rfl | rfl | rfl | rfl | rfl | rfl
  · rfl
  · rfl
  · rfl
  · exact ⟨rfl, by decide, by decide, by decide⟩
  · rfl
  · exact ⟨rfl, by decide, by decide, by decide⟩

/-- S and I in 2 × 3 strata, R in 3: 15 compartments, 36 flows; 6 replacement-birth flows of weight
`1·(1/2)·(1/3)` each -/
example : built.comps.length = 15 ∧ built.flows.length = 36 ∧
    (built.flows.filter (fun f => Spec.isReplacement f.kind)).map (weightVal ⟨[], 0, []⟩)
      = [1/6, 1/6, 1/6, 1/6, 1/6, 1/6] := by decide +kernel
example : Spec.sourcedOk built = true ∧ entriesAreReplacement built = true ∧ exitsAreDeaths built = true := by
  decide +kernel

/-- (b) applied -/
example : ∀ env : Env Rat, replWeightSum env built.flows = 1 := fun env =>
  replacement_weights_sum env m0 m1 built "births" "S" [] none h_m1 (by decide) steps h_plain h_built

def exParams : List (String × Rat) := [("beta", 2)]
def exState : List Rat := [50, 40, 30, 20, 10, 5, 6, 5, 4, 3, 2, 1, 9, 8, -7]

/-- (a) + (b) applied: the rates of the built model at `t = 3` and a state with a negative entry add up
to zero, deaths (rate `1/10` everywhere, plus `t` in the urban I compartments) included -/
example : ∀ r, rhs built builtB exParams exState 3 = some r → sumL r = 0 := fun r hr =>
  replacement_conserved m0 m1 built "births" "S" [] none h_m1 (by decide) steps h_plain h_built builtB h_prep
    (by decide +kernel) (by decide +kernel) (by decide +kernel) exParams 3 exState r hr
example : (rhs built builtB exParams exState 3).isSome = true := by decide +kernel
/-- checked independently by evaluation: total death rate `643/10`, equal to the total birth rate -/
example : (step built builtB exParams 3 exState).map (fun s =>
      (sumL s.compRates, Spec.entryTotal built s.flowRates, Spec.exitTotal built s.flowRates)) =
    some (0, 643/10, 643/10) := by decide +kernel

/-- an AGE stratification (at the level of the flow list: `String.toInt?`, which `stratify_with` uses to
order age strata, does not reduce in the kernel): after `loc` and `age` the two copies are the age-`0`
children of the two `loc` copies, weight `1/2` each -/
def ageStrat : Strat Rat :=
  { kind := .age, name := "age", strata := ["0", "5", "15"], comps := ["S", "I", "R"],
    split := [("0", .const (1/2)), ("5", .const (1/3)), ("15", .const (1/6))],
    flowAdj := [], infAdj := [], mixing := none }
example : plainStrat ageStrat := ⟨rfl, by decide, by decide, by decide⟩
example : ([locStrat, ageStrat].foldl (fun fs s => fs.flatMap (Spec.copiesA s)) m1.flows).map
      (fun f => (f.kind, f.dst, weightVal ⟨[], 0, []⟩ f)) =
    [(.replBirth, some ⟨"S", [("loc", "urban"), ("age", "0")]⟩, (1/2 : Rat)),
     (.replBirth, some ⟨"S", [("loc", "rural"), ("age", "0")]⟩, 1/2)] := by decide +kernel
example : replWeightSum ⟨[], 0, []⟩ ([locStrat, ageStrat].foldl (fun fs s => fs.flatMap (Spec.copiesA s)) m1.flows)
    = replWeightSum ⟨[], 0, []⟩ m1.flows :=
  replacement_copies_sum _ [locStrat, ageStrat]
    (by
      intro s hs
      simp only [List.mem_cons, List.not_mem_nil, or_false] at hs
      rcases hs with rfl | rfl <;> exact ⟨rfl, by decide, by decide, by decide⟩)
    m1.flows

/-! ### (c) the excluded case — RECORDED KNOWN FINDING -/

/-- the same model, but stratified BEFORE the replacement-birth flow is added: the destination `"S"` now
matches two compartments -/
def lateSteps : List (BuildStep Rat) :=
  [ .flow (.transition .transition "recovery" true (.const (1/2)) "I" "R" [] [] none),
    .flow (.universalDeath "death" true (.const (1/10))),
    .strat locStrat,
    .flow (.replBirth "births" "S" [] none) ]

def late : Model Rat := getOk m0 (lateSteps.foldlM applyStep m0)
def lateB : Backend := getOk noBackend (prepare late)

example : lateSteps.foldlM applyStep m0 = .ok late := by rfl
example : prepare late = .ok lateB := by rfl

/-- KNOWN FINDING (recorded): `add_replacement_birth_flow` on a model in which the destination already
matches 2 compartments creates TWO replacement-birth flows of weight `1` EACH (not `1/2`); the
hypotheses `entriesAreReplacement`, `exitsAreDeaths`, `sourcedOk` all hold, only `Σ weights = 1` fails
(`Σ = 2`) … -/
example : (late.flows.filter (fun f => Spec.isReplacement f.kind)).map
      (fun f => (f.dst, weightVal ⟨[], 0, []⟩ f)) =
    [(some ⟨"S", [("loc", "urban")]⟩, (1 : Rat)), (some ⟨"S", [("loc", "rural")]⟩, 1)] ∧
    replWeightSum ⟨[], 0, []⟩ late.flows = (2 : Rat) ∧
    Spec.sourcedOk late = true ∧ entriesAreReplacement late = true ∧ exitsAreDeaths late = true := by
  decide +kernel

/-- … so births = 2 × deaths and the total grows at the rate of the deaths (`= (2 − 1)·deaths`,
`replacement_total`): state `[40, 30, 20, 10, 50]`, deaths `15`, births `30`. -/
example : (step late lateB [] 0 [40, 30, 20, 10, 50]).map (fun s =>
      (Spec.entryTotal late s.flowRates, Spec.exitTotal late s.flowRates, sumL s.compRates)) =
    some (30, 15, 15) := by decide +kernel
example := fun w xc mults => replacement_total late lateB (by rfl) (by decide +kernel) (by decide +kernel)
  (by decide +kernel) w xc mults

/-- (a) at the rate level on a hand-written model: weights `[1/2, 1/10, 1/5, 1/4, 3/4]`, the two
replacement weights `1/4 + 3/4 = 1` -/
def handModel : Model Rat :=
  { m0 with flows := [
      { kind := .transition, name := "recovery", src := some ⟨"I", []⟩, dst := some ⟨"R", []⟩, param := .const (1/2), adjs := [] },
      { kind := .death, name := "death", src := some ⟨"I", []⟩, dst := none, param := .const (1/10), adjs := [] },
      { kind := .death, name := "death", src := some ⟨"R", []⟩, dst := none, param := .const (1/5), adjs := [] },
      { kind := .replBirth, name := "births", src := none, dst := some ⟨"S", []⟩, param := .const (1/4), adjs := [] },
      { kind := .replBirth, name := "births", src := none, dst := some ⟨"I", []⟩, param := .const (3/4), adjs := [] } ] }
def handB : Backend := getOk noBackend (prepare handModel)
example : sumL (compRates handB (flowRates handB [1/2, 1/10, 1/5, 1/4, 3/4] [70, 20, 10] [])) = (0 : Rat) :=
  replacement_balanced handModel handB (by rfl) (by decide) (by decide) (by decide)
    [1/2, 1/10, 1/5, 1/4, 3/4] [70, 20, 10] [] (by decide) (by decide) (by decide +kernel)
example : compRates handB (flowRates handB [1/2, 1/10, 1/5, 1/4, 3/4] [70, 20, 10] []) = [(1 : Rat), -9, 8] := by
  decide +kernel
end example_

#print axioms replacement_balanced
#print axioms replacement_total
#print axioms births_and_deaths
#print axioms replacement_step_balanced
#print axioms replacement_rhs_balanced
#print axioms replacement_flow_created
#print axioms replacement_flow_weight_count
#print axioms replacement_flow_weight
#print axioms replacement_copies
#print axioms replacement_copies_sum
#print axioms stratifyWith_flow_list
#print axioms stratifyWith_keeps_sum
#print axioms addFlow_keeps_sum
#print axioms replacement_weights_sum
#print axioms replacement_conserved

end Summer.C02Replacement
