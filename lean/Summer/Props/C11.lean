import Summer.Proofs.Session
/-
Property C11 (model-level part): running a model or a runner is a pure function of the model
definition and the parameter values; running or building a runner does not alter the definition.

Model: `Summer/Model/Session.lean` (`step`, `exec`), specification: `Summer/Spec/Session.lean`
(`pureEff`, `explicitSpec`, `Covers`, `lastDefaults`, `freshWith`, `buildOk`).

The numerical pipeline is a parameter `runPure : Definition δ → Dict ν → Dict ν → σ → ω` of the
development: an `Outcome.ok e` stands for the results `e.output runPure defn`, so equal `Eff`s give
equal (bit-identical, the function being deterministic) outputs and derived outputs.  What is proved
here is that the *arguments* fed to that function do not depend on the call history.

NOT expressible at this level (covered by execution in the harness): bit-identity of the floating
point pipeline itself, independence of `PYTHONHASHSEED`, absence of hidden Python-level mutation such
as aliasing of the caller's dictionaries.
-/
namespace Summer.Props.C11
open Summer.Session

section
variable {δ ν σ : Type}

/-! ## 0. The invariant of reachable sessions -/

/-- In every reachable session the cached runner (if any) has a defaults snapshot equal to the model's
*current* defaults (it cannot be stale: `set_default_parameters` drops the runner), has every
main-graph parameter dynamic, and the model is finalized. -/
theorem snapshot_never_stale (defn : Definition δ) (h : List (Op ν σ)) :
    ∀ r, (exec (fresh defn) h).cached = some r →
      r.defaultsSnap = (lastDefaults h none).getD [] ∧
      (∀ k ∈ defn.mainParams, r.dyn.contains k = true) ∧
      (exec (fresh defn) h).finalized = true := by
  intro r hr
  have := Inv_exec (fresh defn) h (Inv_fresh defn) r hr
  rwa [exec_defaults, exec_defn] at this

/-- The model's current defaults after a history are the argument of the last `setDefaults`
(`lastDefaults h none`); this is how "current defaults" is written in the statements below. -/
theorem current_defaults (defn : Definition δ) (h : List (Op ν σ)) :
    (exec (fresh defn) h).defaults = lastDefaults h none := exec_defaults _ h

/-! ## 1. History independence of `model.run` -/

/-- **C11.history_independent.**  For every op history `h` executed from a fresh session and every
subsequent `run p solver rebuild` such that

* `hcov`: (current defaults ⊕ `p`) binds every input parameter of the definition, and
* `hsol`: `rebuild`, or there is no cached runner after `h`, or the cached runner's solver is `solver`,

the run succeeds, the main graph sees (defaults ⊕ `p`) on `mainParams`, the derived outputs see
(defaults ⊕ `p`) on `doParams`, the solver is `solver` — i.e. the outcome is `pureEff`, a function of
`defn`, the current defaults (= argument of the last `setDefaults` in `h`), `p` and `solver` only —
and this is what `model.outputs` / `model.derived_outputs` hold afterwards. -/
theorem history_independent (defn : Definition δ) (h : List (Op ν σ)) (p : Dict ν) (solver : σ)
    (rebuild : Bool)
    (hcov : Covers defn (lastDefaults h none) p)
    (hsol : rebuild = true ∨ ∀ r, (exec (fresh defn) h).cached = some r → r.solver = solver) :
    ∃ e, pureEff defn (lastDefaults h none) p solver = some e ∧
      (step (exec (fresh defn) h) (.run p solver rebuild)).2 = .ok e ∧
      (step (exec (fresh defn) h) (.run p solver rebuild)).1.outputs = some e := by
  have hd : (exec (fresh defn : Session δ ν σ) h).defaults = lastDefaults h none := exec_defaults _ h
  have hdef : (exec (fresh defn : Session δ ν σ) h).defn = defn := exec_defn _ h
  have := run_pure_of_inv (exec (fresh defn) h) (Inv_exec _ h (Inv_fresh defn)) p solver rebuild
    (by rw [hd, hdef]; exact hcov) hsol
  rwa [hd, hdef] at this

/-- The effective inputs named by `history_independent`, spelled out: lookups of (defaults ⊕ `p`)
restricted to `mainParams` resp. `doParams`, and the requested solver. -/
theorem pureEff_spelled_out (defn : Definition δ) (dflt : Option (Dict ν)) (p : Dict ν) (solver : σ)
    (e : Eff ν σ) (he : pureEff defn dflt p solver = some e) :
    collect (Dict.update (dflt.getD []) p).get defn.mainParams = some e.main ∧
    collect (Dict.update (dflt.getD []) p).get defn.doParams = some e.dos ∧
    e.solver = solver ∧
    (∀ k ∈ defn.mainParams, e.main.get k = (Dict.update (dflt.getD []) p).get k) ∧
    (∀ k ∈ defn.doParams, e.dos.get k = (Dict.update (dflt.getD []) p).get k) := by
  unfold pureEff at he
  cases hm : collect (Dict.update (dflt.getD []) p).get defn.mainParams with
  | none => simp [hm] at he
  | some m =>
    cases hd : collect (Dict.update (dflt.getD []) p).get defn.doParams with
    | none => simp [hm, hd] at he
    | some d =>
      simp only [hm, hd, Option.some.injEq] at he
      subst he
      exact ⟨rfl, rfl, rfl, collect_get hm, collect_get hd⟩

/-- Two arbitrary histories with the same current defaults give the same outcome and leave the same
outputs on the model (under the hypotheses of `history_independent` for both). -/
theorem history_irrelevant (defn : Definition δ) (h₁ h₂ : List (Op ν σ)) (p : Dict ν) (solver : σ)
    (rb₁ rb₂ : Bool)
    (hdef : lastDefaults h₁ none = lastDefaults h₂ none)
    (hcov : Covers defn (lastDefaults h₁ none) p)
    (hsol₁ : rb₁ = true ∨ ∀ r, (exec (fresh defn) h₁).cached = some r → r.solver = solver)
    (hsol₂ : rb₂ = true ∨ ∀ r, (exec (fresh defn) h₂).cached = some r → r.solver = solver) :
    (step (exec (fresh defn) h₁) (.run p solver rb₁)).2 = (step (exec (fresh defn) h₂) (.run p solver rb₂)).2 ∧
    (step (exec (fresh defn) h₁) (.run p solver rb₁)).1.outputs
      = (step (exec (fresh defn) h₂) (.run p solver rb₂)).1.outputs := by
  obtain ⟨e₁, he₁, ho₁, hout₁⟩ := history_independent defn h₁ p solver rb₁ hcov hsol₁
  obtain ⟨e₂, he₂, ho₂, hout₂⟩ := history_independent defn h₂ p solver rb₂ (hdef ▸ hcov) hsol₂
  rw [hdef, he₂] at he₁
  cases he₁
  exact ⟨ho₁.trans ho₂.symm, hout₁.trans hout₂.symm⟩

/-- In particular the outcome equals that of an independently constructed identical model on which
at most `set_default_parameters(current defaults)` has been called. -/
theorem history_independent_fresh (defn : Definition δ) (h : List (Op ν σ)) (p : Dict ν) (solver : σ)
    (rebuild : Bool)
    (hcov : Covers defn (lastDefaults h none) p)
    (hsol : rebuild = true ∨ ∀ r, (exec (fresh defn) h).cached = some r → r.solver = solver) :
    (step (exec (fresh defn) h) (.run p solver rebuild)).2
      = (step (freshWith defn (lastDefaults h none)) (.run p solver false)).2 := by
  cases hl : lastDefaults h none with
  | none =>
    have := history_irrelevant defn h [] p solver rebuild false (by rw [hl]; rfl) hcov hsol
      (Or.inr (by intro r hr; cases hr))
    exact this.1
  | some d =>
    have := history_irrelevant defn h [.setDefaults d] p solver rebuild false (by rw [hl]; rfl) hcov hsol
      (Or.inr (by intro r hr; cases hr))
    exact this.1

/-- The results themselves, for any deterministic pipeline `runPure`. -/
theorem results_history_independent {ω : Type} (runPure : Definition δ → Dict ν → Dict ν → σ → ω)
    (defn : Definition δ) (h : List (Op ν σ)) (p : Dict ν) (solver : σ) (rebuild : Bool)
    (hcov : Covers defn (lastDefaults h none) p)
    (hsol : rebuild = true ∨ ∀ r, (exec (fresh defn) h).cached = some r → r.solver = solver) :
    ∃ e, pureEff defn (lastDefaults h none) p solver = some e ∧
      (step (exec (fresh defn) h) (.run p solver rebuild)).1.outputs.map (Eff.output runPure defn)
        = some (runPure defn e.main e.dos solver) := by
  obtain ⟨e, he, _, hout⟩ := history_independent defn h p solver rebuild hcov hsol
  refine ⟨e, he, ?_⟩
  rw [hout, (pureEff_spelled_out defn _ p solver e he).2.2.1.symm]
  rfl

/-- With NO hypothesis at all, the *main* stage (compartment outputs) of `model.run` is history
independent: it fails iff (defaults ⊕ `p`) misses a main-graph parameter and otherwise sees exactly
(defaults ⊕ `p`).  History can only leak into the derived-output stage and the solver. -/
theorem main_stage_history_independent (defn : Definition δ) (h : List (Op ν σ)) (p : Dict ν)
    (solver : σ) (rebuild : Bool) :
    (collect (Dict.update ((lastDefaults h none).getD []) p).get defn.mainParams = none →
      (step (exec (fresh defn) h) (.run p solver rebuild)).2 = .error .mainKey) ∧
    (∀ m, collect (Dict.update ((lastDefaults h none).getD []) p).get defn.mainParams = some m →
      (step (exec (fresh defn) h) (.run p solver rebuild)).2 = .error .doKey ∨
      ∃ d sv, (step (exec (fresh defn) h) (.run p solver rebuild)).2
        = .ok { main := m, dos := d, solver := sv }) := by
  have hd : (exec (fresh defn : Session δ ν σ) h).defaults = lastDefaults h none := exec_defaults _ h
  have hdef : (exec (fresh defn : Session δ ν σ) h).defn = defn := exec_defn _ h
  have := run_main_of_inv (exec (fresh defn) h) (Inv_exec _ h (Inv_fresh defn)) p solver rebuild
  rwa [hd, hdef] at this

/-! ## 2. The definition is not altered -/

/-- **C11.definition_unchanged.**  No operation changes the definition (compartments, flows,
requests, parameter sets); `finalized` only goes from false to true. -/
theorem definition_unchanged (s : Session δ ν σ) (op : Op ν σ) :
    (step s op).1.defn = s.defn ∧ (s.finalized = true → (step s op).1.finalized = true) :=
  ⟨step_defn s op, step_finalized_mono s op⟩

/-- The same along whole histories, and `run` / `get_runner` do finalize. -/
theorem definition_unchanged_history (defn : Definition δ) (h : List (Op ν σ)) :
    (exec (fresh defn) h).defn = defn ∧
    (∀ h', (exec (fresh defn) h).finalized = true → (exec (fresh defn) (h ++ h')).finalized = true) ∧
    (∀ op : Op ν σ, op.finalizes → (exec (fresh defn) (h ++ [op])).finalized = true) := by
  refine ⟨exec_defn _ h, ?_, ?_⟩
  · intro h' hf; rw [exec_append]; exact exec_finalized_mono _ h' hf
  · intro op hop
    rw [exec_append]
    exact step_finalizes _ (Inv_exec _ h (Inv_fresh defn)) op hop

/-! ## 3. Explicit runners are pure -/

/-- **C11.explicit_runner_pure.**  Let `getRunner base dyn solver` be executed after any history `h₁`.
It succeeds iff `buildOk` (every non-dynamic main-graph parameter bound in `base`); then, after ANY
further history `h₂` (later model runs, `set_default_parameters`, other runners, earlier runs of this
very runner ...), `runnerRun p` on it yields `explicitSpec defn (defaults at build) base dyn solver p`:
a function of the definition, `base`, `dyn`, the defaults at build time, the solver and `p` only. -/
theorem explicit_runner_pure (defn : Definition δ) (h₁ : List (Op ν σ)) (base : Dict ν)
    (dyn : Option (List String)) (solver : σ) (h₂ : List (Op ν σ)) (p : Dict ν) :
    let s₁ : Session δ ν σ := exec (fresh defn) h₁
    let b := step s₁ (.getRunner base dyn solver)
    (buildOk defn base dyn = true →
      b.2 = .built s₁.runners.length ∧
      (step (exec b.1 h₂) (.runnerRun s₁.runners.length p)).2
        = explicitSpec defn (lastDefaults h₁ none) base dyn solver p) ∧
    (buildOk defn base dyn = false → b.2 = .error .build ∧ b.1.runners = s₁.runners) := by
  intro s₁ b
  have hd : s₁.defaults = lastDefaults h₁ none := exec_defaults _ h₁
  have hdef : s₁.defn = defn := exec_defn _ h₁
  have := explicit_of_session s₁ base dyn solver h₂ p
  rwa [hd, hdef] at this

/-- ... and of `base` only its restriction to the non-dynamic main-graph parameters and to the
derived-output parameters matters. -/
theorem explicit_runner_base_restricted (defn : Definition δ) (dflt : Option (Dict ν))
    (base base' : Dict ν) (dyn : Option (List String)) (solver : σ) (p : Dict ν)
    (hfro : ∀ k ∈ frozenKeys defn dyn, base.get k = base'.get k)
    (hdo : ∀ k ∈ defn.doParams, base.get k = base'.get k) :
    explicitSpec defn dflt base dyn solver p = explicitSpec defn dflt base' dyn solver p :=
  explicitSpec_congr defn dflt base base' dyn solver p hfro hdo

/-- Building an explicit runner does not touch the model's cached runner, defaults or outputs. -/
theorem get_runner_leaves_cache (s : Session δ ν σ) (base : Dict ν) (dyn : Option (List String))
    (solver : σ) :
    (step s (.getRunner base dyn solver)).1.cached = s.cached ∧
    (step s (.getRunner base dyn solver)).1.defaults = s.defaults ∧
    (step s (.getRunner base dyn solver)).1.outputs = s.outputs := by
  simp only [step]; split <;> exact ⟨rfl, rfl, rfl⟩

end

/-! ## 4. Excluded points: history dependence that the hypotheses of (1) rule out

Concrete definition: main-graph parameters `a`, `both`; derived-output parameters `d`, `both`
(`d` is used by a function-type derived output only).  All evaluated by `decide`; all replayed on the
real code (`model.run` on a 2-compartment model, see the report). -/

def exDefn : Definition Unit := { body := (), mainParams := ["a", "both"], doParams := ["d", "both"] }
abbrev ExS := Session Unit Int String
def pAll : Dict Int := [("a", 1), ("both", 2), ("d", 20)]
def pNoD : Dict Int := [("a", 1), ("both", 2)]

/-- (a) **FINDING — inside the property's quantifier.**  The derived-output-only parameter `d` is
omitted in a later run.  On a fresh model this is an error (`KeyError: 'd'` in the derived outputs);
after a first run with `d = 20` the same call silently succeeds with the FIRST run's value `d = 20`
(`do_base_params` captured when the cached runner was built).  The property quantifies over "runs
performed after other runs with different parameters": the two runs differ exactly in their
parameter dictionaries, so this history lies inside the quantifier and the code violates
repeatability here (hypothesis `Covers` of `history_independent` is what fails). -/
example :
    trace (fresh exDefn : ExS) [.run pNoD "odeint" false] = [.error .doKey] ∧
    trace (fresh exDefn : ExS) [.run pAll "odeint" false, .run pNoD "odeint" false]
      = [.ok { main := [("a", 1), ("both", 2)], dos := [("d", 20), ("both", 2)], solver := "odeint" },
         .ok { main := [("a", 1), ("both", 2)], dos := [("d", 20), ("both", 2)], solver := "odeint" }] ∧
    ¬ Covers exDefn (none : Option (Dict Int)) pNoD := by decide

/-- (a') the captured value may even come from a run that FAILED: a first `run` without `a` raises
(after its runner was built and cached, with `d = 7`), and the next run omitting `d` uses 7. -/
example :
    trace (fresh exDefn : ExS) [.run [("both", 2), ("d", 7)] "odeint" false, .run pNoD "odeint" false]
      = [.error .mainKey,
         .ok { main := [("a", 1), ("both", 2)], dos := [("d", 7), ("both", 2)], solver := "odeint" }] := by
  decide

/-- (b) **Outside the property's quantifier** (which ranges over parameter values, not over solver
arguments): a changed `solver` argument without `rebuild` is silently ignored, the cached runner's
solver is used; a fresh model uses the requested solver.  Hypothesis `hsol` of
`history_independent` is what fails.  Documented, not a C11 finding. -/
example :
    trace (fresh exDefn : ExS) [.run pAll "odeint" false, .run pAll "euler" false]
      = [.ok { main := [("a", 1), ("both", 2)], dos := [("d", 20), ("both", 2)], solver := "odeint" },
         .ok { main := [("a", 1), ("both", 2)], dos := [("d", 20), ("both", 2)], solver := "odeint" }] ∧
    trace (fresh exDefn : ExS) [.run pAll "euler" false]
      = [.ok { main := [("a", 1), ("both", 2)], dos := [("d", 20), ("both", 2)], solver := "euler" }] ∧
    ¬ (∀ r, (exec (fresh exDefn : ExS) [.run pAll "odeint" false]).cached = some r → r.solver = "euler") := by
  refine ⟨by decide, by decide, ?_⟩
  intro h
  exact absurd (h _ rfl) (by decide)

/-- (b') the stale solver may even come from a run that failed: a failed `run(solver="euler",
rebuild=True)` leaves an Euler runner behind, used by the next `run` asking for `"odeint"`. -/
example :
    trace (fresh exDefn : ExS) [.run pAll "odeint" false, .run [] "euler" true, .run pAll "odeint" false]
      = [.ok { main := [("a", 1), ("both", 2)], dos := [("d", 20), ("both", 2)], solver := "odeint" },
         .error .mainKey,
         .ok { main := [("a", 1), ("both", 2)], dos := [("d", 20), ("both", 2)], solver := "euler" }] := by
  decide

/-- (c) Explicit runners (`explicitSpec`, not history dependence but a split view of ONE parameter):
`both` is non-dynamic, so the main graph keeps the frozen value 2, yet `runner.run({"both": 9})`
delivers 9 to the derived outputs. -/
example :
    trace (fresh exDefn : ExS) [.getRunner pAll (some ["a"]) "odeint", .runnerRun 0 [("a", 1), ("both", 9)]]
      = [.built 0,
         .ok { main := [("a", 1), ("both", 2)], dos := [("d", 20), ("both", 9)], solver := "odeint" }] := by
  decide

/-- (d) `model.outputs` is last-writer-wins: an explicit runner's `run` overwrites what `model.run`
left there; a failing run leaves the previous (stale) outputs in place. -/
example :
    (exec (fresh exDefn : ExS) [.getRunner pAll (some ["a"]) "odeint", .run pAll "odeint" false,
        .runnerRun 0 [("a", 5)]]).outputs
      = some { main := [("a", 5), ("both", 2)], dos := [("d", 20), ("both", 2)], solver := "odeint" } ∧
    (exec (fresh exDefn : ExS) [.run pAll "odeint" false, .run [] "odeint" false]).outputs
      = some { main := [("a", 1), ("both", 2)], dos := [("d", 20), ("both", 2)], solver := "odeint" } := by
  decide

/-! ## 5. Non-vacuity -/

/-- a non-trivial history: runs with other parameters, a solver change with rebuild, an explicit
runner, its run, a change of defaults -/
def exHist : List (Op Int String) :=
  [.run [("a", 3), ("both", 4), ("d", 5)] "odeint" false,
   .run [("a", 7)] "euler" true,
   .getRunner [("a", 1), ("both", 2), ("d", 9)] (some ["a"]) "rk4",
   .runnerRun 0 [("a", 8)],
   .setDefaults [("both", 2), ("d", 20)],
   .run [("a", 100)] "euler" false]

/-- hypotheses of `history_independent` hold for `exHist` followed by `run {a: 1}` with the cached
runner's solver, and the conclusion is the expected non-trivial outcome -/
example :
    Covers exDefn (lastDefaults exHist none) [("a", 1)] ∧
    (∀ r, (exec (fresh exDefn : ExS) exHist).cached = some r → r.solver = "euler") ∧
    (exec (fresh exDefn : ExS) exHist).cached ≠ none ∧
    (step (exec (fresh exDefn : ExS) exHist) (.run [("a", 1)] "euler" false)).2
      = .ok { main := [("a", 1), ("both", 2)], dos := [("d", 20), ("both", 2)], solver := "euler" } ∧
    (step (freshWith exDefn (lastDefaults exHist none) : ExS) (.run [("a", 1)] "euler" false)).2
      = .ok { main := [("a", 1), ("both", 2)], dos := [("d", 20), ("both", 2)], solver := "euler" } := by
  refine ⟨by decide, ?_, by decide, by decide, by decide⟩
  intro r hr
  have : (exec (fresh exDefn : ExS) exHist).cached.map (·.solver) = some "euler" := by decide
  rw [hr] at this
  exact Option.some.inj this

/-- ... and with `rebuild = true` and a different solver -/
example :
    (step (exec (fresh exDefn : ExS) exHist) (.run [("a", 1)] "odeint" true)).2
      = .ok { main := [("a", 1), ("both", 2)], dos := [("d", 20), ("both", 2)], solver := "odeint" } := by
  decide

/-- `definition_unchanged`: the history does finalize and keeps the definition -/
example : (exec (fresh exDefn : ExS) exHist).defn = exDefn ∧
    (fresh exDefn : ExS).finalized = false ∧ (exec (fresh exDefn : ExS) exHist).finalized = true := by
  decide

/-- `explicit_runner_pure`: `buildOk` holds, the runner built in the middle of a history is run after
later model runs / changed defaults / its own earlier runs and still gives `explicitSpec` with the
defaults at BUILD time (`none` here) — e.g. `d` comes from `base` (9), `both` frozen at 2, `a` from `p` -/
example :
    buildOk exDefn ([("a", 1), ("both", 2), ("d", 9)] : Dict Int) (some ["a"]) = true ∧
    buildOk exDefn ([("a", 1), ("d", 9)] : Dict Int) (some ["a"]) = false ∧
    trace (exec (fresh exDefn : ExS) exHist) [.runnerRun 0 [("a", 8)]]
      = [.ok { main := [("a", 8), ("both", 2)], dos := [("d", 9), ("both", 2)], solver := "rk4" }] ∧
    explicitSpec exDefn (none : Option (Dict Int)) [("a", 1), ("both", 2), ("d", 9)] (some ["a"]) "rk4" [("a", 8)]
      = .ok { main := [("a", 8), ("both", 2)], dos := [("d", 9), ("both", 2)], solver := "rk4" } := by
  decide

end Summer.Props.C11

#print axioms Summer.Props.C11.snapshot_never_stale
#print axioms Summer.Props.C11.current_defaults
#print axioms Summer.Props.C11.history_independent
#print axioms Summer.Props.C11.pureEff_spelled_out
#print axioms Summer.Props.C11.history_irrelevant
#print axioms Summer.Props.C11.history_independent_fresh
#print axioms Summer.Props.C11.results_history_independent
#print axioms Summer.Props.C11.main_stage_history_independent
#print axioms Summer.Props.C11.definition_unchanged
#print axioms Summer.Props.C11.definition_unchanged_history
#print axioms Summer.Props.C11.explicit_runner_pure
#print axioms Summer.Props.C11.explicit_runner_base_restricted
#print axioms Summer.Props.C11.get_runner_leaves_cache
