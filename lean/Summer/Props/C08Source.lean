import Summer.Props.C13Source
import Summer.Model.Derived
/-
C08 — the hand-written index selections are what the SOURCE TEXT says.

`Summer/Generated/Struct.lean` is regenerated from `/repo/summer2/runner/jax/derived_outputs.py` and
`/repo/summer2/stratification.py` on every run (`harness/translate/gen_struct.py`).  The theorems below identify three
regenerated definitions with the definitions of the hand model that the C08 theorems (derived outputs, initial
population) are about:

* `build_flow_output` (the loop that collects `flow_indices`)            = `Derived.flowIndices`
  (`flow_output_indices_eq`).  The request's `raw_results` flag does not take part in the index selection;
* `build_compartment_output` (the two comprehensions that collect `indices`) = `Derived.compIndices`
  (`comp_output_indices_eq`), via `has_name_in_list_strs_eq`: `Compartment.has_name_in_list` on a list of names is
  `Comp.hasNameIn`;
* `Stratification._stratify_compartments` (one pass that builds the new compartment list AND the five index
  arrays) = the pair of `Build.stratifyComps` (a `flatMap`) and `Run.stratIndexArrays` (a fold over a `StratIdx`)
  (`stratify_compartments_eq`).

Hypothesis of the third theorem: `s.strata.Nodup`.  The source initialises `stratum_target_indices` with
`{s: [] for s in self.strata}`, a dict, which collapses duplicate strata; the hand model uses `List.map`, one entry
per list element.  It is the WEAKEST hypothesis under which the statement holds, and no other is needed:
`stratify_compartments_eq_iff` proves that the equation holds if and only if `s.strata.Nodup` (for every `comps`,
including the empty list; the last two examples show the two sides on `strata = ["a", "a"]`).
NOTE: the hypothesis is NOT a consequence of the API's validation.  Neither `Stratification.__init__`
(`self.strata = list(map(str, strata))`) nor `Build.mkStrat` rejects repeated strata, so on such an input
`Run.stratIndexArrays` and the source's `stratum_target_indices` are different data (the model's list has one entry
per occurrence, each receiving every index; the source's dict has one).  Users of the theorem have to carry
`s.strata.Nodup` as an assumption on the input.

Proof of the third theorem: a simulation between the two folds.  The generated fold carries
`(idx, strat_base, pass_base, pass_target, new_comps, stratum_target)`, the model's fold a `StratIdx` (whose `newSize`
is `idx`); `toTuple a nc` is the generated state that corresponds to the model state `a` and the compartments `nc`
produced so far.  `inner_sim` is the simulation of the loop over the strata of one stratified compartment,
`outer_sim` of the loop over the compartments; the invariant that makes `dictSet d st (d.get(st) ++ [i])` equal to the
model's `List.map` update is "the keys of the dict are exactly `s.strata`, without duplicates" (`dictSet_append_eq`).
-/
namespace Summer.Props.C08Source
open Summer Summer.Generated.Struct Summer.Props.C13Source

/-! ### list vocabulary -/

/-- a loop that appends `g x` for the items that satisfy `p` is a `filter` followed by a `map` -/
theorem foldl_append_if {β γ : Type} (p : β → Bool) (g : β → γ) (l : List β) (init : List γ) :
    l.foldl (fun acc x => if p x then acc ++ [g x] else acc) init = init ++ (l.filter p).map g := by
  induction l generalizing init with
  | nil => simp
  | cons x xs ih =>
    simp only [List.foldl_cons, ih, List.filter_cons]
    by_cases h : p x <;> simp [h]

/-- `[(i, x) for i, x in enumerate(l) if p(x)]`, then the indices: `Run.idxWhere` -/
theorem enumerate_filter_idx {β : Type} (l : List β) (p : β → Bool) (p' : Nat × β → Bool) (h : ∀ q, p' q = p q.2) :
    ((l.zipIdx.map (fun q => (q.2, q.1))).filter p').map (fun q => q.1) = Run.idxWhere l p := by
  unfold Run.idxWhere
  rw [List.filter_map, List.map_map]
  have hp : (p' ∘ fun (q : β × Nat) => (q.2, q.1)) = (fun x => p x.1) := by
    funext q
    exact h _
  rw [hp]
  rfl

/-! ### 1. `build_flow_output` -/

/-- `runner/jax/derived_outputs.py::build_flow_output` selects the flows of `Derived.flowIndices` -/
theorem flow_output_indices_eq {α : Type} (m : Model α) (name : String) (ss ds : Strata) (raw : Bool) :
    build_flow_output name ss ds raw m.flows = Derived.flowIndices m name ss ds := by
  unfold build_flow_output Derived.flowIndices
  have h := foldl_append_if
    (fun (q : Nat × Flow α) => (q.2.name == name)
      && ((!(q.2.src).isSome) || (Compartment.has_strata (Py.the q.2.src) ss))
      && ((!(q.2.dst).isSome) || (Compartment.has_strata (Py.the q.2.dst) ds)))
    (fun q => q.1) (m.flows.zipIdx.map (fun q => (q.2, q.1))) []
  refine Eq.trans h ?_
  rw [List.nil_append]
  apply enumerate_filter_idx
  intro q
  rcases q with ⟨i, k, n, src, dst, p, a⟩
  cases src <;> cases dst <;> simp [Py.the, has_strata_eq]

/-! ### 2. `build_compartment_output` -/

/-- `Compartment.has_name_in_list` on a list of names -/
theorem has_name_in_list_strs_eq (c : Comp) (names : List String) :
    Compartment.has_name_in_list_strs c names = c.hasNameIn names := by
  unfold Compartment.has_name_in_list_strs Compartment.has_name_str Comp.hasNameIn
  induction names with
  | nil => rfl
  | cons x xs ih =>
    simp only [List.any_cons, List.contains_cons] at ih ⊢
    rw [ih]

/-- `runner/jax/derived_outputs.py::build_compartment_output` selects the compartments of `Derived.compIndices` -/
theorem comp_output_indices_eq {α : Type} (m : Model α) (names : List String) (strata : Strata) :
    build_compartment_output names strata m.comps = Derived.compIndices m names strata := by
  unfold build_compartment_output Derived.compIndices
  simp only [List.map_id', List.filter_filter]
  apply enumerate_filter_idx
  intro q
  simp only [is_match_eq, has_name_in_list_strs_eq, Bool.and_comm]

/-! ### 3. `Stratification._stratify_compartments` -/

/-- the model's update of the per-stratum index dict: append `i` to the entry of `st` -/
def updD (d : List (String × List Nat)) (st : String) (i : Nat) : List (String × List Nat) :=
  d.map (fun kv => if kv.1 == st then (kv.1, kv.2 ++ [i]) else kv)

theorem updD_keys (d : List (String × List Nat)) (st : String) (i : Nat) :
    (updD d st i).map (·.1) = d.map (·.1) := by
  unfold updD
  rw [List.map_map]
  apply List.map_congr_left
  intro kv _
  by_cases h : kv.1 = st <;> simp [h]

/-- in a dict without duplicate keys, `d.get(k)` is the value of any entry with key `k` -/
theorem alookup_of_mem {β : Type} (d : List (String × β)) (hnd : (d.map (·.1)).Nodup) (p : String × β) (hp : p ∈ d) :
    alookup d p.1 = some p.2 := by
  induction d with
  | nil => cases hp
  | cons x xs ih =>
    rw [List.map_cons, List.nodup_cons] at hnd
    unfold alookup
    rw [List.find?_cons]
    by_cases hx : x.1 = p.1
    · simp only [hx, beq_self_eq_true]
      rcases List.mem_cons.mp hp with rfl | hmem
      · rfl
      · exact absurd (hx ▸ List.mem_map_of_mem hmem) hnd.1
    · rcases List.mem_cons.mp hp with rfl | hmem
      · exact absurd rfl hx
      · simp only [beq_eq_false_iff_ne.mpr hx]
        exact ih hnd.2 hmem

/-- `d[st] = d.get(st, []) + [i]` (as the translator spells `d[st].append(i)`) is the model's `map` update, for a
dict without duplicate keys that has the key `st` -/
theorem dictSet_append_eq (d : List (String × List Nat)) (hnd : (d.map (·.1)).Nodup) (st : String)
    (hst : st ∈ d.map (·.1)) (i : Nat) :
    dictSet d st ((alookup d st).getD [] ++ [i]) = updD d st i := by
  unfold dictSet updD
  have hany : d.any (fun p => p.1 == st) = true := by
    obtain ⟨p, hp, rfl⟩ := List.mem_map.mp hst
    exact List.any_eq_true.mpr ⟨p, hp, beq_self_eq_true _⟩
  rw [if_pos hany]
  apply List.map_congr_left
  intro p hp
  by_cases h : p.1 = st
  · subst h
    simp only [beq_self_eq_true, if_true, alookup_of_mem d hnd p hp, Option.getD_some]
  · simp only [beq_eq_false_iff_ne.mpr h, Bool.false_eq_true, if_false]

/-- `{s: [] for s in strata}` on top of a dict that has none of these keys -/
theorem init_dict_aux (ss : List String) (hnd : ss.Nodup) (d : List (String × List Nat))
    (hdis : ∀ st ∈ ss, st ∉ d.map (·.1)) :
    ss.foldl (fun d_ s_ => dictSet d_ s_ []) d = d ++ ss.map (fun st => (st, [])) := by
  induction ss generalizing d with
  | nil => simp
  | cons x xs ih =>
    rw [List.nodup_cons] at hnd
    have hany : d.any (fun p => p.1 == x) = false := by
      rw [List.any_eq_false]
      intro p hp hpx
      exact hdis x (List.mem_cons_self) (List.mem_map.mpr ⟨p, hp, by simpa using hpx⟩)
    have hstep : dictSet d x ([] : List Nat) = d ++ [(x, [])] := by
      unfold dictSet
      simp [hany]
    rw [List.foldl_cons, hstep, ih hnd.2]
    · simp
    · intro st hst hmem
      rw [List.map_append, List.mem_append] at hmem
      rcases hmem with hmem | hmem
      · exact hdis st (List.mem_cons_of_mem _ hst) hmem
      · simp only [List.map_cons, List.map_nil, List.mem_singleton] at hmem
        exact hnd.1 (hmem ▸ hst)

/-- `{s: [] for s in self.strata}` is one empty entry per stratum when the strata are distinct -/
theorem init_dict_eq (ss : List String) (hnd : ss.Nodup) :
    ss.foldl (fun d_ s_ => dictSet d_ s_ ([] : List Nat)) [] = ss.map (fun st => (st, [])) := by
  rw [init_dict_aux ss hnd [] (by simp)]
  simp

section
variable {α : Type}

/-- the generated state that corresponds to the model state `a` and the compartments `nc` built so far -/
def toTuple (a : Run.StratIdx) (nc : List Comp) :
    Nat × List Nat × List Nat × List Nat × List Comp × List (String × List Nat) :=
  (a.newSize, a.stratBase, a.passBase, a.passTarget, nc, a.stratumTarget)

/-- body of the generated loop over the strata of one stratified compartment -/
def genInner (s : Strat α) (c : Comp) (st_21 : List Comp × List (String × List Nat) × Nat) (item_20 : String) :
    List Comp × List (String × List Nat) × Nat :=
  (st_21.1 ++ [Compartment.stratify c s.name item_20],
   dictSet st_21.2.1 item_20 (((alookup st_21.2.1 item_20).getD []) ++ [st_21.2.2]),
   st_21.2.2 + 1)

/-- body of the generated loop over the compartments -/
def genOuter (s : Strat α) (st_14 : Nat × List Nat × List Nat × List Nat × List Comp × List (String × List Nat))
    (item_13 : Nat × Comp) : Nat × List Nat × List Nat × List Nat × List Comp × List (String × List Nat) :=
  if Compartment.has_name_in_list_comps item_13.2 (Py.stratCompartments s) then
    let loop_26 := s.strata.foldl (genInner s item_13.2) (st_14.2.2.2.2.1, st_14.2.2.2.2.2, st_14.1)
    (loop_26.2.2, st_14.2.1 ++ [item_13.1], st_14.2.2.1, st_14.2.2.2.1, loop_26.1, loop_26.2.1)
  else
    (st_14.1 + 1, st_14.2.1, st_14.2.2.1 ++ [item_13.1], st_14.2.2.2.1 ++ [st_14.1], st_14.2.2.2.2.1 ++ [item_13.2],
     st_14.2.2.2.2.2)

/-- body of the model's loop over the strata of one stratified compartment -/
def modInner (a : Run.StratIdx) (st : String) : Run.StratIdx :=
  { a with stratumTarget := updD a.stratumTarget st a.newSize, newSize := a.newSize + 1 }

/-- body of the model's loop over the compartments -/
def modOuter (s : Strat α) (acc : Run.StratIdx) (ci : Comp × Nat) : Run.StratIdx :=
  if ci.1.hasNameIn s.comps then
    s.strata.foldl modInner { acc with stratBase := acc.stratBase ++ [ci.2] }
  else
    { acc with passBase := acc.passBase ++ [ci.2], passTarget := acc.passTarget ++ [acc.newSize], newSize := acc.newSize + 1 }

/-- the generated definition, with its two loop bodies named -/
theorem gen_unfold (s : Strat α) (comps : List Comp) :
    Stratification._stratify_compartments s comps =
      (let r := (comps.zipIdx.map (fun p_ => (p_.2, p_.1))).foldl (genOuter s)
          (0, [], [], [], [], s.strata.foldl (fun d_ s_ => dictSet d_ s_ []) [])
       (r.2.2.2.2.1, r.2.1, r.2.2.1, r.2.2.2.1, r.2.2.2.2.2, r.1)) := rfl

/-- the model's definition, with its two loop bodies named -/
theorem mod_unfold (s : Strat α) (comps : List Comp) :
    Run.stratIndexArrays comps s
      = comps.zipIdx.foldl (modOuter s) ⟨[], [], [], s.strata.map (fun st => (st, [])), 0⟩ := rfl

/-- what the compartment `c` contributes to the new compartment list -/
def expand (s : Strat α) (c : Comp) : List Comp :=
  if c.hasNameIn s.comps then s.strata.map (fun st => c.stratify s.name st) else [c]

theorem stratifyComps_eq_expand (s : Strat α) (comps : List Comp) :
    Build.stratifyComps comps s = comps.flatMap (expand s) := rfl

/-- simulation of the loop over the strata: `ss` is the part of `s.strata` still to be visited -/
theorem inner_sim (s : Strat α) (c : Comp) (keys : List String) (hnd : keys.Nodup) (ss : List String)
    (hss : ∀ st ∈ ss, st ∈ keys) (a : Run.StratIdx) (nc : List Comp) (hk : a.stratumTarget.map (·.1) = keys) :
    ss.foldl (genInner s c) (nc, a.stratumTarget, a.newSize)
        = (nc ++ ss.map (fun st => c.stratify s.name st), (ss.foldl modInner a).stratumTarget, (ss.foldl modInner a).newSize)
      ∧ (ss.foldl modInner a).stratBase = a.stratBase
      ∧ (ss.foldl modInner a).passBase = a.passBase
      ∧ (ss.foldl modInner a).passTarget = a.passTarget
      ∧ (ss.foldl modInner a).stratumTarget.map (·.1) = keys := by
  induction ss generalizing a nc with
  | nil => simp [hk]
  | cons x xs ih =>
    have hx : x ∈ a.stratumTarget.map (·.1) := hk ▸ hss x List.mem_cons_self
    have hstep : genInner s c (nc, a.stratumTarget, a.newSize) x
        = (nc ++ [c.stratify s.name x], (modInner a x).stratumTarget, (modInner a x).newSize) := by
      unfold genInner modInner
      simp only [stratify_eq]
      rw [dictSet_append_eq _ (hk ▸ hnd) x hx]
    have hk' : (modInner a x).stratumTarget.map (·.1) = keys := by
      unfold modInner
      simp only [updD_keys, hk]
    obtain ⟨h1, h2, h3, h4, h5⟩ :=
      ih (fun st h => hss st (List.mem_cons_of_mem _ h)) (modInner a x) (nc ++ [c.stratify s.name x]) hk'
    rw [List.foldl_cons, List.foldl_cons, hstep, h1]
    refine ⟨?_, h2, h3, h4, h5⟩
    simp

/-- one step of the loop over the compartments -/
theorem outer_step (s : Strat α) (hnd : s.strata.Nodup) (a : Run.StratIdx) (nc : List Comp)
    (hk : a.stratumTarget.map (·.1) = s.strata) (ci : Comp × Nat) :
    genOuter s (toTuple a nc) (ci.2, ci.1) = toTuple (modOuter s a ci) (nc ++ expand s ci.1)
      ∧ (modOuter s a ci).stratumTarget.map (·.1) = s.strata := by
  unfold genOuter modOuter expand toTuple
  simp only [has_name_in_list_eq]
  by_cases h : ci.1.hasNameIn s.comps
  · simp only [h, if_true]
    obtain ⟨h1, h2, h3, h4, h5⟩ := inner_sim s ci.1 s.strata hnd s.strata (fun _ hst => hst)
      { a with stratBase := a.stratBase ++ [ci.2] } nc hk
    refine ⟨?_, h5⟩
    simp only at h1 h2 h3 h4
    rw [h1, h2, h3, h4]
  · simp only [h, Bool.false_eq_true, if_false]
    exact ⟨trivial, hk⟩

/-- simulation of the loop over the compartments -/
theorem outer_sim (s : Strat α) (hnd : s.strata.Nodup) (l : List (Comp × Nat)) (a : Run.StratIdx) (nc : List Comp)
    (hk : a.stratumTarget.map (·.1) = s.strata) :
    (l.map (fun p_ => (p_.2, p_.1))).foldl (genOuter s) (toTuple a nc)
      = toTuple (l.foldl (modOuter s) a) (nc ++ l.flatMap (fun ci => expand s ci.1)) := by
  induction l generalizing a nc with
  | nil => simp
  | cons ci l ih =>
    obtain ⟨h1, h2⟩ := outer_step s hnd a nc hk ci
    rw [List.map_cons, List.foldl_cons, List.foldl_cons, h1, ih _ _ h2, List.flatMap_cons, List.append_assoc]

/-- `stratification.py::Stratification._stratify_compartments` returns the compartments of `Build.stratifyComps` and
the index arrays of `Run.stratIndexArrays`.  `s.strata.Nodup`: see the header (and `stratify_compartments_eq_iff`). -/
theorem stratify_compartments_eq (s : Strat α) (comps : List Comp) (hnd : s.strata.Nodup) :
    Stratification._stratify_compartments s comps =
      (Build.stratifyComps comps s,
       (Run.stratIndexArrays comps s).stratBase, (Run.stratIndexArrays comps s).passBase,
       (Run.stratIndexArrays comps s).passTarget, (Run.stratIndexArrays comps s).stratumTarget,
       (Run.stratIndexArrays comps s).newSize) := by
  rw [gen_unfold, mod_unfold, stratifyComps_eq_expand, init_dict_eq s.strata hnd]
  have h := outer_sim s hnd comps.zipIdx ⟨[], [], [], s.strata.map (fun st => (st, [])), 0⟩ []
    (by simp [Function.comp_def])
  have hfm : comps.zipIdx.flatMap (fun ci => expand s ci.1) = comps.flatMap (expand s) := by
    rw [← List.flatMap_map Prod.fst (expand s), List.zipIdx_map_fst]
  rw [List.nil_append, hfm] at h
  simp only [toTuple] at h
  simp only [h]

/-! #### the hypothesis is necessary: the source's dict never has duplicate keys, the model's list has the keys `s.strata` -/

theorem foldl_inv {σ β : Type} (P : σ → Prop) (f : σ → β → σ) (h : ∀ a b, P a → P (f a b)) (l : List β) (a : σ)
    (ha : P a) : P (l.foldl f a) := by
  induction l generalizing a with
  | nil => exact ha
  | cons x xs ih => exact ih _ (h a x ha)

/-- `d[k] = v` never creates a duplicate key -/
theorem dictSet_keys_nodup {β : Type} (d : List (String × β)) (k : String) (v : β) (h : (d.map (·.1)).Nodup) :
    ((dictSet d k v).map (·.1)).Nodup := by
  unfold dictSet
  by_cases hany : d.any (fun p => p.1 == k) = true
  · rw [if_pos hany, List.map_map]
    have hkeys : d.map ((·.1) ∘ fun p => if p.1 == k then (k, v) else p) = d.map (·.1) := by
      apply List.map_congr_left
      intro p _
      by_cases hp : p.1 = k <;> simp [hp]
    rw [hkeys]
    exact h
  · rw [if_neg hany, List.map_append, List.nodup_append]
    refine ⟨h, by simp, ?_⟩
    intro x hx y hy hxy
    simp only [List.map_cons, List.map_nil, List.mem_singleton] at hy
    obtain ⟨p, hp, rfl⟩ := List.mem_map.mp hx
    exact hany (List.any_eq_true.mpr ⟨p, hp, by simp [hxy, hy]⟩)

theorem gen_keys_nodup (s : Strat α) (comps : List Comp) :
    ((Stratification._stratify_compartments s comps).2.2.2.2.1.map (·.1)).Nodup := by
  rw [gen_unfold]
  refine foldl_inv (fun st => (st.2.2.2.2.2.map (·.1)).Nodup) (genOuter s) ?_ _ _ ?_
  · intro st item hst
    unfold genOuter
    by_cases h : Compartment.has_name_in_list_comps item.2 (Py.stratCompartments s) = true
    · rw [if_pos h]
      exact foldl_inv (fun x => (x.2.1.map (·.1)).Nodup) (genInner s item.2)
        (fun x st' hx => dictSet_keys_nodup _ _ _ hx) s.strata (st.2.2.2.2.1, st.2.2.2.2.2, st.1) hst
    · rw [if_neg h]
      exact hst
  · exact foldl_inv (fun (d : List (String × List Nat)) => (d.map (·.1)).Nodup) (fun d_ s_ => dictSet d_ s_ [])
      (fun d k hd => dictSet_keys_nodup d k [] hd) s.strata [] List.nodup_nil

theorem mod_keys (s : Strat α) (comps : List Comp) :
    (Run.stratIndexArrays comps s).stratumTarget.map (·.1) = s.strata := by
  rw [mod_unfold]
  refine foldl_inv (fun a => a.stratumTarget.map (·.1) = s.strata) (modOuter s) ?_ _ _ ?_
  · intro a ci ha
    unfold modOuter
    by_cases h : ci.1.hasNameIn s.comps = true
    · rw [if_pos h]
      refine foldl_inv (fun a => a.stratumTarget.map (·.1) = s.strata) modInner ?_ s.strata
        { a with stratBase := a.stratBase ++ [ci.2] } ha
      intro a st ha
      unfold modInner
      simp only [updD_keys, ha]
    · rw [if_neg h]
      exact ha
  · show (s.strata.map (fun st => (st, ([] : List Nat)))).map (·.1) = s.strata
    rw [List.map_map]
    exact List.map_id' _

/-- `s.strata.Nodup` is exactly what `stratify_compartments_eq` needs: without it the equation fails, for every list
of compartments -/
theorem stratify_compartments_eq_iff (s : Strat α) (comps : List Comp) :
    Stratification._stratify_compartments s comps =
      (Build.stratifyComps comps s,
       (Run.stratIndexArrays comps s).stratBase, (Run.stratIndexArrays comps s).passBase,
       (Run.stratIndexArrays comps s).passTarget, (Run.stratIndexArrays comps s).stratumTarget,
       (Run.stratIndexArrays comps s).newSize) ↔ s.strata.Nodup := by
  constructor
  · intro h
    have hn := gen_keys_nodup s comps
    rw [h] at hn
    simp only at hn
    rw [mod_keys] at hn
    exact hn
  · exact stratify_compartments_eq s comps

end

/-! ### non-vacuity: the three equations on concrete data, with non-trivial values on both sides -/
section
/-- strata `a`, `b` applied to `S` and `I` (not to `R`) -/
def exStrat : Strat Rat :=
  { kind := .plain, name := "g", strata := ["a", "b"], comps := ["S", "I"], split := [], flowAdj := [], infAdj := [],
    mixing := none }

def exComps : List Comp := [⟨"S", []⟩, ⟨"R", []⟩, ⟨"I", []⟩]

def cSa : Comp := ⟨"S", [("g", "a")]⟩
def cSb : Comp := ⟨"S", [("g", "b")]⟩
def cIa : Comp := ⟨"I", [("g", "a")]⟩
def cIb : Comp := ⟨"I", [("g", "b")]⟩
def cR : Comp := ⟨"R", []⟩

/-- the stratified S / R / I model: infection per stratum, recovery per stratum, imports into `I_a`, and a second
"infection" flow out of `S_b` into `I_a` -/
def exModel : Model Rat :=
  { t0 := 0, t1 := 10, dt := 1, nTimes := 11,
    comps := [cSa, cSb, cR, cIa, cIb], origNames := ["S", "R", "I"], infectious := ["I"],
    flows := [
      { kind := .infFreq, name := "infection", src := some cSa, dst := some cIa, param := .const 1, adjs := [] },
      { kind := .infFreq, name := "infection", src := some cSb, dst := some cIb, param := .const 1, adjs := [] },
      { kind := .transition, name := "recovery", src := some cIa, dst := some cR, param := .const 1, adjs := [] },
      { kind := .transition, name := "recovery", src := some cIb, dst := some cR, param := .const 1, adjs := [] },
      { kind := .importF, name := "infection", src := none, dst := some cIa, param := .const 5, adjs := [] },
      { kind := .infFreq, name := "infection", src := some cSb, dst := some cIa, param := .const 1, adjs := [] } ],
    strats := [exStrat], mixingCats := [[]], mixingMats := [], strains := ["default"],
    initDist := none, arrayPop := none, actions := [], requests := [], computed := [], whitelist := [],
    finalized := true }

example : build_flow_output "infection" [("g", "b")] [("g", "a")] true exModel.flows
    = Derived.flowIndices exModel "infection" [("g", "b")] [("g", "a")] :=
  flow_output_indices_eq exModel _ _ _ _
/-- source filter `g=b`, destination filter `g=a`: the entry flow (no source) and the cross flow -/
example : Derived.flowIndices exModel "infection" [("g", "b")] [("g", "a")] = [4, 5] := by decide
example : build_flow_output "infection" [("g", "b")] [("g", "a")] false exModel.flows = [4, 5] := by decide
/-- empty filters select every flow of that name -/
example : build_flow_output "infection" [] [] true exModel.flows = [0, 1, 4, 5] := by decide

example : build_compartment_output ["S", "I"] [("g", "b")] exModel.comps
    = Derived.compIndices exModel ["S", "I"] [("g", "b")] :=
  comp_output_indices_eq exModel _ _
example : Derived.compIndices exModel ["S", "I"] [("g", "b")] = [1, 4] := by decide
example : build_compartment_output ["S", "I"] [("g", "b")] exModel.comps = [1, 4] := by decide
example : build_compartment_output ["R", "I"] [] exModel.comps = [2, 3, 4] := by decide

theorem exStrat_nodup : exStrat.strata.Nodup := by decide

example : Stratification._stratify_compartments exStrat exComps =
    (Build.stratifyComps exComps exStrat,
     (Run.stratIndexArrays exComps exStrat).stratBase, (Run.stratIndexArrays exComps exStrat).passBase,
     (Run.stratIndexArrays exComps exStrat).passTarget, (Run.stratIndexArrays exComps exStrat).stratumTarget,
     (Run.stratIndexArrays exComps exStrat).newSize) :=
  stratify_compartments_eq exStrat exComps exStrat_nodup
/-- two of the three compartments are stratified; the result is the compartment list of `exModel` -/
example : Stratification._stratify_compartments exStrat exComps =
    ([cSa, cSb, cR, cIa, cIb], [0, 2], [1], [2], [("a", [0, 3]), ("b", [1, 4])], 5) := by
  refine Prod.ext ?_ (Prod.ext ?_ ?_) <;> decide
example : Build.stratifyComps exComps exStrat = exModel.comps := by decide
example : (Run.stratIndexArrays exComps exStrat).stratumTarget = [("a", [0, 3]), ("b", [1, 4])] := by decide

/-- the hypothesis matters: with a repeated stratum the source's dict has one entry, the model's list two -/
example : (Stratification._stratify_compartments { exStrat with strata := ["a", "a"] } []).2.2.2.2.1 = [("a", [])] := by
  decide
example : (Run.stratIndexArrays [] { exStrat with strata := ["a", "a"] }).stratumTarget = [("a", []), ("a", [])] := by
  decide
end

#print axioms flow_output_indices_eq
#print axioms has_name_in_list_strs_eq
#print axioms comp_output_indices_eq
#print axioms dictSet_append_eq
#print axioms init_dict_eq
#print axioms inner_sim
#print axioms outer_sim
#print axioms stratify_compartments_eq
#print axioms stratify_compartments_eq_iff
#print axioms exStrat_nodup
end Summer.Props.C08Source
