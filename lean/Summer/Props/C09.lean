import Summer.Proofs.ExprProps
import Mathlib.Algebra.Order.Field.Basic
/-
C09 — Named parameters are interchangeable with the literal values they stand for.

All theorems are structural: they hold for every carrier `α` with the core arithmetic/order classes
the model is generic over (hence for every ordered field, for `Rat` as executed by the driver, and
for `Float`).  The last `example` of the file instantiates one of them at an arbitrary ordered field.

Model functions: `Expr.eval`, `Expr.subst`, `Expr.freeze`, `Expr.params` (`Summer/Model/Expr.lean`).
Spec notions (`Summer/Spec/ExprGraphSpec.lean`): `mergedParams`, `freezeParams`, `freezeOK`,
`withDefaults`, `allBound`, `compsInRange`.
-/
namespace Summer.C09
open Summer Summer.Spec Summer.ExprProps

/-! ### 0. the dictionaries involved, read through first-match lookup -/
section lookup
variable {α : Type}

/-- the assignment induced by a partition: dynamic keys from the run-time dictionary, all others from
the build-time dictionary -/
theorem merged_lookup (dyn : List String) (fixed dynVals : List (String × α)) (k : String) :
    alookup (mergedParams dyn fixed dynVals) k =
      if dyn.contains k = true then alookup dynVals k else alookup fixed k :=
  alookup_mergedParams dyn fixed dynVals k

/-- what the model's `freeze` really reads (see `freeze_exact`) -/
theorem freeze_exact_lookup (dyn : List String) (fixed dynVals : List (String × α)) (k : String) :
    alookup (freezeParams dyn fixed dynVals) k =
      if dyn.contains k = true then alookup dynVals k else (alookup fixed k).or (alookup dynVals k) :=
  alookup_freezeParams dyn fixed dynVals k

/-- sufficient for `freezeOK` (1): the build-time dictionary binds every non-dynamic key of `e` -/
theorem freezeOK_of_fixed_covers (dyn : List String) (fixed dynVals : List (String × α)) (ks : List String)
    (h : ∀ k ∈ ks, dyn.contains k = false → (alookup fixed k).isSome = true) :
    freezeOK dyn fixed dynVals ks = true := by
  simp only [freezeOK, List.all_eq_true, Bool.or_eq_true]
  intro k hk
  by_cases hd : dyn.contains k = true
  · exact Or.inl (Or.inl hd)
  · exact Or.inl (Or.inr (h k hk (by simpa using hd)))

/-- sufficient for `freezeOK` (2): the run-time dictionary binds dynamic keys only -/
theorem freezeOK_of_dynVals_dynamic (dyn : List String) (fixed dynVals : List (String × α)) (ks : List String)
    (h : ∀ k ∈ ks, (alookup dynVals k).isSome = true → dyn.contains k = true) :
    freezeOK dyn fixed dynVals ks = true := by
  simp only [freezeOK, List.all_eq_true, Bool.or_eq_true]
  intro k hk
  cases hv : alookup dynVals k with
  | none => exact Or.inr rfl
  | some _ => exact Or.inl (Or.inl (h k hk (by simp [hv])))

/-- a supplied key takes the supplied value -/
theorem defaults_supplied (defaults supplied : List (String × α)) (k : String) (v : α)
    (h : alookup supplied k = some v) : alookup (withDefaults defaults supplied) k = some v := by
  rw [alookup_withDefaults, h]; rfl

/-- an omitted key takes its default -/
theorem defaults_omitted (defaults supplied : List (String × α)) (k : String)
    (h : alookup supplied k = none) :
    alookup (withDefaults defaults supplied) k = alookup defaults k := by
  rw [alookup_withDefaults, h]; rfl

end lookup

variable {α : Type} [Zero α] [Add α] [Sub α] [Mul α] [Div α] [LT α] [DecidableLT α]

/-! ### 1. substitution -/

/-- Substituting the literal `v` for the parameter `p` is the same as evaluating with `p ↦ v`
consed onto the dictionary (first-match lookup, so the new binding overrides any old one). -/
theorem subst (p : String) (v : α) (env : Env α) (e : Expr α) :
    (e.subst p v).eval env = e.eval { env with params := (p, v) :: env.params } :=
  subst_eval p v env e

theorem substList (p : String) (v : α) (env : Env α) (l : List (Expr α)) :
    Expr.evalList env (Expr.substList p v l) =
      Expr.evalList { env with params := (p, v) :: env.params } l :=
  substList_eval p v env l

/-- If the dictionary already binds `p` to `v`, the literal and the named parameter are
interchangeable. -/
theorem subst_bound (p : String) (v : α) (env : Env α) (e : Expr α)
    (h : alookup env.params p = some v) : (e.subst p v).eval env = e.eval env := by
  rw [subst_eval]
  obtain ⟨ps, t, x⟩ := env
  apply eval_congr_params
  intro k _
  rw [alookup_cons]
  by_cases hk : p = k
  · subst hk; simpa using h.symm
  · simp [hk]

theorem substList_bound (p : String) (v : α) (env : Env α) (l : List (Expr α))
    (h : alookup env.params p = some v) :
    Expr.evalList env (Expr.substList p v l) = Expr.evalList env l := by
  rw [substList_eval]
  obtain ⟨ps, t, x⟩ := env
  apply evalList_congr_params
  intro k _
  rw [alookup_cons]
  by_cases hk : p = k
  · subst hk; simpa using h.symm
  · simp [hk]

example : ((Expr.mul (.param "b") (.add (.param "g") .time) : Expr Rat).subst "b" 3).eval ⟨[("g", 2)], 5, []⟩
    = some 21 := by decide +kernel

/-! ### 2. freezing, for every partition of the parameters -/

/-- UNCONDITIONAL description of the model's `freeze`: it evaluates like the unfrozen expression under
`freezeParams`, whose lookup is: dynamic key → run-time dictionary; other key → build-time dictionary,
and only if it is *missing there* → run-time dictionary. -/
theorem freeze_exact (dyn : List String) (fixed dynVals : List (String × α)) (t : α) (x : List α)
    (e : Expr α) :
    (e.freeze dyn fixed).eval ⟨dynVals, t, x⟩ = e.eval ⟨freezeParams dyn fixed dynVals, t, x⟩ :=
  freeze_eval dyn fixed dynVals t x e

theorem freezeList_exact (dyn : List String) (fixed dynVals : List (String × α)) (t : α) (x : List α)
    (l : List (Expr α)) :
    Expr.evalList ⟨dynVals, t, x⟩ (Expr.freezeList dyn fixed l) =
      Expr.evalList ⟨freezeParams dyn fixed dynVals, t, x⟩ l :=
  freezeList_eval dyn fixed dynVals t x l

/-- `C09.freeze_correct`.  For EVERY partition `(dyn, fixed, dynVals)`, every time and state: the
frozen expression evaluated on the run-time dictionary alone equals the original expression evaluated
on the merged assignment — including failure (`none`) — PROVIDED `freezeOK`: every non-dynamic key of
`e` is bound in `fixed`, or is unbound in `dynVals` as well.  (`merged` may be any dictionary with the
merged lookup on `e.params`; `mergedParams dyn fixed dynVals` is one.) -/
theorem freeze_correct (dyn : List String) (fixed dynVals merged : List (String × α)) (t : α) (x : List α)
    (e : Expr α)
    (hmerged : ∀ k ∈ e.params, alookup merged k =
      if dyn.contains k = true then alookup dynVals k else alookup fixed k)
    (hok : freezeOK dyn fixed dynVals e.params = true) :
    (e.freeze dyn fixed).eval ⟨dynVals, t, x⟩ = e.eval ⟨merged, t, x⟩ := by
  rw [freeze_eval]
  apply eval_congr_params
  intro k hk
  rw [alookup_freezeParams, hmerged k hk]
  simp only [freezeOK, List.all_eq_true, Bool.or_eq_true] at hok
  by_cases hd : dyn.contains k = true
  · rw [if_pos hd, if_pos hd]
  · rw [if_neg hd, if_neg hd]
    rcases hok k hk with (h | h) | h
    · exact absurd h hd
    · cases hf : alookup fixed k with
      | none => simp [hf] at h
      | some _ => rfl
    · cases hv : alookup dynVals k with
      | none => simp
      | some _ => simp [hv] at h

/-- the concrete instance with `merged := mergedParams dyn fixed dynVals` -/
theorem freeze_correct_merged (dyn : List String) (fixed dynVals : List (String × α)) (t : α) (x : List α)
    (e : Expr α) (hok : freezeOK dyn fixed dynVals e.params = true) :
    (e.freeze dyn fixed).eval ⟨dynVals, t, x⟩ = e.eval ⟨mergedParams dyn fixed dynVals, t, x⟩ :=
  freeze_correct dyn fixed dynVals _ t x e (fun k _ => alookup_mergedParams dyn fixed dynVals k) hok

/-- `freezeOK` is also NECESSARY: without it the merged evaluation fails (so it differs from every
successful frozen evaluation; see the counterexample below). -/
theorem freeze_merged_fails_without (dyn : List String) (fixed dynVals merged : List (String × α)) (t : α)
    (x : List α) (e : Expr α)
    (hmerged : ∀ k ∈ e.params, alookup merged k =
      if dyn.contains k = true then alookup dynVals k else alookup fixed k)
    (hnot : freezeOK dyn fixed dynVals e.params = false) : e.eval ⟨merged, t, x⟩ = none := by
  have : ∃ k ∈ e.params, alookup merged k = none := by
    rw [freezeOK, List.all_eq_false] at hnot
    obtain ⟨k, hk, hb⟩ := hnot
    refine ⟨k, hk, ?_⟩
    simp only [Bool.or_eq_true, not_or, Bool.not_eq_true] at hb
    rw [hmerged k hk, if_neg (Bool.eq_false_iff.1 hb.1.1)]
    cases hf : alookup fixed k with
    | none => rfl
    | some _ => simp [hf] at hb
  obtain ⟨k, hk, hn⟩ := this
  have hs := eval_isSome ⟨merged, t, x⟩ e
  have hb : allBound merged e.params = false := by
    rw [allBound, List.all_eq_false]; exact ⟨k, hk, by simp [hn]⟩
  rw [hb, Bool.false_and] at hs
  cases h : e.eval ⟨merged, t, x⟩ with
  | none => rfl
  | some _ => rw [h] at hs; cases hs

/-- COUNTEREXAMPLE to `freeze_correct` without `freezeOK` (model as written): a non-dynamic key that is
missing from `fixed` but happens to be present in the run-time dictionary is read from the latter. -/
example : ((Expr.param "a" : Expr Rat).freeze [] []).eval ⟨[("a", 1)], 0, []⟩ = some 1
    ∧ (Expr.param "a" : Expr Rat).eval ⟨mergedParams [] [] [("a", 1)], 0, []⟩ = none := by decide +kernel

/-- non-vacuity of `freeze_correct`: a genuinely mixed partition, both sides succeed with `10` -/
example :
    let e : Expr Rat := .mul (.param "b") (.add (.param "g") .time)
    freezeOK ["b"] [("g", 3), ("b", 100)] [("b", 2)] e.params = true
    ∧ (e.freeze ["b"] [("g", 3), ("b", 100)]).eval ⟨[("b", 2)], 2, []⟩ = some 10
    ∧ e.eval ⟨mergedParams ["b"] [("g", 3), ("b", 100)] [("b", 2)], 2, []⟩ = some 10 := by decide +kernel

/-- `C09.partition_independent`: two partitions inducing the same merged assignment on the
parameters of `e` give the same value (at the same time and state). -/
theorem partition_independent (e : Expr α) (t : α) (x : List α)
    (dyn₁ : List String) (fixed₁ dynVals₁ : List (String × α))
    (dyn₂ : List String) (fixed₂ dynVals₂ : List (String × α))
    (hok₁ : freezeOK dyn₁ fixed₁ dynVals₁ e.params = true)
    (hok₂ : freezeOK dyn₂ fixed₂ dynVals₂ e.params = true)
    (hsame : ∀ k ∈ e.params,
      (if dyn₁.contains k = true then alookup dynVals₁ k else alookup fixed₁ k) =
      (if dyn₂.contains k = true then alookup dynVals₂ k else alookup fixed₂ k)) :
    (e.freeze dyn₁ fixed₁).eval ⟨dynVals₁, t, x⟩ = (e.freeze dyn₂ fixed₂).eval ⟨dynVals₂, t, x⟩ := by
  rw [freeze_correct_merged dyn₁ fixed₁ dynVals₁ t x e hok₁,
    freeze_correct_merged dyn₂ fixed₂ dynVals₂ t x e hok₂]
  apply eval_congr_params
  intro k hk
  rw [alookup_mergedParams, alookup_mergedParams, hsame k hk]

/-- unconditional variant, in terms of what `freeze` really reads -/
theorem partition_independent_exact (e : Expr α) (t : α) (x : List α)
    (dyn₁ : List String) (fixed₁ dynVals₁ : List (String × α))
    (dyn₂ : List String) (fixed₂ dynVals₂ : List (String × α))
    (hsame : ∀ k ∈ e.params, alookup (freezeParams dyn₁ fixed₁ dynVals₁) k =
      alookup (freezeParams dyn₂ fixed₂ dynVals₂) k) :
    (e.freeze dyn₁ fixed₁).eval ⟨dynVals₁, t, x⟩ = (e.freeze dyn₂ fixed₂).eval ⟨dynVals₂, t, x⟩ := by
  rw [freeze_eval, freeze_eval]
  exact eval_congr_params _ _ t x e hsame

example :
    let e : Expr Rat := .mul (.param "b") (.add (.param "g") .time)
    (e.freeze ["b"] [("g", 3)]).eval ⟨[("b", 2)], 2, []⟩ = some 10
    ∧ (e.freeze ["g"] [("b", 2)]).eval ⟨[("g", 3)], 2, []⟩ = some 10
    ∧ (e.freeze [] [("b", 2), ("g", 3)]).eval ⟨[], 2, []⟩ = some 10
    ∧ (e.freeze ["g", "b"] []).eval ⟨[("g", 3), ("b", 2)], 2, []⟩ = some 10 := by decide +kernel

/-! ### 3. input parameters -/

/-- `C09.coincidence`: parameters not mentioned in `e` cannot influence its value. -/
theorem coincidence (p q : List (String × α)) (t : α) (x : List α) (e : Expr α)
    (h : ∀ k ∈ e.params, alookup p k = alookup q k) : e.eval ⟨p, t, x⟩ = e.eval ⟨q, t, x⟩ :=
  eval_congr_params p q t x e h

theorem coincidenceList (p q : List (String × α)) (t : α) (x : List α) (l : List (Expr α))
    (h : ∀ k ∈ Expr.paramsList l, alookup p k = alookup q k) :
    Expr.evalList ⟨p, t, x⟩ l = Expr.evalList ⟨q, t, x⟩ l :=
  evalList_congr_params p q t x l h

/-- `C09.input_params` (exact): evaluation succeeds IFF every key of `e.params` is bound and every
`comp i` leaf indexes into the state.  (`pw`/`lin` evaluate all their sub-expressions, so every
mentioned key is needed, wherever it occurs.) -/
theorem eval_succeeds_iff (env : Env α) (e : Expr α) :
    (e.eval env).isSome = true ↔
      (∀ k ∈ e.params, (alookup env.params k).isSome = true) ∧ compsInRange env.state.length e = true := by
  rw [eval_isSome, Bool.and_eq_true, allBound_iff]

/-- every mentioned parameter is needed -/
theorem input_params (env : Env α) (e : Expr α) (v : α) (h : e.eval env = some v) :
    ∀ k ∈ e.params, (alookup env.params k).isSome = true :=
  ((eval_succeeds_iff env e).1 (by simp [h])).1

/-- a missing input parameter makes evaluation fail, wherever it occurs in `e` -/
theorem missing_param_fails (env : Env α) (e : Expr α) (k : String) (hk : k ∈ e.params)
    (hmiss : alookup env.params k = none) : e.eval env = none := by
  cases h : e.eval env with
  | none => rfl
  | some v => have := input_params env e v h k hk; simp [hmiss] at this

example : (Expr.pw (.const 0) [.const 1] [.const 5, .param "unused_branch"] : Expr Rat).eval ⟨[], 0, []⟩
    = none := by decide +kernel

/-! ### 4. defaults -/

/-- `C09.defaults`: evaluating with `supplied ++ defaults` equals evaluating with any dictionary
realising "supplied value if supplied, default otherwise" on the parameters of `e`. -/
theorem defaults (defaults supplied merged : List (String × α)) (t : α) (x : List α) (e : Expr α)
    (hmerged : ∀ k ∈ e.params, alookup merged k =
      match alookup supplied k with | some v => some v | none => alookup defaults k) :
    e.eval ⟨withDefaults defaults supplied, t, x⟩ = e.eval ⟨merged, t, x⟩ := by
  apply eval_congr_params
  intro k hk
  rw [hmerged k hk, alookup_withDefaults]
  cases alookup supplied k <;> rfl

/-- the model's Python-style `{**defaults, **supplied}` (`dictUpdate`) is such a dictionary when
`supplied` has no duplicate keys (a Python dict) -/
theorem defaults_dictUpdate (dflt supplied : List (String × α)) (t : α) (x : List α) (e : Expr α)
    (hn : (supplied.map Prod.fst).Nodup) :
    e.eval ⟨withDefaults dflt supplied, t, x⟩ = e.eval ⟨dictUpdate dflt supplied, t, x⟩ := by
  apply defaults
  intro k _
  rw [alookup_dictUpdate supplied dflt k hn]
  cases alookup supplied k <;> rfl

example : (Expr.add (.param "a") (.param "b") : Expr Rat).eval
    ⟨withDefaults [("a", 1), ("b", 2)] [("b", 10)], 0, []⟩ = some 11 := by decide +kernel

/-! ### the same statements at an arbitrary ordered field -/
example {F : Type} [Field F] [LinearOrder F] [IsStrictOrderedRing F] (p : String) (v : F) (env : Env F)
    (e : Expr F) : (e.subst p v).eval env = e.eval { env with params := (p, v) :: env.params } :=
  subst p v env e

end Summer.C09

#print axioms Summer.C09.subst
#print axioms Summer.C09.substList
#print axioms Summer.C09.subst_bound
#print axioms Summer.C09.substList_bound
#print axioms Summer.C09.merged_lookup
#print axioms Summer.C09.freeze_exact
#print axioms Summer.C09.freeze_exact_lookup
#print axioms Summer.C09.freezeList_exact
#print axioms Summer.C09.freeze_correct
#print axioms Summer.C09.freeze_correct_merged
#print axioms Summer.C09.freezeOK_of_fixed_covers
#print axioms Summer.C09.freezeOK_of_dynVals_dynamic
#print axioms Summer.C09.freeze_merged_fails_without
#print axioms Summer.C09.partition_independent
#print axioms Summer.C09.partition_independent_exact
#print axioms Summer.C09.coincidence
#print axioms Summer.C09.coincidenceList
#print axioms Summer.C09.eval_succeeds_iff
#print axioms Summer.C09.input_params
#print axioms Summer.C09.missing_param_fails
#print axioms Summer.C09.defaults_supplied
#print axioms Summer.C09.defaults_omitted
#print axioms Summer.C09.defaults
#print axioms Summer.C09.defaults_dictUpdate
