import Summer.Generated.Struct
import Summer.Model.Run
/-
C01 / C04 — the realised weight of a flow is what the SOURCE TEXT of `map_flow_keys` says.

`Summer/Generated/Struct.lean` is regenerated from `/repo/summer2/parameters/param_impl.py` on every run
(`harness/translate/gen_struct.py`): the body of `for i, f in enumerate(m.flows)` in `map_flow_keys` — collect the
parameter and the adjustment parameters in a list, restarting the list at every `Overwrite`, then multiply left to
right — is translated statement by statement (`full_flow[0]` on an empty list would raise `IndexError`; the
translation carries a fallback for that case, and the theorem shows the list is never empty, so the fallback is never
used).  `map_flow_keys_eq` identifies it with `Run.realised`, the definition the C01 (`weight_chain`) and C04
(`copy_weight`) theorems are about.
-/
namespace Summer.Props.C01Source
open Summer Summer.Generated.Struct

section
variable {α : Type}

/-- the list-building step of `map_flow_keys` -/
private def lstep (l : List (Expr α)) (a : Adj α) : List (Expr α) :=
  if Py.isOverwrite a then [Adj.expr a] else l ++ [Adj.expr a]

/-- the model's step -/
private def rstep (acc : Expr α) (a : Adj α) : Expr α :=
  match a with
  | .mul e => .mul acc e
  | .ovr e => e

private theorem chain (adjs : List (Adj α)) (x d : Expr α) (xs : List (Expr α)) :
    ((adjs.foldl lstep (x :: xs)).drop 1).foldl Expr.mul (Py.headOr (adjs.foldl lstep (x :: xs)) d)
      = adjs.foldl rstep (xs.foldl Expr.mul x) := by
  induction adjs generalizing x xs with
  | nil => simp [Py.headOr]
  | cons a as ih =>
    cases a with
    | ovr e =>
      simp only [List.foldl_cons, lstep, Py.isOverwrite, if_true, Adj.expr, rstep]
      simpa using ih e []
    | mul e =>
      simp only [List.foldl_cons, lstep, Py.isOverwrite, Bool.false_eq_true, if_false, Adj.expr, rstep, List.cons_append]
      simpa [List.foldl_append] using ih x (xs ++ [e])

/-- `map_flow_keys` (per flow) -/
theorem map_flow_keys_eq (f : Flow α) : map_flow_keys f = Run.realised f := by
  unfold map_flow_keys Run.realised
  have h := chain f.adjs f.param f.param []
  exact h

end

/-! non-vacuity: a Multiply followed by an Overwrite followed by a Multiply -/
def exFlow : Flow Rat :=
  { kind := .transition, name := "f", src := none, dst := none, param := Expr.param "p",
    adjs := [.mul (.const 2), .ovr (.param "q"), .mul (.const 3)] }
example : map_flow_keys exFlow = Expr.mul (Expr.param "q") (Expr.const 3) := rfl

#print axioms map_flow_keys_eq
end Summer.Props.C01Source
