import Summer.Proofs.IllFormed
import Mathlib.Algebra.Order.Field.Basic
import Mathlib.Tactic.Linarith
/-
C17 — ill-formed model definitions are rejected instead of silently simulated.

Model: the building API of `Summer/Model/Build.lean`; every public call is a pure function
`Model α → … → Res (Model α)` (`Res = Except Err`), "raises" = returns `.error`.
Specification: `Summer/Spec/IllFormed.lean` (`Spec.Call`, `Spec.IllFormed`, one constructor per item
of the property sentence, written from the sentence and not from the guards).

Quantification.  Every `rejects_*` theorem holds for EVERY current model `m` (reachable by the API or
not, stratified or not, with any flows / requests) — there is no hypothesis on `m` at all, so no
valid context lets the defect slip through, at whatever point of the build sequence it is injected.
The theorems are purely structural: they hold over any carrier `α` with the core classes the model
functions need (`LT`, `Zero`, …), in particular over every ordered field and over `Rat`.

`state_unchanged_on_error`: automatic.  All calls are pure functions returning `Except`; a rejected
call returns `.error _` and the caller still holds the old `m` — there is no state to roll back.
(In Python the analogous statement is NOT automatic and is not claimed here: e.g. `stratify_with`
mutates `_mixing_matrices` / `compartments` / `flows` before the age-stratification assertions.)
-/
namespace Summer.Props.C17
open Summer Summer.Build Summer.Spec Summer.Generated Summer.Proofs.IllFormed

section
variable {α : Type} [Zero α] [One α] [Add α] [Sub α] [Div α] [NatCast α] [LT α] [DecidableLT α]

/-! ## 0. The master theorem -/

/-- **C17.**  For every model `m` and every call `c` of the building API: if `c` is ill-formed with
respect to `m` (any of the 28 constructors of `Spec.IllFormed`) then `c` returns an error. -/
theorem rejects (m : Model α) (c : Call α) (h : IllFormed m c) : c.isOk m = false :=
  illFormed_rejected m c h

/-! ## 1. One theorem per defect class, stated directly on the model functions -/

/-! ### constructor -/

omit [Zero α] [One α] [Add α] [Sub α] [Div α] [NatCast α] in
/-- end time not after start time -/
theorem rejects_end_not_after_start (t0 t1 dt : α) (ws : Option Nat) (comps inf : List String)
    (h : ¬ t0 < t1) : (mkModel t0 t1 dt ws comps inf).isOk = false :=
  isOk_false_of fun hok => h (mkModel_isOk.mp hok).1

omit [Zero α] [One α] [Add α] [Sub α] [Div α] [NatCast α] in
/-- timestep not dividing the span: the driver passes `wholeSteps = some k` iff `dt ≠ 0` and
`(t1 - t0) / dt = k ∈ ℕ`, and `none` otherwise -/
theorem rejects_timestep_not_dividing (t0 t1 dt : α) (comps inf : List String) :
    (mkModel t0 t1 dt none comps inf).isOk = false :=
  isOk_false_of fun hok => by simpa using (mkModel_isOk.mp hok).2.1

omit [Zero α] [One α] [Add α] [Sub α] [Div α] [NatCast α] in
/-- an infectious compartment that is not a compartment -/
theorem rejects_infectious_unknown (t0 t1 dt : α) (ws : Option Nat) (comps inf : List String)
    (h : ∃ n ∈ inf, n ∉ comps) : (mkModel t0 t1 dt ws comps inf).isOk = false :=
  let ⟨n, hn, hnot⟩ := h
  isOk_false_of fun hok => hnot ((mkModel_isOk.mp hok).2.2 n hn)

/-! ### `set_initial_population` -/

omit [One α] [Add α] [Sub α] [Div α] [NatCast α] [LT α] [DecidableLT α] in
/-- an initial-distribution key that is not a compartment of the model -/
theorem rejects_init_dist_unknown (m : Model α) (isDict : Bool) (dist : List (String × Expr α))
    (h : ∃ kv ∈ dist, kv.1 ∉ m.origNames) : (setInitialPopulation m isDict dist).isOk = false :=
  let ⟨kv, hkv, hnot⟩ := h
  isOk_false_of fun hok => hnot ((setInitialPopulation_isOk.mp hok).2.2.2 kv hkv)

/-! ### flow-adding calls -/

omit [Zero α] [Add α] [Sub α] [LT α] [DecidableLT α] in
/-- a transition / infection-frequency / infection-density / absolute flow whose source or
destination is not a compartment of the model -/
theorem rejects_flow_comp_unknown (m : Model α) (kind : FlowKind) (name : String) (ok : Bool)
    (p : Expr α) (src dst : String) (ss ds : Strata) (ex : Option Nat)
    (h : src ∉ m.origNames ∨ dst ∉ m.origNames) :
    (addFlow m (.transition kind name ok p src dst ss ds ex)).isOk = false :=
  isOk_false_of fun hok =>
    have := addFlow_transition_isOk.mp hok
    h.elim (fun h1 => h1 this.2.2.2.2.1) (fun h1 => h1 this.2.2.2.1)

omit [Zero α] [Add α] [Sub α] [LT α] [DecidableLT α] in
/-- unequal numbers of matching source and destination compartments -/
theorem rejects_unequal_counts (m : Model α) (kind : FlowKind) (name : String) (ok : Bool)
    (p : Expr α) (src dst : String) (ss ds : Strata) (ex : Option Nat)
    (h : nQueryMatching m src ss ≠ nQueryMatching m dst ds) :
    (addFlow m (.transition kind name ok p src dst ss ds ex)).isOk = false :=
  isOk_false_of fun hok => h (addFlow_transition_isOk.mp hok).2.2.2.2.2.1.symm

omit [Zero α] [Add α] [Sub α] [LT α] [DecidableLT α] in
/-- a second birth flow (crude or replacement, after a crude or replacement one) -/
theorem rejects_second_birth (m : Model α) (op : FlowOp α) (hop : opIsBirth op = true)
    (h : ∃ f ∈ m.flows, IsBirthFlow f) : (addFlow m op).isOk = false := by
  cases op <;> simp only [opIsBirth, Bool.false_eq_true] at hop
  · exact isOk_false_of fun hok => (addFlow_crudeBirth_isOk.mp hok).2.1 h
  · exact isOk_false_of fun hok => (addFlow_replBirth_isOk.mp hok).1 h

omit [Zero α] [Add α] [Sub α] [LT α] [DecidableLT α] in
/-- a duplicated universal-death name: some flow of the model already carries the name -/
theorem rejects_dup_universal_death (m : Model α) (name : String) (ok : Bool) (p : Expr α)
    (h : ∃ f ∈ m.flows, f.name = name) : (addFlow m (.universalDeath name ok p)).isOk = false :=
  isOk_false_of fun hok => (addFlow_universalDeath_isOk.mp hok).2.1 h

omit [Zero α] [Add α] [Sub α] [LT α] [DecidableLT α] in
/-- an unmet flow-count expectation (all five calls that take `expected_flow_count`) -/
theorem rejects_unmet_expectation (m : Model α) (op : FlowOp α) (e : Nat)
    (hex : opExpected op = some e) (h : e ≠ flowsCreated m op) : (addFlow m op).isOk = false := by
  refine isOk_false_of fun hok => h ?_
  cases op <;> simp only [opExpected, flowsCreated] at hex ⊢
  · exact (addFlow_crudeBirth_isOk.mp hok).2.2.2 e hex
  · exact (addFlow_replBirth_isOk.mp hok).2.2 e hex
  · exact (addFlow_importF_isOk.mp hok).2.2.2 e hex
  · exact (addFlow_death_isOk.mp hok).2.2 e hex
  · exact absurd hex (by simp)
  · exact (addFlow_transition_isOk.mp hok).2.2.2.2.2.2 e hex

omit [Zero α] [Add α] [Sub α] [LT α] [DecidableLT α] in
/-- a flow rate that is neither a number nor a graph object (all five calls that take a rate) -/
theorem rejects_bad_rate (m : Model α) (op : FlowOp α) (h : opRateOk op = some false) :
    (addFlow m op).isOk = false := by
  refine isOk_false_of fun hok => ?_
  cases op <;> simp only [opRateOk, Option.some.injEq, reduceCtorEq] at h
  · exact absurd (addFlow_crudeBirth_isOk.mp hok).1 (by simp [h])
  · exact absurd (addFlow_importF_isOk.mp hok).1 (by simp [h])
  · exact absurd (addFlow_death_isOk.mp hok).1 (by simp [h])
  · exact absurd (addFlow_universalDeath_isOk.mp hok).1 (by simp [h])
  · exact absurd (addFlow_transition_isOk.mp hok).1 (by simp [h])

/-! ### `Stratification` objects -/

/-- a flow adjustment that omits a stratum -/
theorem rejects_flow_adj_omits (sp : StratSpec α)
    (h : ∃ d ∈ sp.flowAdj, Omits (stratumNames sp.kind sp.strata) (d.adjs.map (·.1))) :
    (mkStrat sp).isOk = false :=
  let ⟨d, hd, hom⟩ := h
  isOk_false_of fun hok => (mkStrat_isOk_inv hok).flowAdj d hd hom

/-- an infectiousness adjustment that omits a stratum -/
theorem rejects_inf_adj_omits (sp : StratSpec α)
    (h : ∃ ia ∈ sp.infAdj, Omits (stratumNames sp.kind sp.strata) (ia.2.map (·.1))) :
    (mkStrat sp).isOk = false :=
  let ⟨ia, hia, hom⟩ := h
  isOk_false_of fun hok => (mkStrat_isOk_inv hok).infAdj ia hia hom

/-- a literal split that omits a stratum -/
theorem rejects_split_omits (sp : StratSpec α) (props : List (String × Expr α)) (vals : List α)
    (hsp : sp.split = some props) (hlit : LiteralSplit props vals)
    (h : Omits (stratumNames sp.kind sp.strata) (props.map (·.1))) : (mkStrat sp).isOk = false :=
  isOk_false_of fun hok => ((mkStrat_isOk_inv hok).split _ _ hsp hlit).1 h

/-- a literal split with a negative proportion -/
theorem rejects_split_negative (sp : StratSpec α) (props : List (String × Expr α)) (vals : List α)
    (hsp : sp.split = some props) (hlit : LiteralSplit props vals)
    (h : ∃ v ∈ vals, v < 0) : (mkStrat sp).isOk = false :=
  let ⟨v, hv, hneg⟩ := h
  isOk_false_of fun hok => ((mkStrat_isOk_inv hok).split _ _ hsp hlit).2.1 v hv hneg

/-- a literal split whose sum is not strictly within `1/splitTolDen` of one (core-class form) -/
theorem rejects_split_not_sum_one (sp : StratSpec α) (props : List (String × Expr α)) (vals : List α)
    (hsp : sp.split = some props) (hlit : LiteralSplit props vals)
    (h : ¬ (1 - sumL vals < (splitTol : α)) ∨ ¬ (sumL vals - 1 < (splitTol : α))) :
    (mkStrat sp).isOk = false :=
  isOk_false_of fun hok =>
    have := ((mkStrat_isOk_inv hok).split _ _ hsp hlit).2.2
    h.elim (fun h1 => h1 this.1) (fun h1 => h1 this.2)

/-- a mixing matrix set on a strain stratification -/
theorem rejects_mixing_strain_set (sp : StratSpec α) (hk : sp.kind = .strain)
    (hm : sp.mixing.isSome = true) : (mkStrat sp).isOk = false :=
  isOk_false_of fun hok => (mkStrat_isOk_inv hok).mixing ⟨hk, hm⟩

end

/-! ### `stratify_with`
The age checks sit after the compartments and flows have been stratified; the theorems say the call
fails whichever guard fires first. -/
section
variable {α : Type} [One α] [Div α] [NatCast α]

/-- a stratified compartment that is not a compartment of the model -/
theorem rejects_stratified_unknown (m : Model α) (s : Strat α) (h : ∃ c ∈ s.comps, c ∉ m.origNames) :
    (stratifyWith m s).isOk = false :=
  let ⟨c, hc, hnot⟩ := h
  isOk_false_of fun hok => hnot ((stratifyWith_isOk_inv hok).comps c hc)

/-- a flow adjustment naming a flow that the model does not have -/
theorem rejects_adjusted_flow_unknown (m : Model α) (s : Strat α)
    (h : ∃ d ∈ s.flowAdj, ∀ f ∈ m.flows, f.name ≠ d.flow) : (stratifyWith m s).isOk = false :=
  let ⟨d, hd, hnot⟩ := h
  isOk_false_of fun hok =>
    let ⟨f, hf, hname⟩ := (stratifyWith_isOk_inv hok).flowsExist d hd
    hnot f hf hname

/-- an adjustment filter (source or destination strata) naming a stratum that no stratification of
that name has -/
theorem rejects_filter_stratum_unknown (m : Model α) (s : Strat α)
    (h : ∃ d ∈ s.flowAdj, ∃ kv ∈ d.srcStrata ++ d.dstStrata,
      ∀ t ∈ m.strats, t.name = kv.1 → kv.2 ∉ t.strata) : (stratifyWith m s).isOk = false :=
  let ⟨d, hd, kv, hkv, hnot⟩ := h
  isOk_false_of fun hok =>
    let ⟨t, ht, hname, hmem⟩ := (stratifyWith_isOk_inv hok).filters d hd kv hkv
    hnot t ht hname hmem

/-- special case: an adjustment filter naming a stratification the model does not have -/
theorem rejects_filter_stratification_unknown (m : Model α) (s : Strat α)
    (h : ∃ d ∈ s.flowAdj, ∃ kv ∈ d.srcStrata ++ d.dstStrata, ∀ t ∈ m.strats, t.name ≠ kv.1) :
    (stratifyWith m s).isOk = false :=
  let ⟨d, hd, kv, hkv, hnot⟩ := h
  rejects_filter_stratum_unknown m s ⟨d, hd, kv, hkv, fun t ht hn => (hnot t ht hn).elim⟩

/-- a second age stratification -/
theorem rejects_second_age (m : Model α) (s : Strat α) (hk : s.kind = .age)
    (h : ∃ t ∈ m.strats, t.kind = .age) : (stratifyWith m s).isOk = false :=
  isOk_false_of fun hok => ((stratifyWith_isOk_inv hok).age hk).1 h

/-- a second strain stratification -/
theorem rejects_second_strain (m : Model α) (s : Strat α) (hk : s.kind = .strain)
    (h : ∃ t ∈ m.strats, t.kind = .strain) : (stratifyWith m s).isOk = false :=
  isOk_false_of fun hok => (stratifyWith_isOk_inv hok).strain hk h

/-- a duplicated stratification name -/
theorem rejects_dup_strat_name (m : Model α) (s : Strat α) (h : ∃ t ∈ m.strats, t.name = s.name) :
    (stratifyWith m s).isOk = false :=
  isOk_false_of fun hok => (stratifyWith_isOk_inv hok).freshName h

/-- a mixing matrix on a partial stratification; in fact on any stratification whose compartment
list is not literally the model's list of original compartments (Python compares the lists) -/
theorem rejects_mixing_partial (m : Model α) (s : Strat α) (hm : s.mixing.isSome = true)
    (h : s.comps ≠ m.origNames) : (stratifyWith m s).isOk = false :=
  isOk_false_of fun hok => h ((stratifyWith_isOk_inv hok).mixing hm).2

/-- an age stratification that is partial (same remark) -/
theorem rejects_age_partial (m : Model α) (s : Strat α) (hk : s.kind = .age)
    (h : s.comps ≠ m.origNames) : (stratifyWith m s).isOk = false :=
  isOk_false_of fun hok => h ((stratifyWith_isOk_inv hok).age hk).2

/-- (beyond the property sentence) an infectiousness adjustment for a name that is not a compartment -/
theorem rejects_inf_adj_comp_unknown (m : Model α) (s : Strat α)
    (h : ∃ ia ∈ s.infAdj, ia.1 ∉ m.origNames) : (stratifyWith m s).isOk = false :=
  let ⟨ia, hia, hnot⟩ := h
  isOk_false_of fun hok => hnot ((stratifyWith_isOk_inv hok).infComps ia hia)

/-- a strain stratification carrying a mixing matrix -/
theorem rejects_mixing_strain (m : Model α) (s : Strat α) (hk : s.kind = .strain)
    (hm : s.mixing.isSome = true) : (stratifyWith m s).isOk = false :=
  isOk_false_of fun hok => ((stratifyWith_isOk_inv hok).mixing hm).1 hk

end

/-! ### derived-output requests -/
section
variable {α : Type}

/-- output compartments that match no compartment of the model -/
theorem rejects_output_comp_unknown (m : Model α) (name : String) (names : List String)
    (strata : Strata) (save : Bool) (h : ∀ c ∈ m.comps, ∀ n ∈ names, ¬ CompMatches c n strata) :
    (addRequest m ⟨name, .comp names strata, save⟩).isOk = false :=
  isOk_false_of fun hok =>
    let ⟨c, hc, n, hn, hm⟩ := (addRequest_isOk.mp hok).2.2.2 _ _ rfl
    h c hc n hn hm

/-- a derived-output source that does not exist: a flow output matching no flow; an aggregate,
cumulative or function output naming an output that has not been requested -/
theorem rejects_output_source_unknown (m : Model α) (e : ReqEntry α) (h : SourceMissing m e.req) :
    (addRequest m e).isOk = false :=
  isOk_false_of fun hok => (addRequest_isOk.mp hok).2.2.1 h

/-- a duplicated derived-output name -/
theorem rejects_dup_output_name (m : Model α) (e : ReqEntry α) (h : ∃ r ∈ m.requests, r.name = e.name) :
    (addRequest m e).isOk = false :=
  isOk_false_of fun hok => (addRequest_isOk.mp hok).2.1 h

end

/-! ### ordered-field forms of the two numeric defects -/
section
variable {α : Type} [Field α] [LinearOrder α] [IsStrictOrderedRing α]

omit [Field α] [IsStrictOrderedRing α] in
/-- end time before or equal to the start time -/
theorem rejects_end_le_start (t0 t1 dt : α) (ws : Option Nat) (comps inf : List String)
    (h : t1 ≤ t0) : (mkModel t0 t1 dt ws comps inf).isOk = false :=
  rejects_end_not_after_start t0 t1 dt ws comps inf (not_lt.mpr h)

/-- a literal split whose sum differs from one by at least the tolerance `1/100` -/
theorem rejects_split_sum_off (sp : StratSpec α) (props : List (String × Expr α)) (vals : List α)
    (hsp : sp.split = some props) (hlit : LiteralSplit props vals)
    (h : (1 : α) / (splitTolDen : α) ≤ |1 - sumL vals|) : (mkStrat sp).isOk = false := by
  refine rejects_split_not_sum_one sp props vals hsp hlit ?_
  by_contra hcon
  rw [not_or, not_not, not_not] at hcon
  have : |1 - sumL vals| < (splitTol : α) := abs_lt.mpr ⟨by linarith [hcon.2], hcon.1⟩
  exact absurd h (not_le.mpr this)

end

/-! ## 2. Finalised models -/
section
variable {α : Type} [Zero α] [One α] [Add α] [Sub α] [Div α] [NatCast α] [LT α] [DecidableLT α]

/-- **Finalised.**  Once `m.finalized = true`, every flow-adding (`addFlow`, all six constructors),
stratifying (`stratifyWith`), population-setting (`setInitialPopulation`, `initPopArray`,
`adjustPopulationSplit`) and output-requesting (`addRequest`) call returns an error — with ONE
necessary side condition: for `add_universal_death_flows` the model must have at least one original
compartment.  (The call loops over `_original_compartment_names` and only the per-compartment
`_add_exit_flow` asserts `not finalized`; the constructor accepts an empty compartment list, and on
such a model the call is a silent no-op, see `universalDeath_no_compartments`.) -/
theorem finalised (m : Model α) (c : Call α) (hfin : m.finalized = true) (hmut : c.mutates = true)
    (hud : ∀ name ok p, c = .addFlow (.universalDeath name ok p) → m.origNames ≠ []) :
    c.isOk m = false :=
  finalised_rejected m c hfin hmut hud

omit [Zero α] [Add α] [Sub α] [LT α] [DecidableLT α] in
/-- the exception is harmless: without compartments the call changes nothing -/
theorem universalDeath_no_compartments (m m' : Model α) (name : String) (ok : Bool) (p : Expr α)
    (h0 : m.origNames = []) (h : addFlow m (.universalDeath name ok p) = .ok m') : m' = m :=
  universalDeath_noop h0 h

end

/-! ## 3. ReachableB models: "does not exist" read off the current structure

None of the theorems above needs a reachability hypothesis.  `Spec.IllFormed` says "compartment `n`
does not exist" as `n ∉ m.origNames` and "stratum does not exist" as "no stratification of that
name has it".  On models reachable through the API these coincide with the statements about the
*current* compartments and with "the stratification of that name lacks it". -/
section
variable {α : Type} [Zero α] [One α] [Add α] [Sub α] [Mul α] [Div α] [NatCast α] [LT α] [DecidableLT α]

/-- on every reachable model, `origNames` is exactly the set of names of the current (stratified)
compartments, and stratification names are pairwise distinct -/
theorem reachable_names (m : Model α) (hr : ReachableB m) :
    (∀ n, n ∈ m.origNames ↔ ∃ c ∈ m.comps, c.name = n) ∧ (m.strats.map (·.name)).Nodup :=
  ⟨(reachable_wellNamed hr).names, (reachable_wellNamed hr).stratNames⟩

/-- transition-type flow between names one of which no current compartment carries -/
theorem rejects_flow_comp_absent (m : Model α) (hr : ReachableB m) (kind : FlowKind) (name : String)
    (ok : Bool) (p : Expr α) (src dst : String) (ss ds : Strata) (ex : Option Nat)
    (h : (∀ c ∈ m.comps, c.name ≠ src) ∨ (∀ c ∈ m.comps, c.name ≠ dst)) :
    (addFlow m (.transition kind name ok p src dst ss ds ex)).isOk = false :=
  rejects_flow_comp_unknown m kind name ok p src dst ss ds ex <|
    h.imp (fun h hn => let ⟨c, hc, hcn⟩ := ((reachable_wellNamed hr).names src).mp hn; h c hc hcn)
          (fun h hn => let ⟨c, hc, hcn⟩ := ((reachable_wellNamed hr).names dst).mp hn; h c hc hcn)

/-- stratifying a name that no current compartment carries -/
theorem rejects_stratified_absent (m : Model α) (hr : ReachableB m) (s : Strat α)
    (h : ∃ n ∈ s.comps, ∀ c ∈ m.comps, c.name ≠ n) : (stratifyWith m s).isOk = false :=
  let ⟨n, hn, hno⟩ := h
  rejects_stratified_unknown m s ⟨n, hn, fun hmem =>
    let ⟨c, hc, hcn⟩ := ((reachable_wellNamed hr).names n).mp hmem; hno c hc hcn⟩

/-- an adjustment filter naming an existing stratification and a stratum it does not have -/
theorem rejects_filter_stratum_absent (m : Model α) (hr : ReachableB m) (s : Strat α)
    (h : ∃ d ∈ s.flowAdj, ∃ kv ∈ d.srcStrata ++ d.dstStrata,
      ∃ t ∈ m.strats, t.name = kv.1 ∧ kv.2 ∉ t.strata) : (stratifyWith m s).isOk = false :=
  let ⟨d, hd, kv, hkv, t, ht, hname, hnot⟩ := h
  rejects_filter_stratum_unknown m s ⟨d, hd, kv, hkv, fun t' ht' hname' => by
    have : t' = t := eq_of_nodup_map (reachable_wellNamed hr).stratNames ht' ht (hname'.trans hname.symm)
    rw [this]; exact hnot⟩

end

/-! ## 4. Non-vacuity: accepted calls, and a concrete ill-formed call for every `rejects_*` theorem
(all on `Rat`, evaluated by the kernel) -/
namespace Ex

/-- the SIR model `CompartmentalModel((0, 10), ["S","I","R"], ["I"], timestep=1)` -/
def m0 : Model Rat :=
  { t0 := 0, t1 := 10, dt := 1, nTimes := 11,
    comps := [⟨"S", []⟩, ⟨"I", []⟩, ⟨"R", []⟩], origNames := ["S", "I", "R"], infectious := ["I"],
    flows := [], strats := [], mixingCats := [[]], mixingMats := [], strains := ["default"],
    initDist := none, arrayPop := none, actions := [], requests := [], computed := [],
    whitelist := [], finalized := false }

/-- run a list of calls from `m0` (falls back to `m0` if one fails — checked not to happen below) -/
def build (steps : List (Model Rat → Res (Model Rat))) : Model Rat :=
  ((steps.foldlM (fun (m : Model Rat) (f : Model Rat → Res (Model Rat)) => f m) m0).toOption).getD m0

def opInf : FlowOp Rat := .transition .infFreq "infection" true (.const (3/10)) "S" "I" [] [] (some 1)
def opRec : FlowOp Rat := .transition .transition "recovery" true (.const (1/10)) "I" "R" [] [] none
def opBirth : FlowOp Rat := .crudeBirth "birth" true (.const (1/100)) "S" [] (some 1)
def opRepl : FlowOp Rat := .replBirth "rbirth" "S" [] none
def opImp : FlowOp Rat := .importF "imp" true (.const 5) "I" true [] (some 1)
def opDeath : FlowOp Rat := .death "death_i" true (.const (1/20)) "I" [] (some 1)
def opUD : FlowOp Rat := .universalDeath "udeath" true (.const (1/70))

/-- SIR with infection, recovery, crude birth and universal death -/
def m1 : Model Rat := build [(addFlow · opInf), (addFlow · opRec), (addFlow · opBirth), (addFlow · opUD)]

def ones : Matrix (Expr Rat) := [[.const 1, .const 1], [.const 1, .const 1]]
def halfHalf : List (String × Option (Adj Rat)) := [("urban", some (.mul (.const 2))), ("rural", none)]

/-- a full stratification using every setter -/
def spLoc : StratSpec Rat :=
  { kind := .plain, name := "loc", strata := ["urban", "rural"], comps := ["S", "I", "R"],
    split := some [("urban", .const (3/5)), ("rural", .const (2/5))],
    flowAdj := [⟨"infection", halfHalf, [], []⟩],
    infAdj := [("I", halfHalf)], mixing := some ones }
/-- a partial stratification (only `S`) -/
def spPart : StratSpec Rat :=
  { kind := .plain, name := "loc", strata := ["urban", "rural"], comps := ["S"],
    split := none, flowAdj := [], infAdj := [], mixing := none }
def spStrain : StratSpec Rat :=
  { kind := .strain, name := "strain", strata := ["a", "b"], comps := ["I"],
    split := none, flowAdj := [], infAdj := [], mixing := none }

def stratOf (sp : StratSpec Rat) : Strat Rat :=
  ((mkStrat sp).toOption).getD ⟨.plain, "", [], [], [], [], [], none⟩
def sLoc := stratOf spLoc
def sPart := stratOf spPart
def sStrain := stratOf spStrain
/-- an age stratification as `AgeStratification("age", [0, 5], ["S","I","R"])` produces it
(`String.toInt?` does not reduce in the kernel, so this one is written out) -/
def sAge : Strat Rat :=
  { kind := .age, name := "age", strata := ["0", "5"], comps := ["S", "I", "R"],
    split := [("0", .const (1/2)), ("5", .const (1/2))], flowAdj := [], infAdj := [], mixing := none }

/-- `m1` stratified by location (all compartments, with mixing matrix and adjustments) -/
def m2 : Model Rat := build [(addFlow · opInf), (addFlow · opRec), (addFlow · opBirth), (addFlow · opUD),
  (stratifyWith · sLoc)]
/-- `m1` with only `S` stratified -/
def m2p : Model Rat := build [(addFlow · opInf), (addFlow · opRec), (addFlow · opBirth), (addFlow · opUD),
  (stratifyWith · sPart)]
/-- `m1` stratified by strain -/
def m3 : Model Rat := build [(addFlow · opInf), (addFlow · opRec), (addFlow · opBirth), (addFlow · opUD),
  (stratifyWith · sStrain)]

def rInc : ReqEntry Rat := ⟨"incidence", .flow "infection" [] [] false, true⟩
def rPrev : ReqEntry Rat := ⟨"prevalence", .comp ["I"] [], true⟩
/-- `m1` with two derived outputs -/
def m4 : Model Rat := build [(addFlow · opInf), (addFlow · opRec), (addFlow · opBirth), (addFlow · opUD),
  (addRequest · rInc), (addRequest · rPrev)]

/-- the builds above really succeeded -/
example : m1.flows.length = 6 ∧ m2.comps.length = 6 ∧ m2.flows.length = 12 ∧ m2.strats.length = 1 ∧
    m2p.comps.length = 4 ∧ m3.comps.length = 4 ∧ m3.strains = ["a", "b"] ∧ m4.requests.length = 2 ∧
    sLoc.strata = ["urban", "rural"] ∧ sStrain.kind = .strain := by decide +kernel

/-! ### accepted calls (anti-over-rejection) -/

/-- `mkModel` accepts, and produces exactly `m0` -/
example : mkModel (0 : Rat) 10 1 (some 10) ["S", "I", "R"] ["I"] = .ok m0 := by rfl
/-- every flow-adding call accepts -/
example : (addFlow m0 opInf).isOk = true ∧ (addFlow m0 opRec).isOk = true ∧
    (addFlow m0 opBirth).isOk = true ∧ (addFlow m0 opRepl).isOk = true ∧
    (addFlow m0 opImp).isOk = true ∧ (addFlow m0 opDeath).isOk = true ∧
    (addFlow m0 opUD).isOk = true ∧
    (addFlow m1 (.transition .infDens "inf2" true (.param "beta") "S" "I" [] [] (some 1))).isOk = true ∧
    (addFlow m2 (.transition .absolute "move" true (.const 3) "S" "R" [("loc", "urban")] [("loc", "rural")] (some 1))).isOk = true := by
  decide +kernel
/-- `mkStrat` accepts (all setters; plain and strain) -/
example : (mkStrat spLoc).isOk = true ∧ (mkStrat spPart).isOk = true ∧ (mkStrat spStrain).isOk = true := by
  decide +kernel
/-- `stratifyWith` accepts a full stratification with mixing matrix and adjustments, a partial one,
a strain one, and a second (different) stratification of an already stratified model -/
example : (stratifyWith m1 sLoc).isOk = true ∧ (stratifyWith m1 sPart).isOk = true ∧
    (stratifyWith m1 sStrain).isOk = true ∧ (stratifyWith m2 sStrain).isOk = true := by decide +kernel
-- an age stratification is accepted (compiled evaluation; `String.toInt?` is kernel-opaque)
#guard (stratifyWith m1 sAge).isOk
#guard ((stratifyWith m1 sAge).toOption.map (fun m => (m.comps.length, m.flows.length))) == some (6, 14)
-- ... and a second one is refused on the really age-stratified model
#guard ((stratifyWith m1 sAge).toOption.map (fun m => (stratifyWith m { sAge with name := "age2" }).isOk)) == some false
/-- population calls accept -/
example : (setInitialPopulation m0 true [("S", .const 990), ("I", .const 10)]).isOk = true ∧
    (initPopArray m2 [.const 1, .const 2, .const 3, .const 4, .const 5, .const 6]).isOk = true ∧
    (adjustPopulationSplit m2 10000000 ⟨"loc", [], [("urban", .const (1/4)), ("rural", .const (3/4))]⟩).isOk = true := by
  decide +kernel
/-- all six request kinds accept -/
example : (addRequest m1 rInc).isOk = true ∧ (addRequest m1 rPrev).isOk = true ∧
    (addRequest m4 ⟨"total", .agg ["incidence", "prevalence"], true⟩).isOk = true ∧
    (addRequest m4 ⟨"cum", .cum "incidence" none, true⟩).isOk = true ∧
    (addRequest m4 ⟨"f", .func (.const 1) ["prevalence"], true⟩).isOk = true ∧
    (addRequest m4 ⟨"cv", .cv "x", false⟩).isOk = true ∧
    (addRequest m2 ⟨"inc_urban", .flow "infection" [("loc", "urban")] [] false, true⟩).isOk = true := by
  decide +kernel

/-! ### one concrete ill-formed call per theorem (the hypotheses are satisfiable) -/

example : (mkModel (10 : Rat) 10 1 (some 0) ["S"] []).isOk = false :=
  rejects_end_le_start _ _ _ _ _ _ (le_refl _)
example : (mkModel (10 : Rat) 5 1 (some 0) ["S"] []).isOk = false :=
  rejects_end_not_after_start _ _ _ _ _ _ (by decide +kernel)
example : (mkModel (0 : Rat) 10 3 none ["S", "I"] ["I"]).isOk = false :=
  rejects_timestep_not_dividing _ _ _ _ _
example : (mkModel (0 : Rat) 10 1 (some 10) ["S", "I"] ["I", "X"]).isOk = false :=
  rejects_infectious_unknown _ _ _ _ _ _ (by decide)
example : (setInitialPopulation m0 true [("S", .const 990), ("X", .const 10)]).isOk = false :=
  rejects_init_dist_unknown _ _ _ ⟨("X", .const 10), by simp, by decide⟩
example : (addFlow m1 (.transition .transition "t" true (.const 1) "S" "X" [] [] none)).isOk = false :=
  rejects_flow_comp_unknown _ _ _ _ _ _ _ _ _ _ (Or.inr (by decide +kernel))
example : (addFlow m1 (.transition .infFreq "t" true (.const 1) "X" "I" [] [] none)).isOk = false :=
  rejects_flow_comp_unknown _ _ _ _ _ _ _ _ _ _ (Or.inl (by decide +kernel))
/-- two `S` compartments, one `I` compartment -/
example : (addFlow m2p (.transition .transition "t" true (.const 1) "S" "I" [] [] none)).isOk = false :=
  rejects_unequal_counts _ _ _ _ _ _ _ _ _ _ (by decide +kernel)
example : (addFlow m1 opRepl).isOk = false := rejects_second_birth _ _ rfl (by decide +kernel)
example : (addFlow m1 opBirth).isOk = false := rejects_second_birth _ _ rfl (by decide +kernel)
example : (addFlow m1 opUD).isOk = false := rejects_dup_universal_death _ _ _ _ (by decide +kernel)
example : (addFlow m2 (.death "d" true (.const 1) "I" [] (some 1))).isOk = false :=
  rejects_unmet_expectation _ _ 1 rfl (by decide +kernel)
example : (addFlow m2 (.transition .transition "t" true (.const 1) "I" "R" [] [] (some 3))).isOk = false :=
  rejects_unmet_expectation _ _ 3 rfl (by decide +kernel)
example : (addFlow m0 (.importF "i" true (.const 1) "I" false [] (some 0))).isOk = false :=
  rejects_unmet_expectation _ _ 0 rfl (by decide +kernel)
example : (addFlow m0 (.death "d" false (.const 1) "I" [] none)).isOk = false ∧
    (addFlow m0 (.universalDeath "d" false (.const 1))).isOk = false ∧
    (addFlow m0 (.transition .infFreq "d" false (.const 1) "S" "I" [] [] none)).isOk = false :=
  ⟨rejects_bad_rate _ _ rfl, rejects_bad_rate _ _ rfl, rejects_bad_rate _ _ rfl⟩

example : (mkStrat { spPart with flowAdj := [⟨"infection", [("urban", none)], [], []⟩] }).isOk = false :=
  rejects_flow_adj_omits _ (by decide +kernel)
example : (mkStrat { spPart with infAdj := [("I", [("rural", none)])] }).isOk = false :=
  rejects_inf_adj_omits _ (by decide +kernel)
example : (mkStrat { spPart with split := some [("urban", .const 1)] }).isOk = false :=
  rejects_split_omits _ _ [1] rfl rfl (by decide +kernel)
/-- sums to one but has a negative entry -/
example : (mkStrat { spPart with split := some [("urban", .const (3/2)), ("rural", .const (-1/2))] }).isOk = false :=
  rejects_split_negative _ _ [3/2, -1/2] rfl rfl (by decide +kernel)
/-- boundary: the sum is exactly `1 - 1/100` -/
example : (mkStrat { spPart with split := some [("urban", .const (1/2)), ("rural", .const (49/100))] }).isOk = false :=
  rejects_split_sum_off _ _ [1/2, 49/100] rfl rfl (by decide +kernel)
example : (mkStrat { spPart with split := some [("urban", .const (1/2)), ("rural", .const (3/5))] }).isOk = false :=
  rejects_split_not_sum_one _ _ [1/2, 3/5] rfl rfl (Or.inr (by decide +kernel))
example : (mkStrat { spStrain with mixing := some ones }).isOk = false :=
  rejects_mixing_strain_set _ rfl rfl

example : (stratifyWith m1 { sPart with comps := ["S", "X"] }).isOk = false :=
  rejects_stratified_unknown _ _ (by decide +kernel)
example : (stratifyWith m1 { sPart with flowAdj := [⟨"nonexistent", halfHalf, [], []⟩] }).isOk = false :=
  rejects_adjusted_flow_unknown _ _ (by decide +kernel)
/-- `loc` exists in `m2` but has no stratum `alpine` -/
example : (stratifyWith m2 { sStrain with flowAdj := [⟨"infection", [("a", none), ("b", none)], [("loc", "alpine")], []⟩] }).isOk = false :=
  rejects_filter_stratum_unknown _ _ (by decide +kernel)
example : (stratifyWith m2 { sStrain with flowAdj := [⟨"infection", [("a", none), ("b", none)], [], [("zone", "a")]⟩] }).isOk = false :=
  rejects_filter_stratification_unknown _ _ (by decide +kernel)
example : (stratifyWith { m1 with strats := [sAge] } { sAge with name := "age2" }).isOk = false :=
  rejects_second_age _ _ rfl (by decide +kernel)
example : (stratifyWith m3 { sStrain with name := "strain2" }).isOk = false :=
  rejects_second_strain _ _ (by decide +kernel) (by decide +kernel)
example : (stratifyWith m2 sPart).isOk = false := rejects_dup_strat_name _ _ (by decide +kernel)
example : (stratifyWith m1 { sPart with mixing := some ones }).isOk = false :=
  rejects_mixing_partial _ _ rfl (by decide +kernel)
example : (stratifyWith m1 { sAge with comps := ["S", "I"] }).isOk = false :=
  rejects_age_partial _ _ rfl (by decide +kernel)
example : (stratifyWith m1 { sStrain with mixing := some ones }).isOk = false :=
  rejects_mixing_strain _ _ (by decide +kernel) rfl

example : (addRequest m2 ⟨"x", .comp ["I"] [("loc", "alpine")], true⟩).isOk = false :=
  rejects_output_comp_unknown _ _ _ _ _ (by decide +kernel)
example : (addRequest m1 ⟨"x", .flow "nonexistent" [] [] false, true⟩).isOk = false ∧
    (addRequest m4 ⟨"x", .agg ["incidence", "nope"], true⟩).isOk = false ∧
    (addRequest m4 ⟨"x", .cum "nope" none, true⟩).isOk = false ∧
    (addRequest m4 ⟨"x", .func (.const 1) ["nope"], true⟩).isOk = false :=
  ⟨rejects_output_source_unknown _ _ (by decide +kernel), rejects_output_source_unknown _ _ (by decide +kernel),
   rejects_output_source_unknown _ _ (by decide +kernel), rejects_output_source_unknown _ _ (by decide +kernel)⟩
example : (addRequest m4 rPrev).isOk = false := rejects_dup_output_name _ _ (by decide +kernel)

example : (stratifyWith m1 { sPart with infAdj := [("E", halfHalf)] }).isOk = false :=
  rejects_inf_adj_comp_unknown _ _ (by decide +kernel)

/-- the master theorem on one instance -/
example : (Call.addFlow opRepl).isOk m1 = false := rejects m1 _ (.secondBirth rfl (by decide +kernel))

/-! ### finalised -/
def mFin : Model Rat := { m2 with finalized := true }
example : ∀ c ∈ [Call.addFlow opInf, .addFlow opRepl, .addFlow opImp, .addFlow opDeath, .addFlow opUD,
      .addFlow (.crudeBirth "b2" true (.const 1) "S" [] none), .stratifyWith sStrain,
      .setInitialPopulation true [], .initPopArray [],
      .adjustPopulationSplit 10000000 ⟨"loc", [], [("urban", .const (1/4)), ("rural", .const (3/4))]⟩,
      .addRequest rInc], Call.isOk mFin c = false := by
  intro c hc
  refine finalised mFin c rfl ?_ (fun _ _ _ _ => by decide +kernel)
  simp only [List.mem_cons, List.not_mem_nil, or_false] at hc
  rcases hc with rfl | rfl | rfl | rfl | rfl | rfl | rfl | rfl | rfl | rfl | rfl <;> rfl

/-- the side condition of `finalised` is necessary: on a finalised model without compartments
`add_universal_death_flows` does not raise -/
def mEmptyFin : Model Rat := { m0 with comps := [], origNames := [], infectious := [], finalized := true }
example : (addFlow mEmptyFin opUD).isOk = true := by decide +kernel

/-! ### outside the property (NOT claimed, recorded for the record)
Entry and exit flows (`add_crude_birth_flow`, `add_replacement_birth_flow`, `add_importation_flow`
without `split_imports`, `add_death_flow`) naming a compartment that does not exist are NOT rejected —
neither by the model nor by the Python (`_add_entry_flow` / `_add_exit_flow` filter the compartment
list): they silently add zero flows unless `expected_flow_count` is given.  The property sentence
lists only transition/infection flows. -/
example : (addFlow m0 (.death "d" true (.const 1) "X" [] none)).isOk = true ∧
    ((addFlow m0 (.death "d" true (.const 1) "X" [] none)).toOption.map (·.flows.length)) = some 0 ∧
    (addFlow m0 (.crudeBirth "b" true (.const 1) "X" [] none)).isOk = true ∧
    (addFlow m0 (.death "d" true (.const 1) "X" [] (some 1))).isOk = false := by decide +kernel

/-! ### reachable models -/

/-- `m2p` (SIR + four flow calls + partial stratification built by `mkStrat`) is reachable -/
theorem m2p_reachable : ReachableB m2p :=
  .stratify (sp := spPart) (s := sPart)
    (.addFlow (op := opUD) (.addFlow (op := opBirth) (.addFlow (op := opRec) (.addFlow (op := opInf)
      (.mk (t0 := 0) (t1 := 10) (dt := 1) (ws := some 10) (comps := ["S", "I", "R"]) (inf := ["I"]) (m := m0) rfl)
      (m' := build [(addFlow · opInf)]) rfl)
      (m' := build [(addFlow · opInf), (addFlow · opRec)]) rfl)
      (m' := build [(addFlow · opInf), (addFlow · opRec), (addFlow · opBirth)]) rfl)
      (m' := m1) rfl)
    rfl rfl

example : (addFlow m2p (.transition .transition "t" true (.const 1) "S" "E" [] [] none)).isOk = false :=
  rejects_flow_comp_absent _ m2p_reachable _ _ _ _ _ _ _ _ _ (Or.inr (by decide +kernel))
example : (stratifyWith m2p { sStrain with comps := ["E"] }).isOk = false :=
  rejects_stratified_absent _ m2p_reachable _ (by decide +kernel)
example : (stratifyWith m2p { sStrain with flowAdj := [⟨"infection", [("a", none), ("b", none)], [("loc", "alpine")], []⟩] }).isOk = false :=
  rejects_filter_stratum_absent _ m2p_reachable _ (by decide +kernel)

end Ex
end Summer.Props.C17

#print axioms Summer.Props.C17.rejects
#print axioms Summer.Props.C17.rejects_end_not_after_start
#print axioms Summer.Props.C17.rejects_timestep_not_dividing
#print axioms Summer.Props.C17.rejects_infectious_unknown
#print axioms Summer.Props.C17.rejects_init_dist_unknown
#print axioms Summer.Props.C17.rejects_flow_comp_unknown
#print axioms Summer.Props.C17.rejects_unequal_counts
#print axioms Summer.Props.C17.rejects_second_birth
#print axioms Summer.Props.C17.rejects_dup_universal_death
#print axioms Summer.Props.C17.rejects_unmet_expectation
#print axioms Summer.Props.C17.rejects_bad_rate
#print axioms Summer.Props.C17.rejects_flow_adj_omits
#print axioms Summer.Props.C17.rejects_inf_adj_omits
#print axioms Summer.Props.C17.rejects_split_omits
#print axioms Summer.Props.C17.rejects_split_negative
#print axioms Summer.Props.C17.rejects_split_not_sum_one
#print axioms Summer.Props.C17.rejects_mixing_strain_set
#print axioms Summer.Props.C17.rejects_stratified_unknown
#print axioms Summer.Props.C17.rejects_adjusted_flow_unknown
#print axioms Summer.Props.C17.rejects_filter_stratum_unknown
#print axioms Summer.Props.C17.rejects_filter_stratification_unknown
#print axioms Summer.Props.C17.rejects_second_age
#print axioms Summer.Props.C17.rejects_second_strain
#print axioms Summer.Props.C17.rejects_dup_strat_name
#print axioms Summer.Props.C17.rejects_mixing_partial
#print axioms Summer.Props.C17.rejects_age_partial
#print axioms Summer.Props.C17.rejects_inf_adj_comp_unknown
#print axioms Summer.Props.C17.rejects_mixing_strain
#print axioms Summer.Props.C17.rejects_output_comp_unknown
#print axioms Summer.Props.C17.rejects_output_source_unknown
#print axioms Summer.Props.C17.rejects_dup_output_name
#print axioms Summer.Props.C17.rejects_end_le_start
#print axioms Summer.Props.C17.rejects_split_sum_off
#print axioms Summer.Props.C17.finalised
#print axioms Summer.Props.C17.universalDeath_no_compartments
#print axioms Summer.Props.C17.reachable_names
#print axioms Summer.Props.C17.rejects_flow_comp_absent
#print axioms Summer.Props.C17.rejects_stratified_absent
#print axioms Summer.Props.C17.rejects_filter_stratum_absent
