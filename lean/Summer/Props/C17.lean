import Summer.Model.Build
namespace Summer.Props.C17
theorem placeholder : True := trivial
end Summer.Props.C17
#print axioms Summer.Props.C17.placeholder
