import Summer.Generated.PipelineSrc
/-
C01 / C07 / C08 / C10 — the run closure is what the SOURCE TEXT of `model_impl.py::build_run_model` says.

`Generated/PipelineSrc.lean::run_model` is emitted only when the parameter-handling, solver-dispatch and pipeline statements of
`build_run_model` (and of its closure `run_model`) are present in the source in the pinned order.  `run_model_eq` identifies it with
`Pipeline.runModel`, the function the JSON driver executes for every `run` of the correspondence (`Driver/Main.lean::runModel`), i.e. the
composition through which the solver theorems (C07), the right-hand side theorems (C01, C02, C05, C10, C18) and the derived-output theorems
(C08, C14) are compared with the real code: initial population and rates under THIS call's parameters, the trajectory of the right-hand
side over the model's grid, flow rows of that trajectory, derived outputs under the captured derived-output parameters updated by this call.
-/
namespace Summer.Props.C07Pipeline
open Summer Summer.Run Summer.Pipeline Summer.Generated.PipelineSrc

section
variable {α : Type} [Zero α] [One α] [Add α] [Sub α] [Mul α] [Div α] [NatCast α] [LT α] [DecidableLT α]

theorem run_model_eq (m : Model α) (b : Backend) (solve : (List α → α → List α) → List α → List α → List (List α))
    (doBase params : List (String × α)) : run_model m b solve doBase params = runModel m b solve doBase params := rfl

/-- the trajectory returned is the solver applied to the model's right-hand side, started at the initial population, on the model's grid -/
theorem run_model_outputs (m : Model α) (b : Backend) (solve : (List α → α → List α) → List α → List α → List (List α))
    (doBase params : List (String × α)) (outs : List (List α)) (d : List (String × List α))
    (h : run_model m b solve doBase params = some (outs, d)) :
    ∃ x0, initialPopulation m params = some x0 ∧ outs = solve (fieldFn m b params) x0 (modelTimes m) := by
  simp only [run_model, Option.bind_eq_bind, Option.bind_eq_some_iff, Option.pure_def, Option.some.injEq, Prod.mk.injEq] at h
  obtain ⟨x0, hx, _, _, fc, _, h⟩ := h
  obtain ⟨dd, _, h1, _⟩ := h
  exact ⟨x0, hx, h1.symm⟩


/-- `one_step(p, t, x)` with explicit time and state is one evaluation of the right-hand side (`Run.step`, whose rates are the documented
per-flow laws: `C01.step_eq_spec`, and whose translation from the source is `C01Rates.generated_rates_eq_step`) -/
theorem one_step_explicit (m : Model α) (b : Backend) (params : List (String × α)) (t : α) (x : List α) :
    one_step m b params (some t) (some x) = step m b params t x := rfl

/-- with the defaults it is evaluated at the first model time and the initial population under the same parameters -/
theorem one_step_defaults (m : Model α) (b : Backend) (params : List (String × α)) :
    one_step m b params none none = (initialPopulation m params).bind (fun x0 => step m b params ((modelTimes m).getD 0 0) x0) := by
  unfold one_step
  cases initialPopulation m params <;> rfl


/-- the derived outputs returned are `Derived.derivedOutputs` (the object of the C08 / C14 theorems) of the returned trajectory, of the flow
rows evaluated at each row's own time and state (`Derived.flowsForOutputs`, C10), under the captured derived-output parameters updated by
this call's parameters -/
theorem run_model_derived (m : Model α) (b : Backend) (solve : (List α → α → List α) → List α → List α → List (List α))
    (doBase params : List (String × α)) (outs : List (List α)) (d : List (String × List α))
    (h : run_model m b solve doBase params = some (outs, d)) :
    ∃ flows cvs, Derived.flowsForOutputs m b params (modelTimes m) outs = some (flows, cvs) ∧
      Derived.derivedOutputs m { times := modelTimes m, outputs := outs, flows := flows, computed := cvs, params := params ++ doBase } = some d := by
  simp only [run_model, Option.bind_eq_bind, Option.bind_eq_some_iff, Option.pure_def, Option.some.injEq, Prod.mk.injEq] at h
  obtain ⟨x0, hx, _, _, fc, hf, h⟩ := h
  obtain ⟨dd, hd, h1, h2⟩ := h
  subst h1 h2
  exact ⟨fc.1, fc.2, hf, hd⟩

end

#print axioms run_model_derived
#print axioms one_step_explicit
#print axioms one_step_defaults
#print axioms run_model_eq
#print axioms run_model_outputs

end Summer.Props.C07Pipeline
