import Summer.Props.C07
import Summer.Props.C07Pipeline
import Summer.Props.C01Step
/-
C12 end to end — the SHAPE of what a successful run returns, read from the source text of `build_run_model.run_model`
(`C07Pipeline.run_model_eq`): one output row per model time, in the order of the model's times, row 0 is the model's initial population,
and every row has exactly one entry per compartment (in the model's compartment order — the rows are states of the model's own right-hand
side) — for Euler, RK4 and the adaptive solver with every tableau, controller, fuel and initial step.
-/
namespace Summer.Props.C12EndToEnd
open Summer Summer.Run Summer.Pipeline Summer.Solvers Summer.Spec.Solvers Summer.Proofs Summer.Proofs.Solvers Summer.Proofs.EndToEnd
  Summer.Generated.PipelineSrc Summer.Props.C07Pipeline

variable {α : Type} [Field α] [LinearOrder α] [IsStrictOrderedRing α]

/-- The closure handed to the solvers always returns one rate per compartment (zero vector where undefined). -/
theorem fieldFn_length (m : Model α) (b : Backend) (hp : prepare m = .ok b) (params : List (String × α))
    (y : List α) (t : α) : (fieldFn m b params y t).length = m.comps.length := by
  unfold fieldFn rhs
  cases hstep : step m b params t y with
  | none => simp
  | some s =>
    obtain ⟨w, mix, ci, _, _, _, rfl⟩ := (step_some_iff m b params t y s).1 hstep
    exact Proofs.compRates_length (backendFor_of_prepare m b hp) _

theorem run_shape (m : Model α) (b : Backend) (hp : prepare m = .ok b)
    (doBase params : List (String × α)) (outs : List (List α)) (d : List (String × List α))
    (hne : modelTimes m ≠ [])
    (hx0 : ∀ x0, initialPopulation m params = some x0 → x0.length = m.comps.length)
    (solve : (List α → α → List α) → List α → List α → List (List α))
    (hsolve : (solve = fun f x0 ts => euler f x0 ts) ∨ (solve = fun f x0 ts => rk4 f x0 ts) ∨
      ∃ (tb : Tableau α) (_ : FitColSums tb.fitRows) (ctl : Control α) (fuel : Nat) (dt0 : α),
        solve = fun f x0 ts => odeint tb ctl f fuel dt0 x0 ts)
    (h : run_model m b solve doBase params = some (outs, d)) :
    ∃ x0, initialPopulation m params = some x0 ∧ outs.length = (modelTimes m).length ∧ outs.getD 0 [] = x0 ∧
      ∀ r ∈ outs, r.length = m.comps.length := by
  obtain ⟨x0, hx, ho⟩ := run_model_outputs m b solve doBase params outs d h
  have hF : FieldOK m.comps.length (fun _ : List α => (0 : α)) (fieldFn m b params) :=
    fun y t _ => ⟨fieldFn_length m b hp params y t, rfl⟩
  have hL := linOn_const_zero (α := α) m.comps.length
  subst ho
  rcases hsolve with rfl | rfl | ⟨tb, hfit, ctl, fuel, dt0, rfl⟩
  · have hr := Summer.Props.C07.euler_rows (fieldFn m b params) x0 (modelTimes m) hne
    exact ⟨x0, hx, hr.1, hr.2.1, fun r hr' => (euler_linear hL hF x0 (hx0 x0 hx) _ r hr').1⟩
  · have hr := Summer.Props.C07.rk4_rows (fieldFn m b params) x0 (modelTimes m) hne
    exact ⟨x0, hx, hr.1, hr.2.1, fun r hr' => (rk4_linear hL hF x0 (hx0 x0 hx) _ r hr').1⟩
  · have hr := (Summer.Props.C07.row0 tb ctl (fieldFn m b params) fuel dt0 x0 (modelTimes m) hne).2.2
    exact ⟨x0, hx, hr.2, hr.1, fun r hr' => (odeint_linear hL tb hfit ctl hF fuel dt0 x0 (hx0 x0 hx) _ r hr').1⟩

#print axioms fieldFn_length
#print axioms run_shape
end Summer.Props.C12EndToEnd
