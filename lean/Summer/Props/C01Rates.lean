import Summer.Generated.Rates
import Summer.Generated.BackendSrc
import Summer.Proofs.Rates
import Summer.Proofs.Aggregate
/-
C01 / C02 / C05 / C10 / C18 — the right-hand side of the model's ODE is what the SOURCE TEXT of
`summer2/runner/jax/model_impl.py` says.

`Summer/Generated/Rates.lean` is regenerated from `/repo` on every run (`harness/translate/gen_rates.py`): the bodies of
`clean_compartments`, `get_force_of_infection`, the closures `get_infectious_multipliers`, `get_flow_weights`,
`get_flow_rates`, the application matrix and the closure returned by `build_get_compartment_rates`, and `get_rates` are
translated statement by statement into list programs over the array vocabulary of `Summer/Model/JaxPrelude.lean`.
The theorems below identify each generated definition with the hand-written definition the property theorems are about:

  `clean_compartments_eq`            = `cleanV`                       (C01 "negative values count as zero", C18)
  `get_force_of_infection_eq`        = `Run.forceOfInfection`         (C05)
  `get_infectious_multipliers_eq`    = `Run.infectiousMultipliers`    (C05: the masked per-strain scatter is the per-flow lookup)
  `get_flow_weights_entry`           entry-wise meaning of the weight scatter (C01, C10: the value at the current graph outputs)
  `get_flow_rates_eq`                = `Run.flowRates` at the CLEANED state, the CURRENT time and graph values (C01, C10)
  `application_matrix_eq`, `get_compartment_rates_eq` = `Run.applicationMatrix`, `Run.compRates`  (C01, C02)
  `get_rates_eq`                     composition

so a change of the source text of one of these functions changes a definition that a theorem depends on: either the tie
still holds (harmless rewrite inside the translated subset) or this file stops compiling.
-/
set_option linter.unusedSectionVars false
namespace Summer.Props.C01Rates
open Summer Summer.Run Summer.Generated.Rates

section lists
variable {α : Type}

/-- a read-modify-write scatter over distinct indices reads the ORIGINAL array -/
theorem foldl_rmw_eq_jsetMany {β : Type} (f : α → β → α) (d : α) (idx : List Nat) (vals : List β) (a : List α)
    (h : idx.Nodup) :
    (idx.zip vals).foldl (fun acc im => acc.set im.1 (f (acc.getD im.1 d) im.2)) a
      = jsetMany a idx (List.zipWith f (idx.map (fun i => a.getD i d)) vals) := by
  induction idx generalizing a vals with
  | nil => simp [jsetMany]
  | cons i is ih =>
    cases vals with
    | nil => simp [jsetMany]
    | cons v vs =>
      rw [List.nodup_cons] at h
      simp only [List.zip_cons_cons, List.foldl_cons, List.map_cons, List.zipWith_cons_cons, jsetMany, jset]
      rw [ih vs _ h.2]
      have hmap : ∀ w, is.map (fun j => (a.set i w).getD j d) = is.map (fun j => a.getD j d) := by
        intro w
        apply List.map_congr_left
        intro j hj
        rw [Proofs.getD_set]
        have : ¬ i = j := fun e => h.1 (e ▸ hj)
        simp [this]
      simp only [jsetMany, jset, hmap]

theorem foldl_rmw_const_eq_jsetMany (g : α → α) (d : α) (idx : List Nat) (a : List α) (h : idx.Nodup) :
    idx.foldl (fun acc i => acc.set i (g (acc.getD i d))) a = jsetMany a idx ((idx.map (fun i => a.getD i d)).map g) := by
  induction idx generalizing a with
  | nil => simp [jsetMany]
  | cons i is ih =>
    rw [List.nodup_cons] at h
    simp only [List.foldl_cons, List.map_cons, jsetMany, jset, List.zip_cons_cons]
    rw [ih _ h.2]
    have hmap : ∀ w, is.map (fun j => (a.set i w).getD j d) = is.map (fun j => a.getD j d) := by
      intro w
      apply List.map_congr_left
      intro j hj
      rw [Proofs.getD_set]
      have : ¬ i = j := fun e => h.1 (e ▸ hj)
      simp [this]
    simp only [jsetMany, jset, hmap]

theorem atSetAll_guard (a : List α) (idx : List Nat) (v : α) :
    (if (idx.length != 0) = true then Jax.atSetAll a idx v else a) = idx.foldl (fun acc i => acc.set i v) a := by
  cases idx with
  | nil => simp
  | cons i is => simp [Jax.atSetAll]

/-- one strain's masked update, entry by entry -/
theorem mask_step [Mul α] [Zero α] {β : Type} (pairs : List β) (key : β → Nat) (g c : β → α) (s : Nat) :
    Jax.atMaskSet (pairs.map g) (Jax.maskEq (pairs.map key) s)
        (vmul (Jax.maskTake (pairs.map g) (Jax.maskEq (pairs.map key) s))
              (Jax.maskTake (pairs.map c) (Jax.maskEq (pairs.map key) s)))
      = pairs.map (fun p => if key p == s then g p * c p else g p) := by
  induction pairs with
  | nil => simp [Jax.atMaskSet, Jax.maskEq]
  | cons p ps ih =>
    simp only [Jax.maskEq] at ih
    by_cases h : (key p == s) = true
    · simp only [List.map_cons, Jax.maskEq, h, Jax.maskTake, vmul, List.zipWith_cons_cons, Jax.atMaskSet, if_true]
      congr 1
    · simp only [Bool.not_eq_true] at h
      simp only [List.map_cons, Jax.maskEq, h, Jax.maskTake, Jax.atMaskSet, Bool.false_eq_true, if_false]
      congr 1

theorem range_map_getD_zip {β γ δ : Type} (A : List β) (B : List γ) (dA : β) (dB : γ) (h : B.length = A.length)
    (F : β → γ → δ) :
    (List.range A.length).map (fun s => F (A.getD s dA) (B.getD s dB)) = (A.zip B).map (fun p => F p.1 p.2) := by
  apply List.ext_getElem
  · simp [h]
  · intro i h1 h2
    simp only [List.length_map, List.length_range] at h1
    simp [h1, h ▸ h1]

end lists

section ties
variable {α γ δ κ : Type} [Zero α] [One α] [Add α] [Sub α] [Mul α] [Div α] [LT α] [DecidableLT α]

/-- `clean_compartments` -/
theorem clean_compartments_eq (x : List α) : clean_compartments x = cleanV x := rfl

/-- `get_force_of_infection` -/
theorem get_force_of_infection_eq (iv inf : List α) (ci : List (List Nat)) (mix : Matrix α) (cp : List α) :
    get_force_of_infection iv inf ci mix cp = forceOfInfection iv inf ci mix cp := by
  simp [get_force_of_infection, forceOfInfection, Jax.sumRows, Jax.take2, List.map_map, Function.comp_def]

/-- the dense application matrix of `build_get_compartment_rates` -/
theorem application_matrix_eq (b : Backend) : application_matrix (α := α) b = applicationMatrix b := rfl

/-- the closure `build_get_compartment_rates` returns -/
theorem get_compartment_rates_eq (b : Backend) (x fr : List α) : get_compartment_rates b x fr = compRates b fr := rfl

/-- `get_rates` hands the flow rates of this evaluation to the application matrix -/
theorem get_rates_eq (b : Backend) (fro : List α → α → List α) (x : List α) (t : α) :
    get_rates b fro x t = (fro x t, compRates b (fro x t)) := rfl

/-- `get_flow_rates`: the rates are `Run.flowRates` evaluated at the CLEANED state, with the weights and the multipliers
of THIS evaluation (current time, cleaned current state, current graph values).  The index arrays of a backend built by
`prepare_structural` are duplicate-free (`idxWhere_nodup`). -/
theorem get_flow_rates_eq (b : Backend) (hinf : b.infFlowIdx.Nodup) (hrepl : b.replIdx.Nodup)
    (ts : α → List α → γ) (gcv : γ → δ) (gfw : γ → List α → List α)
    (gim : α → List α → γ → List (List α) → List α) (x : List α) (t : α) (sfw : List α) (ci : List (List α)) :
    get_flow_rates b ts gcv gfw gim x t sfw ci =
      (flowRates b (gfw (ts t (cleanV x)) sfw) (cleanV x) (gim t (cleanV x) (ts t (cleanV x)) ci),
       gcv (ts t (cleanV x))) := by
  unfold get_flow_rates flowRates
  simp +zetaHave only [clean_compartments_eq, atSetAll_guard]
  generalize vmul (gfw (ts t (cleanV x)) sfw) _ = r0
  generalize gim t (cleanV x) (ts t (cleanV x)) ci = mu
  have e1 : List.foldl (fun acc im => acc.set im.1 (acc.getD im.1 0 * im.2)) r0 (b.infFlowIdx.zip mu)
      = jsetMany r0 b.infFlowIdx (vmul (gather r0 b.infFlowIdx) mu) :=
    foldl_rmw_eq_jsetMany (fun a m => a * m) 0 _ _ _ hinf
  have e2 : ∀ (r : List α) (dd : α), List.foldl (fun acc i => acc.set i (acc.getD i 0 * dd)) r b.replIdx
      = jsetMany r b.replIdx (List.map (fun x_ => x_ * dd) (gather r b.replIdx)) :=
    fun r dd => foldl_rmw_const_eq_jsetMany (fun a => a * dd) 0 _ _ hrepl
  simp only [e1, e2]

omit [Zero α] [One α] [Add α] [Sub α] [Mul α] [Div α] [LT α] [DecidableLT α] in
theorem atSetAll_length (a : List α) (idx : List Nat) (v : α) : (Jax.atSetAll a idx v).length = a.length := by
  unfold Jax.atSetAll
  induction idx generalizing a with
  | nil => rfl
  | cons i is ih => simp [List.foldl_cons, ih]

/-- the weight scatter, written as the fold it is -/
theorem get_flow_weights_fold (gval : γ → κ → α) (tv : List (κ × List Nat)) (cur : γ) (static : List α) :
    get_flow_weights gval tv cur static = tv.foldl (fun acc kv => Jax.atSetAll acc kv.2 (gval cur kv.1)) static := rfl

theorem get_flow_weights_length (gval : γ → κ → α) (tv : List (κ × List Nat)) (cur : γ) (static : List α) :
    (get_flow_weights gval tv cur static).length = static.length := by
  rw [get_flow_weights_fold]
  induction tv generalizing static with
  | nil => rfl
  | cons kv rest ih => simp only [List.foldl_cons]; rw [ih, atSetAll_length]

/-- `get_flow_weights`, entry by entry: flow `j` carries the CURRENT graph value of the last time-varying key whose
index list contains `j`, and its static weight when no key does (C01 weight delivery, C10 no stale value) -/
theorem get_flow_weights_entry (gval : γ → κ → α) (tv : List (κ × List Nat)) (cur : γ) (static : List α) (j : Nat)
    (hj : j < static.length) :
    (get_flow_weights gval tv cur static).getD j 0 =
      match tv.reverse.find? (fun kv => kv.2.contains j) with
      | some kv => gval cur kv.1
      | none => static.getD j 0 := by
  induction tv using List.reverseRecOn with
  | nil => simp [get_flow_weights_fold]
  | append_singleton init last ih =>
    rw [get_flow_weights_fold, List.foldl_append, List.foldl_cons, List.foldl_nil, ← get_flow_weights_fold]
    unfold Jax.atSetAll
    rw [Proofs.foldl_set_const_getD _ _ _ _ _ (by rw [get_flow_weights_length]; exact hj)]
    rw [List.reverse_append, List.reverse_singleton, List.singleton_append, List.find?_cons]
    by_cases hm : j ∈ last.2
    · simp [hm]
    · simp only [hm, if_false, List.contains_eq_mem, decide_false]
      simpa only [List.contains_eq_mem] using ih

end ties

section multipliers
variable {α : Type} [Zero α] [One α] [Mul α]

/-- the multiplier of the infection flow with (strain, category) lookup `p` once the strains `< k` have been processed -/
def gk (P : Nat → List α) (k : Nat) (p : Nat × Nat) : α := if p.1 < k then 1 * (P p.1).getD p.2 0 else 1

theorem gk_succ (P : Nat → List α) (k : Nat) (p : Nat × Nat) :
    (if p.1 == k then gk P k p * (P k).getD p.2 0 else gk P k p) = gk P (k + 1) p := by
  unfold gk
  by_cases h : p.1 = k
  · subst h; simp
  · have h1 : (p.1 == k) = false := by simpa using h
    have h2 : p.1 < k + 1 ↔ p.1 < k := by omega
    simp [h1, h2]

/-- the strain loop of `get_infectious_multipliers(debug=True)` -/
theorem fold_debug (A B P : Nat → List α) (pairs : List (Nat × Nat)) (n : Nat) (a0 b0 : List (List α)) :
    (List.range n).foldl (fun (acc : List (List α) × List (List α) × List (List α) × List α) s =>
        (acc.1 ++ [A s], acc.2.1 ++ [B s], acc.2.2.1 ++ [P s],
          Jax.atMaskSet acc.2.2.2 (Jax.maskEq (pairs.map Prod.fst) s)
            (vmul (Jax.maskTake acc.2.2.2 (Jax.maskEq (pairs.map Prod.fst) s))
                  (Jax.maskTake (gather (P s) (pairs.map Prod.snd)) (Jax.maskEq (pairs.map Prod.fst) s)))))
      (a0, b0, [], pairs.map (gk P 0))
    = (a0 ++ (List.range n).map A, b0 ++ (List.range n).map B, (List.range n).map P, pairs.map (gk P n)) := by
  induction n with
  | zero => simp
  | succ n ih =>
    rw [List.range_succ, List.foldl_append, ih]
    simp only [List.foldl_cons, List.foldl_nil, List.map_append, List.map_cons, List.map_nil, List.append_assoc]
    have hg : gather (P n) (pairs.map Prod.snd) = pairs.map (fun p => (P n).getD p.2 0) := by
      simp [gather, List.map_map, Function.comp_def]
    rw [hg, mask_step pairs Prod.fst (gk P n) (fun p => (P n).getD p.2 0) n]
    simp only [gk_succ]

/-- the strain loop of `get_infectious_multipliers(debug=False)` -/
theorem fold_nodebug (A B P : Nat → List α) (pairs : List (Nat × Nat)) (n : Nat) (a0 b0 : List (List α)) :
    (List.range n).foldl (fun (acc : List (List α) × List (List α) × List α) s =>
        (acc.1 ++ [A s], acc.2.1 ++ [B s],
          Jax.atMaskSet acc.2.2 (Jax.maskEq (pairs.map Prod.fst) s)
            (vmul (Jax.maskTake acc.2.2 (Jax.maskEq (pairs.map Prod.fst) s))
                  (Jax.maskTake (gather (P s) (pairs.map Prod.snd)) (Jax.maskEq (pairs.map Prod.fst) s)))))
      (a0, b0, pairs.map (gk P 0))
    = (a0 ++ (List.range n).map A, b0 ++ (List.range n).map B, pairs.map (gk P n)) := by
  induction n with
  | zero => simp
  | succ n ih =>
    rw [List.range_succ, List.foldl_append, ih]
    simp only [List.foldl_cons, List.foldl_nil, List.map_append, List.map_cons, List.map_nil, List.append_assoc]
    have hg : gather (P n) (pairs.map Prod.snd) = pairs.map (fun p => (P n).getD p.2 0) := by
      simp [gather, List.map_map, Function.comp_def]
    rw [hg, mask_step pairs Prod.fst (gk P n) (fun p => (P n).getD p.2 0) n]
    simp only [gk_succ]

end multipliers

section multipliers_tie
variable {α γ : Type} [Zero α] [One α] [Add α] [Sub α] [Mul α] [Div α] [LT α] [DecidableLT α]

theorem get_infectious_multipliers_debug_eq (b : Backend) (hp : b.procType.isSome = true)
    (hlen : b.strainCatIdx.length = b.strainInfIdx.length)
    (hlk : b.infStrainLookup.length = b.infFlowIdx.length) (hck : b.infCatLookup.length = b.infFlowIdx.length)
    (hs : ∀ s ∈ b.infStrainLookup, s < b.strainInfIdx.length)
    (gmix : γ → Matrix α) (t : α) (x : List α) (cur : γ) (compInf : List α) :
    get_infectious_multipliers_debug b gmix t x cur (b.strainInfIdx.map (gather compInf))
      = infectiousMultipliers b x (gmix cur) compInf := by
  obtain ⟨pairs, hf, hc⟩ : ∃ pairs : List (Nat × Nat),
      b.infStrainLookup = pairs.map Prod.fst ∧ b.infCatLookup = pairs.map Prod.snd :=
    ⟨b.infStrainLookup.zip b.infCatLookup, (List.map_fst_zip (by omega)).symm, (List.map_snd_zip (by omega)).symm⟩
  have hn : b.infFlowIdx.length = pairs.length := by rw [← hlk, hf, List.length_map]
  unfold get_infectious_multipliers_debug infectiousMultipliers
  simp +zetaHave only []
  rw [hf] at hs
  rw [hf, hc, hn]
  rw [← List.zip_of_prod rfl rfl]
  have h1 : ∀ P : Nat → List α, List.replicate pairs.length (1 : α) = pairs.map (gk P 0) := by
    intro P
    have : gk P 0 = fun _ => (1 : α) := by funext p; simp [gk]
    rw [this, List.map_const']
  rw [h1, fold_debug]
  simp only [get_force_of_infection_eq]
  -- the per-strain vectors
  have hgd : ∀ s, (List.map (gather compInf) b.strainInfIdx).getD s [] = gather compInf (b.strainInfIdx.getD s []) := by
    intro s
    simp only [List.getD_eq_getElem?_getD, List.getElem?_map]
    cases b.strainInfIdx[s]? <;> simp [gather]
  simp only [hgd]
  have hper := range_map_getD_zip b.strainInfIdx b.strainCatIdx [] [] hlen
    (fun inf cat => if (b.procType == some true) = true then
        (forceOfInfection (gather x inf) (gather compInf inf) cat (gmix cur) (Jax.sumRows (Jax.take2 x b.catIdx))).2
      else (forceOfInfection (gather x inf) (gather compInf inf) cat (gmix cur) (Jax.sumRows (Jax.take2 x b.catIdx))).1)
  have hP : ∀ s : Nat,
      (if (b.procType == some true) = true then
          (forceOfInfection (gather x (b.strainInfIdx.getD s [])) (gather compInf (b.strainInfIdx.getD s []))
            (b.strainCatIdx.getD s []) (gmix cur) (Jax.sumRows (Jax.take2 x b.catIdx))).2
        else if (b.procType == some false) = true then
          (forceOfInfection (gather x (b.strainInfIdx.getD s [])) (gather compInf (b.strainInfIdx.getD s []))
            (b.strainCatIdx.getD s []) (gmix cur) (Jax.sumRows (Jax.take2 x b.catIdx))).1
        else [])
      = (if (b.procType == some true) = true then
          (forceOfInfection (gather x (b.strainInfIdx.getD s [])) (gather compInf (b.strainInfIdx.getD s []))
            (b.strainCatIdx.getD s []) (gmix cur) (Jax.sumRows (Jax.take2 x b.catIdx))).2
        else
          (forceOfInfection (gather x (b.strainInfIdx.getD s [])) (gather compInf (b.strainInfIdx.getD s []))
            (b.strainCatIdx.getD s []) (gmix cur) (Jax.sumRows (Jax.take2 x b.catIdx))).1) := by
    intro s
    cases hpt : b.procType with
    | none => simp [hpt] at hp
    | some v => cases v <;> simp
  simp only [hP]
  have hcat : Jax.sumRows (Jax.take2 x b.catIdx) = List.map (fun row => sumL (gather x row)) b.catIdx := by
    simp [Jax.sumRows, Jax.take2, List.map_map, Function.comp_def]
  rw [hcat] at hper ⊢
  rw [hper]
  refine Prod.ext ?_ rfl
  simp only []
  apply List.map_congr_left
  intro p hpm
  have hlt : p.1 < b.strainInfIdx.length := hs p.1 (List.mem_map_of_mem hpm)
  unfold gk
  have hget : ∀ (P : Nat → List α) (s n : Nat), s < n → ((List.range n).map P).getD s [] = P s := by
    intro P s n hsn; simp [List.getD_eq_getElem?_getD, hsn]
  rw [if_pos hlt, ← hper, hget _ _ _ hlt]

end multipliers_tie

section prepared
variable {α : Type}

theorem mapM_except_forall {β γ ε : Type} (g : β → Except ε γ) (Q : γ → Prop) :
    ∀ (l : List β) (out : List γ), l.mapM g = .ok out → (∀ a ∈ l, ∀ o, g a = .ok o → Q o) → ∀ o ∈ out, Q o
  | [], out, h, _ => by
      intro o ho
      simp only [List.mapM_nil, pure, Except.pure, Except.ok.injEq] at h
      subst h
      cases ho
  | a :: l, out, h, hq => by
      rw [List.mapM_cons] at h
      cases hga : g a with
      | error e => simp [hga, bind, Except.bind] at h
      | ok o =>
        cases hl : l.mapM g with
        | error e => simp [hga, hl, bind, Except.bind] at h
        | ok os =>
          simp [hga, hl, bind, Except.bind, pure, Except.pure] at h
          subst h
          intro o' ho'
          rcases List.mem_cons.mp ho' with rfl | hmem
          · exact hq a (by simp) _ hga
          · exact mapM_except_forall g Q l os hl (fun a' ha' => hq a' (by simp [ha'])) o' hmem

/-- the index tables of a backend built by `prepare` satisfy every hypothesis of the ties in this file -/
theorem prepare_tables_wf (m : Model α) (b : Backend) (h : prepare m = .ok b) :
    b.infFlowIdx.Nodup ∧ b.replIdx.Nodup ∧ b.strainCatIdx.length = b.strainInfIdx.length ∧
    b.infStrainLookup.length = b.infFlowIdx.length ∧ b.infCatLookup.length = b.infFlowIdx.length ∧
    (∀ s ∈ b.infStrainLookup, s < b.strainInfIdx.length) := by
  unfold prepare at h
  simp only [bind, Except.bind] at h
  split at h
  · contradiction
  split at h
  · contradiction
  split at h
  · contradiction
  split at h
  · contradiction
  rename_i _ sc hsc
  split at h
  · contradiction
  rename_i _ lk hlk
  split at h
  · contradiction
  simp only [pure, Except.pure, Except.ok.injEq] at h
  have hlen := Proofs.mapM_except_length _ _ _ hlk
  have hsclen := Proofs.mapM_except_length _ _ _ hsc
  have hlt : ∀ o ∈ lk, o.1 < m.strains.length := by
    refine mapM_except_forall _ (fun o => o.1 < m.strains.length) _ _ hlk ?_
    intro f _ o ho
    simp only [bind, Except.bind, pure, Except.pure] at ho
    split at ho
    · rename_i si hsi
      simp only [Except.ok.injEq] at ho
      subst ho
      have := Summer.Proofs.indexOf?_some _ _ _ hsi
      exact (List.getElem?_eq_some_iff.mp this).1
    · simp [fail] at ho
  subst h
  dsimp only
  refine ⟨Proofs.idxWhere_nodup _ _, Proofs.idxWhere_nodup _ _, ?_, ?_, ?_, ?_⟩
  · simpa using hsclen
  · simp [Proofs.idxWhere_length, hlen]
  · simp [Proofs.idxWhere_length, hlen]
  · intro s hs
    simp only [List.mem_map] at hs
    obtain ⟨o, ho, rfl⟩ := hs
    simpa using hlt o ho

end prepared

section multipliers_tie
variable {α γ : Type} [Zero α] [One α] [Add α] [Sub α] [Mul α] [Div α] [LT α] [DecidableLT α]

theorem foldl_rel {σ τ ι : Type} (R : σ → τ → Prop) (f : σ → ι → σ) (g : τ → ι → τ) (l : List ι) (s0 : σ) (t0 : τ)
    (h0 : R s0 t0) (hstep : ∀ s t i, R s t → R (f s i) (g t i)) : R (l.foldl f s0) (l.foldl g t0) := by
  induction l generalizing s0 t0 with
  | nil => exact h0
  | cons i is ih => exact ih _ _ (hstep _ _ _ h0)

/-- without `debug` the closure returns the first component of what it returns with `debug` -/
theorem get_infectious_multipliers_eq_debug (b : Backend) (gmix : γ → Matrix α) (t : α) (x : List α) (cur : γ)
    (ci : List (List α)) :
    get_infectious_multipliers b gmix t x cur ci = (get_infectious_multipliers_debug b gmix t x cur ci).1 := by
  unfold get_infectious_multipliers get_infectious_multipliers_debug
  simp +zetaHave only []
  refine foldl_rel (fun (s t : List (List α) × List (List α) × List (List α) × List α) => s.2.2.2 = t.2.2.2)
    _ _ _ _ _ rfl ?_
  intro s t i h
  simp only [] at h ⊢
  rw [h]

/-- `get_infectious_multipliers`: one multiplier per infection flow, looked up by (strain, mixing category) -/
theorem get_infectious_multipliers_eq (b : Backend) (hp : b.procType.isSome = true)
    (hlen : b.strainCatIdx.length = b.strainInfIdx.length)
    (hlk : b.infStrainLookup.length = b.infFlowIdx.length) (hck : b.infCatLookup.length = b.infFlowIdx.length)
    (hs : ∀ s ∈ b.infStrainLookup, s < b.strainInfIdx.length)
    (gmix : γ → Matrix α) (t : α) (x : List α) (cur : γ) (compInf : List α) :
    get_infectious_multipliers b gmix t x cur (b.strainInfIdx.map (gather compInf))
      = (infectiousMultipliers b x (gmix cur) compInf).1 := by
  rw [get_infectious_multipliers_eq_debug, get_infectious_multipliers_debug_eq b hp hlen hlk hck hs]

end multipliers_tie

section backend
variable {α : Type}

/-- `ModelBackend.prepare_structural` (with the helpers it calls): the index tables the runner reads are those of `Run.prepare`, the
definition `C01.backend_wf`, `prepare_tables_wf` and every `prepare m = .ok b` hypothesis of the property theorems are about -/
theorem prepare_structural_eq (m : Model α) : Generated.BackendSrc.prepare_structural m = prepare m := rfl

end backend

section capstone
variable {α : Type} [Zero α] [One α] [Add α] [Sub α] [Mul α] [Div α] [LT α] [DecidableLT α]

/-- without infection flows the multiplier argument of `flowRates` is not read -/
theorem flowRates_no_infection (b : Backend) (hn : b.procType = none) (w xc mu mu' : List α) :
    flowRates b w xc mu = flowRates b w xc mu' := by
  unfold flowRates
  simp [hn]

/-- `get_flow_rates` for a backend built by `prepare_structural` -/
theorem get_flow_rates_prepared {γ δ : Type} (m : Model α) (b : Backend) (hb : prepare m = .ok b)
    (ts : α → List α → γ) (gcv : γ → δ) (gfw : γ → List α → List α)
    (gim : α → List α → γ → List (List α) → List α) (x : List α) (t : α) (sfw : List α) (ci : List (List α)) :
    get_flow_rates b ts gcv gfw gim x t sfw ci =
      (flowRates b (gfw (ts t (cleanV x)) sfw) (cleanV x) (gim t (cleanV x) (ts t (cleanV x)) ci),
       gcv (ts t (cleanV x))) :=
  get_flow_rates_eq b (prepare_tables_wf m b hb).1 (prepare_tables_wf m b hb).2.1 ts gcv gfw gim x t sfw ci

/-- `get_infectious_multipliers` for a backend built by `prepare_structural` -/
theorem get_infectious_multipliers_prepared {γ : Type} (m : Model α) (b : Backend) (hb : prepare m = .ok b)
    (hp : b.procType.isSome = true) (gmix : γ → Matrix α) (t : α) (x : List α) (cur : γ) (compInf : List α) :
    get_infectious_multipliers b gmix t x cur (b.strainInfIdx.map (gather compInf))
      = (infectiousMultipliers b x (gmix cur) compInf).1 := by
  obtain ⟨_, _, h3, h4, h5, h6⟩ := prepare_tables_wf m b hb
  exact get_infectious_multipliers_eq b hp h3 h4 h5 h6 gmix t x cur compInf

/-- CAPSTONE: the translated pipeline `get_rates ∘ get_flow_rates ∘ get_infectious_multipliers`, fed with the weights,
mixing matrix and compartment infectiousness of this evaluation, returns exactly the flow rates and compartment rates of
the hand model's `Run.step` — the object of `C01.step_eq_spec`, `C02.total_rate`, `C05.foi_eq_spec`, `C18.quasi_positive`. -/
theorem generated_rates_eq_step (m : Model α) (b : Backend) (hb : prepare m = .ok b) (params : List (String × α))
    (t : α) (x : List α) (out : StepOut α) (hstep : step m b params t x = some out) :
    get_rates b (fun x' t' =>
        (get_flow_rates b (fun _ _ => ()) (fun _ => ()) (fun _ _ => out.weights)
          (fun t'' xc'' g ci' => get_infectious_multipliers b (fun _ => out.mixing) t'' xc'' g ci')
          x' t' [] (b.strainInfIdx.map (gather out.compInf))).1) x t
      = (out.flowRates, out.compRates) := by
  unfold step at hstep
  simp only [Option.bind_eq_bind, Option.bind_eq_some_iff, Option.pure_def, Option.some.injEq] at hstep
  obtain ⟨static, _, w, _, mix, _, ci, _, rfl⟩ := hstep
  rw [get_rates_eq, get_flow_rates_prepared m b hb]
  simp only []
  cases hpt : b.procType with
  | none =>
    have h0 : b.procType.isSome = false := by simp [hpt]
    rw [flowRates_no_infection b hpt _ _ _ []]
    simp
  | some v =>
    have h1 : b.procType.isSome = true := by simp [hpt]
    rw [get_infectious_multipliers_prepared m b hb h1]
    simp

end capstone

/-! non-vacuity: a backend with two mixing categories, two strains and three infection flows (compartments
`S_a S_b I1_a I1_b I2_a I2_b`; flows: infection by strain 1 in a, by strain 2 in b, by strain 1 in b; a death flow and a
replacement birth) meets every hypothesis, and the translated programs compute non-trivial values on it -/
def exB : Backend :=
  { nComps := 6, nFlows := 5, populationIdx := [0, 1, 1, 2, 0], nonPopIdx := [4], crudeIdx := [], replIdx := [4],
    deathIdx := [3], infFlowIdx := [0, 1, 2], posMap := [(0, 2), (1, 5), (2, 3), (4, 0)], negMap := [(0, 0), (1, 1), (2, 1), (3, 2)],
    catIdx := [[0, 2, 4], [1, 3, 5]], categoryLookup := [0, 1, 0, 1, 0, 1], strainInfIdx := [[2, 3], [4, 5]],
    strainCatIdx := [[[0], [1]], [[0], [1]]], infStrainLookup := [0, 1, 0], infCatLookup := [0, 1, 1], procType := some true }

example : exB.procType.isSome = true ∧ exB.infFlowIdx.Nodup ∧ exB.replIdx.Nodup ∧
    exB.strainCatIdx.length = exB.strainInfIdx.length ∧ exB.infStrainLookup.length = exB.infFlowIdx.length ∧
    exB.infCatLookup.length = exB.infFlowIdx.length ∧ (∀ s ∈ exB.infStrainLookup, s < exB.strainInfIdx.length) := by
  decide +kernel

/-- mixing matrix [[1,2],[3,4]], state with a negative entry, infectiousness 2 on `I1_b` -/
example : get_infectious_multipliers_debug (α := Rat) (γ := Unit) exB (fun _ => [[1, 2], [3, 4]]) 0 [50, 30, 10, 5, 40, 15] ()
      [[1, 2], [1, 1]]
    = ([1 * (1 * (10 / 100) + 2 * (10 / 50)), 1 * (3 * (40 / 100) + 4 * (15 / 50)), 1 * (3 * (10 / 100) + 4 * (10 / 50))],
       [[1 * (10 / 100) + 2 * (10 / 50), 3 * (10 / 100) + 4 * (10 / 50)],
        [1 * (40 / 100) + 2 * (15 / 50), 3 * (40 / 100) + 4 * (15 / 50)]]) := by
  decide +kernel

example : (get_flow_rates (α := Rat) (γ := Unit) (δ := Unit) exB (fun _ _ => ()) (fun _ => ()) (fun _ _ => [2, 3, 5, 1 / 10, 1 / 2])
      (fun _ _ _ _ => [1 / 2, 1 / 3, 1 / 5]) [50, -30, 10, 5, 40, 15] 0 [] []).1
    = [2 * 50 * (1 / 2), 0, 0, 1 / 10 * 10, 1 / 2 * (1 / 10 * 10)] := by
  decide +kernel

example : get_compartment_rates (α := Rat) exB [] [7, 11, 13, 17, 19] = [-7 + 19, -11 - 13, 7 - 17, 13, 0, 11] := by
  decide +kernel

example : get_flow_weights (α := Rat) (γ := Unit) (κ := String) (fun _ k => if k == "a" then 7 else 9)
      [("a", [0, 2]), ("b", [2])] () [1, 2, 3, 4] = [7, 2, 9, 4] := by
  decide +kernel

#print axioms prepare_structural_eq
#print axioms clean_compartments_eq
#print axioms get_force_of_infection_eq
#print axioms application_matrix_eq
#print axioms get_compartment_rates_eq
#print axioms get_rates_eq
#print axioms get_flow_rates_eq
#print axioms get_flow_weights_entry
#print axioms get_infectious_multipliers_debug_eq
#print axioms get_infectious_multipliers_eq_debug
#print axioms get_infectious_multipliers_eq
#print axioms prepare_tables_wf
#print axioms get_flow_rates_prepared
#print axioms get_infectious_multipliers_prepared
#print axioms generated_rates_eq_step

end Summer.Props.C01Rates
