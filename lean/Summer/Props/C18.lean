import Summer.Model.Run
namespace Summer.Props.C18
theorem placeholder : True := trivial
end Summer.Props.C18
#print axioms Summer.Props.C18.placeholder
