import Summer.Proofs.Rates
/-
C18 — no (population-proportional) flow draws from an empty compartment: the rate function is
quasi-positive, and the infection multipliers are non-negative.
-/
namespace Summer.C18
open Summer Summer.Run Summer.Spec Summer.Proofs

section
variable {α : Type} [Field α] [LinearOrder α] [IsStrictOrderedRing α]

/-- `clean_compartments` never returns a negative entry -/
theorem clean_nonneg (x : List α) : ∀ v ∈ cleanV x, 0 ≤ v := cleanV_NN x

/-- a non-positive entry is cleaned to exactly zero -/
theorem clean_zero (x : List α) (c : Nat) (h : x.getD c 0 ≤ 0) : (cleanV x).getD c 0 = 0 :=
  cleanV_getD_of_nonpos x c h

/-- With non-negative weights, multipliers and (cleaned) state, every flow rate is non-negative. -/
theorem flowRates_nonneg (m : Model α) (b : Backend) (h : prepare m = .ok b) (w xc mults : List α)
    (hwl : w.length = m.flows.length) (hw : ∀ v ∈ w, 0 ≤ v) (hx : ∀ v ∈ xc, 0 ≤ v) (hm : ∀ v ∈ mults, 0 ≤ v) :
    ∀ v ∈ flowRates b w xc mults, 0 ≤ v :=
  flowRates_NN (backendFor_of_prepare m b h) w xc mults hwl hw hx hm

/-- Quasi-positivity.  If every flow whose source is compartment `c` is population-proportional
(transition, infection or death — i.e. not an `absolute` flow, and not an entry-kind flow that was
given a source), all weights, multipliers and cleaned-state entries are non-negative and compartment
`c` is empty, then the rate of compartment `c` is non-negative.  `c` is any natural number. -/
theorem quasi_positive (m : Model α) (b : Backend) (h : prepare m = .ok b) (c : Nat)
    (hsrc : ∀ f ∈ m.flows, Spec.srcIx m f = some c → Spec.isSourced f.kind = true)
    (w xc mults : List α) (hwl : w.length = m.flows.length)
    (hw : ∀ v ∈ w, 0 ≤ v) (hm : ∀ v ∈ mults, 0 ≤ v) (hx : ∀ v ∈ xc, 0 ≤ v) (hxc : xc.getD c 0 = 0) :
    0 ≤ (compRates b (flowRates b w xc mults)).getD c 0 :=
  quasi_positive_aux (backendFor_of_prepare m b h) w xc mults hwl hw hx hm c hsrc hxc

/-- The same with the hypothesis in the form "entry-kind flows have no source (`entryOk`, true of all
API-built models) and no `absolute` flow has source `c`". -/
theorem quasi_positive' (m : Model α) (b : Backend) (h : prepare m = .ok b) (c : Nat)
    (hentry : Spec.entryOk m = true)
    (habs : ∀ f ∈ m.flows, f.kind = .absolute → Spec.srcIx m f ≠ some c)
    (w xc mults : List α) (hwl : w.length = m.flows.length)
    (hw : ∀ v ∈ w, 0 ≤ v) (hm : ∀ v ∈ mults, 0 ≤ v) (hx : ∀ v ∈ xc, 0 ≤ v) (hxc : xc.getD c 0 = 0) :
    0 ≤ (compRates b (flowRates b w xc mults)).getD c 0 := by
  refine quasi_positive m b h c ?_ w xc mults hwl hw hm hx hxc
  intro f hf hs
  have he := List.all_eq_true.1 hentry f hf
  have hsome : f.src.isNone = false := by
    cases hsrc : f.src with
    | none => simp [Spec.srcIx, hsrc] at hs
    | some _ => rfl
  cases hk : f.kind
  case absolute => exact absurd hs (habs f hf hk)
  all_goals first | rfl | (simp [hk, hsome, Spec.isEntryKind] at he)

/-- Corollary on raw states: the state `x` is arbitrary (entries of any sign); whenever `x[c] ≤ 0` the
rate of compartment `c` computed from the cleaned state is non-negative. -/
theorem quasi_positive_raw (m : Model α) (b : Backend) (h : prepare m = .ok b) (c : Nat)
    (hsrc : ∀ f ∈ m.flows, Spec.srcIx m f = some c → Spec.isSourced f.kind = true)
    (w x mults : List α) (hwl : w.length = m.flows.length)
    (hw : ∀ v ∈ w, 0 ≤ v) (hm : ∀ v ∈ mults, 0 ≤ v) (hxc : x.getD c 0 ≤ 0) :
    0 ≤ (compRates b (flowRates b w (cleanV x) mults)).getD c 0 :=
  quasi_positive m b h c hsrc w (cleanV x) mults hwl hw hm (clean_nonneg x) (clean_zero x c hxc)

/-- The infection multipliers (and the per-strain force-of-infection vectors) are non-negative when
the state, the mixing matrix and the compartment infectiousness are.  This holds for ANY backend and
for both the density and the frequency process; for frequency no positivity of the category
populations is needed because in a field `a / 0 = 0`, so each prevalence `infPop / catPop` is `≥ 0`
as soon as numerator and denominator are `≥ 0`. -/
theorem multipliers_nonneg (b : Backend) (x : List α) (mix : Matrix α) (compInf : List α)
    (hx : ∀ v ∈ x, 0 ≤ v) (hmix : ∀ row ∈ mix, ∀ v ∈ row, 0 ≤ v) (hci : ∀ v ∈ compInf, 0 ≤ v) :
    (∀ v ∈ (infectiousMultipliers b x mix compInf).1, 0 ≤ v) ∧
    (∀ l ∈ (infectiousMultipliers b x mix compInf).2, ∀ v ∈ l, 0 ≤ v) :=
  infectiousMultipliers_NN b x mix compInf hx hmix hci

/-- All together, for the rate function the solvers see: with non-negative weights, mixing matrix and
infectiousness, a compartment whose raw value is `≤ 0` and from which only population-proportional
flows draw has a non-negative rate. -/
theorem quasi_positive_step (m : Model α) (b : Backend) (h : prepare m = .ok b) (c : Nat)
    (hsrc : ∀ f ∈ m.flows, Spec.srcIx m f = some c → Spec.isSourced f.kind = true)
    (w x compInf : List α) (mix : Matrix α) (hwl : w.length = m.flows.length)
    (hw : ∀ v ∈ w, 0 ≤ v) (hmix : ∀ row ∈ mix, ∀ v ∈ row, 0 ≤ v) (hci : ∀ v ∈ compInf, 0 ≤ v)
    (hxc : x.getD c 0 ≤ 0) :
    0 ≤ (compRates b (flowRates b w (cleanV x)
      (infectiousMultipliers b (cleanV x) mix compInf).1)).getD c 0 :=
  quasi_positive_raw m b h c hsrc w x _ hwl hw
    (multipliers_nonneg b (cleanV x) mix compInf (clean_nonneg x) hmix hci).1 hxc

end

/-! ## non-vacuity, and the `absolute`-flow exception -/
section example_
def cS : Comp := ⟨"S", []⟩
def cI : Comp := ⟨"I", []⟩
def cR : Comp := ⟨"R", []⟩

def exModel : Model Rat :=
  { t0 := 0, t1 := 10, dt := 1, nTimes := 11,
    comps := [cS, cI, cR], origNames := ["S", "I", "R"], infectious := ["I"],
    flows := [
      { kind := .infFreq, name := "infection", src := some cS, dst := some cI, param := .const 2, adjs := [] },
      { kind := .transition, name := "recovery", src := some cI, dst := some cR, param := .const (1/2), adjs := [] },
      { kind := .death, name := "death", src := some cI, dst := none, param := .const (1/10), adjs := [] },
      { kind := .crudeBirth, name := "births", src := none, dst := some cS, param := .const (1/50), adjs := [] },
      { kind := .absolute, name := "waning", src := some cR, dst := some cS, param := .const 3, adjs := [] } ],
    strats := [], mixingCats := [[]], mixingMats := [], strains := ["default"],
    initDist := none, arrayPop := none, actions := [], requests := [], computed := [], whitelist := [],
    finalized := true }

example : (prepare exModel).toOption.isSome = true := by decide
example : Spec.entryOk exModel = true := by decide
/-- compartments S (0) and I (1) satisfy the hypothesis; R (2), the source of the absolute flow, does not -/
example : (∀ f ∈ exModel.flows, Spec.srcIx exModel f = some 0 → Spec.isSourced f.kind = true) ∧
    (∀ f ∈ exModel.flows, Spec.srcIx exModel f = some 1 → Spec.isSourced f.kind = true) ∧
    ¬ (∀ f ∈ exModel.flows, Spec.srcIx exModel f = some 2 → Spec.isSourced f.kind = true) := by decide

/-- state with S below zero and I, R empty: the rates of S and I are `≥ 0`; the rate of the empty
compartment R is `-3` because of the absolute flow — the exception in the hypothesis is necessary. -/
example : (prepare exModel).toOption.map (fun b =>
      compRates b (flowRates b ([2, 1/2, 1/10, 1/50, 3] : List Rat) (cleanV [-5, 0, 0]) [0])) = some [3, 0, -3] := by
  decide +kernel
example : (prepare exModel).toOption.map (fun b =>
      compRates b (flowRates b ([2, 1/2, 1/10, 1/50, 3] : List Rat) (cleanV [-5, 40, 10]) [4/5])) = some [4, -24, 17] := by
  decide +kernel
/-- the multipliers really are computed by division by a category population that may be zero -/
example : (prepare exModel).toOption.map (fun b => (infectiousMultipliers b (cleanV [-5, 0, 0]) [[1]] [1, 1, 1]).1)
    = some [(0 : Rat)] ∧
    (prepare exModel).toOption.map (fun b => (infectiousMultipliers b (cleanV [-5, 40, 10]) [[1]] [1, 1, 1]).1)
    = some [(4/5 : Rat)] := by decide +kernel
end example_

#print axioms clean_nonneg
#print axioms clean_zero
#print axioms flowRates_nonneg
#print axioms quasi_positive
#print axioms quasi_positive'
#print axioms quasi_positive_raw
#print axioms multipliers_nonneg
#print axioms quasi_positive_step

end Summer.C18
