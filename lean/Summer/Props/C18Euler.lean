import Summer.Proofs.EndToEnd
import Summer.Props.C07
/-
C18 (discrete corollary) — explicit Euler keeps a compartment non-negative as long as the step does
not exceed the reciprocal of the compartment's total out-coefficient, and can overshoot otherwise.

Quasi-positivity (`C18.quasi_positive`) says the rate of an EMPTY compartment is `≥ 0`; for the exact
flow of the differential equation this keeps trajectories non-negative.  For the fixed-step explicit
Euler scheme `y' = y + h·f(y,t)` it only does so under a step-size restriction, stated and proved
here; the `example`s at the end show that the restriction is sharp.  This is why the property's
trajectory sentence is about the exact flow / the adaptive solver and not about `solvers.euler`.

Model: `Run.step`, `Run.rhs`, `Run.flowRates`, `Run.compRates`, `Solvers.eulerStep`, `Solvers.euler`.
Specification: `Spec.inflow`, `Spec.outflow`, `Spec.EndToEnd.outCoefs`, `Spec.EndToEnd.outCoef`,
`Spec.EndToEnd.field`.
-/
namespace Summer.C18Euler
open Summer Summer.Run Summer.Spec Summer.Spec.EndToEnd Summer.Proofs Summer.Proofs.EndToEnd

set_option linter.unusedSectionVars false

variable {α : Type} [Field α] [LinearOrder α] [IsStrictOrderedRing α]

/-- **The arithmetic, for any rate vector.**  Let `r` be non-negative flow rates and `k` a vector of
coefficients such that every flow out of compartment `c` has rate `k_i · yc` (`yc ≥ 0` the value of
compartment `c`).  If `h ≥ 0` and `h · Σ_{i : src i = c} k_i ≤ 1` then one Euler update of compartment
`c`, `yc + h·(inflow − outflow)`, is `≥ 0`. -/
theorem euler_nonneg_of_coefs (m : Model α) (r k : List α) (c : Nat) (yc h : α)
    (hr : r.length = m.flows.length) (hk : k.length = m.flows.length)
    (hrate : ∀ i (hi : i < m.flows.length), Spec.srcIx m m.flows[i] = some c → r.getD i 0 = k.getD i 0 * yc)
    (hrn : ∀ v ∈ r, 0 ≤ v) (hy : 0 ≤ yc) (hh : 0 ≤ h) (hK : h * Spec.outflow m k c ≤ 1) :
    0 ≤ yc + h * (Spec.inflow m r c - Spec.outflow m r c) :=
  euler_core yc _ _ _ h hy (inflow_nonneg m r hrn c) hh (outflow_scale m r k yc c hr hk hrate) hK

/-- **The outflow of a compartment is linear in its own value.**  If only population-proportional
flows (transition, infection, death) draw from compartment `c`, the total outflow of `c` at the
(cleaned) state `xc` is `outCoef · xc[c]`, where `outCoef` is the sum over the flows with source `c` of
the flow's weight (times its infection multiplier for an infection flow). -/
theorem outflow_linear (m : Model α) (b : Backend) (h : prepare m = .ok b) (hs : Spec.sourcedOk m = true)
    (c : Nat) (hsrc : ∀ f ∈ m.flows, Spec.srcIx m f = some c → Spec.isSourced f.kind = true)
    (w xc mults : List α) (hwl : w.length = m.flows.length) (hml : mults.length = Spec.nInfection m) :
    Spec.outflow m (flowRates b w xc mults) c = outCoef m w mults c * xc.getD c 0 :=
  outflow_flowRates (backendFor_of_prepare m b h) hs c hsrc w xc mults hwl hml

/-- the out-coefficient of flow `i`, read off: `w_i · mult` for an infection flow, `w_i` otherwise -/
theorem outCoefs_entry (m : Model α) (w mults : List α) (i : Nat) (hi : i < m.flows.length) :
    (outCoefs m w mults).length = m.flows.length ∧
    (outCoefs m w mults).getD i 0 =
      if Spec.isInfection m.flows[i].kind then w.getD i 0 * mults.getD (Spec.infPos m i) 0 else w.getD i 0 :=
  ⟨outCoefs_length m w mults, outCoefs_getD m w mults i hi⟩

/-- **euler_nonneg (rate level).**  Setting of `C18.quasi_positive`: backend from `prepare`, every
population-proportional flow has a source (`sourcedOk`), only population-proportional flows draw from
compartment `c` (`hsrc`: no `absolute` flow, and no entry-kind flow that was given a source, has source
`c`), non-negative weights, multipliers and state `y` (so `y` is its own cleaned version).  If `h ≥ 0`
and `h · outCoef ≤ 1` then `y[c] + h · (rate of compartment c) ≥ 0`.  `c` is any natural number. -/
theorem euler_nonneg (m : Model α) (b : Backend) (hprep : prepare m = .ok b) (hs : Spec.sourcedOk m = true)
    (c : Nat) (hsrc : ∀ f ∈ m.flows, Spec.srcIx m f = some c → Spec.isSourced f.kind = true)
    (w y mults : List α) (hwl : w.length = m.flows.length) (hml : mults.length = Spec.nInfection m)
    (hw : ∀ v ∈ w, 0 ≤ v) (hm : ∀ v ∈ mults, 0 ≤ v) (hy : ∀ v ∈ y, 0 ≤ v)
    (h : α) (hh : 0 ≤ h) (hK : h * outCoef m w mults c ≤ 1) :
    0 ≤ y.getD c 0 + h * (compRates b (flowRates b w y mults)).getD c 0 :=
  euler_nonneg_aux (backendFor_of_prepare m b hprep) hs c hsrc w y mults hwl hml hw hm hy h hh hK

/-- the same with the hypothesis in the form of `C18.quasi_positive'`: entry-kind flows have no source
(`entryOk`, true of all API-built models) and no `absolute` flow has source `c`. -/
theorem euler_nonneg' (m : Model α) (b : Backend) (hprep : prepare m = .ok b) (hs : Spec.sourcedOk m = true)
    (c : Nat) (hentry : Spec.entryOk m = true)
    (habs : ∀ f ∈ m.flows, f.kind = .absolute → Spec.srcIx m f ≠ some c)
    (w y mults : List α) (hwl : w.length = m.flows.length) (hml : mults.length = Spec.nInfection m)
    (hw : ∀ v ∈ w, 0 ≤ v) (hm : ∀ v ∈ mults, 0 ≤ v) (hy : ∀ v ∈ y, 0 ≤ v)
    (h : α) (hh : 0 ≤ h) (hK : h * outCoef m w mults c ≤ 1) :
    0 ≤ y.getD c 0 + h * (compRates b (flowRates b w y mults)).getD c 0 := by
  refine euler_nonneg m b hprep hs c ?_ w y mults hwl hml hw hm hy h hh hK
  intro f hf hsf
  have he := List.all_eq_true.1 hentry f hf
  have hsome : f.src.isNone = false := by
    cases hsrc : f.src with
    | none => simp [Spec.srcIx, hsrc] at hsf
    | some _ => rfl
  cases hk : f.kind
  case absolute => exact absurd hsf (habs f hf hk)
  all_goals first | rfl | (simp [hk, hsome, Spec.isEntryKind] at he)

/-- **euler_nonneg for the solver's own step.**  One step `Solvers.eulerStep` of the field handed to
the fixed-step solvers (`field m b p = rhs m b p`), from a non-negative state `y` of the right length,
at time `t`: if the evaluation `step m b p t y = some s` is defined with non-negative weights, mixing
matrix and compartment infectiousness, `h ≥ 0` and `h · outCoef ≤ 1` for the weights and multipliers of
THIS evaluation, then component `c` of the new state is `≥ 0`. -/
theorem eulerStep_nonneg (m : Model α) (b : Backend) (hprep : prepare m = .ok b)
    (hs : Spec.sourcedOk m = true) (c : Nat)
    (hsrc : ∀ f ∈ m.flows, Spec.srcIx m f = some c → Spec.isSourced f.kind = true)
    (p : List (String × α)) (t : α) (y : List α) (hylen : y.length = m.comps.length) (hy : ∀ v ∈ y, 0 ≤ v)
    (s : StepOut α) (hstep : step m b p t y = some s)
    (hw : ∀ v ∈ s.weights, 0 ≤ v) (hmix : ∀ row ∈ s.mixing, ∀ v ∈ row, 0 ≤ v) (hci : ∀ v ∈ s.compInf, 0 ≤ v)
    (h : α) (hh : 0 ≤ h) (hK : h * outCoef m s.weights s.mults c ≤ 1) :
    0 ≤ (Solvers.eulerStep (field m b p) h y t).getD c 0 :=
  eulerStep_nonneg_aux (backendFor_of_prepare m b hprep) hs c hsrc p t y hylen hy s hstep hw hmix hci h hh hK

/-- **Along a whole `solvers.euler` run.**  Suppose every flow with a source is population-proportional
(no `absolute` flow with a source), the initial state is non-negative of the right length, the (fixed)
step `h = times[1] − times[0]` is `≥ 0`, and at every step `i` the evaluation at row `i` is defined with
non-negative weights, mixing matrix and infectiousness and satisfies `h · outCoef c ≤ 1` for every
compartment `c`.  Then every row of the output is non-negative (and has the right length).  Any number
of steps; the hypothesis at step `i` only concerns the row actually visited. -/
theorem euler_rows_nonneg (m : Model α) (b : Backend) (hprep : prepare m = .ok b)
    (hs : Spec.sourcedOk m = true)
    (hsrc : ∀ f ∈ m.flows, ∀ c, Spec.srcIx m f = some c → Spec.isSourced f.kind = true)
    (p : List (String × α)) (times : List α) (y0 : List α) (hy0len : y0.length = m.comps.length)
    (hy0 : ∀ v ∈ y0, 0 ≤ v) (hh : 0 ≤ times.getD 1 0 - times.getD 0 0)
    (hgood : ∀ i, i < times.length - 1 →
      (step m b p (times.getD i 0) ((Solvers.euler (field m b p) y0 times).getD i [])).isSome = true ∧
      ∀ s ∈ step m b p (times.getD i 0) ((Solvers.euler (field m b p) y0 times).getD i []),
        (∀ v ∈ s.weights, 0 ≤ v) ∧ (∀ row ∈ s.mixing, ∀ v ∈ row, 0 ≤ v) ∧ (∀ v ∈ s.compInf, 0 ≤ v) ∧
        ∀ c, c < m.comps.length →
          (times.getD 1 0 - times.getD 0 0) * outCoef m s.weights s.mults c ≤ 1) :
    ∀ i, i < times.length →
      ((Solvers.euler (field m b p) y0 times).getD i []).length = m.comps.length ∧
      ∀ v ∈ (Solvers.euler (field m b p) y0 times).getD i [], 0 ≤ v := by
  have hb := backendFor_of_prepare m b hprep
  intro i
  induction i with
  | zero =>
    intro hi
    have hne : times ≠ [] := by intro e; simp [e] at hi
    rw [(Summer.Props.C07.euler_rows (field m b p) y0 times hne).2.1]
    exact ⟨hy0len, hy0⟩
  | succ i ih =>
    intro hi
    have hne : times ≠ [] := by intro e; simp [e] at hi
    obtain ⟨hlen, hnn⟩ := ih (by omega)
    obtain ⟨hsome, hall⟩ := hgood i (by omega)
    obtain ⟨s, hstep⟩ := Option.isSome_iff_exists.1 hsome
    obtain ⟨hw, hmix, hci, hK⟩ := hall s hstep
    rw [(Summer.Props.C07.euler_rows (field m b p) y0 times hne).2.2 i hi]
    have hsc : s.compRates.length = m.comps.length := by
      obtain ⟨w, mix, ci, _, _, _, hsE⟩ := (step_some_iff m b p _ _ s).1 hstep
      rw [hsE]; exact Proofs.compRates_length hb _
    refine ⟨eulerStep_length p _ _ hlen s hstep hsc _, ?_⟩
    rw [← NN, NN_iff_getD]
    intro c
    by_cases hc : c < m.comps.length
    · exact eulerStep_nonneg_aux hb hs c (fun f hf => hsrc f hf c) p _ _ hlen hnn s hstep hw hmix hci _ hh
        (hK c hc)
    · have : (Solvers.eulerStep (field m b p) (times.getD 1 0 - times.getD 0 0)
          ((Solvers.euler (field m b p) y0 times).getD i []) (times.getD i 0)).length ≤ c := by
        rw [eulerStep_length p _ _ hlen s hstep hsc _]; omega
      exact le_of_eq (getD_of_le _ _ _ this).symm

/-! ## non-vacuity, and the overshoot -/
section example_
def cS : Comp := ⟨"S", []⟩
def cI : Comp := ⟨"I", []⟩
def cR : Comp := ⟨"R", []⟩

/-- S → I (frequency-dependent infection, weight 2), I → R (recovery, weight 3), death from I
(weight 1), crude births into S -/
def exModel : Model Rat :=
  { t0 := 0, t1 := 1, dt := 1/4, nTimes := 5,
    comps := [cS, cI, cR], origNames := ["S", "I", "R"], infectious := ["I"],
    flows := [
      { kind := .infFreq, name := "infection", src := some cS, dst := some cI, param := .const 2, adjs := [] },
      { kind := .transition, name := "recovery", src := some cI, dst := some cR, param := .const 3, adjs := [] },
      { kind := .death, name := "death", src := some cI, dst := none, param := .const 1, adjs := [] },
      { kind := .crudeBirth, name := "births", src := none, dst := some cS, param := .const (1/50), adjs := [] } ],
    strats := [], mixingCats := [[]], mixingMats := [], strains := ["default"],
    initDist := none, arrayPop := none, actions := [], requests := [], computed := [], whitelist := [],
    finalized := true }

def getOk {β} (d : β) : Res β → β
  | .ok v => v
  | .error _ => d
def noBackend : Backend := ⟨0, 0, [], [], [], [], [], [], [], [], [], [], [], [], [], [], none⟩
def exB : Backend := getOk noBackend (prepare exModel)

example : prepare exModel = .ok exB := by rfl
example : Spec.sourcedOk exModel = true ∧ Spec.entryOk exModel = true := by decide
example : ∀ f ∈ exModel.flows, ∀ c, Spec.srcIx exModel f = some c → Spec.isSourced f.kind = true := by
  intro f hf c _
  simp only [exModel, List.mem_cons, List.not_mem_nil, or_false] at hf
  rcases hf with rfl | rfl | rfl | rfl <;> first | rfl | (rename_i h; simp [Spec.srcIx] at h)

/-- the out-coefficients at weights `[2, 3, 1, 1/50]`, multiplier `1/10`: S loses `2·(1/10)` per unit,
I loses `3 + 1`, R nothing -/
example : (List.range 3).map (outCoef exModel [2, 3, 1, 1/50] [1/10]) = [(1/5 : Rat), 4, 0] := by
  decide +kernel

/-- one step from `[90, 10, 0]` with `h = 1/4` (`h · 4 = 1 ≤ 1`): stays non-negative — I lands exactly
on `4.5 = 10 − (1/4)·40 + (1/4)·18` -/
example : Solvers.eulerStep (field exModel exB []) (1/4) [90, 10, 0] 0 = [86, 9/2, 15/2] := by
  decide +kernel
/-- the evaluation behind that step: weights, multiplier, and `h · outCoef` per compartment (all `≤ 1`) -/
example : (step exModel exB [] 0 [90, 10, 0]).map (fun s => (s.weights, s.mults,
      (List.range 3).map (fun c => (1/4 : Rat) * outCoef exModel s.weights s.mults c))) =
    some ([2, 3, 1, 1/50], [1/10], [1/20, 1, 0]) := by decide +kernel
/-- the theorem applied to it (compartment I): all hypotheses discharged by evaluation -/
example : ∀ s ∈ step exModel exB [] 0 [90, 10, 0],
    0 ≤ (Solvers.eulerStep (field exModel exB []) (1/4) [90, 10, 0] 0).getD 1 0 := by
  intro s hs
  have hdec : ∀ s ∈ step exModel exB [] 0 [90, 10, 0],
      (∀ v ∈ s.weights, 0 ≤ v) ∧ (∀ row ∈ s.mixing, ∀ v ∈ row, 0 ≤ v) ∧ (∀ v ∈ s.compInf, 0 ≤ v) ∧
        (1/4 : Rat) * outCoef exModel s.weights s.mults 1 ≤ 1 := by decide +kernel
  obtain ⟨h1, h2, h3, h4⟩ := hdec s hs
  exact eulerStep_nonneg exModel exB (by rfl) (by decide) 1 (by decide) [] 0 [90, 10, 0]
    (by decide) (by decide) s hs h1 h2 h3 (1/4) (by decide +kernel) h4
example : (step exModel exB [] 0 [90, 10, 0]).isSome = true := by decide +kernel

/-- the rate-level theorem on these numbers -/
example := euler_nonneg exModel exB (by rfl) (by decide) 1 (by decide) [2, 3, 1, 1/50] [90, 10, 0] [1/10]
  (by decide) (by decide) (by decide +kernel) (by decide +kernel) (by decide +kernel) (1/4)
  (by decide +kernel) (by decide +kernel)

/-- **Overshoot.**  With `h = 1/2` (`h · 4 = 2 > 1`) the SAME state is sent to a negative I:
`10 + (1/2)·(18 − 40) = −1`, although every hypothesis of quasi-positivity holds.  Explicit Euler does
not preserve non-negativity without the step restriction. -/
example : Solvers.eulerStep (field exModel exB []) (1/2) [90, 10, 0] 0 = [82, -1, 15] ∧
    (1/2 : Rat) * outCoef exModel [2, 3, 1, 1/50] [1/10] 1 = 2 := by decide +kernel

/-- the whole `solvers.euler` run on `[0, 1/4, 1/2, 3/4, 1]`: the step restriction holds at every
visited row, and all rows are non-negative … -/
def exTimes : List Rat := [0, 1/4, 1/2, 3/4, 1]
example := euler_rows_nonneg exModel exB (by rfl) (by decide)
  (by
    intro f hf c _
    simp only [exModel, List.mem_cons, List.not_mem_nil, or_false] at hf
    rcases hf with rfl | rfl | rfl | rfl <;> first | rfl | (rename_i h; simp [Spec.srcIx] at h))
  [] exTimes [90, 10, 0] (by decide) (by decide) (by decide +kernel) (by decide +kernel)
example : (Solvers.euler (field exModel exB []) [90, 10, 0] exTimes).all (fun z => z.all (fun v => decide (0 ≤ v)))
    = true := by decide +kernel
/-- … whereas with the step `1/2` the second row is already negative in I -/
example : (Solvers.euler (field exModel exB []) [90, 10, 0] [0, 1/2, 1]).getD 1 [] = [82, -1, 15] := by
  decide +kernel
end example_

#print axioms euler_nonneg_of_coefs
#print axioms outflow_linear
#print axioms outCoefs_entry
#print axioms euler_nonneg
#print axioms euler_nonneg'
#print axioms eulerStep_nonneg
#print axioms euler_rows_nonneg

end Summer.C18Euler
