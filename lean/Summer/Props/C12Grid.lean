import Summer.Proofs.Solvers
/-
C12 (grid part): `linspace t0 t1 n` (the model of `np.linspace`, used to build the model's time grid) is the
uniform grid `t0, t0 + h, …, t1`.
-/
namespace Summer.Props.C12
open Summer Summer.Proofs.Solvers

variable {α : Type} [Field α]

/-- `np.linspace(t0, t1, n)` has exactly `n` points (any field, any `n`). -/
theorem grid_length (t0 t1 : α) (n : Nat) : (linspace t0 t1 n).length = n :=
  length_linspace t0 t1 n

/-- Main grid theorem, characteristic 0 (in particular every ordered field), `n ≥ 2`:
length `n`; point `i` is `t0 + i·(t1 - t0)/(n - 1)`; the first point is `t0`; the last point is `t1`;
consecutive points differ by the constant step `(t1 - t0)/(n - 1)`. -/
theorem grid [CharZero α] (t0 t1 : α) (n : Nat) (hn : 2 ≤ n) :
    (linspace t0 t1 n).length = n ∧
    (∀ i, i < n → (linspace t0 t1 n).getD i 0 = t0 + (i : α) * ((t1 - t0) / ((n : α) - 1))) ∧
    (linspace t0 t1 n).getD 0 0 = t0 ∧
    (linspace t0 t1 n).getD (n - 1) 0 = t1 ∧
    (∀ i, i + 1 < n →
      (linspace t0 t1 n).getD (i + 1) 0 - (linspace t0 t1 n).getD i 0 = (t1 - t0) / ((n : α) - 1)) := by
  have hne : ((n : α) - 1) ≠ 0 := by
    intro h0
    have h1 : (n : α) = ((1 : Nat) : α) := by rw [Nat.cast_one]; exact sub_eq_zero.mp h0
    have : n = 1 := Nat.cast_injective h1
    omega
  refine ⟨length_linspace _ _ _, fun i hi => getD_linspace' t0 t1 n i hn hi, ?_, ?_, ?_⟩
  · rw [getD_linspace' t0 t1 n 0 hn (by omega)]; simp
  · rw [getD_linspace' t0 t1 n (n - 1) hn (by omega), Nat.cast_sub (by omega)]
    simp only [Nat.cast_one]
    field_simp
    ring
  · intro i hi
    rw [getD_linspace' t0 t1 n (i + 1) hn hi, getD_linspace' t0 t1 n i hn (by omega)]
    push_cast
    ring

/-- A grid with end point `t1 = t0 + (n-1)·h` is `t0, t0 + h, t0 + 2h, …` (any `h`, also `h = 0` or `h < 0`). -/
theorem grid_uniform [CharZero α] (t0 h : α) (n : Nat) (hn : 2 ≤ n) (i : Nat) (hi : i < n) :
    (linspace t0 (t0 + ((n : α) - 1) * h) n).getD i 0 = t0 + (i : α) * h :=
  linspace_step t0 h n i hn hi

/-- The step used by `euler`/`rk4` (`times[1] - times[0]`) on a `linspace` grid is `(t1 - t0)/(n - 1)`. -/
theorem grid_solver_step [CharZero α] (t0 t1 : α) (n : Nat) (hn : 2 ≤ n) :
    (linspace t0 t1 n).getD 1 0 - (linspace t0 t1 n).getD 0 0 = (t1 - t0) / ((n : α) - 1) :=
  (grid t0 t1 n hn).2.2.2.2 0 (by omega)

/-- Degenerate case `n = 1` (`np.linspace(t0, t1, 1) = [t0]`). -/
theorem grid_one (t0 t1 : α) : linspace t0 t1 1 = [t0] := by
  simp [linspace]

/-! non-vacuity: a concrete grid on `ℚ`, and the theorem instantiated on an ordered field -/
example : linspace (0 : ℚ) 2 5 = [0, 1/2, 1, 3/2, 2] := by decide +kernel
example : (linspace (1 : ℚ) 3 5).getD 4 0 = 3 := (grid (1 : ℚ) 3 5 (by decide)).2.2.2.1
example {β : Type} [Field β] [LinearOrder β] [IsStrictOrderedRing β] (t0 t1 : β) :
    (linspace t0 t1 10).getD 9 0 = t1 := (grid t0 t1 10 (by decide)).2.2.2.1

end Summer.Props.C12

#print axioms Summer.Props.C12.grid_length
#print axioms Summer.Props.C12.grid
#print axioms Summer.Props.C12.grid_uniform
#print axioms Summer.Props.C12.grid_solver_step
#print axioms Summer.Props.C12.grid_one
