import Summer.Proofs.ModelParams
import Mathlib.Algebra.Order.Field.Basic
/-
C09 at MODEL level — "the reported set of input parameters is exactly the set that is needed and able
to influence the results".

Reported set: `Params.inputParams m = dedup (mainParams m ++ doParams m)` (model of
`CompartmentalModel.get_input_parameters`: parameters of the finalised model graph united with those of
the derived-output tracker graph).

* ABLE TO INFLUENCE (coincidence): two parameter dictionaries that agree (as first-match lookup) on the
  reported keys give the same initial population, the same evaluation of the right-hand side at every
  `(t, x)`, the same flow / computed-value tables and the same derived outputs — failure included.
* NEEDED: when these stages succeed, every reported key is bound in the dictionary.
* DEFAULTS: running with `{**defaults, **supplied}` equals running with any dictionary having the merged
  lookup on the reported keys.

FINDING (model level).  `Run.initialPopulation` also evaluates the proportions of
`adjust_population_split` actions (`BuildAction.rebalance r`, `r.props`), which `Params.mainParams` does
NOT collect (and `finalize_parameters` does not register).  For a raw `Model` value whose rebalance
proportions mention parameters, the initial population depends on keys outside the reported set (see the
counterexample below).  The statements about the initial population therefore carry the extra keys
`rebalanceParams m`; they disappear (`rebalanceParams m = []`) for every model produced by
`Build.adjustPopulationSplit`, which (like the Python `adjust_population_split`, whose
`assert_allclose(sum(proportions.values()), 1.0)` needs numbers) only accepts literal proportions
(`rebalance_literal`).

The theorems are structural: they hold for every carrier with the core arithmetic/order classes the model
is generic over, hence for every ordered field (see the last `example`), for `Rat` as executed by the
driver, and for `Float`.
-/
namespace Summer.C09Model
open Summer Summer.Run Summer.Params Summer.Spec Summer.Derived Summer.Proofs.ModelParams

set_option linter.unusedSectionVars false

variable {α : Type} [Zero α] [One α] [Add α] [Sub α] [Mul α] [Div α] [LT α] [DecidableLT α]

/-! ### 0. the reported set -/

/-- the reported list is a set: no key is reported twice -/
theorem inputParams_nodup (m : Model α) :
    (inputParams m).Nodup ∧ (mainParams m).Nodup ∧ (doParams m).Nodup :=
  ⟨nodup_dedup _, nodup_dedup _, nodup_dedup _⟩

/-- membership in the reported set, site by site: realised flow weights, initial population (array, or
distribution and population splits), infectiousness adjustments, mixing matrices, computed values, and
function-type derived outputs -/
theorem inputParams_sites (m : Model α) (k : String) :
    k ∈ inputParams m ↔
      (k ∈ flowParams m ∨ k ∈ popParams m ∨ k ∈ infParams m ∨ k ∈ mixParams m ∨ k ∈ cvParams m) ∨
        ∃ r ∈ m.requests, k ∈ (match r.req with | .func e _ => e.params | _ => []) := by
  rw [mem_inputParams, mem_mainParams, mem_doParams]; exact Iff.rfl

/-! ### 1. coincidence: the right-hand side and the initial population -/

/-- `coincidence_step`: dictionaries that agree on `mainParams m` give the same evaluation of the model
at every `(t, x)` — all fields of `StepOut` (weights, multipliers, mixing matrix, infectiousness, flow and
compartment rates), failure included. -/
theorem coincidence_step (m : Model α) (b : Backend) (p p' : List (String × α)) (t : α) (x : List α)
    (h : ∀ k ∈ mainParams m, alookup p k = alookup p' k) : step m b p t x = step m b p' t x :=
  step_congr m b p p' t x (fun k hk => h k (stepParams_subset m k hk))

/-- sharper: `step` reads only the realised weights', infectiousness adjustments' and mixing matrices'
parameters -/
theorem coincidence_step_exact (m : Model α) (b : Backend) (p p' : List (String × α)) (t : α) (x : List α)
    (h : ∀ k ∈ flowParams m ++ infParams m ++ mixParams m, alookup p k = alookup p' k) :
    step m b p t x = step m b p' t x :=
  step_congr m b p p' t x h

/-- hence the rate function handed to the solvers -/
theorem coincidence_rhs (m : Model α) (b : Backend) (p p' : List (String × α))
    (h : ∀ k ∈ mainParams m, alookup p k = alookup p' k) : rhs m b p = rhs m b p' := by
  funext x t
  unfold rhs
  rw [coincidence_step m b p p' t x h]

/-- `coincidence_initialPopulation`: the initial population reads `mainParams m` AND the rebalance
proportions' parameters (`rebalanceParams m`, not part of `mainParams`: see the finding above). -/
theorem coincidence_initialPopulation (m : Model α) (p p' : List (String × α))
    (h : ∀ k ∈ mainParams m ++ rebalanceParams m, alookup p k = alookup p' k) :
    initialPopulation m p = initialPopulation m p' :=
  initialPopulation_congr m p p' (fun k hk => h k (by
    rw [List.mem_append, mem_mainParams]
    rcases hk with hk | hk
    · exact Or.inl (Or.inr (Or.inl hk))
    · exact Or.inr hk))

/-- for a model whose rebalance proportions are parameter-free (every model built through
`adjustPopulationSplit`), `mainParams` suffices -/
theorem coincidence_initialPopulation_built (m : Model α) (hrb : rebalanceParams m = [])
    (p p' : List (String × α)) (h : ∀ k ∈ mainParams m, alookup p k = alookup p' k) :
    initialPopulation m p = initialPopulation m p' :=
  coincidence_initialPopulation m p p' (by rw [hrb, List.append_nil]; exact h)

/-- `adjust_population_split` accepts literal proportions only: the accepted action mentions no
parameter and leaves `rebalanceParams` unchanged (so it stays `[]` along a build) -/
theorem rebalance_literal [NatCast α] (m m' : Model α) (tolDen : Nat) (r : Rebalance α)
    (h : Build.adjustPopulationSplit m tolDen r = .ok m') :
    (∀ kv ∈ r.props, kv.2.params = []) ∧ m'.actions = m.actions ++ [.rebalance r] ∧
      rebalanceParams m' = rebalanceParams m :=
  adjustPopulationSplit_rebalanceParams m m' tolDen r h

/-- the flow-rate and computed-value tables of the derived-output stage (this is where the
computed values' parameters are read) -/
theorem coincidence_flowsForOutputs (m : Model α) (b : Backend) (p p' : List (String × α))
    (times : List α) (outputs : List (List α)) (h : ∀ k ∈ mainParams m, alookup p k = alookup p' k) :
    flowsForOutputs m b p times outputs = flowsForOutputs m b p' times outputs :=
  flowsForOutputs_congr m b p p' times outputs (fun k hk => h k (by
    rcases hk with hk | hk
    · exact stepParams_subset m k hk
    · rw [mem_mainParams]; exact Or.inr (Or.inr (Or.inr (Or.inr hk)))))

/-! ### 2. coincidence: derived outputs -/

/-- `coincidence_derived`: dictionaries that agree on `doParams m` give the same value for every
request of the model, whatever the earlier results `done` -/
theorem coincidence_derived (m : Model α) (d : RunData α) (p p' : List (String × α))
    (h : ∀ k ∈ doParams m, alookup p k = alookup p' k) (done : List (String × List α)) :
    ∀ r ∈ m.requests, evalRequest m { d with params := p } done r.req =
      evalRequest m { d with params := p' } done r.req :=
  fun r hr => evalRequest_params_congr m d p p' done r.req
    (fun e src hreq k hk => h k (mem_doParams_of_func m r hr e src hreq k hk))

/-- hence all requests in order, any sub-list of them (the whitelist-pruned list), and what
`calc_derived_outputs` returns -/
theorem coincidence_evalAll (m : Model α) (d : RunData α) (p p' : List (String × α))
    (h : ∀ k ∈ doParams m, alookup p k = alookup p' k) (reqs : List (ReqEntry α))
    (hsub : ∀ r ∈ reqs, r ∈ m.requests) :
    evalAll m { d with params := p } reqs = evalAll m { d with params := p' } reqs :=
  evalAll_params_congr m d p p' reqs
    (fun r hr e src hreq k hk => h k (mem_doParams_of_func m r (hsub r hr) e src hreq k hk))

theorem coincidence_derivedOutputs (m : Model α) (d : RunData α) (p p' : List (String × α))
    (h : ∀ k ∈ doParams m, alookup p k = alookup p' k) :
    derivedOutputs m { d with params := p } = derivedOutputs m { d with params := p' } :=
  derivedOutputs_params_congr m d p p'
    (fun r hr e src hreq k hk => h k (mem_doParams_of_func m r hr e src hreq k hk))

/-- `coincidence_model`: ONLY the reported parameters are able to influence the results.  Dictionaries
that agree on `inputParams m` (plus the unreported rebalance keys, none for built models) give the same
initial population, right-hand side, flow / computed-value tables and derived outputs. -/
theorem coincidence_model (m : Model α) (b : Backend) (p p' : List (String × α))
    (h : ∀ k ∈ inputParams m ++ rebalanceParams m, alookup p k = alookup p' k) :
    initialPopulation m p = initialPopulation m p' ∧
    rhs m b p = rhs m b p' ∧
    (∀ t x, step m b p t x = step m b p' t x) ∧
    (∀ times outputs, flowsForOutputs m b p times outputs = flowsForOutputs m b p' times outputs) ∧
    (∀ d : RunData α, derivedOutputs m { d with params := p } = derivedOutputs m { d with params := p' }) := by
  have hm : ∀ k ∈ mainParams m, alookup p k = alookup p' k :=
    fun k hk => h k (List.mem_append_left _ ((mem_inputParams m k).2 (Or.inl hk)))
  have hd : ∀ k ∈ doParams m, alookup p k = alookup p' k :=
    fun k hk => h k (List.mem_append_left _ ((mem_inputParams m k).2 (Or.inr hk)))
  refine ⟨coincidence_initialPopulation m p p' (fun k hk => ?_), coincidence_rhs m b p p' hm,
    fun t x => coincidence_step m b p p' t x hm,
    fun times outputs => coincidence_flowsForOutputs m b p p' times outputs hm,
    fun d => coincidence_derivedOutputs m d p p' hd⟩
  rcases List.mem_append.1 hk with hk | hk
  · exact hm k hk
  · exact h k (List.mem_append_right _ hk)

/-! ### 3. every reported parameter is needed -/

/-- a successful evaluation of the right-hand side has read, hence needs, every parameter of every
realised flow weight (static or not), infectiousness adjustment and mixing-matrix entry -/
theorem needed_step (m : Model α) (b : Backend) (p : List (String × α)) (t : α) (x : List α) (s : StepOut α)
    (h : step m b p t x = some s) :
    ∀ k ∈ flowParams m ++ infParams m ++ mixParams m, (alookup p k).isSome = true :=
  step_bound m b p t x (by rw [h]; rfl)

/-- a successful initial population needs: the population array's parameters; or the whole initial
distribution's, those of the split of every stratification applied by a `stratify` action, and those of
every rebalance action (`popNeeded`) -/
theorem needed_initialPopulation (m : Model α) (p : List (String × α)) (x0 : List α)
    (h : initialPopulation m p = some x0) : ∀ k ∈ popNeeded m, (alookup p k).isSome = true :=
  initialPopulation_bound m p (by rw [h]; rfl)

/-- the flow / computed-value tables over a non-empty grid need the right-hand side's parameters and
the computed values' -/
theorem needed_flowsForOutputs (m : Model α) (b : Backend) (p : List (String × α)) (times : List α)
    (outputs : List (List α)) (res : List (List α) × List (String × List α))
    (h : flowsForOutputs m b p times outputs = some res) (ht : times ≠ []) (ho : outputs ≠ []) :
    ∀ k ∈ flowParams m ++ infParams m ++ mixParams m ++ cvParams m, (alookup p k).isSome = true :=
  fun k hk => flowsForOutputs_bound m b p times outputs (by rw [h]; rfl) ht ho k (List.mem_append.1 hk)

/-- the derived outputs over a non-empty grid need every function request's parameters -/
theorem needed_derived (m : Model α) (d : RunData α) (all : List (String × List α))
    (h : evalAll m d m.requests = some all) (ht : d.times ≠ []) :
    ∀ k ∈ doParams m, (alookup d.params k).isSome = true := by
  intro k hk
  obtain ⟨r, hr, hkr⟩ := (mem_doParams m k).1 hk
  cases hreq : r.req with
  | func e src =>
    rw [hreq] at hkr
    exact evalAll_bound m d m.requests (by rw [h]; rfl) ht r hr e src hreq k hkr
  | flow _ _ _ _ => rw [hreq] at hkr; cases hkr
  | comp _ _ => rw [hreq] at hkr; cases hkr
  | agg _ => rw [hreq] at hkr; cases hkr
  | cum _ _ => rw [hreq] at hkr; cases hkr
  | cv _ => rw [hreq] at hkr; cases hkr

/-- `needed`: when every stratification has been applied (`StratsApplied`: what `stratify_with`
guarantees) and a run succeeds — initial population, flow tables over a non-empty grid — every key of
`mainParams m` is bound. -/
theorem needed (m : Model α) (hstrat : StratsApplied m) (b : Backend) (p : List (String × α))
    (x0 : List α) (hi : initialPopulation m p = some x0)
    (times : List α) (outputs : List (List α)) (res : List (List α) × List (String × List α))
    (hf : flowsForOutputs m b p times outputs = some res) (ht : times ≠ []) (ho : outputs ≠ []) :
    ∀ k ∈ mainParams m, (alookup p k).isSome = true := by
  intro k hk
  have hfo := needed_flowsForOutputs m b p times outputs res hf ht ho k
  simp only [List.mem_append] at hfo
  rcases (mem_mainParams m k).1 hk with hk | hk | hk | hk | hk
  · exact hfo (Or.inl (Or.inl (Or.inl hk)))
  · exact needed_initialPopulation m p x0 hi k (popParams_subset_popNeeded m hstrat k hk)
  · exact hfo (Or.inl (Or.inl (Or.inr hk)))
  · exact hfo (Or.inl (Or.inr hk))
  · exact hfo (Or.inr hk)

/-- `needed_input`: … and when the derived outputs succeed too, every REPORTED key is bound: the
reported set is contained in the keys of any dictionary with which a complete run succeeds.  Together with
`coincidence_model`: the reported set is exactly the set that is needed and able to influence the
results. -/
theorem needed_input (m : Model α) (hstrat : StratsApplied m) (b : Backend) (p : List (String × α))
    (x0 : List α) (hi : initialPopulation m p = some x0)
    (times : List α) (outputs : List (List α)) (res : List (List α) × List (String × List α))
    (hf : flowsForOutputs m b p times outputs = some res) (ht : times ≠ []) (ho : outputs ≠ [])
    (all : List (String × List α))
    (hd : evalAll m ⟨times, outputs, res.1, res.2, p⟩ m.requests = some all) :
    ∀ k ∈ inputParams m, (alookup p k).isSome = true := by
  intro k hk
  rcases (mem_inputParams m k).1 hk with hk | hk
  · exact needed m hstrat b p x0 hi times outputs res hf ht ho k hk
  · exact needed_derived m ⟨times, outputs, res.1, res.2, p⟩ all hd ht k hk

/-- contrapositive: with a reported key missing, a complete run cannot succeed -/
theorem missing_input_fails (m : Model α) (hstrat : StratsApplied m) (b : Backend) (p : List (String × α))
    (k : String) (hk : k ∈ inputParams m) (hmiss : alookup p k = none)
    (times : List α) (outputs : List (List α)) (ht : times ≠ []) (ho : outputs ≠ []) :
    initialPopulation m p = none ∨ flowsForOutputs m b p times outputs = none ∨
      ∀ res, flowsForOutputs m b p times outputs = some res →
        evalAll m ⟨times, outputs, res.1, res.2, p⟩ m.requests = none := by
  cases hi : initialPopulation m p with
  | none => exact Or.inl rfl
  | some x0 =>
    cases hf : flowsForOutputs m b p times outputs with
    | none => exact Or.inr (Or.inl rfl)
    | some res =>
      refine Or.inr (Or.inr (fun res' hres => ?_))
      cases hres
      cases hd : evalAll m ⟨times, outputs, res.1, res.2, p⟩ m.requests with
      | none => rfl
      | some all =>
        have := needed_input m hstrat b p x0 hi times outputs res hf ht ho all hd k hk
        rw [hmiss] at this; cases this

/-! ### 4. defaults -/

/-- `defaults_model`: running the model with `{**dflt, **supplied}` (`withDefaults`) equals running it
with ANY dictionary that realises "supplied value if supplied, default otherwise" on the reported keys
(and on the unreported rebalance keys, none for built models). -/
theorem defaults_model (m : Model α) (b : Backend) (dflt supplied merged : List (String × α))
    (hm : ∀ k ∈ inputParams m ++ rebalanceParams m, alookup merged k =
      match alookup supplied k with | some v => some v | none => alookup dflt k) :
    initialPopulation m (withDefaults dflt supplied) = initialPopulation m merged ∧
    rhs m b (withDefaults dflt supplied) = rhs m b merged ∧
    (∀ t x, step m b (withDefaults dflt supplied) t x = step m b merged t x) ∧
    (∀ times outputs, flowsForOutputs m b (withDefaults dflt supplied) times outputs =
      flowsForOutputs m b merged times outputs) ∧
    (∀ d : RunData α, derivedOutputs m { d with params := withDefaults dflt supplied } =
      derivedOutputs m { d with params := merged }) := by
  apply coincidence_model
  intro k hk
  rw [hm k hk, ExprProps.alookup_withDefaults]
  cases alookup supplied k <;> rfl

/-- an omitted reported key is read from the defaults, a supplied one from `supplied` -/
theorem defaults_model_lookup (dflt supplied : List (String × α)) (k : String) :
    alookup (withDefaults dflt supplied) k =
      match alookup supplied k with | some v => some v | none => alookup dflt k := by
  rw [ExprProps.alookup_withDefaults]; cases alookup supplied k <;> rfl

/-! ### non-vacuity: an age-stratified S/I model on `Rat` (`Proofs/ModelParams.lean`, namespace `Ex`) -/
section examples
open Summer.Proofs.ModelParams.Ex

example : prepare exModel = .ok exBackend := by rfl
example : mainParams exModel = ["beta", "susc_old", "mu", "n0", "py", "inf_old", "c11", "c22", "cvp"]
    ∧ doParams exModel = ["k"]
    ∧ inputParams exModel = ["beta", "susc_old", "mu", "n0", "py", "inf_old", "c11", "c22", "cvp", "k"]
    ∧ rebalanceParams exModel = [] := by decide +kernel

/-- hypotheses of `coincidence_model`: the two dictionaries agree on the reported keys — and differ
elsewhere (`junk`, `stray`, order) -/
example : (∀ k ∈ inputParams exModel ++ rebalanceParams exModel, alookup exParams k = alookup exParams' k)
    ∧ alookup exParams "junk" ≠ alookup exParams' "junk" ∧ exParams ≠ exParams' := by decide +kernel
/-- … and the common results are defined and non-trivial -/
example : initialPopulation exModel exParams = some [495/2, 1485/2, 5/2, 15/2]
    ∧ initialPopulation exModel exParams' = some [495/2, 1485/2, 5/2, 15/2]
    ∧ rhs exModel exBackend exParams [200, 700, 30, 80] 1 = some [-17000/299, -59500/299, 16103/299, 57108/299]
    ∧ rhs exModel exBackend exParams' [200, 700, 30, 80] 1 = some [-17000/299, -59500/299, 16103/299, 57108/299]
    ∧ (step exModel exBackend exParams 1 [200, 700, 30, 80]).map (·.weights) = some [1/2, 1, 1/10, 1/10]
    ∧ (step exModel exBackend exParams 1 [200, 700, 30, 80]).map (·.mixing) = some [[2, 1], [1, 1/2]]
    ∧ (step exModel exBackend exParams 1 [200, 700, 30, 80]).map (·.compInf) = some [1, 1, 1, 3] := by
  decide +kernel

/-- hypotheses of `needed` / `needed_input`: the three stages succeed on a non-empty grid -/
example : flowsForOutputs exModel exBackend exParams exTimes exOutputs = some (exFlows, exCvs)
    ∧ evalAll exModel ⟨exTimes, exOutputs, exFlows, exCvs, exParams⟩ exModel.requests =
        some [("inc", [76500/299, 7224/23, 8385/23]), ("scaled", [76500000/299, 7224000/23, 8385000/23])] := by
  decide +kernel
example : StratsApplied exModel := by
  intro s hs
  have : s = ageStrat := by simpa [exModel] using hs
  subst this
  exact ⟨List.mem_cons_self, rfl⟩
/-- every reported key is needed: dropping any single one makes a stage fail -/
example : (inputParams exModel).all (fun k =>
    let p := exParams.filter (fun kv => kv.1 != k)
    (initialPopulation exModel p).isNone || (flowsForOutputs exModel exBackend p exTimes exOutputs).isNone
      || (evalAll exModel ⟨exTimes, exOutputs, exFlows, exCvs, p⟩ exModel.requests).isNone) = true := by
  decide +kernel

/-- hypotheses of `defaults_model`: `beta`, `k` supplied (overriding the defaults), the rest defaulted;
`merged` is an arbitrary other dictionary with the merged lookup -/
example :
    let dflt : List (String × Rat) := exParams
    let supplied : List (String × Rat) := [("beta", 1/4), ("k", 10)]
    let merged : List (String × Rat) := ("k", 10) :: ("beta", 1/4) :: exParams'
    (∀ k ∈ inputParams exModel ++ rebalanceParams exModel, alookup merged k =
      match alookup supplied k with | some v => some v | none => alookup dflt k)
    ∧ rhs exModel exBackend (withDefaults dflt supplied) [200, 700, 30, 80] 1
        = some [-8500/299, -29750/299, 7603/299, 27358/299] := by decide +kernel

/-- COUNTEREXAMPLE behind the finding: a raw model value with a parameterised rebalance proportion `q`.
`q` is not reported, the dictionaries agree on all of `mainParams`, yet the initial populations differ. -/
example : mainParams exModelRb = ["beta", "susc_old", "mu", "n0", "py", "inf_old", "c11", "c22", "cvp"]
    ∧ rebalanceParams exModelRb = ["q", "q"]
    ∧ (∀ k ∈ mainParams exModelRb, alookup (("q", 1/3) :: exParams) k = alookup (("q", 2/3) :: exParams) k)
    ∧ initialPopulation exModelRb (("q", 1/3) :: exParams) = some [330, 660, 10/3, 20/3]
    ∧ initialPopulation exModelRb (("q", 2/3) :: exParams) = some [660, 330, 20/3, 10/3] := by decide +kernel

/-- `rebalance_literal`: the builder rejects such a rebalance and accepts the literal one -/
example : (match Build.adjustPopulationSplit { exModel with finalized := false } 1000000
      ⟨"age", [], [("young", .param "q"), ("old", .sub (.const 1) (.param "q"))]⟩ with
    | .ok _ => false | .error _ => true) = true
  ∧ (match Build.adjustPopulationSplit { exModel with finalized := false } 1000000
      ⟨"age", [], [("young", .const (1/4)), ("old", .const (3/4))]⟩ with
    | .ok _ => true | .error _ => false) = true := by decide +kernel

end examples

/-! ### the same statements at an arbitrary ordered field -/
example {F : Type} [Field F] [LinearOrder F] [IsStrictOrderedRing F] (m : Model F) (b : Backend)
    (p p' : List (String × F)) (h : ∀ k ∈ inputParams m ++ rebalanceParams m, alookup p k = alookup p' k) :
    initialPopulation m p = initialPopulation m p' ∧ rhs m b p = rhs m b p' :=
  ⟨(coincidence_model m b p p' h).1, (coincidence_model m b p p' h).2.1⟩
example {F : Type} [Field F] [LinearOrder F] [IsStrictOrderedRing F] (m : Model F) (hstrat : StratsApplied m)
    (b : Backend) (p : List (String × F)) (x0 : List F) (hi : initialPopulation m p = some x0)
    (times : List F) (outputs : List (List F)) (res : List (List F) × List (String × List F))
    (hf : flowsForOutputs m b p times outputs = some res) (ht : times ≠ []) (ho : outputs ≠ []) :
    ∀ k ∈ mainParams m, (alookup p k).isSome = true :=
  needed m hstrat b p x0 hi times outputs res hf ht ho

end Summer.C09Model

#print axioms Summer.C09Model.inputParams_nodup
#print axioms Summer.C09Model.inputParams_sites
#print axioms Summer.C09Model.coincidence_step
#print axioms Summer.C09Model.coincidence_step_exact
#print axioms Summer.C09Model.coincidence_rhs
#print axioms Summer.C09Model.coincidence_initialPopulation
#print axioms Summer.C09Model.coincidence_initialPopulation_built
#print axioms Summer.C09Model.rebalance_literal
#print axioms Summer.C09Model.coincidence_flowsForOutputs
#print axioms Summer.C09Model.coincidence_derived
#print axioms Summer.C09Model.coincidence_evalAll
#print axioms Summer.C09Model.coincidence_derivedOutputs
#print axioms Summer.C09Model.coincidence_model
#print axioms Summer.C09Model.needed_step
#print axioms Summer.C09Model.needed_initialPopulation
#print axioms Summer.C09Model.needed_flowsForOutputs
#print axioms Summer.C09Model.needed_derived
#print axioms Summer.C09Model.needed
#print axioms Summer.C09Model.needed_input
#print axioms Summer.C09Model.missing_input_fails
#print axioms Summer.C09Model.defaults_model
#print axioms Summer.C09Model.defaults_model_lookup
