import Summer.Props.C02
import Summer.Props.C02Solvers
import Summer.Proofs.ListLemmas
/-
C02 (open models): the accounting identity along fixed-step trajectories.

`C02Solvers` shows that a functional annihilated by the vector field is constant along every solver's
rows (closed population).  Here the field is NOT assumed to annihilate the functional: one explicit
Euler update changes any linear functional `L` by exactly `h · L (f y t)`, every consecutive pair of
rows of `solvers.euler` differs by that amount, and for a prepared model — whose compartment rates
add up to (entry flows) − (exit flows), `C02.total_rate` — the total population changes per step by
exactly `h · (entries − exits)`: people appear or disappear only through entry and exit flows.
The same for one classical RK4 update (`rk4Step_balance`, `rk4_total_balance`): the total moves by the
RK4 combination of `h · (entries − exits)` at the four stage states.

`α` is an arbitrary field.
-/
namespace Summer.Props.C02Open
open Summer Summer.Run Summer.Solvers Summer.Spec.Solvers Summer.Proofs.Solvers

variable {α : Type} [Field α]

/-- One Euler update: the new state has the same length and `L` moves by `h · L (f y t)`. -/
theorem eulerStep_balance {n : Nat} {L : List α → α} (hL : LinOn n L) (f : List α → α → List α)
    (h : α) (y : List α) (t : α) (hy : y.length = n) (hf : (f y t).length = n) :
    (eulerStep f h y t).length = n ∧ L (eulerStep f h y t) = L y + h * L (f y t) := by
  unfold eulerStep
  refine ⟨by simp [hy, hf], ?_⟩
  rw [hL.add _ _ hy (by simp [hf]), hL.smul _ _ hf]

/-- Every row of `solvers.euler` has the state's length when the field preserves it. -/
theorem euler_lengths {n : Nat} (f : List α → α → List α)
    (hf : ∀ y t, y.length = n → (f y t).length = n) (y0 : List α) (hy0 : y0.length = n) (times : List α) :
    ∀ r ∈ euler f y0 times, r.length = n := by
  have h0 := euler_linear (linOn_const_zero n) (f := f) (fun y t hy => ⟨hf y t hy, rfl⟩) y0 hy0 times
  exact fun r hr => (h0 r hr).1

/-- Consecutive rows of `solvers.euler`: row `i+1` is the Euler update of row `i` at `times[i]` with
the step `times[1] − times[0]`, so `L` moves by `h · L (f row_i times[i])` between them — for every
time grid, every step count, every field `f` that keeps the state's length. -/
theorem euler_rows_balance {n : Nat} {L : List α → α} (hL : LinOn n L) (f : List α → α → List α)
    (hf : ∀ y t, y.length = n → (f y t).length = n) (y0 : List α) (hy0 : y0.length = n) (times : List α)
    (i : Nat) (hi : i + 1 < (euler f y0 times).length) (hi' : i < (euler f y0 times).length)
    (ht : i < (times.take (times.length - 1)).length) :
    L ((euler f y0 times)[i + 1]) =
      L ((euler f y0 times)[i]) +
        (times.getD 1 0 - times.getD 0 0) * L (f ((euler f y0 times)[i]) ((times.take (times.length - 1))[i])) := by
  have hlen := euler_lengths f hf y0 hy0 times _ (List.getElem_mem hi')
  have key : (euler f y0 times)[i + 1] =
      eulerStep f (times.getD 1 0 - times.getD 0 0) ((euler f y0 times)[i]) ((times.take (times.length - 1))[i]) := by
    simp only [euler_eq_scanl]
    exact List.getElem_succ_scanl ..
  rw [key]
  exact (eulerStep_balance hL f _ _ _ hlen (hf _ _ hlen)).2

/-- The open-model statement.  For a prepared model `m` with backend `b` whose right-hand side is
`compRates b (rates y t)` for ANY flow-rate function `rates` (in particular the documented per-flow
laws of C01), one Euler update changes the total population by exactly
`h · (total entry − total exit)`: nothing else creates or removes people. -/
theorem euler_total_balance (m : Model α) (b : Backend) (hp : prepare m = .ok b)
    (rates : List α → α → List α) (h : α) (y : List α) (t : α)
    (hlen : (compRates b (rates y t) : List α).length = y.length) :
    sumL (eulerStep (fun y t => compRates b (rates y t)) h y t) =
      sumL y + h * (Spec.entryTotal m (rates y t) - Spec.exitTotal m (rates y t)) := by
  have h1 := (eulerStep_balance (linOn_sumL y.length) (fun y t => compRates b (rates y t)) h y t rfl hlen).2
  rw [h1, Summer.C02.total_rate m b hp]

/-- … and a model with no entry and no exit flow total keeps its population over the step. -/
theorem euler_total_closed (m : Model α) (b : Backend) (hp : prepare m = .ok b)
    (rates : List α → α → List α) (h : α) (y : List α) (t : α)
    (hlen : (compRates b (rates y t) : List α).length = y.length)
    (hclosed : Spec.entryTotal m (rates y t) = Spec.exitTotal m (rates y t)) :
    sumL (eulerStep (fun y t => compRates b (rates y t)) h y t) = sumL y := by
  rw [euler_total_balance m b hp rates h y t hlen, hclosed]; simp

/-- Non-vacuity: a one-compartment field with constant inflow 3, step 1/2, three output times. -/
example : euler (fun _ _ => [(3 : ℚ)]) [10] [0, 1/2, 1] = [[10], [23/2], [13]] := by decide +kernel


/-- One classical RK4 update: `L` moves by the RK4 combination of `h · L` of the four stage
derivatives (each stage evaluated where `solvers.rk4` evaluates it). -/
theorem rk4Step_balance {n : Nat} {L : List α → α} (hL : LinOn n L) (f : List α → α → List α)
    (hf : ∀ y t, y.length = n → (f y t).length = n) (h : α) (y : List α) (t : α) (hy : y.length = n) :
    let k1 := f y t
    let k2 := f (vadd y ((vscale h k1).map (· / two))) (t + h / two)
    let k3 := f (vadd y ((vscale h k2).map (· / two))) (t + h / two)
    let k4 := f (vadd y (vscale h k3)) (t + h)
    (rk4Step f h y t).length = n ∧
    L (rk4Step f h y t) =
      L y + (1 / six) * (h * L k1 + two * (h * L k2) + two * (h * L k3) + h * L k4) := by
  intro k1 k2 k3 k4
  have arg : ∀ (v : List α), v.length = n → (vadd y v).length = n := by
    intro v hv; simp [hy, hv]
  have l1 : k1.length = n := hf _ _ hy
  have s1 : (vscale h k1).length = n := by simp [l1]
  have l2 : k2.length = n := hf _ _ (arg _ (by simpa using s1))
  have s2 : (vscale h k2).length = n := by simp [l2]
  have l3 : k3.length = n := hf _ _ (arg _ (by simpa using s2))
  have s3 : (vscale h k3).length = n := by simp [l3]
  have l4 : k4.length = n := hf _ _ (arg _ s3)
  have s4 : (vscale h k4).length = n := by simp [l4]
  have e : rk4Step f h y t =
      vadd y (vscale ((1 : α) / six)
        (vadd (vadd (vadd (vscale h k1) (vscale two (vscale h k2))) (vscale two (vscale h k3))) (vscale h k4))) := rfl
  rw [e]
  have i1 : (vadd (vscale h k1) (vscale two (vscale h k2))).length = n := by simp [l1, l2]
  have i2 : (vadd (vadd (vscale h k1) (vscale two (vscale h k2))) (vscale two (vscale h k3))).length = n := by
    simp [l1, l2, l3]
  have i3 : (vadd (vadd (vadd (vscale h k1) (vscale two (vscale h k2))) (vscale two (vscale h k3))) (vscale h k4)).length = n := by
    simp [l1, l2, l3, l4]
  refine ⟨by simp [hy, l1, l2, l3, l4], ?_⟩
  rw [hL.add _ _ hy (by simpa using i3), hL.smul _ _ i3, hL.add _ _ i2 s4, hL.add _ _ i1 (by simpa using s3),
    hL.add _ _ s1 (by simpa using s2), hL.smul _ _ s2, hL.smul _ _ s3, hL.smul _ _ l1, hL.smul _ _ l2,
    hL.smul _ _ l3, hL.smul _ _ l4]

/-- RK4 on a prepared model: the total moves by the RK4 combination of `h · (entries − exits)` at the
four stages, and by nothing else. -/
theorem rk4_total_balance (m : Model α) (b : Backend) (hp : prepare m = .ok b)
    (rates : List α → α → List α) (h : α) (y : List α) (t : α)
    (hlen : ∀ y' t', y'.length = y.length → (compRates b (rates y' t') : List α).length = y.length) :
    let F : List α → α → List α := fun y t => compRates b (rates y t)
    let net : List α → α → α := fun y t => Spec.entryTotal m (rates y t) - Spec.exitTotal m (rates y t)
    let y2 := vadd y ((vscale h (F y t)).map (· / two))
    let y3 := vadd y ((vscale h (F y2 (t + h / two))).map (· / two))
    let y4 := vadd y (vscale h (F y3 (t + h / two)))
    sumL (rk4Step F h y t) =
      sumL y + (1 / six) * (h * net y t + two * (h * net y2 (t + h / two)) + two * (h * net y3 (t + h / two))
        + h * net y4 (t + h)) := by
  intro F net y2 y3 y4
  have h1 := (rk4Step_balance (linOn_sumL y.length) F hlen h y t rfl).2
  have ht : ∀ y t, sumL (F y t) = net y t := fun y t => Summer.C02.total_rate m b hp _
  simp only [ht] at h1
  exact h1

example : rk4Step (fun _ _ => [(3 : ℚ)]) (1/2) [10] 0 = [23/2] := by decide +kernel

/-- Telescoped accounting over a whole fixed-step trajectory: row `k` of `solvers.euler` has
`L row_k = L y0 + h · Σ_{i<k} L (f row_i times[i])` — for every grid and every `k` — so the total at any
output time is the initial total plus the step times the accumulated net (entry − exit) rates. -/
theorem euler_telescope {n : Nat} {L : List α → α} (hL : LinOn n L) (f : List α → α → List α)
    (hf : ∀ y t, y.length = n → (f y t).length = n) (y0 : List α) (hy0 : y0.length = n) (times : List α)
    (k : Nat) (hk : k < (euler f y0 times).length) :
    L ((euler f y0 times)[k]) =
      L y0 + (times.getD 1 0 - times.getD 0 0) *
        sumL ((List.range k).map (fun i => L (f ((euler f y0 times).getD i []) (times.getD i 0)))) := by
  induction k with
  | zero =>
    have : (euler f y0 times)[0] = y0 := by simp only [euler_eq_scanl]; exact List.getElem_scanl_zero ..
    simp [this, sumL]
  | succ k ih =>
    have hk' : k < (euler f y0 times).length := by omega
    have hlen : (euler f y0 times).length = (times.take (times.length - 1)).length + 1 := by
      simp only [euler_eq_scanl, List.length_scanl]
    have ht : k < (times.take (times.length - 1)).length := by omega
    rw [euler_rows_balance hL f hf y0 hy0 times k hk hk' ht, ih hk', List.range_succ, List.map_append,
      Summer.Proofs.sumL_append]
    have e1 : (euler f y0 times).getD k [] = (euler f y0 times)[k] := by
      simp [List.getD_eq_getElem?_getD, hk']
    have e2 : times.getD k 0 = (times.take (times.length - 1))[k] := by
      have : k < times.length := by simp at ht; omega
      simp [List.getD_eq_getElem?_getD, this, List.getElem_take]
    simp only [List.map_cons, List.map_nil, sumL, e1, e2]
    ring

/-- The same on a prepared model: the total population at output row `k` of `solvers.euler` is the initial
total plus `h ·` the accumulated (entry − exit) totals at the earlier rows — and nothing else. -/
theorem euler_total_telescope (m : Model α) (b : Backend) (hp : prepare m = .ok b)
    (rates : List α → α → List α) (n : Nat)
    (hlen : ∀ y t, y.length = n → (compRates b (rates y t) : List α).length = n)
    (y0 : List α) (hy0 : y0.length = n) (times : List α)
    (k : Nat) (hk : k < (euler (fun y t => compRates b (rates y t)) y0 times).length) :
    sumL ((euler (fun y t => compRates b (rates y t)) y0 times)[k]) =
      sumL y0 + (times.getD 1 0 - times.getD 0 0) *
        sumL ((List.range k).map (fun i =>
          Spec.entryTotal m (rates ((euler (fun y t => compRates b (rates y t)) y0 times).getD i []) (times.getD i 0)) -
          Spec.exitTotal m (rates ((euler (fun y t => compRates b (rates y t)) y0 times).getD i []) (times.getD i 0)))) := by
  have h := euler_telescope (linOn_sumL n) (fun y t => compRates b (rates y t)) hlen y0 hy0 times k hk
  simp only [Summer.C02.total_rate m b hp] at h
  exact h

/-- One Dormand–Prince step of the adaptive solver, accepted or rejected, for EVERY tableau and every
`dt`: the proposed state moves `L` by `dt · Σ_i cSol_i · L k_i` over the seven stage derivatives, and the
error estimate carries `dt · Σ_i cError_i · L k_i` — with no hypothesis that the field annihilates `L`. -/
theorem dopriStep_balance {n : Nat} {L : List α → α} (hL : LinOn n L) (tb : Tableau α)
    (f : List α → α → List α) (hf : ∀ y t, y.length = n → (f y t).length = n)
    (y0 f0 : List α) (hy0 : y0.length = n) (hf0 : f0.length = n) (t0 dt : α) :
    let r := rkStep tb f y0 f0 t0 dt
    r.1.length = n ∧
    L r.1 = L y0 + dt * sumL ((tb.cSol.zip r.2.2.2).map (fun ck => ck.1 * L ck.2)) ∧
    L r.2.2.1 = dt * sumL ((tb.cError.zip r.2.2.2).map (fun ck => ck.1 * L ck.2)) := by
  have hf' : FieldOK n (fun _ : List α => (0 : α)) f := fun y t hy => ⟨hf y t hy, rfl⟩
  obtain ⟨hk, -⟩ := rkStages_inv (L := fun _ : List α => (0 : α)) tb hf' y0 f0 hy0 ⟨hf0, rfl⟩ t0 dt
  have hkl : ∀ v ∈ rkStages tb f y0 f0 t0 dt, v.length = n := fun v hv => (hk v hv).1
  simp only [rkStep_eq]
  refine ⟨by simp [hy0, length_lincomb n _ _ hkl], ?_, ?_⟩
  · rw [hL.add _ _ (by simp [hy0, length_lincomb n _ _ hkl]) hy0,
      hL.smul _ _ (by simp [hy0, length_lincomb n _ _ hkl]), hy0, L_lincomb hL _ _ hkl]
    ring
  · rw [hL.smul _ _ (by simp [hy0, length_lincomb n _ _ hkl]), hy0, L_lincomb hL _ _ hkl]

/-- … on a prepared model: the total of the proposed state moves by `dt ·` the `cSol`-weighted
(entry − exit) totals of the stage derivatives, given the stages are the model's compartment rates. -/
theorem dopri_total_balance (m : Model α) (b : Backend) (hp : prepare m = .ok b) (tb : Tableau α)
    (f : List α → α → List α) (n : Nat) (hf : ∀ y t, y.length = n → (f y t).length = n)
    (y0 f0 : List α) (hy0 : y0.length = n) (hf0 : f0.length = n) (t0 dt : α)
    (rs : List (List α))
    (hstages : (rkStep tb f y0 f0 t0 dt).2.2.2 = rs.map (fun r => compRates b r)) :
    sumL (rkStep tb f y0 f0 t0 dt).1 =
      sumL y0 + dt * sumL ((tb.cSol.zip rs).map (fun cr => cr.1 * (Spec.entryTotal m cr.2 - Spec.exitTotal m cr.2))) := by
  have h := (dopriStep_balance (linOn_sumL n) tb f hf y0 f0 hy0 hf0 t0 dt).2.1
  rw [h, hstages, List.zip_map_right, List.map_map]
  congr 3
  apply List.map_congr_left
  intro cr _
  simp [Summer.C02.total_rate m b hp]

/-- Every row of `solvers.rk4` has the state's length when the field preserves it. -/
theorem rk4_lengths {n : Nat} (f : List α → α → List α)
    (hf : ∀ y t, y.length = n → (f y t).length = n) (y0 : List α) (hy0 : y0.length = n) (times : List α) :
    ∀ r ∈ rk4 f y0 times, r.length = n := by
  have h0 := rk4_linear (linOn_const_zero n) (f := f) (fun y t hy => ⟨hf y t hy, rfl⟩) y0 hy0 times
  exact fun r hr => (h0 r hr).1

/-- Consecutive rows of `solvers.rk4`: row `i+1` is the classical RK4 update of row `i` at `times[i]`
with the step `times[1] − times[0]`; hence (with `rk4Step_balance`) `L` moves between them by the RK4
combination of `h · L` of the four stage derivatives taken from row `i`. -/
theorem rk4_rows_balance {n : Nat} {L : List α → α} (hL : LinOn n L) (f : List α → α → List α)
    (hf : ∀ y t, y.length = n → (f y t).length = n) (y0 : List α) (hy0 : y0.length = n) (times : List α)
    (i : Nat) (hi : i + 1 < (rk4 f y0 times).length) (hi' : i < (rk4 f y0 times).length)
    (ht : i < (times.take (times.length - 1)).length) :
    let h := times.getD 1 0 - times.getD 0 0
    let y := (rk4 f y0 times)[i]
    let t := (times.take (times.length - 1))[i]
    let k1 := f y t
    let k2 := f (vadd y ((vscale h k1).map (· / two))) (t + h / two)
    let k3 := f (vadd y ((vscale h k2).map (· / two))) (t + h / two)
    let k4 := f (vadd y (vscale h k3)) (t + h)
    (rk4 f y0 times)[i + 1] = rk4Step f h y t ∧
    L ((rk4 f y0 times)[i + 1]) =
      L y + (1 / six) * (h * L k1 + two * (h * L k2) + two * (h * L k3) + h * L k4) := by
  intro h y t k1 k2 k3 k4
  have hlen := rk4_lengths f hf y0 hy0 times _ (List.getElem_mem hi')
  have key : (rk4 f y0 times)[i + 1] = rk4Step f h y t := by
    simp only [rk4_eq_scanl, h, y, t]
    exact List.getElem_succ_scanl ..
  refine ⟨key, ?_⟩
  rw [key]
  exact (rk4Step_balance hL f hf h y t hlen).2
end Summer.Props.C02Open

#print axioms Summer.Props.C02Open.eulerStep_balance
#print axioms Summer.Props.C02Open.euler_lengths
#print axioms Summer.Props.C02Open.euler_rows_balance
#print axioms Summer.Props.C02Open.euler_total_balance
#print axioms Summer.Props.C02Open.euler_total_closed
#print axioms Summer.Props.C02Open.rk4Step_balance
#print axioms Summer.Props.C02Open.rk4_total_balance
#print axioms Summer.Props.C02Open.euler_telescope
#print axioms Summer.Props.C02Open.euler_total_telescope
#print axioms Summer.Props.C02Open.dopriStep_balance
#print axioms Summer.Props.C02Open.dopri_total_balance
#print axioms Summer.Props.C02Open.rk4_lengths
#print axioms Summer.Props.C02Open.rk4_rows_balance
