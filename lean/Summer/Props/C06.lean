import Summer.Proofs.InitPop
/-
C06 — the initial population is the declared distribution pushed through the population splits of
the stratifications and the rebalances (`adjust_population_split`).
-/
namespace Summer.Props.C06
open Summer Summer.Run Summer.Build Summer.Spec Summer.Proofs.InitPop

/-! ### 1. the scatter of `stratify_compartment_values` is the loop specification -/

/-- For every compartment list, every stratification with distinct strata and every value vector of
the right length, the run-time scatter (`stratifyValues` with the index arrays recorded by
`_stratify_compartments`) equals the direct specification: a stratified compartment is replaced by
`parent × split[stratum]` for each stratum (in stratum order), every other compartment keeps its
value; the result has one entry per new compartment. -/
theorem scatter_eq_spec {α : Type} [Mul α] [Zero α] (comps : List Comp) (s : Strat α)
    (hnd : s.strata.Nodup) (split : List (String × α)) (vals : List α)
    (hv : vals.length = comps.length) :
    stratifyValues (stratIndexArrays comps s) s.strata split vals
      = (comps.zip vals).flatMap (fun cv =>
          if cv.1.hasNameIn s.comps then s.strata.map (fun st => cv.2 * (alookup split st).getD 0)
          else [cv.2])
    ∧ (stratifyValues (stratIndexArrays comps s) s.strata split vals).length
      = (stratifyComps comps s).length := by
  have h := (Inv_stratIndexArrays s hnd split comps).main vals hv
  refine ⟨h, ?_⟩
  rw [h]
  exact length_stratifySpec comps s split vals hv

/-- Every target index is written exactly once: the indices written by the scatter (the
passthrough targets followed by the targets of each stratum, in writing order) are a permutation of
`0 … newSize-1`, and no write is dropped by a length mismatch between index and value arrays. -/
theorem targets_partition {α : Type} (comps : List Comp) (s : Strat α) (hnd : s.strata.Nodup) :
    ((stratIndexArrays comps s).passTarget ++
        s.strata.flatMap (fun st => (alookup (stratIndexArrays comps s).stratumTarget st).getD [])).Perm
      (List.range (stratIndexArrays comps s).newSize) ∧
    (stratIndexArrays comps s).passTarget.length = (stratIndexArrays comps s).passBase.length ∧
    ∀ st ∈ s.strata, ∃ L, alookup (stratIndexArrays comps s).stratumTarget st = some L ∧
      L.length = (stratIndexArrays comps s).stratBase.length := by
  have hinv := Inv_stratIndexArrays (α := Nat) s hnd [] comps
  refine ⟨writeTargets_perm s hnd comps, hinv.ptl, fun st hst => ?_⟩
  obtain ⟨L, h1, h2, _⟩ := hinv.st st hst
  exact ⟨L, h1, h2⟩

/-- non-vacuity: three compartments, the first and third stratified in three strata -/
example :
    let comps : List Comp := [⟨"S", []⟩, ⟨"I", [("age", "0")]⟩, ⟨"R", []⟩]
    let s : Strat Rat := { kind := .plain, name := "loc", strata := ["a", "b", "c"], comps := ["S", "R"],
                           split := [], flowAdj := [], infAdj := [], mixing := none }
    s.strata.Nodup ∧ [(10 : Rat), 20, 30].length = comps.length ∧
    stratifyValues (stratIndexArrays comps s) s.strata [("a", (1/2 : Rat)), ("b", 1/4), ("c", 1/4)] [10, 20, 30]
      = [5, 5/2, 5/2, 20, 15, 15/2, 15/2] := by
  decide +kernel

/-- The hypothesis `Nodup` is necessary: with a repeated stratum the scatter leaves a zero. -/
example :
    let comps : List Comp := [⟨"S", []⟩]
    let s : Strat Rat := { kind := .plain, name := "loc", strata := ["a", "a"], comps := ["S"],
                           split := [], flowAdj := [], infAdj := [], mixing := none }
    stratifyValues (stratIndexArrays comps s) s.strata [("a", (1/2 : Rat))] [10] = [5, 0] := by
  decide +kernel

/-! ### 2. totals -/

/-- If the split proportions over the strata sum to one then (a) the children of every stratified
compartment sum to the parent's value — the result is the concatenation of the per-compartment
chunks and every chunk sums to its parent — and (b) the grand total is preserved. -/
theorem totals {α : Type} [Field α] (comps : List Comp) (s : Strat α)
    (hnd : s.strata.Nodup) (split : List (String × α)) (vals : List α)
    (hv : vals.length = comps.length)
    (hsum : sumL (s.strata.map (fun st => (alookup split st).getD 0)) = 1) :
    let chunk : Comp × α → List α := fun cv =>
      if cv.1.hasNameIn s.comps then s.strata.map (fun st => cv.2 * (alookup split st).getD 0) else [cv.2]
    stratifyValues (stratIndexArrays comps s) s.strata split vals = (comps.zip vals).flatMap chunk
    ∧ (∀ cv ∈ comps.zip vals, sumL (chunk cv) = cv.2)
    ∧ sumL (stratifyValues (stratIndexArrays comps s) s.strata split vals) = sumL vals := by
  intro chunk
  have h := (scatter_eq_spec comps s hnd split vals hv).1
  refine ⟨h, ?_, ?_⟩
  · intro cv _
    by_cases hc : cv.1.hasNameIn s.comps
    · simp only [chunk, hc, if_true]; exact sumL_chunk s.strata split cv.2 hsum
    · simp [chunk, hc, sumL]
  · rw [h]; exact sumL_stratifySpec comps s.comps s.strata split vals hv hsum

/-- non-vacuity of `totals` -/
example :
    let s : Strat Rat := { kind := .plain, name := "loc", strata := ["a", "b", "c"], comps := ["S", "R"],
                           split := [], flowAdj := [], infAdj := [], mixing := none }
    s.strata.Nodup ∧
    sumL (s.strata.map (fun st => (alookup [("a", (1/2 : Rat)), ("b", 1/4), ("c", 1/4)] st).getD 0)) = 1 := by
  decide +kernel

/-! ### 3. the whole initial population, for a sequence of stratifications -/

/-- For a model whose build actions are stratifications only — `ss` lists them in order, each with
its evaluated split dictionary — `initialPopulation` succeeds, has one entry per final compartment
(`compsF`, the iterated `_stratify_compartments`) and, zipped with the final compartments, equals the
specification `initSpec`: the declared distribution `(compartment n, dist n)` refined by one
stratification at a time, every stratified pair `(c, v)` being replaced by
`(c.stratify name stratum, v × split[stratum])` in stratum order. -/
theorem init_eq_spec {α : Type} [Zero α] [One α] [Add α] [Sub α] [Mul α] [Div α] [LT α]
    [DecidableLT α] (m : Model α) (params : List (String × α))
    (dist : List (String × Expr α)) (dvals : List (String × α))
    (ss : List (Strat α × List (String × α)))
    (harr : m.arrayPop = none) (hdist : m.initDist = some dist)
    (hdv : evalDict params dist = some dvals)
    (hact : m.actions = ss.map (fun s => BuildAction.stratify s.1.name))
    (hfind : ∀ s ∈ ss, m.strats.find? (fun t => t.name == s.1.name) = some s.1 ∧
      evalDict params s.1.split = some s.2)
    (hnd : ∀ s ∈ ss, s.1.strata.Nodup) :
    ∃ x0, initialPopulation m params = some x0 ∧
      x0.length = (ss.foldl (fun cs s => stratifyComps cs s.1) (m.origNames.map (fun n => (⟨n, []⟩ : Comp)))).length ∧
      (ss.foldl (fun cs s => stratifyComps cs s.1) (m.origNames.map (fun n => (⟨n, []⟩ : Comp)))).zip x0
        = initSpec ss (m.origNames.map (fun n => ((⟨n, []⟩ : Comp), (alookup dvals n).getD 0))) := by
  obtain ⟨h1, h2, h3⟩ := pureFold_spec ss hnd (m.origNames.map (fun n => (⟨n, []⟩ : Comp)))
    (m.origNames.map (fun n => (alookup dvals n).getD 0)) (by simp)
  refine ⟨(ss.foldl pureStep (m.origNames.map (fun n => (⟨n, []⟩ : Comp)),
    m.origNames.map (fun n => (alookup dvals n).getD 0))).2, ?_, ?_, ?_⟩
  · rw [initialPopulation_eq m params dist dvals harr hdist hdv, hact, ipFold_stratify m params ss hfind]
    rfl
  · rw [h2, h1]
  · rw [← h1, h3, zip_map_map']

/-- `init_eq_spec` is stated over the core arithmetic classes the model is written in; in particular it
holds verbatim over every ordered field (and for the `Rat` instance executed by the driver). -/
example {α : Type} [Field α] [LinearOrder α] [IsStrictOrderedRing α] (m : Model α)
    (params : List (String × α)) (dist : List (String × Expr α)) (dvals : List (String × α))
    (ss : List (Strat α × List (String × α)))
    (harr : m.arrayPop = none) (hdist : m.initDist = some dist)
    (hdv : evalDict params dist = some dvals)
    (hact : m.actions = ss.map (fun s => BuildAction.stratify s.1.name))
    (hfind : ∀ s ∈ ss, m.strats.find? (fun t => t.name == s.1.name) = some s.1 ∧
      evalDict params s.1.split = some s.2)
    (hnd : ∀ s ∈ ss, s.1.strata.Nodup) :
    ∃ x0, initialPopulation m params = some x0 ∧
      x0.length = (ss.foldl (fun cs s => stratifyComps cs s.1) (m.origNames.map (fun n => (⟨n, []⟩ : Comp)))).length :=
  let ⟨x0, h1, h2, _⟩ := init_eq_spec m params dist dvals ss harr hdist hdv hact hfind hnd
  ⟨x0, h1, h2⟩

/-- Product form: every entry `(c, v)` of the specification comes from one original compartment
`(c0, v0)` and a choice of one stratum per stratification (`path`); `c` is `c0` stratified along the
path and `v = v0 × split₁[path₁] × split₂[path₂] × …` (only the stratifications that apply to
`c0`'s name contribute). -/
theorem init_product {α : Type} [Mul α] [Zero α] {β : Type} (ss : List (Strat β × List (String × α)))
    (cvs : List (Comp × α)) (cv : Comp × α) (h : cv ∈ initSpec ss cvs) :
    ∃ cv0 ∈ cvs, ∃ path : List String, path.length = ss.length ∧
      cv.1 = pathComp cv0.1 ss path ∧ cv.2 = pathValue cv0.1 cv0.2 ss path :=
  initSpec_product ss cvs cv h

section init_examples
def exAge : Strat Rat :=
  { kind := .age, name := "age", strata := ["0", "5"], comps := ["S", "I"],
    split := [("0", .const (1/4)), ("5", .const (3/4))], flowAdj := [], infAdj := [], mixing := none }
def exLoc : Strat Rat :=
  { kind := .plain, name := "loc", strata := ["a", "b"], comps := ["S"],
    split := [("a", .param "pa"), ("b", .const (2/5))], flowAdj := [], infAdj := [], mixing := none }
def exModel : Model Rat :=
  { t0 := 0, t1 := 1, dt := 1, nTimes := 2,
    comps := [], origNames := ["S", "I"], infectious := ["I"], flows := [], strats := [exAge, exLoc],
    mixingCats := [[]], mixingMats := [], strains := ["default"],
    initDist := some [("S", .const 100), ("I", .param "seed")], arrayPop := none,
    actions := [.stratify "age", .stratify "loc"], requests := [], computed := [], whitelist := [],
    finalized := false }
def exParams : List (String × Rat) := [("pa", 3/5), ("seed", 8)]
def exSS : List (Strat Rat × List (String × Rat)) :=
  [(exAge, [("0", 1/4), ("5", 3/4)]), (exLoc, [("a", 3/5), ("b", 2/5)])]

/-- non-vacuity of `init_eq_spec`: all hypotheses hold for a two-compartment model stratified twice -/
example :
    exModel.arrayPop = none ∧ exModel.initDist = some [("S", .const 100), ("I", .param "seed")] ∧
    evalDict exParams [("S", .const 100), ("I", .param "seed")] = some [("S", 100), ("I", 8)] ∧
    (∀ s ∈ exSS, exModel.strats.find? (fun t => t.name == s.1.name) = some s.1 ∧
      evalDict exParams s.1.split = some s.2) ∧
    (∀ s ∈ exSS, s.1.strata.Nodup) := by
  refine ⟨rfl, rfl, ?_, ?_, ?_⟩
  · simp [evalDict, evalStatic, Expr.eval, exParams, alookup]
  · intro s hs
    simp only [exSS, List.mem_cons, List.not_mem_nil, or_false] at hs
    rcases hs with rfl | rfl
    · refine ⟨by simp [exModel, exAge, exLoc], ?_⟩
      simp [evalDict, evalStatic, Expr.eval, exAge]
    · refine ⟨by simp [exModel, exAge, exLoc], ?_⟩
      simp [evalDict, evalStatic, Expr.eval, exLoc, exParams, alookup]
  · intro s hs
    simp only [exSS, List.mem_cons, List.not_mem_nil, or_false] at hs
    rcases hs with rfl | rfl <;> decide

#eval initialPopulation exModel exParams   -- some [15, 10, 45, 30, 2, 6]
end init_examples

/-! ### 4. rebalance (`adjust_population_split`)

Vocabulary (`Summer/Spec/InitPop.lean`): `sameGroup strat c d` — same name and the same strata items
other than `strat`; `groupOf comps strat c` — the members (with indices) of `c`'s group;
`groupTotal comps strat pop c` — the sum of the INPUT vector `pop` over `c`'s group;
`affected comps strat flt c` — `c`'s group contains a compartment stratified by `strat` that matches
the destination filter `flt` (these are exactly the groups the Python loop visits).

Hypotheses: strata keys are distinct within every compartment and compartments of the same name carry
the same strata keys (both hold for every model built by `stratify_with`).  `comps.Nodup` is not
needed: everything is stated by index. -/

/-- Pointwise characterisation of `rebalance`: the result has the length of the input; an entry of a
compartment outside the affected groups is unchanged; an entry of a compartment in an affected group
becomes `(total of its group in the INPUT vector) × props[its stratum of strat]`. -/
theorem rebalance {α : Type} [Add α] [Mul α] [Zero α] (comps : List Comp) (strat : String)
    (flt : Strata) (props : List (String × α)) (pop : List α)
    (hkn : ∀ c ∈ comps, (c.strata.map (·.1)).Nodup)
    (hku : ∀ c ∈ comps, ∀ d ∈ comps, c.name = d.name → c.strata.map (·.1) = d.strata.map (·.1))
    (hlen : pop.length = comps.length) :
    (Run.rebalance comps strat flt props pop).length = pop.length ∧
    ∀ (i : Nat) (hi : i < comps.length),
      (affected comps strat flt comps[i] = false →
        (Run.rebalance comps strat flt props pop).getD i 0 = pop.getD i 0) ∧
      (affected comps strat flt comps[i] = true →
        ∃ k, alookup comps[i].strata strat = some k ∧
          (Run.rebalance comps strat flt props pop).getD i 0
            = groupTotal comps strat pop comps[i] * (alookup props k).getD 0) := by
  have hok : CompsOK comps := ⟨hkn, hku⟩
  have hgs := rbGroups_ok comps strat flt
  refine ⟨length_rbFold comps strat props pop _, fun i hi => ⟨fun h => ?_, fun h => ?_⟩⟩
  · exact rbFold_unaffected hok strat flt props pop _ hgs i hi h
  · exact rbFold_affected hok strat flt props pop _ hgs i hi hlen h

/-- When the destination filter does not mention `strat` itself (the documented use), a compartment
of the model is affected iff it is stratified by `strat` and matches the filter. -/
theorem rebalance_affected_iff (comps : List Comp) (strat : String) (flt : Strata)
    (hkn : ∀ c ∈ comps, (c.strata.map (·.1)).Nodup)
    (hku : ∀ c ∈ comps, ∀ d ∈ comps, c.name = d.name → c.strata.map (·.1) = d.strata.map (·.1))
    (hflt : flt.all (fun kv => kv.1 != strat) = true) (c : Comp) (hc : c ∈ comps) :
    affected comps strat flt c = (c.strata.any (fun kv => kv.1 == strat) && c.hasStrata flt) :=
  affected_eq_of_filter_free ⟨hkn, hku⟩ strat flt hflt c hc

/-- Every affected group keeps its total: if the `strat`-strata of the group's members are exactly
the keys of `props` (each once) and `props` sums to one, the sum of the result over the group equals
the sum of the input over the group. -/
theorem rebalance_group_total {α : Type} [Field α] (comps : List Comp) (strat : String)
    (flt : Strata) (props : List (String × α)) (pop : List α)
    (hkn : ∀ c ∈ comps, (c.strata.map (·.1)).Nodup)
    (hku : ∀ c ∈ comps, ∀ d ∈ comps, c.name = d.name → c.strata.map (·.1) = d.strata.map (·.1))
    (hlen : pop.length = comps.length) (c : Comp) (haff : affected comps strat flt c = true)
    (hpk : (props.map (·.1)).Nodup)
    (hperm : ((groupOf comps strat c).map (fun dj => (alookup dj.1.strata strat).getD "")).Perm
      (props.map (·.1)))
    (hsum : sumL (props.map (·.2)) = 1) :
    sumL ((groupOf comps strat c).map (fun dj => (Run.rebalance comps strat flt props pop).getD dj.2 0))
      = sumL ((groupOf comps strat c).map (fun dj => pop.getD dj.2 0)) := by
  have hok : CompsOK comps := ⟨hkn, hku⟩
  have h := rbFold_group_sum hok strat flt props pop _ (rbGroups_ok comps strat flt) c hlen haff
  have h2 : sumL ((groupOf comps strat c).map
      (fun dj => (alookup props ((alookup dj.1.strata strat).getD "")).getD 0)) = 1 := by
    have := sumL_perm (hperm.map (fun k => (alookup props k).getD 0))
    rw [List.map_map, map_alookup_keys props hpk, hsum] at this
    exact this
  rw [h2, mul_one] at h
  exact h

/-- Order independence: the totals are read from the input vector, so processing the groups in any
other order (indeed any list with the same elements, e.g. Python's `set` iteration order) gives the
same result. -/
theorem rebalance_order_independent {α : Type} [Add α] [Mul α] [Zero α] (comps : List Comp)
    (strat : String) (flt : Strata) (props : List (String × α)) (pop : List α)
    (hkn : ∀ c ∈ comps, (c.strata.map (·.1)).Nodup)
    (hku : ∀ c ∈ comps, ∀ d ∈ comps, c.name = d.name → c.strata.map (·.1) = d.strata.map (·.1))
    (hlen : pop.length = comps.length) (gs' : List (String × Strata))
    (hperm : gs'.Perm (rbGroups comps strat flt)) :
    rbFold comps strat props pop gs' = Run.rebalance comps strat flt props pop :=
  rbFold_congr ⟨hkn, hku⟩ strat flt props pop _ gs' (rbGroups_ok comps strat flt)
    (fun _ => hperm.mem_iff) hlen

section rebalance_examples
/-- two groups of `S` (by `age`), stratified by `loc`; `I` is not stratified by `loc` -/
def exComps : List Comp :=
  [⟨"S", [("age", "0"), ("loc", "a")]⟩, ⟨"S", [("age", "0"), ("loc", "b")]⟩,
   ⟨"S", [("age", "5"), ("loc", "a")]⟩, ⟨"S", [("age", "5"), ("loc", "b")]⟩, ⟨"I", [("age", "0")]⟩]
def exProps : List (String × Rat) := [("a", 1/4), ("b", 3/4)]
def exPop : List Rat := [20, 20, 5, 15, 7]

/-- non-vacuity of all hypotheses of `rebalance` / `rebalance_group_total`, and the computed result:
only the `age = 0` group of `S` is redistributed -/
example :
    (∀ c ∈ exComps, (c.strata.map (·.1)).Nodup) ∧
    (∀ c ∈ exComps, ∀ d ∈ exComps, c.name = d.name → c.strata.map (·.1) = d.strata.map (·.1)) ∧
    exPop.length = exComps.length ∧
    affected exComps "loc" [("age", "0")] exComps[0] = true ∧
    affected exComps "loc" [("age", "0")] exComps[2] = false ∧
    (exProps.map (·.1)).Nodup ∧
    ((groupOf exComps "loc" exComps[0]).map (fun dj => (alookup dj.1.strata "loc").getD "")).Perm
      (exProps.map (·.1)) ∧
    sumL (exProps.map (·.2)) = 1 ∧
    Run.rebalance exComps "loc" [("age", "0")] exProps exPop = [10, 30, 5, 15, 7] := by
  decide +kernel

/-- The uniform-keys hypothesis is necessary: with compartments of one name carrying different strata
keys, the groups selected by `_get_matching_compartments` overlap, the total (30) is not preserved
(the result sums to 50) and the result depends on the processing order of the groups. -/
example :
    let comps : List Comp := [⟨"S", [("a", "1"), ("loc", "x")]⟩, ⟨"S", [("a", "1"), ("b", "2"), ("loc", "x")]⟩]
    Run.rebalance comps "loc" [] [("x", (1 : Rat))] [10, 20] = [30, 20] ∧
    rbFold comps "loc" [("x", (1 : Rat))] [10, 20] (rbGroups comps "loc" []).reverse = [30, 30] := by
  decide +kernel
end rebalance_examples

#print axioms scatter_eq_spec
#print axioms targets_partition
#print axioms totals
#print axioms init_eq_spec
#print axioms init_product
#print axioms rebalance
#print axioms rebalance_affected_iff
#print axioms rebalance_group_total
#print axioms rebalance_order_independent
end Summer.Props.C06
