import Summer.Model.Run
-- placeholder until the proof worker delivers (replaced by the real file)
namespace Summer.Props.C06
theorem placeholder : True := trivial
end Summer.Props.C06
#print axioms Summer.Props.C06.placeholder
