import Summer.Generated.Arith
import Summer.Spec.Solvers
import Mathlib.Algebra.Order.Field.Basic
import Mathlib.Tactic.Ring
import Mathlib.Tactic.NormNum
/-
C07 / C02 / C10 — the hand-written solver model is what the SOURCE TEXT says.

`Summer/Generated/Arith.lean` is regenerated from `/repo/summer2/runner/jax/solvers.py` and
`/repo/summer2/runner/jax/ode.py` on every run by `harness/translate/gen_arith.py` (Python `ast`, expression by
expression).  The theorems below identify each regenerated definition with the definition of the hand-written
model that the property theorems (`C07`, `C02Solvers`, `C10Solvers`, `C15`, `C18Euler`) are about.  If the update
formula, a stage time, the step size, a loop index, the tableau combination or the dense-output read-off changes in the
source, a definition on the left-hand side changes and the corresponding theorem here no longer checks.
-/
set_option linter.unusedSectionVars false

namespace Summer.Props.C07Source
open Summer Summer.Solvers Summer.Spec.Solvers Summer.Generated

section lits
variable {α : Type} [Field α]

theorem natLit_eq_cast (n : Nat) : (natLit n : α) = (n : α) := by
  induction n with
  | zero => simp [natLit]
  | succ n ih => simp [natLit, ih]

theorem ratLit_eq (n d : Nat) : (ratLit n d : α) = (n : α) / (d : α) := by
  unfold ratLit
  split
  · next h => subst h; simp [natLit_eq_cast]
  · simp [natLit_eq_cast]

theorem jidx_nat (n i : Nat) (h : i < n) : jidx n (i : Int) = i := by
  simp only [jidx]
  split <;> omega

theorem jidx_last (n : Nat) (h : 0 < n) : jidx n (-1 : Int) = n - 1 := by
  simp only [jidx]
  split <;> omega

theorem two_eq : (two : α) = 2 := by unfold two; norm_num
theorem six_eq : (six : α) = 6 := by unfold six two three; norm_num
end lits

section solvers
variable {α : Type} [Field α] [LinearOrder α] [IsStrictOrderedRing α]

/-- **`solvers.euler.body`** is the explicit Euler update of the model. -/
theorem euler_body_eq (f : List α → α → List α) (h : α) (y : List α) (t : α) :
    Arith.euler_body f h y t = eulerStep f h y t := rfl

/-- **`solvers.rk4.body`** is the classical Runge–Kutta update of the model (stage times `t`, `t + h/2`,
`t + h/2`, `t + h`; stages scaled by the step; weights `1/6 · (1, 2, 2, 1)`). -/
theorem rk4_body_eq (f : List α → α → List α) (h : α) (y : List α) (t : α) :
    Arith.rk4_body f h y t = rk4Step f h y t := by
  simp only [Arith.rk4_body, rk4Step, ratLit_eq, two_eq, six_eq]
  norm_num

/-- the step size of both solvers is `times[1] - times[0]` (the model reads the same two entries; a grid has at
least two points — `C12.grid`). -/
theorem timestep_eq (times : List α) (h2 : 2 ≤ times.length) :
    Arith.euler_timestep times = times.getD 1 0 - times.getD 0 0 ∧
    Arith.rk4_timestep times = times.getD 1 0 - times.getD 0 0 := by
  have h0 : jget times (0 : Int) = times.getD 0 0 := by
    unfold jget; rw [show (0 : Int) = ((0 : Nat) : Int) from rfl, jidx_nat _ _ (by omega)]
  have h1 : jget times (1 : Int) = times.getD 1 0 := by
    unfold jget; rw [show (1 : Int) = ((1 : Nat) : Int) from rfl, jidx_nat _ _ (by omega)]
  exact ⟨by simp only [Arith.euler_timestep, h0, h1], by simp only [Arith.rk4_timestep, h0, h1]⟩

/-- the loops evaluate the field at `times[i]`, read row `i`, write row `i + 1` and perform `len(times) - 1`
steps: exactly the fold over `times.take (times.length - 1)` of `Solvers.euler` / `Solvers.rk4` (`C07.euler_rows`,
`C07.rk4_rows`). -/
theorem loop_indices :
    (Arith.euler_time_index = fun i => i) ∧ (Arith.euler_load_index = fun i => i) ∧
    (Arith.euler_store_index = fun i => i + 1) ∧ (Arith.euler_max_i = fun n => n - 1) ∧
    (Arith.rk4_time_index = fun i => i) ∧ (Arith.rk4_load_index = fun i => i) ∧
    (Arith.rk4_store_index = fun i => i + 1) ∧ (Arith.rk4_max_i = fun n => n - 1) :=
  ⟨rfl, rfl, rfl, rfl, rfl, rfl, rfl, rfl⟩

/-- `rk4` steps on the grid it is given; `euler` first re-generates the grid with `linspace` (the known finding
recorded for C10: last-bit differences of the re-generated grid). -/
theorem regrid_flags : Arith.rk4_regrids = false ∧ Arith.euler_regrids = true := ⟨rfl, rfl⟩

end solvers

section ode
variable {α : Type} [Field α] [LinearOrder α] [IsStrictOrderedRing α]

private theorem jrow_nat {β : Type} (m : List (List β)) (i : Nat) (h : i < m.length) :
    Arith.jrow m (i : Int) = m.getD i [] := by
  unfold Arith.jrow; rw [jidx_nat _ _ h]

private theorem jget_nat (a : List α) (i : Nat) (h : i < a.length) : jget a (i : Int) = a.getD i 0 := by
  unfold jget; rw [jidx_nat _ _ h]

/-- **stages of `runge_kutta_step`**: for stage `i + 1` (`i = 0..5`, the `fori_loop(1, 7)`), the stage time and the
stage state are those of `Solvers.rkStep`'s fold at index `i`. -/
theorem rk_stage_eq (alpha : List α) (beta : List (List α)) (y0 : List α) (t0 dt : α) (k : List (List α))
    (i : Nat) (ha : i < alpha.length) (hb : i < beta.length) :
    Arith.rk_stage_time alpha beta y0 t0 dt k ((i : Int) + 1) = t0 + dt * alpha.getD i 0 ∧
    Arith.rk_stage_state alpha beta y0 t0 dt k ((i : Int) + 1)
      = vadd y0 (vscale dt (lincomb y0.length (beta.getD i []) k)) := by
  have e : ((i : Int) + 1 - (1 : Int)) = (i : Int) := by omega
  simp only [Arith.rk_stage_time, Arith.rk_stage_state, e, jget_nat alpha i ha, jrow_nat beta i hb, and_self]

theorem rk_stage_range_eq : Arith.rk_stage_range = (1, 7) := rfl

/-- the stage list built by `rkStep` has seven entries -/
theorem rkStep_k_length (tb : Tableau α) (f : List α → α → List α) (y0 f0 : List α) (t0 dt : α) :
    (rkStep tb f y0 f0 t0 dt).2.2.2.length = 7 := by
  simp [rkStep, List.range, List.range.loop]

/-- **result of `runge_kutta_step`**: with `K` the stage list, the model's `rkStep` returns the regenerated
`y1`, `f1 = K[-1]`, `y1_error` and `K`. -/
theorem rkStep_eq (tb : Tableau α) (f : List α → α → List α) (y0 f0 : List α) (t0 dt : α) :
    let K := (rkStep tb f y0 f0 t0 dt).2.2.2
    rkStep tb f y0 f0 t0 dt =
      (Arith.rk_solution tb.cSol tb.cError y0 dt K, Arith.rk_f1 K, Arith.rk_error tb.cSol tb.cError y0 dt K, K) := by
  intro K
  have hK : K.length = 7 := rkStep_k_length tb f y0 f0 t0 dt
  have hf1 : Arith.rk_f1 K = K.getD 6 [] := by
    unfold Arith.rk_f1 Arith.jrow; rw [jidx_last _ (by omega), hK]
  rw [hf1]
  rfl

/-- **dense output**: mid point and end slopes of `interp_fit_dopri` are those of `Solvers.interpFit`. -/
theorem dense_fit_eq (tb : Tableau α) (y0 y1 : List α) (k : List (List α)) (dt : α) (hk : k.length = 7) :
    interpFit tb y0 y1 k dt =
      tb.fitRows.map (fun row => lincomb y0.length row
        [vscale dt (Arith.dense_slopes k).1, vscale dt (Arith.dense_slopes k).2, y0, y1, Arith.dense_mid tb.cMid y0 dt k]) := by
  have h0 : Arith.jrow k (0 : Int) = k.getD 0 [] := by
    unfold Arith.jrow; rw [show (0 : Int) = ((0 : Nat) : Int) from rfl, jidx_nat _ _ (by omega)]
  have h6 : Arith.jrow k (-1 : Int) = k.getD 6 [] := by
    unfold Arith.jrow; rw [jidx_last _ (by omega), hk]
  simp only [interpFit, Arith.dense_slopes, Arith.dense_mid, h0, h6]

/-- the output row read off the stepping state, the next time and the acceptance test of `_odeint` -/
theorem dense_row_eq (s : OdeState α) (target : α) : Arith.dense_row s.coeff target s.lastT s.t = odeRow s target := rfl

theorem next_t_eq (t dt : α) : Arith.ode_next_t t dt = t + dt := rfl

theorem accept_eq (r : α) : Arith.ode_accept r = decide (r ≤ 1) := by
  simp only [Arith.ode_accept, ratLit_eq]
  by_cases h : 1 < r
  · simp [h, not_le.mpr h]
  · simp [h, not_lt.mp h]

/-- the loop condition of `advance` (`ctl.lt s.t target && ctl.pos s.dt`, fuel standing for `i < mxstep`) is the
source's -/
theorem cond_text : Arith.ode_cond_text = "(t < target_t) & (i < mxstep) & (dt > 0)" := rfl

end ode

/-! non-vacuity: the regenerated definitions compute (on `Rat`) what the model computes -/
example : Arith.rk4_body (fun (y : List Rat) _ => y.map (fun v => -v)) (1/2) [8, 16] 0 = [233/48, 233/24] ∧
    rk4Step (fun (y : List Rat) _ => y.map (fun v => -v)) (1/2) [8, 16] 0 = [233/48, 233/24] := by decide +kernel
example : Arith.euler_timestep ([1, 3/2, 2] : List Rat) = 1/2 := by decide +kernel

end Summer.Props.C07Source

#print axioms Summer.Props.C07Source.euler_body_eq
#print axioms Summer.Props.C07Source.rk4_body_eq
#print axioms Summer.Props.C07Source.timestep_eq
#print axioms Summer.Props.C07Source.loop_indices
#print axioms Summer.Props.C07Source.regrid_flags
#print axioms Summer.Props.C07Source.rk_stage_eq
#print axioms Summer.Props.C07Source.rk_stage_range_eq
#print axioms Summer.Props.C07Source.rkStep_k_length
#print axioms Summer.Props.C07Source.rkStep_eq
#print axioms Summer.Props.C07Source.dense_fit_eq
#print axioms Summer.Props.C07Source.dense_row_eq
#print axioms Summer.Props.C07Source.next_t_eq
#print axioms Summer.Props.C07Source.accept_eq
#print axioms Summer.Props.C07Source.cond_text
