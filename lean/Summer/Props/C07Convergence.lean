import Summer.Proofs.Convergence
import Summer.Props.C07
/-
C07 (convergence part): "the Euler and RK4 solvers follow their classical update formulas with step equal
to the model's timestep - hence converge to the exact solution with order 1 and 4 as the timestep shrinks,
for any timestep and not only 1".

`Summer/Props/C07.lean` proves that the rows of `Solvers.euler` / `Solvers.rk4` are iterates of
`eulerStep` / `rk4Step` with the fixed step `times[1] - times[0]`.  This file proves the classical
"consistency + stability ⇒ convergence" theorem for one-step methods on NON-LINEAR Lipschitz vector fields,
for vector-valued states (lists) in the sup norm, and ties it to the rows the model's solvers produce.

* `α` is an arbitrary ordered field `[Field α] [LinearOrder α] [IsStrictOrderedRing α]` (sections 1-4),
  `ℝ` in section 5 (the `exp` form of the bound).
* No bound on the dimension `n`, on the number of steps or on the step size.
* Vocabulary (`Summer/Spec/Convergence.lean`): `Within d a b` (sup-norm distance `≤ d`), `LipField n L f`
  (the field preserves length `n` and is `L`-Lipschitz in the state, uniformly in time), `LipFieldOn D L f`
  (`L`-Lipschitz between states of a set `D` only), `StableStep D ρ Φ` (the step map keeps `D` invariant and
  amplifies perturbations by at most `ρ`), `UniformGrid t0 h times`.

What is deliberately left as a HYPOTHESIS: the local (consistency) error bound
`Within (C·h^(p+1)) (Y (k+1)) (Φ (Y k) t_k)`, where `Y k` stands for the exact solution at `t_k`.  It is
a statement of analysis about the exact flow (Taylor's theorem for the true solution, `p = 1` for Euler
and `p = 4` for RK4 when `f` is smooth enough), not about the code.  The exact solution itself never
appears: `Y` is any sequence of vectors satisfying that hypothesis.  The non-vacuity examples at the end
discharge it on a field with a known polynomial solution (local errors exactly `h²` and `h⁵/48`).
-/
namespace Summer.Props.C07Convergence
open Summer Summer.Solvers Summer.Spec.Convergence Summer.Proofs.Convergence Summer.Proofs.Solvers
open Finset

section
variable {α : Type} [Field α] [LinearOrder α] [IsStrictOrderedRing α]

/-- `Within` is the sup-norm distance: same length and `|aᵢ - bᵢ| ≤ d` for every component. -/
theorem within_abs (d : α) (a b : List α) :
    Within d a b ↔
      a.length = b.length ∧ ∀ i (ha : i < a.length) (hb : i < b.length), |a[i] - b[i]| ≤ d :=
  within_iff_abs d a b

/-! ### 1-2. stability (Lipschitz dependence on the state) of one step -/

/-- One Euler step amplifies a perturbation of the state by at most `1 + h·L`, for every step `h ≥ 0`,
every time `t`, every dimension.  (`0 ≤ L` is not needed.) -/
theorem eulerStep_lipschitz {n : Nat} {L h : α} {f : List α → α → List α} (hf : LipField n L f)
    (hh : 0 ≤ h) (t d : α) {y z : List α} (hy : y.length = n) (hz : z.length = n) (hw : Within d y z) :
    (eulerStep f h y t).length = n ∧
    Within ((1 + h * L) * d) (eulerStep f h y t) (eulerStep f h z t) :=
  ⟨length_eulerStep hf h t hy, eulerStep_lip hf hh t d hy hz hw⟩

/-- One RK4 step amplifies a perturbation by at most `1 + hL + (hL)²/2 + (hL)³/6 + (hL)⁴/24` (the stages
evaluate `f` at the times `t`, `t + h/2`, `t + h`, the same for `y` and `z`). -/
theorem rk4Step_lipschitz {n : Nat} {L h : α} {f : List α → α → List α} (hf : LipField n L f)
    (hh : 0 ≤ h) (t d : α) {y z : List α} (hy : y.length = n) (hz : z.length = n) (hw : Within d y z) :
    (rk4Step f h y t).length = n ∧
    Within ((1 + h * L + (h * L) ^ 2 / 2 + (h * L) ^ 3 / 6 + (h * L) ^ 4 / 24) * d)
      (rk4Step f h y t) (rk4Step f h z t) := by
  rw [← rk4Amp_eq]
  exact ⟨length_rk4Step hf h t hy, rk4Step_lip hf hh t d hy hz hw⟩

/-- the RK4 amplification factor is `1 + h·Λ₄` with `Λ₄ = rk4Lam h L = L(1 + hL/2 + (hL)²/6 + (hL)³/24)`,
the Lipschitz constant of the RK4 increment function; `L ≤ Λ₄`, and `Λ₄ → L` as `h → 0`. -/
theorem rk4_amplification (h L : α) (hh : 0 ≤ h) (hL : 0 ≤ L) :
    1 + h * L + (h * L) ^ 2 / 2 + (h * L) ^ 3 / 6 + (h * L) ^ 4 / 24 = 1 + h * rk4Lam h L ∧
    L ≤ rk4Lam h L ∧ rk4Lam 0 L = L := by
  refine ⟨by rw [← rk4Amp_eq, rk4Amp_eq_lam], rk4Lam_ge hh hL, ?_⟩
  simp [rk4Lam]

/-- both step maps of the model are stable steps in the sense of `StableStep` -/
theorem steps_stable {n : Nat} {L h : α} {f : List α → α → List α} (hf : LipField n L f) (hh : 0 ≤ h) :
    StableStep (fun y => y.length = n) (1 + h * L) (eulerStep f h) ∧
    StableStep (fun y => y.length = n) (1 + h * rk4Lam h L) (rk4Step f h) :=
  ⟨eulerStep_stable hf hh, rk4Amp_eq_lam h L ▸ rk4Step_stable hf hh⟩

/-! ### 3. consistency + stability ⇒ convergence (generic one-step method) -/

/-- Generic theorem.  `Φ` is a one-step map that is `ρ`-stable on a set of states `D`; `tk` is ANY
sequence of times; `Y` is a sequence in `D` with local error `≤ τ` w.r.t. `Φ`; `u` are the numerical
iterates started at `Y 0`.  Then for the first `N` steps (`N` arbitrary; hypotheses only needed below `N`)
the iterates stay in `D` and the global error is at most `τ · Σ_{i<k} ρ^i`. -/
theorem one_step_convergence {D : List α → Prop} {ρ : α} {Φ : List α → α → List α} (hΦ : StableStep D ρ Φ)
    (tk : ℕ → α) (Y u : ℕ → List α) (τ : α) (N : ℕ)
    (hY : ∀ k, k ≤ N → D (Y k))
    (hτ : ∀ k, k < N → Within τ (Y (k + 1)) (Φ (Y k) (tk k)))
    (hu0 : u 0 = Y 0) (hus : ∀ k, k < N → u (k + 1) = Φ (u k) (tk k)) :
    ∀ k, k ≤ N → D (u k) ∧ Within (τ * ∑ i ∈ range k, ρ ^ i) (Y k) (u k) :=
  one_step_error hΦ tk Y u τ N hY hτ hu0 hus

/-- The form asked for in the task: states of length `n`, times `t0 + k·h`, amplification `1 + h·Λ`,
infinite sequences.  For `h·Λ ≠ 0` the sum is `((1+hΛ)^k - 1)/(hΛ)`. -/
theorem one_step_convergence_uniform {n : Nat} {h Λ t0 : α} {Φ : List α → α → List α}
    (hΦ : StableStep (fun y => y.length = n) (1 + h * Λ) Φ)
    (Y u : ℕ → List α) (τ : α) (hY : ∀ k, (Y k).length = n)
    (hτ : ∀ k, Within τ (Y (k + 1)) (Φ (Y k) (t0 + (k : α) * h)))
    (hu0 : u 0 = Y 0) (hus : ∀ k, u (k + 1) = Φ (u k) (t0 + (k : α) * h)) (k : ℕ) :
    Within (τ * ∑ i ∈ range k, (1 + h * Λ) ^ i) (Y k) (u k) ∧
    (h * Λ ≠ 0 → Within (τ * (((1 + h * Λ) ^ k - 1) / (h * Λ))) (Y k) (u k)) := by
  have := (one_step_error hΦ (fun k => t0 + (k : α) * h) Y u τ k (fun k _ => hY k) (fun k _ => hτ k) hu0
    (fun k _ => hus k) k le_rfl).2
  refine ⟨this, fun hne => ?_⟩
  rw [← geom_closed hne]
  exact this

/-- Order `p`: if the local error is `C·h^(p+1)` then the global error after `k` steps is at most
`C·h^p·((1+hΛ)^k - 1)/Λ`, i.e. `O(h^p)` on a fixed time span `T = k·h` (see `*_convergence_exp` for the
`(e^{ΛT} - 1)/Λ` form). -/
theorem one_step_convergence_order {n : Nat} {h Λ t0 C : α} {Φ : List α → α → List α} (hh : 0 < h) (hΛ : 0 < Λ)
    (hΦ : StableStep (fun y => y.length = n) (1 + h * Λ) Φ) (p : ℕ)
    (Y u : ℕ → List α) (hY : ∀ k, (Y k).length = n)
    (hτ : ∀ k, Within (C * h ^ (p + 1)) (Y (k + 1)) (Φ (Y k) (t0 + (k : α) * h)))
    (hu0 : u 0 = Y 0) (hus : ∀ k, u (k + 1) = Φ (u k) (t0 + (k : α) * h)) (k : ℕ) :
    Within (C * h ^ p * ((1 + h * Λ) ^ k - 1) / Λ) (Y k) (u k) := by
  rw [← order_bound hh hΛ]
  exact (one_step_convergence_uniform hΦ Y u _ hY hτ hu0 hus k).1

/-- `p = 1`, `Φ = eulerStep f h`: explicit Euler converges with order 1 on every `L`-Lipschitz field. -/
theorem eulerStep_order1 {n : Nat} {h L t0 C : α} {f : List α → α → List α} (hf : LipField n L f)
    (hh : 0 < h) (hL : 0 < L) (Y u : ℕ → List α) (hY : ∀ k, (Y k).length = n)
    (hτ : ∀ k, Within (C * h ^ 2) (Y (k + 1)) (eulerStep f h (Y k) (t0 + (k : α) * h)))
    (hu0 : u 0 = Y 0) (hus : ∀ k, u (k + 1) = eulerStep f h (u k) (t0 + (k : α) * h)) (k : ℕ) :
    Within (C * h * ((1 + h * L) ^ k - 1) / L) (Y k) (u k) := by
  have := one_step_convergence_order hh hL (eulerStep_stable hf hh.le) 1 Y u hY hτ hu0 hus k
  rwa [pow_one] at this

/-- `p = 4`, `Φ = rk4Step f h`: RK4 converges with order 4; `Λ₄ = rk4Lam h L`. -/
theorem rk4Step_order4 {n : Nat} {h L t0 C : α} {f : List α → α → List α} (hf : LipField n L f)
    (hh : 0 < h) (hL : 0 < L) (Y u : ℕ → List α) (hY : ∀ k, (Y k).length = n)
    (hτ : ∀ k, Within (C * h ^ 5) (Y (k + 1)) (rk4Step f h (Y k) (t0 + (k : α) * h)))
    (hu0 : u 0 = Y 0) (hus : ∀ k, u (k + 1) = rk4Step f h (u k) (t0 + (k : α) * h)) (k : ℕ) :
    Within (C * h ^ 4 * ((1 + h * rk4Lam h L) ^ k - 1) / rk4Lam h L) (Y k) (u k) :=
  one_step_convergence_order hh (rk4Lam_pos hh.le hL) (steps_stable hf hh.le).2 4 Y u hY hτ hu0 hus k

/-! ### 4. the model's solvers -/

/-- `Solvers.euler` on an ARBITRARY list of times: the step the code uses is `hs = times[1] - times[0]`
(whatever the later spacings are) and the field is evaluated at `times[k]`; if `Y` has local error `≤ τ`
w.r.t. exactly that step map, then every row `k` of the output is within `τ · Σ_{i<k} (1 + hs·L)^i` of `Y k`. -/
theorem euler_global_error {n : Nat} {L : α} {f : List α → α → List α} (hf : LipField n L f)
    (times : List α) (Y : ℕ → List α) (τ : α)
    (hh : 0 ≤ times.getD 1 0 - times.getD 0 0)
    (hY : ∀ k, k < times.length → (Y k).length = n)
    (hτ : ∀ k, k + 1 < times.length →
      Within τ (Y (k + 1)) (eulerStep f (times.getD 1 0 - times.getD 0 0) (Y k) (times.getD k 0))) :
    ∀ k, k < times.length →
      Within (τ * ∑ i ∈ range k, (1 + (times.getD 1 0 - times.getD 0 0) * L) ^ i)
        (Y k) ((euler f (Y 0) times).getD k []) := by
  intro k hk
  obtain ⟨_, h0, hs⟩ := Summer.Props.C07.euler_rows f (Y 0) times (by rintro rfl; simp at hk)
  exact rows_error (eulerStep_stable hf hh) times _ Y τ h0 hs hY hτ k hk

/-- the same for `Solvers.rk4` -/
theorem rk4_global_error {n : Nat} {L : α} {f : List α → α → List α} (hf : LipField n L f)
    (times : List α) (Y : ℕ → List α) (τ : α)
    (hh : 0 ≤ times.getD 1 0 - times.getD 0 0)
    (hY : ∀ k, k < times.length → (Y k).length = n)
    (hτ : ∀ k, k + 1 < times.length →
      Within τ (Y (k + 1)) (rk4Step f (times.getD 1 0 - times.getD 0 0) (Y k) (times.getD k 0))) :
    ∀ k, k < times.length →
      Within (τ * ∑ i ∈ range k, (rk4Amp ((times.getD 1 0 - times.getD 0 0) * L)) ^ i)
        (Y k) ((rk4 f (Y 0) times).getD k []) := by
  intro k hk
  obtain ⟨_, h0, hs⟩ := Summer.Props.C07.rk4_rows f (Y 0) times (by rintro rfl; simp at hk)
  exact rows_error (rk4Step_stable hf hh) times _ Y τ h0 hs hY hτ k hk

/-- On the uniform grid `t0, t0 + h, …` (any number of points, including 1) the step of `Solvers.euler`
is `h`, and the error of row `k` w.r.t. any `Y` with local error `≤ τ` is at most `τ · Σ_{i<k} (1 + hL)^i`. -/
theorem euler_grid_error {n : Nat} {L h t0 : α} {f : List α → α → List α} (hf : LipField n L f) (hh : 0 ≤ h)
    (times : List α) (hg : UniformGrid t0 h times) (Y : ℕ → List α) (τ : α)
    (hY : ∀ k, k < times.length → (Y k).length = n)
    (hτ : ∀ k, k + 1 < times.length → Within τ (Y (k + 1)) (eulerStep f h (Y k) (t0 + (k : α) * h))) :
    ∀ k, k < times.length →
      Within (τ * ∑ i ∈ range k, (1 + h * L) ^ i) (Y k) ((euler f (Y 0) times).getD k []) := by
  intro k hk
  by_cases h2 : 2 ≤ times.length
  · have hs := uniformGrid_step hg h2
    have := euler_global_error hf times Y τ (by rw [hs]; exact hh) hY
      (fun k hk' => by rw [hs, hg k (by omega)]; exact hτ k hk') k hk
    rwa [hs] at this
  · obtain rfl : k = 0 := by omega
    rw [(Summer.Props.C07.euler_rows f (Y 0) times (by rintro rfl; simp at hk)).2.1]
    simp only [range_zero, sum_empty, mul_zero]
    exact within_refl le_rfl _

/-- the same for `Solvers.rk4` -/
theorem rk4_grid_error {n : Nat} {L h t0 : α} {f : List α → α → List α} (hf : LipField n L f) (hh : 0 ≤ h)
    (times : List α) (hg : UniformGrid t0 h times) (Y : ℕ → List α) (τ : α)
    (hY : ∀ k, k < times.length → (Y k).length = n)
    (hτ : ∀ k, k + 1 < times.length → Within τ (Y (k + 1)) (rk4Step f h (Y k) (t0 + (k : α) * h))) :
    ∀ k, k < times.length →
      Within (τ * ∑ i ∈ range k, (1 + h * rk4Lam h L) ^ i) (Y k) ((rk4 f (Y 0) times).getD k []) := by
  intro k hk
  by_cases h2 : 2 ≤ times.length
  · have hs := uniformGrid_step hg h2
    have := rk4_global_error hf times Y τ (by rw [hs]; exact hh) hY
      (fun k hk' => by rw [hs, hg k (by omega)]; exact hτ k hk') k hk
    rwa [hs, rk4Amp_eq_lam] at this
  · obtain rfl : k = 0 := by omega
    rw [(Summer.Props.C07.rk4_rows f (Y 0) times (by rintro rfl; simp at hk)).2.1]
    simp only [range_zero, sum_empty, mul_zero]
    exact within_refl le_rfl _

/-- **Order 1 for the model's Euler solver.**  On the uniform grid with ANY step `h > 0`, if the exact
values `Y k` (think `y(t0 + k·h)`) have local error `≤ C·h²`, then row `k` of `Solvers.euler f (Y 0) times`
is within `C·h·((1+hL)^k - 1)/L` of `Y k`, for every `k < times.length`. -/
theorem euler_convergence {n : Nat} {L h t0 C : α} {f : List α → α → List α} (hf : LipField n L f)
    (hh : 0 < h) (hL : 0 < L) (times : List α) (hg : UniformGrid t0 h times) (Y : ℕ → List α)
    (hY : ∀ k, k < times.length → (Y k).length = n)
    (hτ : ∀ k, k + 1 < times.length →
      Within (C * h ^ 2) (Y (k + 1)) (eulerStep f h (Y k) (t0 + (k : α) * h))) :
    ∀ k, k < times.length →
      Within (C * h * ((1 + h * L) ^ k - 1) / L) (Y k) ((euler f (Y 0) times).getD k []) := by
  intro k hk
  have := euler_grid_error hf hh.le times hg Y _ hY hτ k hk
  have e := order_bound (C := C) hh hL 1 k
  rw [pow_one] at e
  exact within_of_eq this e

/-- **Order 4 for the model's RK4 solver**: local error `≤ C·h⁵` gives global error
`≤ C·h⁴·((1+hΛ₄)^k - 1)/Λ₄`, `Λ₄ = rk4Lam h L`. -/
theorem rk4_convergence {n : Nat} {L h t0 C : α} {f : List α → α → List α} (hf : LipField n L f)
    (hh : 0 < h) (hL : 0 < L) (times : List α) (hg : UniformGrid t0 h times) (Y : ℕ → List α)
    (hY : ∀ k, k < times.length → (Y k).length = n)
    (hτ : ∀ k, k + 1 < times.length →
      Within (C * h ^ 5) (Y (k + 1)) (rk4Step f h (Y k) (t0 + (k : α) * h))) :
    ∀ k, k < times.length →
      Within (C * h ^ 4 * ((1 + h * rk4Lam h L) ^ k - 1) / rk4Lam h L) (Y k)
        ((rk4 f (Y 0) times).getD k []) := by
  intro k hk
  have := rk4_grid_error hf hh.le times hg Y _ hY hτ k hk
  exact within_of_eq this (order_bound (C := C) hh (rk4Lam_pos hh.le hL) 4 k)

/-- **Local version for Euler** (fields that are only locally Lipschitz, e.g. with the bilinear infection
term `β·S·I`): it is enough that `f` is `L`-Lipschitz between the states of a set `D` which contains the
exact values `Y k` and the rows the solver actually produces (an a-posteriori check on the output, or a
consequence of positivity + conservation when `D` is a box).  No invariance of `D` is required. -/
theorem euler_global_error_on {D : List α → Prop} {L : α} {f : List α → α → List α} (hf : LipFieldOn D L f)
    (times : List α) (Y : ℕ → List α) (τ : α)
    (hh : 0 ≤ times.getD 1 0 - times.getD 0 0)
    (hY : ∀ k, k + 1 < times.length → D (Y k))
    (hu : ∀ k, k + 1 < times.length → D ((euler f (Y 0) times).getD k []))
    (hτ : ∀ k, k + 1 < times.length →
      Within τ (Y (k + 1)) (eulerStep f (times.getD 1 0 - times.getD 0 0) (Y k) (times.getD k 0))) :
    ∀ k, k < times.length →
      Within (τ * ∑ i ∈ range k, (1 + (times.getD 1 0 - times.getD 0 0) * L) ^ i)
        (Y k) ((euler f (Y 0) times).getD k []) := by
  intro k hk
  obtain ⟨_, h0, hs⟩ := Summer.Props.C07.euler_rows f (Y 0) times (by rintro rfl; simp at hk)
  exact rows_error_on (eulerStep_lip_on hf hh) times _ Y τ h0 hs hY hu hτ k hk

/-- order 1 on the uniform grid, local version -/
theorem euler_convergence_on {D : List α → Prop} {L h t0 C : α} {f : List α → α → List α}
    (hf : LipFieldOn D L f) (hh : 0 < h) (hL : 0 < L) (times : List α) (hg : UniformGrid t0 h times)
    (Y : ℕ → List α)
    (hY : ∀ k, k + 1 < times.length → D (Y k))
    (hu : ∀ k, k + 1 < times.length → D ((euler f (Y 0) times).getD k []))
    (hτ : ∀ k, k + 1 < times.length →
      Within (C * h ^ 2) (Y (k + 1)) (eulerStep f h (Y k) (t0 + (k : α) * h))) :
    ∀ k, k < times.length →
      Within (C * h * ((1 + h * L) ^ k - 1) / L) (Y k) ((euler f (Y 0) times).getD k []) := by
  intro k hk
  have e := order_bound (C := C) hh hL 1 k
  rw [pow_one] at e
  by_cases h2 : 2 ≤ times.length
  · have hs := uniformGrid_step hg h2
    have := euler_global_error_on hf times Y (C * h ^ 2) (by rw [hs]; exact hh.le) hY hu
      (fun k hk' => by rw [hs, hg k (by omega)]; exact hτ k hk') k hk
    rw [hs] at this
    exact within_of_eq this e
  · obtain rfl : k = 0 := by omega
    rw [(Summer.Props.C07.euler_rows f (Y 0) times (by rintro rfl; simp at hk)).2.1]
    simp only [pow_zero, sub_self, mul_zero, zero_div]
    exact within_refl le_rfl _

/-- the model's own grid `np.linspace(t0, t0 + (m-1)·h, m)` is a uniform grid with step `h` -/
theorem linspace_uniform (t0 h : α) (m : Nat) (hm : 2 ≤ m) :
    UniformGrid t0 h (linspace t0 (t0 + ((m : α) - 1) * h) m) :=
  uniformGrid_linspace t0 h m hm

end

/-! ### 5. the textbook bound `C·h^p·(e^{L·T} - 1)/L`, `T = k·h`, over `ℝ` -/
section real

/-- `(1 + hΛ)^k ≤ e^{Λ·(k·h)}` -/
theorem one_add_pow_le_exp' {h Λ : ℝ} (hh : 0 ≤ h) (hΛ : 0 ≤ Λ) (k : ℕ) :
    (1 + h * Λ) ^ k ≤ Real.exp (Λ * (k * h)) := by
  have := one_add_pow_le_exp (mul_nonneg hh hΛ) k
  rwa [show (k : ℝ) * (h * Λ) = Λ * (k * h) by ring] at this

/-- Euler, real numbers: global error at `t0 + k·h` at most `C·h·(e^{L·k·h} - 1)/L`. -/
theorem euler_convergence_exp {n : Nat} {L h t0 C : ℝ} {f : List ℝ → ℝ → List ℝ} (hf : LipField n L f)
    (hh : 0 < h) (hL : 0 < L) (hC : 0 ≤ C) (times : List ℝ) (hg : UniformGrid t0 h times) (Y : ℕ → List ℝ)
    (hY : ∀ k, k < times.length → (Y k).length = n)
    (hτ : ∀ k, k + 1 < times.length →
      Within (C * h ^ 2) (Y (k + 1)) (eulerStep f h (Y k) (t0 + (k : ℝ) * h))) :
    ∀ k, k < times.length →
      Within (C * h * (Real.exp (L * (k * h)) - 1) / L) (Y k) ((euler f (Y 0) times).getD k []) := by
  intro k hk
  have hx : 0 < h * L := mul_pos hh hL
  refine within_mono (euler_grid_error hf hh.le times hg Y _ hY hτ k hk) ?_
  have := geom_sum_le_exp (ρ := 1 + h * L) (by linarith) hx (by linarith [Real.add_one_le_exp (h * L)]) k
  calc C * h ^ 2 * ∑ i ∈ range k, (1 + h * L) ^ i
      ≤ C * h ^ 2 * ((Real.exp (k * (h * L)) - 1) / (h * L)) :=
        mul_le_mul_of_nonneg_left this (by positivity)
    _ = C * h * (Real.exp (L * (k * h)) - 1) / L := by
        rw [show (k : ℝ) * (h * L) = L * (k * h) by ring]; field_simp

/-- RK4, real numbers: global error at `t0 + k·h` at most `C·h⁴·(e^{L·k·h} - 1)/L` - with the Lipschitz
constant `L` of the field itself, because the RK4 amplification factor is a Taylor polynomial of `e^{hL}`. -/
theorem rk4_convergence_exp {n : Nat} {L h t0 C : ℝ} {f : List ℝ → ℝ → List ℝ} (hf : LipField n L f)
    (hh : 0 < h) (hL : 0 < L) (hC : 0 ≤ C) (times : List ℝ) (hg : UniformGrid t0 h times) (Y : ℕ → List ℝ)
    (hY : ∀ k, k < times.length → (Y k).length = n)
    (hτ : ∀ k, k + 1 < times.length →
      Within (C * h ^ 5) (Y (k + 1)) (rk4Step f h (Y k) (t0 + (k : ℝ) * h))) :
    ∀ k, k < times.length →
      Within (C * h ^ 4 * (Real.exp (L * (k * h)) - 1) / L) (Y k) ((rk4 f (Y 0) times).getD k []) := by
  intro k hk
  have hx : 0 < h * L := mul_pos hh hL
  refine within_mono (rk4_grid_error hf hh.le times hg Y _ hY hτ k hk) ?_
  have hρ : 0 ≤ 1 + h * rk4Lam h L := by
    have := rk4Lam_pos hh.le hL
    positivity
  have := geom_sum_le_exp hρ hx (by rw [← rk4Amp_eq_lam]; exact rk4Amp_le_exp hx.le) k
  calc C * h ^ 5 * ∑ i ∈ range k, (1 + h * rk4Lam h L) ^ i
      ≤ C * h ^ 5 * ((Real.exp (k * (h * L)) - 1) / (h * L)) :=
        mul_le_mul_of_nonneg_left this (by positivity)
    _ = C * h ^ 4 * (Real.exp (L * (k * h)) - 1) / L := by
        rw [show (k : ℝ) * (h * L) = L * (k * h) by ring]; field_simp

end real

/-! ### non-vacuity -/
section examples

-- `LipField` instances on `ℚ`: a linear field, a NON-LINEAR time-dependent one (clamp `max 0`), and the
-- scalar field `y' = -y + t² + 2t` whose exact solution `t²` lives in `ℚ`
example : LipField 2 (3 / 2) exLin := exLin_lip
example : LipField 2 (3 / 2) exClamp := exClamp_lip
example : LipField 1 1 exQuad := exQuad_lip

-- one step, concrete perturbation of size `1/10` that crosses the clamp, step `h = 1/2`
example : Within (1 / 10 : ℚ) [1 / 40, 2] [-3 / 40, 19 / 10] := by decide +kernel
example : Within ((1 + 1 / 2 * (3 / 2)) * (1 / 10))
    (eulerStep exClamp (1 / 2) [1 / 40, 2] 3) (eulerStep exClamp (1 / 2) [-3 / 40, 19 / 10] 3) :=
  (eulerStep_lipschitz exClamp_lip (by norm_num) 3 (1 / 10) rfl rfl (by decide +kernel)).2
example : Within ((1 + 1 / 2 * (3 / 2) + (1 / 2 * (3 / 2)) ^ 2 / 2 + (1 / 2 * (3 / 2)) ^ 3 / 6
      + (1 / 2 * (3 / 2)) ^ 4 / 24) * (1 / 10))
    (rk4Step exClamp (1 / 2) [1 / 40, 2] 3) (rk4Step exClamp (1 / 2) [-3 / 40, 19 / 10] 3) :=
  (rk4Step_lipschitz exClamp_lip (by norm_num) 3 (1 / 10) rfl rfl (by decide +kernel)).2
-- ... and a factor `> 1` is really needed: the two Euler updates are MORE than `d = 1/10` apart
example : ¬ Within (1 / 10) (eulerStep exClamp (1 / 2) [1 / 40, 2] 3)
    (eulerStep exClamp (1 / 2) [-3 / 40, 19 / 10] 3) := by decide +kernel

-- `τ = 0`: `Y` = the Euler rows themselves (the trajectory from `[-1, 2]` crosses the clamp)
example : ∀ k, k < 3 → Within (0 * ∑ i ∈ range k, (1 + (1 / 2 - 0 : ℚ) * (3 / 2)) ^ i)
    ((euler exClamp [-1, 2] [0, 1 / 2, 1]).getD k []) ((euler exClamp [-1, 2] [0, 1 / 2, 1]).getD k []) :=
  euler_global_error exClamp_lip [0, 1 / 2, 1] (fun k => (euler exClamp [-1, 2] [0, 1 / 2, 1]).getD k []) 0
    (by norm_num) (by decide +kernel)
    (fun k hk => by
      have : k = 0 ∨ k = 1 := by simp at hk; omega
      rcases this with rfl | rfl <;> decide +kernel)

-- `τ > 0` on the non-linear 2-dimensional field: `Y` = the RK4 rows (a much more accurate solution),
-- compared with the Euler rows; the local error of `Y` w.r.t. the Euler step is `≤ 1/4` (it is `41/192`)
example : ∀ k, k < 3 → Within (1 / 4 * ∑ i ∈ range k, (1 + (1 / 2 - 0 : ℚ) * (3 / 2)) ^ i)
    ((rk4 exClamp [-1, 2] [0, 1 / 2, 1]).getD k []) ((euler exClamp [-1, 2] [0, 1 / 2, 1]).getD k []) :=
  euler_global_error exClamp_lip [0, 1 / 2, 1] (fun k => (rk4 exClamp [-1, 2] [0, 1 / 2, 1]).getD k []) (1 / 4)
    (by norm_num) (by decide +kernel)
    (fun k hk => by
      have : k = 0 ∨ k = 1 := by simp at hk; omega
      rcases this with rfl | rfl <;> decide +kernel)

-- local version on the SIR-like field `[-(s·i), s·i - i/2]` (Lipschitz with `L = 5/2` on the unit box only):
-- `Y` = the RK4 rows, local error w.r.t. the Euler step `≤ 1/200`; the Euler rows stay in the box
example : LipFieldOn exBox (5 / 2) exSI := exSI_lip
example : ∀ k, k < 3 → Within (1 / 200 * ∑ i ∈ range k, (1 + (1 / 2 - 0 : ℚ) * (5 / 2)) ^ i)
    ((rk4 exSI [9 / 10, 1 / 10] [0, 1 / 2, 1]).getD k []) ((euler exSI [9 / 10, 1 / 10] [0, 1 / 2, 1]).getD k []) :=
  euler_global_error_on exSI_lip [0, 1 / 2, 1] (fun k => (rk4 exSI [9 / 10, 1 / 10] [0, 1 / 2, 1]).getD k [])
    (1 / 200) (by norm_num)
    (fun k hk => by
      have : k = 0 ∨ k = 1 := by simp at hk; omega
      rcases this with rfl | rfl <;> decide +kernel)
    (fun k hk => by
      have : k = 0 ∨ k = 1 := by simp at hk; omega
      rcases this with rfl | rfl <;> decide +kernel)
    (fun k hk => by
      have : k = 0 ∨ k = 1 := by simp at hk; omega
      rcases this with rfl | rfl <;> decide +kernel)

-- a genuinely exact solution: `y' = -y + t² + 2t`, `y(0) = 0`, `y(t) = t²`; `Y k = [(k·h)²]` for ALL `k`.
-- Euler's local error is exactly `h²` (`C = 1`), RK4's exactly `h⁵/48` (`C = 1/48`), for every `h`.
theorem exQuad_euler_consistent (h : ℚ) (k : ℕ) :
    Within (1 * h ^ 2) (exQuadY h (k + 1)) (eulerStep exQuad h (exQuadY h k) (0 + (k : ℚ) * h)) := by
  rw [exQuad_euler_local]
  exact within_single.mpr ⟨by nlinarith [sq_nonneg h], by nlinarith [sq_nonneg h]⟩

theorem exQuad_rk4_consistent (h : ℚ) (hh : 0 ≤ h) (k : ℕ) :
    Within (1 / 48 * h ^ 5) (exQuadY h (k + 1)) (rk4Step exQuad h (exQuadY h k) (0 + (k : ℚ) * h)) := by
  rw [exQuad_rk4_local]
  have : 0 ≤ h ^ 5 := by positivity
  exact within_single.mpr ⟨by linarith, by linarith⟩

-- every step size `h > 0`, every number of steps: the Euler iterates are within `h·((1+h)^k - 1)` of `(k h)²`
example (h : ℚ) (hh : 0 < h) (u : ℕ → List ℚ) (hu0 : u 0 = [0])
    (hus : ∀ k, u (k + 1) = eulerStep exQuad h (u k) (0 + (k : ℚ) * h)) (k : ℕ) :
    Within (1 * h * ((1 + h * 1) ^ k - 1) / 1) [((k : ℚ) * h) ^ 2] (u k) :=
  eulerStep_order1 exQuad_lip hh one_pos (exQuadY h) u (fun _ => rfl) (exQuad_euler_consistent h)
    (by rw [hu0]; simp [exQuadY]) hus k

-- the model's solvers on the model's grid `linspace 0 1 11` (`h = 1/10`): orders 1 and 4
example : ∀ k : ℕ, k < 11 →
    Within (1 * (1 / 10) * ((1 + 1 / 10 * 1) ^ k - 1) / 1) [((k : ℚ) * (1 / 10)) ^ 2]
      ((euler exQuad [0] (linspace 0 1 11)).getD k []) := by
  have hg : UniformGrid (0 : ℚ) (1 / 10) (linspace 0 1 11) := by
    have := linspace_uniform (0 : ℚ) (1 / 10) 11 (by norm_num)
    norm_num at this
    exact this
  have := euler_convergence exQuad_lip (h := 1 / 10) (C := 1) (by norm_num) one_pos (linspace 0 1 11) hg
    (exQuadY (1 / 10)) (fun _ _ => rfl) (fun k _ => exQuad_euler_consistent (1 / 10) k)
  rw [show exQuadY (1 / 10) 0 = [0] by simp [exQuadY]] at this
  exact fun k hk => this k hk

example : ∀ k : ℕ, k < 11 →
    Within (1 / 48 * (1 / 10) ^ 4 * ((1 + 1 / 10 * rk4Lam (1 / 10) 1) ^ k - 1) / rk4Lam (1 / 10) 1)
      [((k : ℚ) * (1 / 10)) ^ 2] ((rk4 exQuad [0] (linspace 0 1 11)).getD k []) := by
  have hg : UniformGrid (0 : ℚ) (1 / 10) (linspace 0 1 11) := by
    have := linspace_uniform (0 : ℚ) (1 / 10) 11 (by norm_num)
    norm_num at this
    exact this
  have := rk4_convergence exQuad_lip (h := 1 / 10) (C := 1 / 48) (by norm_num) one_pos (linspace 0 1 11) hg
    (exQuadY (1 / 10)) (fun _ _ => rfl) (fun k _ => exQuad_rk4_consistent (1 / 10) (by norm_num) k)
  rw [show exQuadY (1 / 10) 0 = [0] by simp [exQuadY]] at this
  exact fun k hk => this k hk

-- the bounds are sharp in order of magnitude: at `t = 1` Euler with `h = 1/10` is off by more than `1/20`,
-- RK4 by less than `2/10⁶` (the theorem's bounds there are `≈ 0.159` and `≈ 3.7·10⁻⁶`)
example : ¬ Within (1 / 20) [1] ((euler exQuad [0] (linspace 0 1 11)).getD 10 []) := by decide +kernel
example : Within (1 / 500000) [1] ((rk4 exQuad [0] (linspace 0 1 11)).getD 10 []) := by decide +kernel

-- the hypotheses of the real-number versions are satisfiable (a 1-dimensional `1`-Lipschitz field on `ℝ`)
example : LipField 1 (1 : ℝ) (fun y _ => y) :=
  ⟨fun _ _ h => h, fun _ _ _ d _ _ hw => by rw [one_mul]; exact hw⟩

end examples

end Summer.Props.C07Convergence

#print axioms Summer.Props.C07Convergence.within_abs
#print axioms Summer.Props.C07Convergence.eulerStep_lipschitz
#print axioms Summer.Props.C07Convergence.rk4Step_lipschitz
#print axioms Summer.Props.C07Convergence.rk4_amplification
#print axioms Summer.Props.C07Convergence.steps_stable
#print axioms Summer.Props.C07Convergence.one_step_convergence
#print axioms Summer.Props.C07Convergence.one_step_convergence_uniform
#print axioms Summer.Props.C07Convergence.one_step_convergence_order
#print axioms Summer.Props.C07Convergence.eulerStep_order1
#print axioms Summer.Props.C07Convergence.rk4Step_order4
#print axioms Summer.Props.C07Convergence.euler_global_error
#print axioms Summer.Props.C07Convergence.rk4_global_error
#print axioms Summer.Props.C07Convergence.euler_grid_error
#print axioms Summer.Props.C07Convergence.rk4_grid_error
#print axioms Summer.Props.C07Convergence.euler_convergence
#print axioms Summer.Props.C07Convergence.rk4_convergence
#print axioms Summer.Props.C07Convergence.euler_global_error_on
#print axioms Summer.Props.C07Convergence.euler_convergence_on
#print axioms Summer.Props.C07Convergence.linspace_uniform
#print axioms Summer.Props.C07Convergence.one_add_pow_le_exp'
#print axioms Summer.Props.C07Convergence.euler_convergence_exp
#print axioms Summer.Props.C07Convergence.rk4_convergence_exp
#print axioms Summer.Props.C07Convergence.exQuad_euler_consistent
#print axioms Summer.Props.C07Convergence.exQuad_rk4_consistent
