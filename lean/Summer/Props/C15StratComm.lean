import Summer.Proofs.InvarianceStratComm
/-
C15 — invariances, part "reordering independent stratifications", at MODEL level.

"Reordering compartments, flows, strata or independent stratifications ... permutes and relabels the
results correspondingly without changing any value."

`Summer/Props/C15.lean` (`perm_stratifications`) has the statement for the compartment list.  Here it is
proved for the whole model produced by `Build.stratifyWith`: compartments, flows (copies, their ends,
their adjustment chains, their realised weights), mixing categories and Kronecker factors, strains,
stratification list (infectiousness adjustments, population splits) and initial-population actions.

Model: `Summer.Build.stratifyWith` (`CompartmentalModel.stratify_with`), `Summer.Run.realised`
(`map_flow_keys`), `Summer.Run.mixingMatrix`.  Specification vocabulary:
`Summer/Spec/InvarianceStratComm.lean` (`StratCommutes`, `FlowsCorr`, `FlowCorr`, `AdjSwap`,
`DeclaredAdj`, `mulOnly`, `filtersAvoid`, `kronAll`), `Spec.compSem` (`Summer/Spec/Invariance.lean`),
`Spec.copies` (`Summer/Spec/Structure.lean`, property C04).

Scope: neither stratification is an AGE stratification (see the note at the end: an age stratification
does not commute, because the names of its ageing flows record the strata order).  Strain
stratifications are covered.
-/
set_option linter.unusedSectionVars false

namespace Summer.Props.C15StratComm
open Summer Summer.Build Summer.Run Summer.Spec Summer.Proofs Summer.Proofs.StratComm

/-! ## 1–2. the two models are the same up to reordering -/

section structural
variable {α : Type} [One α] [Div α] [NatCast α]

/-- **`C15StratComm.strat_commute`.**  Let `s1`, `s2` be stratifications with different names, neither
an age stratification, both accepted by `m` in either order; `m`'s entry flows have no source and its
exit flows no destination (true of every reachable model, `strat_commute_reachable`).  Then the two
resulting models are the same model up to
* a permutation of the compartments and the insertion order of their strata dictionaries,
* a permutation of the flows, corresponding flows having the same class, name and parameter, ends equal
  as (name, strata lookup), and adjustment chains `base ++ e1 ++ e2` / `base ++ e2 ++ e1`, where `e1`
  is what `s1` appended (a declared adjustment or the automatic `Multiply(1/n)`) and `e2` what `s2` did,
* the order of the last two entries of the stratification list and of the action list,
* the order of the last two Kronecker factors, and a permutation of the mixing categories up to
  dictionary order;
every other field (times, names, infectious compartments, strains, population, requests, ...) is
literally equal.

NO hypothesis on `Overwrite` and NO hypothesis on the strata filters is needed here: the filter
hypothesis is forced by the acceptance of both orders (`filters_forced`), and an `Overwrite` only
matters for the realised weight (`strat_commute_weights`, `overwrite_order_matters`). -/
theorem strat_commute (m : Model α) (s1 s2 : Strat α) (m12 m21 : Model α)
    (hne : s1.name ≠ s2.name) (hk1 : s1.kind ≠ .age) (hk2 : s2.kind ≠ .age)
    (hshape : ∀ f ∈ m.flows, (isEntry f.kind = true → f.src = none) ∧ (isExit f.kind = true → f.dst = none))
    (h12 : (stratifyWith m s1 >>= fun ma => stratifyWith ma s2) = .ok m12)
    (h21 : (stratifyWith m s2 >>= fun mb => stratifyWith mb s1) = .ok m21) :
    StratCommutes m s1 s2 m12 m21 := by
  obtain ⟨rfl, rfl, hf1, hf2, hstrain⟩ := both_orders hk1 hk2 hshape h12 h21
  exact stratCommutes_models m s1 s2 hne hk1 hk2 hf1 hf2 hstrain

/-- **hypothesis (b) is forced.**  If both orders are accepted, no source / destination strata filter
of a flow adjustment of one stratification mentions the other stratification (`_strata_exist` rejects
a filter on a stratification that has not been applied yet), and at most one of the two is a strain
stratification. -/
theorem filters_forced (m : Model α) (s1 s2 : Strat α) (m12 m21 : Model α)
    (hk1 : s1.kind ≠ .age) (hk2 : s2.kind ≠ .age)
    (hshape : ∀ f ∈ m.flows, (isEntry f.kind = true → f.src = none) ∧ (isExit f.kind = true → f.dst = none))
    (h12 : (stratifyWith m s1 >>= fun ma => stratifyWith ma s2) = .ok m12)
    (h21 : (stratifyWith m s2 >>= fun mb => stratifyWith mb s1) = .ok m21) :
    filtersAvoid s1 s2.name = true ∧ filtersAvoid s2 s1.name = true ∧
      ¬ (s1.kind = .strain ∧ s2.kind = .strain) := by
  obtain ⟨-, -, hf1, hf2, hstrain⟩ := both_orders hk1 hk2 hshape h12 h21
  refine ⟨hf1, hf2, fun h => hstrain ⟨?_, ?_⟩⟩
  · exact (Structure.isStrain_iff s1).2 h.1
  · exact (Structure.isStrain_iff s2).2 h.2

/-- what the two models are, explicitly: compartments and flows of both orders in terms of the
specifications `stratifyComps` and `Spec.copies` of property C04 -/
theorem strat_commute_explicit (m : Model α) (s1 s2 : Strat α) (m12 m21 : Model α)
    (hk1 : s1.kind ≠ .age) (hk2 : s2.kind ≠ .age)
    (hshape : ∀ f ∈ m.flows, (isEntry f.kind = true → f.src = none) ∧ (isExit f.kind = true → f.dst = none))
    (h12 : (stratifyWith m s1 >>= fun ma => stratifyWith ma s2) = .ok m12)
    (h21 : (stratifyWith m s2 >>= fun mb => stratifyWith mb s1) = .ok m21) :
    m12.comps = stratifyComps (stratifyComps m.comps s1) s2 ∧
    m21.comps = stratifyComps (stratifyComps m.comps s2) s1 ∧
    m12.flows = m.flows.flatMap (fun f => (copies f s1).flatMap (fun g => copies g s2)) ∧
    m21.flows = m.flows.flatMap (fun f => (copies f s2).flatMap (fun g => copies g s1)) := by
  obtain ⟨rfl, rfl, -, -, -⟩ := both_orders hk1 hk2 hshape h12 h21
  exact ⟨rfl, rfl, List.flatMap_assoc .., List.flatMap_assoc ..⟩

end structural

section reachable
variable {α : Type} [Zero α] [One α] [Add α] [Sub α] [Mul α] [Div α] [NatCast α] [LT α] [DecidableLT α]

/-- the same for every model reachable through the build API (no hypothesis on the flows) -/
theorem strat_commute_reachable (m : Model α) (hm : Reachable m) (s1 s2 : Strat α) (m12 m21 : Model α)
    (hne : s1.name ≠ s2.name) (hk1 : s1.kind ≠ .age) (hk2 : s2.kind ≠ .age)
    (h12 : (stratifyWith m s1 >>= fun ma => stratifyWith ma s2) = .ok m12)
    (h21 : (stratifyWith m s2 >>= fun mb => stratifyWith mb s1) = .ok m21) :
    StratCommutes m s1 s2 m12 m21 :=
  strat_commute m s1 s2 m12 m21 hne hk1 hk2 (Structure.shape_lite (Structure.reachable_inv hm)) h12 h21

end reachable

/-! ## realised weights -/

section weights
variable {α : Type} [CommSemiring α] [Sub α] [Div α] [LT α] [DecidableLT α]

/-- the adjustment chains of corresponding flows are permutations of each other -/
theorem corr_adjs_perm {P1 P2 : Adj α → Prop} {g g' : Flow α} (h : FlowCorr P1 P2 g g') :
    g.adjs.Perm g'.adjs := by
  obtain ⟨base, e1, e2, h1, h2, -, -⟩ := h.adjs
  rw [h1, h2, List.append_assoc, List.append_assoc]
  exact List.Perm.append_left _ List.perm_append_comm

/-- **corresponding flows have the same realised weight** when the two swapped blocks contain no
`Overwrite` (the common prefix `base` — the chain of the parent flow — may contain any adjustments).
Equality of optional values: the weights are defined together, at every parameter set, time and state,
in every commutative semiring (so in every field); also for the documented reading `Spec.weight`. -/
theorem corr_weight {g g' : Flow α}
    (h : FlowCorr (fun y => isMulAdj y = true) (fun y => isMulAdj y = true) g g') (env : Env α) :
    (realised g).eval env = (realised g').eval env ∧ Spec.weight g env = Spec.weight g' env := by
  have := weight_of_flowCorr h env
  exact ⟨this, by rw [← realised_eval_eq_weight, ← realised_eval_eq_weight, this]⟩

/-- **`C15StratComm.strat_commute_weights`.**  Hypotheses of `strat_commute`, and the flow adjustments
of both stratifications are `Multiply`/`None` only (`mulOnly`, hypothesis (a)).  Then the flows of the
two models can be paired (first components: the flows of `m12` in order; second components: a
permutation of the flows of `m21`) so that paired flows correspond and have EQUAL realised weights for
every parameter set, time and state. -/
theorem strat_commute_weights (m : Model α) (s1 s2 : Strat α) (m12 m21 : Model α)
    (hne : s1.name ≠ s2.name) (hk1 : s1.kind ≠ .age) (hk2 : s2.kind ≠ .age)
    (hshape : ∀ f ∈ m.flows, (isEntry f.kind = true → f.src = none) ∧ (isExit f.kind = true → f.dst = none))
    (hm1 : mulOnly s1 = true) (hm2 : mulOnly s2 = true)
    (h12 : (stratifyWith m s1 >>= fun ma => stratifyWith ma s2) = .ok m12)
    (h21 : (stratifyWith m s2 >>= fun mb => stratifyWith mb s1) = .ok m21) :
    ∃ pairs : List (Flow α × Flow α),
      pairs.map (·.1) = m12.flows ∧ (pairs.map (·.2)).Perm m21.flows ∧
      ∀ p ∈ pairs, FlowCorr (DeclaredAdj s1) (DeclaredAdj s2) p.1 p.2 ∧
        ∀ env : Env α, (realised p.1).eval env = (realised p.2).eval env ∧ Spec.weight p.1 env = Spec.weight p.2 env := by
  obtain ⟨pairs, e1, e2, e3⟩ := (strat_commute m s1 s2 m12 m21 hne hk1 hk2 hshape h12 h21).flows
  refine ⟨pairs, e1, e2, fun p hp => ⟨e3 p hp, fun env => ?_⟩⟩
  obtain ⟨k, n, pr, sr, ds, base, x1, x2, a1, a2, q1, q2⟩ := e3 p hp
  exact corr_weight ⟨k, n, pr, sr, ds, base, x1, x2, a1, a2,
    fun x hx => declared_isMul hm1 x (q1 x hx), fun x hx => declared_isMul hm2 x (q2 x hx)⟩ env

end weights

/-! ## 3. mixing categories and the Kronecker product -/

section mixing
variable {α : Type} [CommSemiring α] [Sub α] [Div α] [LT α] [DecidableLT α]

/-- when at most one of the two stratifications carries a mixing matrix, the category list and the
matrix list of the two models are literally equal -/
theorem strat_commute_mixing_one (m : Model α) (s1 s2 : Strat α) (m12 m21 : Model α)
    (hk1 : s1.kind ≠ .age) (hk2 : s2.kind ≠ .age)
    (hshape : ∀ f ∈ m.flows, (isEntry f.kind = true → f.src = none) ∧ (isExit f.kind = true → f.dst = none))
    (h12 : (stratifyWith m s1 >>= fun ma => stratifyWith ma s2) = .ok m12)
    (h21 : (stratifyWith m s2 >>= fun mb => stratifyWith mb s1) = .ok m21)
    (hone : s1.mixing = none ∨ s2.mixing = none) :
    m12.mixingCats = m21.mixingCats ∧ m12.mixingMats = m21.mixingMats ∧
      ∀ env : Env α, mixingMatrix m12 env = mixingMatrix m21 env := by
  obtain ⟨rfl, rfl, -, -, -⟩ := both_orders hk1 hk2 hshape h12 h21
  have h : (stratModel (stratModel m s1) s2).mixingCats = (stratModel (stratModel m s2) s1).mixingCats ∧
      (stratModel (stratModel m s1) s2).mixingMats = (stratModel (stratModel m s2) s1).mixingMats := by
    rcases hone with h | h
    · cases h2 : s2.mixing <;> simp [stratModel, preModel, mixingOf, h, h2]
    · cases h1 : s1.mixing <;> simp [stratModel, preModel, mixingOf, h, h1]
  refine ⟨h.1, h.2, fun env => ?_⟩
  rw [mixingMatrix_eq_kronAll, mixingMatrix_eq_kronAll, h.2]

/-- **`C15StratComm.strat_commute_mixing`.**  Both stratifications carry a mixing matrix (`M1`, `M2`).
At an environment where the earlier matrices evaluate to `pre` and `M1`, `M2` to `A1`, `A2`, with
`A1` square of size `p = #strata s1`, `A2` square of size `q = #strata s2` and the product of `pre`
square of size `n = #categories of m`:
* the mixing matrix of `m12` is the Kronecker product of `pre ++ [A1, A2]`, that of `m21` the one of
  `pre ++ [A2, A1]` (they are defined together);
* entry `[((i,k),l), ((j,k'),l')]` of the first equals entry `[((i,l),k), ((j,l'),k')]` of the second
  (row-major indices; the common value is `P[i,j]·A1[k,k']·A2[l,l']` in one order of multiplication
  and `P[i,j]·A2[l,l']·A1[k,k']` in the other, `kron_entry`);
* under the same index correspondence the mixing categories agree as lookup functions: category
  `((i,k),l)` of `m12` is category `i` of `m` extended with stratum `k` of `s1` then stratum `l` of
  `s2`, category `((i,l),k)` of `m21` is the same extended in the other order. -/
theorem strat_commute_mixing (m : Model α) (s1 s2 : Strat α) (m12 m21 : Model α)
    (hne : s1.name ≠ s2.name) (hk1 : s1.kind ≠ .age) (hk2 : s2.kind ≠ .age)
    (hshape : ∀ f ∈ m.flows, (isEntry f.kind = true → f.src = none) ∧ (isExit f.kind = true → f.dst = none))
    (h12 : (stratifyWith m s1 >>= fun ma => stratifyWith ma s2) = .ok m12)
    (h21 : (stratifyWith m s2 >>= fun mb => stratifyWith mb s1) = .ok m21)
    (M1 M2 : Matrix (Expr α)) (hM1 : s1.mixing = some M1) (hM2 : s2.mixing = some M2)
    (env : Env α) (pre : List (Matrix α)) (A1 A2 : Matrix α)
    (hpre : m.mixingMats.mapM (evalMatrix env) = some pre)
    (hA1 : evalMatrix env M1 = some A1) (hA2 : evalMatrix env M2 = some A2)
    (hn : IsShape (kronAll pre) m.mixingCats.length m.mixingCats.length)
    (hs1 : IsShape A1 s1.strata.length s1.strata.length) (hs2 : IsShape A2 s2.strata.length s2.strata.length) :
    mixingMatrix m12 env = some (kronAll (pre ++ [A1, A2])) ∧
    mixingMatrix m21 env = some (kronAll (pre ++ [A2, A1])) ∧
    ∀ i j k k' l l', i < m.mixingCats.length → j < m.mixingCats.length →
      k < s1.strata.length → k' < s1.strata.length → l < s2.strata.length → l' < s2.strata.length →
      mget (kronAll (pre ++ [A1, A2])) ((i * s1.strata.length + k) * s2.strata.length + l)
          ((j * s1.strata.length + k') * s2.strata.length + l')
        = mget (kronAll (pre ++ [A2, A1])) ((i * s2.strata.length + l) * s1.strata.length + k)
          ((j * s2.strata.length + l') * s1.strata.length + k') ∧
      m12.mixingCats.getD ((i * s1.strata.length + k) * s2.strata.length + l) []
        = dictSet (dictSet (m.mixingCats.getD i []) s1.name (s1.strata.getD k "")) s2.name (s2.strata.getD l "") ∧
      m21.mixingCats.getD ((i * s2.strata.length + l) * s1.strata.length + k) []
        = dictSet (dictSet (m.mixingCats.getD i []) s2.name (s2.strata.getD l "")) s1.name (s1.strata.getD k "") ∧
      alookup (m12.mixingCats.getD ((i * s1.strata.length + k) * s2.strata.length + l) [])
        = alookup (m21.mixingCats.getD ((i * s2.strata.length + l) * s1.strata.length + k) []) := by
  obtain ⟨rfl, rfl, -, -, -⟩ := both_orders hk1 hk2 hshape h12 h21
  have e12 : (stratModel (stratModel m s1) s2).mixingMats = m.mixingMats ++ [M1, M2] := by
    simp [stratModel, preModel, mixingOf, hM1, hM2]
  have e21 : (stratModel (stratModel m s2) s1).mixingMats = m.mixingMats ++ [M2, M1] := by
    simp [stratModel, preModel, mixingOf, hM1, hM2]
  have c12 : (stratModel (stratModel m s1) s2).mixingCats
      = FOI.catsStep (FOI.catsStep m.mixingCats s1.name s1.strata) s2.name s2.strata := by
    simp [stratModel, preModel, hM1, hM2]
  have c21 : (stratModel (stratModel m s2) s1).mixingCats
      = FOI.catsStep (FOI.catsStep m.mixingCats s2.name s2.strata) s1.name s1.strata := by
    simp [stratModel, preModel, hM1, hM2]
  have t12 : [M1, M2].mapM (evalMatrix env) = some [A1, A2] := by
    simp [List.mapM_cons, hA1, hA2]
  have t21 : [M2, M1].mapM (evalMatrix env) = some [A2, A1] := by
    simp [List.mapM_cons, hA1, hA2]
  refine ⟨?_, ?_, ?_⟩
  · rw [mixingMatrix_eq_kronAll, e12, mapM_append_some _ _ _ _ _ hpre t12]; rfl
  · rw [mixingMatrix_eq_kronAll, e21, mapM_append_some _ _ _ _ _ hpre t21]; rfl
  · intro i j k k' l l' hi hj hk hk' hl hl'
    rw [c12, c21]
    obtain ⟨c1, c2, c3⟩ := catsStep_swap_entry m.mixingCats s1.name s2.name s1.strata s2.strata hne i k l hi hk hl
    exact ⟨kronAll_swap pre A1 A2 _ _ _ hn hs1 hs2 i j k k' l l' hi hj hk hk' hl hl', c1, c2, c3⟩

/-- the two mixing matrices are defined together (no shape hypothesis) -/
theorem strat_commute_mixing_defined (m : Model α) (s1 s2 : Strat α) (m12 m21 : Model α)
    (hne : s1.name ≠ s2.name) (hk1 : s1.kind ≠ .age) (hk2 : s2.kind ≠ .age)
    (hshape : ∀ f ∈ m.flows, (isEntry f.kind = true → f.src = none) ∧ (isExit f.kind = true → f.dst = none))
    (h12 : (stratifyWith m s1 >>= fun ma => stratifyWith ma s2) = .ok m12)
    (h21 : (stratifyWith m s2 >>= fun mb => stratifyWith mb s1) = .ok m21) (env : Env α) :
    (mixingMatrix m12 env).isSome = (mixingMatrix m21 env).isSome := by
  obtain ⟨h1, h2⟩ := (strat_commute m s1 s2 m12 m21 hne hk1 hk2 hshape h12 h21).mixingMats
  rw [mixingMatrix_eq_kronAll, mixingMatrix_eq_kronAll, Option.isSome_map, Option.isSome_map,
    Invariance.mapM_option_isSome, Invariance.mapM_option_isSome, h1, h2]
  simp only [List.all_append]
  rw [Bool.and_assoc, Bool.and_assoc, Bool.and_comm (List.all (mixingOf s1) _)]

end mixing

/-! ## 4. rates (partial) -/

section rates
variable {α : Type} [Field α] [LT α] [DecidableLT α]

/-- the realised weights of corresponding flows agree ALSO when the two models are evaluated in their
own state vectors, provided the adjustments are `Multiply`-only and the weight does not read the
compartment values (`usesState`: no `CompartmentValues` node; parameters and time are allowed) -/
theorem corr_weight_states {s1 s2 : Strat α} (hm1 : mulOnly s1 = true) (hm2 : mulOnly s2 = true) {g g' : Flow α}
    (h : FlowCorr (DeclaredAdj s1) (DeclaredAdj s2) g g') (hfree : usesState (realised g) = false)
    (p : List (String × α)) (t : α) (x x' : List α) :
    (realised g).eval ⟨p, t, x⟩ = (realised g').eval ⟨p, t, x'⟩ := by
  rw [Invariance.eval_state_indep p t x x' _ hfree]
  obtain ⟨k, n, pr, sr, ds, base, x1, x2, a1, a2, q1, q2⟩ := h
  exact (corr_weight ⟨k, n, pr, sr, ds, base, x1, x2, a1, a2,
    fun y hy => declared_isMul hm1 y (q1 y hy), fun y hy => declared_isMul hm2 y (q2 y hy)⟩ _).1

/-- **`C15StratComm.strat_commute_rates_partial`** — the rate laws.  `m` satisfies the structural
invariant (`Spec.Inv`: true of every reachable model), the strata of `s1`, `s2` are distinct, both
orders are accepted and both resulting models have index tables.  Put both models in the same state
(`semState pop`: the population as a function of the compartment read as name + strata lookup), and
give them weights `W12`/`W21` and infection multipliers `M12`/`M21` that agree on corresponding flows.
Then
* corresponding flows have the same rate (`rateBy`: weight × source population (or total population,
  or 1) × multiplier, × total deaths for replacement births),
* `flowRates` of each model is that rate, flow by flow,
* the compartment rates agree at corresponding positions of the two compartment lists.

PARTIAL with respect to (4): the agreement of the infection multipliers of corresponding flows (`hM`,
the force of infection of the two models under the category correspondence of `strat_commute_mixing`)
is a HYPOTHESIS here, not a conclusion.  It is vacuous for models without infection flows
(`strat_commute_rhs_noinfection`). -/
theorem strat_commute_rates_partial (m : Model α) (s1 s2 : Strat α) (m12 m21 : Model α)
    (hne : s1.name ≠ s2.name) (hk1 : s1.kind ≠ .age) (hk2 : s2.kind ≠ .age)
    (hinv : Inv m) (hs1 : s1.strata.Nodup) (hs2 : s2.strata.Nodup)
    (h12 : (stratifyWith m s1 >>= fun ma => stratifyWith ma s2) = .ok m12)
    (h21 : (stratifyWith m s2 >>= fun mb => stratifyWith mb s1) = .ok m21)
    (b12 b21 : Backend) (hp12 : prepare m12 = .ok b12) (hp21 : prepare m21 = .ok b21)
    (W12 W21 M12 M21 : Flow α → α)
    (hW : ∀ g g', g ∈ m12.flows → FlowCorr (DeclaredAdj s1) (DeclaredAdj s2) g g' → W12 g = W21 g')
    (hM : ∀ g g', g ∈ m12.flows → FlowCorr (DeclaredAdj s1) (DeclaredAdj s2) g g' →
      isInfection g.kind = true → M12 g = M21 g')
    (pop : String × (String → Option String) → α) :
    (∃ pairs : List (Flow α × Flow α), pairs.map (·.1) = m12.flows ∧ (pairs.map (·.2)).Perm m21.flows ∧
      ∀ p ∈ pairs, FlowCorr (DeclaredAdj s1) (DeclaredAdj s2) p.1 p.2 ∧
        rateBy m12 W12 (semState pop m12.comps) M12 p.1 = rateBy m21 W21 (semState pop m21.comps) M21 p.2) ∧
    flowRates b12 (m12.flows.map W12) (semState pop m12.comps) ((m12.flows.filter (fun f => isInfection f.kind)).map M12)
      = m12.flows.map (rateBy m12 W12 (semState pop m12.comps) M12) ∧
    flowRates b21 (m21.flows.map W21) (semState pop m21.comps) ((m21.flows.filter (fun f => isInfection f.kind)).map M21)
      = m21.flows.map (rateBy m21 W21 (semState pop m21.comps) M21) ∧
    ∀ (i i' : Nat) (hi : i < m12.comps.length) (hi' : i' < m21.comps.length),
      compSem m12.comps[i] = compSem m21.comps[i'] →
      (compRates b12 (flowRates b12 (m12.flows.map W12) (semState pop m12.comps)
          ((m12.flows.filter (fun f => isInfection f.kind)).map M12))).getD i 0
        = (compRates b21 (flowRates b21 (m21.flows.map W21) (semState pop m21.comps)
          ((m21.flows.filter (fun f => isInfection f.kind)).map M21))).getD i' 0 := by
  have hc := strat_commute m s1 s2 m12 m21 hne hk1 hk2 (Structure.shape_lite hinv) h12 h21
  obtain ⟨ma, ha, hab⟩ := (InvFlowOrder.bind_ok_iff _ _ _).1 h12
  have hinv12 : Inv m12 := Structure.inv_stratifyWith (Structure.inv_stratifyWith hinv hs1 ha) hs2 hab
  obtain ⟨pairs, S, hcorr⟩ := ratesSetup_of_commutes hc hinv12 hp12 hp21
  have hW' : ∀ p ∈ pairs, W12 p.1 = W21 p.2 := fun p hp => hW _ _ (S.mem hp).1 (hcorr p hp)
  have hM' : ∀ p ∈ pairs, isInfection p.1.kind = true → M12 p.1 = M21 p.2 :=
    fun p hp => hM _ _ (S.mem hp).1 (hcorr p hp)
  refine ⟨⟨pairs, S.fst, S.snd, fun p hp => ⟨hcorr p hp, rateBy_corr S pop W12 W21 M12 M21 hW' hM' hp⟩⟩,
    Invariance.flowRates_eq_map S.hb _ _ _, Invariance.flowRates_eq_map S.hb' _ _ _, ?_⟩
  intro i i' hi hi' hsem
  exact compRates_corr S pop W12 W21 M12 M21 hW' hM' ⟨hi, hi', hsem⟩

/-- **(4) for models without infection flows.**  Hypotheses of `strat_commute_rates_partial`; the flow
adjustments of `s1`, `s2` are `Multiply`-only; no flow of the stratified model is an infection flow and
no realised weight reads the compartment values (both decidable).  Evaluate the right-hand sides of
the two models (`Run.rhs`, i.e. `get_comp_rates`) in the same state, parameters and time.  Where both
are defined, they agree at corresponding positions of the two compartment lists.
(Not covered: that the two right-hand sides are defined TOGETHER — the weights and the mixing matrix
are, but the compartment-infectiousness stage iterates over the swapped stratification lists.) -/
theorem strat_commute_rhs_noinfection (m : Model α) (s1 s2 : Strat α) (m12 m21 : Model α)
    (hne : s1.name ≠ s2.name) (hk1 : s1.kind ≠ .age) (hk2 : s2.kind ≠ .age)
    (hinv : Inv m) (hs1 : s1.strata.Nodup) (hs2 : s2.strata.Nodup)
    (hm1 : mulOnly s1 = true) (hm2 : mulOnly s2 = true)
    (h12 : (stratifyWith m s1 >>= fun ma => stratifyWith ma s2) = .ok m12)
    (h21 : (stratifyWith m s2 >>= fun mb => stratifyWith mb s1) = .ok m21)
    (b12 b21 : Backend) (hp12 : prepare m12 = .ok b12) (hp21 : prepare m21 = .ok b21)
    (hno : m12.flows.all (fun f => !isInfection f.kind) = true)
    (hfree : m12.flows.all (fun f => !usesState (realised f)) = true)
    (pop : String × (String → Option String) → α) (p : List (String × α)) (t : α) (r12 r21 : List α)
    (hr12 : rhs m12 b12 p (semState pop m12.comps) t = some r12)
    (hr21 : rhs m21 b21 p (semState pop m21.comps) t = some r21) :
    ∀ (i i' : Nat) (hi : i < m12.comps.length) (hi' : i' < m21.comps.length),
      compSem m12.comps[i] = compSem m21.comps[i'] → r12.getD i 0 = r21.getD i' 0 := by
  have hc := strat_commute m s1 s2 m12 m21 hne hk1 hk2 (Structure.shape_lite hinv) h12 h21
  obtain ⟨ma, ha, hab⟩ := (InvFlowOrder.bind_ok_iff _ _ _).1 h12
  have hinv12 : Inv m12 := Structure.inv_stratifyWith (Structure.inv_stratifyWith hinv hs1 ha) hs2 hab
  obtain ⟨pairs, S, hcorr⟩ := ratesSetup_of_commutes hc hinv12 hp12 hp21
  -- no infection flows in `m21` either
  have hno21 : m21.flows.all (fun f => !isInfection f.kind) = true := by
    rw [List.all_eq_true]
    intro g' hg'
    obtain ⟨q, hq, rfl⟩ := List.mem_map.1 (S.snd.mem_iff.2 hg')
    have := List.all_eq_true.1 hno q.1 (S.mem hq).1
    rw [← (S.ends q hq).1]; exact this
  rw [rhs_noinf S.hb hno p _ t r12 hr12, rhs_noinf S.hb' hno21 p _ t r21 hr21, cleanV_semState, cleanV_semState]
  intro i i' hi hi' hsem
  refine compRates_corr S (fun c => clean (pop c)) _ _ _ _ (fun q hq => ?_) (fun _ _ _ => rfl) ⟨hi, hi', hsem⟩
  have hf : usesState (realised q.1) = false := by
    have := List.all_eq_true.1 hfree q.1 (S.mem hq).1
    simpa using this
  show ((realised q.1).eval _).getD 0 = ((realised q.2).eval _).getD 0
  rw [corr_weight_states hm1 hm2 (hcorr q hq) hf p t _ (semState (fun c => clean (pop c)) m21.comps)]

end rates

/-! ## non-vacuity: an S/I/R model on `Rat`, a 2-stratum and a 3-stratum plain stratification -/

section examples
def cS : Comp := ⟨"S", []⟩
def cI : Comp := ⟨"I", []⟩
def cR : Comp := ⟨"R", []⟩

def exBase : Model Rat :=
  { t0 := 0, t1 := 4, dt := 1, nTimes := 5,
    comps := [cS, cI, cR], origNames := ["S", "I", "R"], infectious := ["I"],
    flows := [{ kind := .infFreq, name := "infection", src := some cS, dst := some cI, param := .param "beta", adjs := [] },
              { kind := .transition, name := "recovery", src := some cI, dst := some cR, param := .param "gamma", adjs := [] },
              { kind := .death, name := "death", src := some cI, dst := none, param := .const (1/10), adjs := [] },
              { kind := .crudeBirth, name := "births", src := none, dst := some cS, param := .const (1/50), adjs := [] },
              { kind := .importF, name := "imports", src := none, dst := some cI, param := .const 5, adjs := [] }],
    strats := [], mixingCats := [[]], mixingMats := [], strains := ["default"],
    initDist := none, arrayPop := none, actions := [], requests := [], computed := [],
    whitelist := [], finalized := false }

/-- `grp`: 2 strata, all compartments, doubles the recovery rate of `y`, 2×2 mixing matrix -/
def exGrp : Strat Rat :=
  { kind := .plain, name := "grp", strata := ["y", "o"], comps := ["S", "I", "R"], split := [],
    flowAdj := [⟨"recovery", [("y", some (.mul (.const 2))), ("o", none)], [], []⟩],
    infAdj := [], mixing := some [[.const 1, .const 2], [.const 3, .const 4]] }

/-- `loc`: 3 strata, all compartments, adjusts infection (by a literal and by a parameter) and
recovery, 3×3 mixing matrix -/
def exLoc : Strat Rat :=
  { kind := .plain, name := "loc", strata := ["a", "b", "c"], comps := ["S", "I", "R"], split := [],
    flowAdj := [⟨"infection", [("a", some (.mul (.const 3))), ("b", some (.mul (.param "rb"))), ("c", none)], [], []⟩,
                ⟨"recovery", [("a", some (.mul (.const 7))), ("b", none), ("c", none)], [], []⟩],
    infAdj := [], mixing := some [[.const 1, .const 0, .const 2], [.const 0, .const 1, .const 0], [.const 5, .const 7, .const 1]] }

def both (s1 s2 : Strat Rat) : Res (Model Rat) := stratifyWith exBase s1 >>= fun ma => stratifyWith ma s2
def modelOf (r : Res (Model Rat)) : Model Rat := match r with | .ok x => x | .error _ => exBase

/-- both orders are accepted (evaluated by the kernel) -/
theorem ex12_ok : both exGrp exLoc = .ok (modelOf (both exGrp exLoc)) := ok_of_isSome _ exBase (by decide +kernel)
theorem ex21_ok : both exLoc exGrp = .ok (modelOf (both exLoc exGrp)) := ok_of_isSome _ exBase (by decide +kernel)

/-- the hypotheses of `strat_commute` / `strat_commute_weights` hold -/
example : exGrp.name ≠ exLoc.name ∧ exGrp.kind ≠ .age ∧ exLoc.kind ≠ .age ∧
    (∀ f ∈ exBase.flows, (isEntry f.kind = true → f.src = none) ∧ (isExit f.kind = true → f.dst = none)) ∧
    mulOnly exGrp = true ∧ mulOnly exLoc = true := by decide

example : StratCommutes exBase exGrp exLoc (modelOf (both exGrp exLoc)) (modelOf (both exLoc exGrp)) :=
  strat_commute exBase exGrp exLoc _ _ (by decide) (by decide) (by decide) (by decide) ex12_ok ex21_ok

example := strat_commute_weights exBase exGrp exLoc _ _ (by decide) (by decide) (by decide) (by decide)
  (by decide) (by decide) ex12_ok ex21_ok

def exEnv : Env Rat := ⟨[("beta", 2), ("gamma", 1/4), ("rb", 1/3)], 0, []⟩

/-- summary of a flow: name, (name, grp, loc) of the ends, length of the chain, realised weight -/
def endKey (e : Option Comp) : String :=
  match e with
  | none => "-"
  | some c => c.name ++ "/" ++ (alookup c.strata "grp").getD "?" ++ "/" ++ (alookup c.strata "loc").getD "?"
def flowKey (f : Flow Rat) : String × String × String × Nat × Option Rat :=
  (f.name, endKey f.src, endKey f.dst, f.adjs.length, (realised f).eval exEnv)

/-- position in the `loc`-then-`grp` model of flow / compartment number `n` of the `grp`-then-`loc` model
(blocks of 2·3 per parent; inside a block `(g, l) ↦ (l, g)`) -/
def pi (n : Nat) : Nat := (n / 6) * 6 + (n % 3) * 2 + (n % 6) / 3

/-- both sides, computed independently of the theorem: the compartment lists differ in order and in
dictionary order ... -/
example : (modelOf (both exGrp exLoc)).comps.take 4 =
      [⟨"S", [("grp", "y"), ("loc", "a")]⟩, ⟨"S", [("grp", "y"), ("loc", "b")]⟩, ⟨"S", [("grp", "y"), ("loc", "c")]⟩,
       ⟨"S", [("grp", "o"), ("loc", "a")]⟩] ∧
    (modelOf (both exLoc exGrp)).comps.take 4 =
      [⟨"S", [("loc", "a"), ("grp", "y")]⟩, ⟨"S", [("loc", "a"), ("grp", "o")]⟩, ⟨"S", [("loc", "b"), ("grp", "y")]⟩,
       ⟨"S", [("loc", "b"), ("grp", "o")]⟩] := by decide +kernel

/-- ... four of the flows (the recovery copy `I/y/a` carries both `Multiply(2)` and `Multiply(7)`) ... -/
example : (((modelOf (both exGrp exLoc)).flows.map flowKey).drop 6).take 4
      = [("recovery", "I/y/a", "R/y/a", 2, some (7 / 2)), ("recovery", "I/y/b", "R/y/b", 1, some (1 / 2)),
         ("recovery", "I/y/c", "R/y/c", 1, some (1 / 2)), ("recovery", "I/o/a", "R/o/a", 1, some (7 / 4))] := by
  decide +kernel
/-- ... and the 30 flows of one model are those of the other read through `pi`: same name, same ends as
(name, grp, loc), same chain length, same realised weight at `exEnv` -/
example : (modelOf (both exGrp exLoc)).flows.length = 30 ∧
    (modelOf (both exGrp exLoc)).flows.map flowKey
      = (List.range 30).map (fun n => (((modelOf (both exLoc exGrp)).flows[pi n]?).map flowKey).getD ("", "", "", 0, none)) := by
  decide +kernel


/-- mixing: both matrices present; hypotheses of `strat_commute_mixing` hold and the entry / category
correspondence is as claimed (sample: `i = j = 0`, `(k,l) = (1,2)`, `(k',l') = (0,1)`) -/
example :
    let A1 : Matrix Rat := [[1, 2], [3, 4]]
    let A2 : Matrix Rat := [[1, 0, 2], [0, 1, 0], [5, 7, 1]]
    exBase.mixingMats.mapM (evalMatrix exEnv) = some [] ∧
    exGrp.mixing.bind (evalMatrix exEnv) = some A1 ∧ exLoc.mixing.bind (evalMatrix exEnv) = some A2 ∧
    mixingMatrix (modelOf (both exGrp exLoc)) exEnv = some (kron A1 A2) ∧
    mixingMatrix (modelOf (both exLoc exGrp)) exEnv = some (kron A2 A1) ∧
    mget (kron A1 A2) (1 * 3 + 2) (0 * 3 + 1) = 3 * 7 ∧ mget (kron A2 A1) (2 * 2 + 1) (1 * 2 + 0) = 7 * 3 ∧
    (modelOf (both exGrp exLoc)).mixingCats.getD (1 * 3 + 2) [] = [("grp", "o"), ("loc", "c")] ∧
    (modelOf (both exLoc exGrp)).mixingCats.getD (2 * 2 + 1) [] = [("loc", "c"), ("grp", "o")] := by
  decide +kernel

/-- `strat_commute_mixing` applies: all its hypotheses hold for the example -/
example := strat_commute_mixing exBase exGrp exLoc _ _ (by decide) (by decide) (by decide) (by decide) ex12_ok ex21_ok
  _ _ rfl rfl exEnv [] [[1, 2], [3, 4]] [[1, 0, 2], [0, 1, 0], [5, 7, 1]] (by decide +kernel) (by decide +kernel)
  (by decide +kernel) ⟨rfl, by decide⟩ ⟨rfl, by decide⟩ ⟨rfl, by decide⟩

example : IsShape (kronAll ([] : List (Matrix Rat))) exBase.mixingCats.length exBase.mixingCats.length ∧
    IsShape ([[1, 2], [3, 4]] : Matrix Rat) exGrp.strata.length exGrp.strata.length ∧
    IsShape ([[1, 0, 2], [0, 1, 0], [5, 7, 1]] : Matrix Rat) exLoc.strata.length exLoc.strata.length :=
  ⟨⟨rfl, by decide⟩, ⟨rfl, by decide⟩, ⟨rfl, by decide⟩⟩

/-! ### partial stratifications: conservation split, flows touched by one stratification only -/

/-- `loc` restricted to `I` (no mixing matrix: mixing needs a full stratification) -/
def exLocI : Strat Rat :=
  { exLoc with comps := ["I"], mixing := none,
               flowAdj := [⟨"recovery", [("a", some (.mul (.const 7))), ("b", none), ("c", none)], [], []⟩] }

theorem exI12_ok : both exGrp exLocI = .ok (modelOf (both exGrp exLocI)) := ok_of_isSome _ exBase (by decide +kernel)
theorem exI21_ok : both exLocI exGrp = .ok (modelOf (both exLocI exGrp)) := ok_of_isSome _ exBase (by decide +kernel)

example : StratCommutes exBase exGrp exLocI (modelOf (both exGrp exLocI)) (modelOf (both exLocI exGrp)) :=
  strat_commute exBase exGrp exLocI _ _ (by decide) (by decide) (by decide) (by decide) exI12_ok exI21_ok

/-- 2·3 infection flows (`loc` stratifies the destination only and declares nothing for them: conservation
split `Multiply(1/3)`, weight `2 · 1/3`), 2·3 recovery, 2·3 death, 2 births (untouched by `loc`), 2·3 imports -/
example : (modelOf (both exGrp exLocI)).flows.length = 26 ∧ (modelOf (both exLocI exGrp)).flows.length = 26 := by
  decide +kernel
example : ((modelOf (both exGrp exLocI)).flows.map flowKey).take 3
      = [("infection", "S/y/?", "I/y/a", 1, some (2 / 3)), ("infection", "S/y/?", "I/y/b", 1, some (2 / 3)),
         ("infection", "S/y/?", "I/y/c", 1, some (2 / 3))] := by decide +kernel
example : ((modelOf (both exLocI exGrp)).flows.map flowKey).take 3
      = [("infection", "S/y/?", "I/y/a", 1, some (2 / 3)), ("infection", "S/o/?", "I/o/a", 1, some (2 / 3)),
         ("infection", "S/y/?", "I/y/b", 1, some (2 / 3))] := by decide +kernel

/-! ### the `Overwrite` restriction of `strat_commute_weights` is necessary -/

/-- `grp` multiplies the recovery flow by 2 in both strata -/
def exGrpM : Strat Rat :=
  { exGrp with flowAdj := [⟨"recovery", [("y", some (.mul (.const 2))), ("o", some (.mul (.const 2)))], [], []⟩] }
/-- `loc` overwrites the recovery rate by 5 in all strata -/
def exLocO : Strat Rat :=
  { exLoc with flowAdj := [⟨"recovery", [("a", some (.ovr (.const 5))), ("b", some (.ovr (.const 5))), ("c", some (.ovr (.const 5)))], [], []⟩] }

theorem exO12_ok : both exGrpM exLocO = .ok (modelOf (both exGrpM exLocO)) := ok_of_isSome _ exBase (by decide +kernel)
theorem exO21_ok : both exLocO exGrpM = .ok (modelOf (both exLocO exGrpM)) := ok_of_isSome _ exBase (by decide +kernel)

/-- the structural theorem still applies (chains are swapped blocks) ... -/
example : StratCommutes exBase exGrpM exLocO (modelOf (both exGrpM exLocO)) (modelOf (both exLocO exGrpM)) :=
  strat_commute exBase exGrpM exLocO _ _ (by decide) (by decide) (by decide) (by decide) exO12_ok exO21_ok

/-- **`overwrite_order_matters`**: ... but `mulOnly` fails for `loc`, and the realised recovery rates
differ: "Overwrite replaces everything accumulated before it" — `Multiply(2)` then `Overwrite(5)` gives
5, `Overwrite(5)` then `Multiply(2)` gives 10.  Documented behaviour, hence a hypothesis. -/
example : mulOnly exGrpM = true ∧ mulOnly exLocO = false ∧
    filtersAvoid exGrpM exLocO.name = true ∧ filtersAvoid exLocO exGrpM.name = true ∧
    (((modelOf (both exGrpM exLocO)).flows.filter (fun f => f.name == "recovery")).map (fun f => (realised f).eval exEnv))
      = List.replicate 6 (some 5) ∧
    (((modelOf (both exLocO exGrpM)).flows.filter (fun f => f.name == "recovery")).map (fun f => (realised f).eval exEnv))
      = List.replicate 6 (some 10) := by decide +kernel

/-! ### a filter on the other stratification: only one order is accepted (`filters_forced`) -/

/-- `loc` adjusts the infection flow only for sources in `grp = y` -/
def exLocF : Strat Rat :=
  { exLoc with flowAdj := [⟨"infection", [("a", some (.mul (.const 3))), ("b", none), ("c", none)], [("grp", "y")], []⟩] }

example : filtersAvoid exLocF exGrp.name = false ∧
    (both exGrp exLocF).toOption.isSome = true ∧ (both exLocF exGrp).toOption.isSome = false := by decide +kernel
/-! ### (4) rates: kernel-checked instance (no general theorem, see the note below) -/

/-- inverse of `pi` on one block -/
def invPi (j : Nat) : Nat := (j / 6) * 6 + (j % 2) * 3 + (j % 6) / 2
def x12 : List Rat := (List.range 18).map (fun n => ((n : Nat) : Rat) * 10 + 5)
def x21 : List Rat := (List.range 18).map (fun j => x12.getD (invPi j) 0)
def rhsOf (m : Model Rat) (x : List Rat) : Option (List Rat) := do
  let b ← (prepare m).toOption
  rhs m b exEnv.params x 0

/-- index tables are built for both models; the state of the second model is the state of the first
read through the compartment correspondence; the right-hand side (force of infection with the 6×6
Kronecker mixing matrix, all five flow classes) of the second model is the right-hand side of the
first read through the same correspondence -/
example : (rhsOf (modelOf (both exGrp exLoc)) x12).isSome = true ∧
    rhsOf (modelOf (both exLoc exGrp)) x21
      = (rhsOf (modelOf (both exGrp exLoc)) x12).map (fun v => (List.range 18).map (fun j => v.getD (invPi j) 0)) := by
  decide +kernel

end examples

/-
NOTES.

(4) Rates.  A general theorem "the right-hand side of `m21` at the relabelled state is the relabelled
right-hand side of `m12`" is NOT proved.  `perm_flows_step` / `perm_comps_rates` (`Summer/Props/C15.lean`)
need the flow list, resp. the compartment list, of one model to be a LITERAL permutation of the other's.
Here corresponding compartments differ in the insertion order of their strata dictionaries
(`[("grp","y"),("loc","a")]` vs `[("loc","a"),("grp","y")]`) and corresponding flows in the order of
their adjustment blocks, so what is missing is a theorem that `Run.prepare` / `Run.step` are insensitive to
(i) a bijective relabelling of the compartments that is not of the `renComp` form of `C15.rename`,
(ii) replacing each flow by one with the same realised weight, and (iii) swapping two Kronecker factors
together with the category correspondence (`strat_commute_mixing` provides the matrix / category
part, `strat_commute_weights` the weight part, `C15.perm_stratifications` the compartment part).
The kernel-checked instance above exercises the whole pipeline on the example.

Age stratifications are excluded for a reason: `stratify_with` names each ageing flow after the
serialised source and destination compartments AT THE TIME the age stratification is applied
(`"ageing_SXage_0_to_SXage_5"` if `age` comes first — the same name for all later copies — but
`"ageing_SXloc_aXage_0_to_SXloc_aXage_5"` if `loc` comes first), so the two orders give flows with
different names.  (`String.toInt?` does not reduce in the kernel, hence no `decide` example.)
-/

#print axioms strat_commute
#print axioms filters_forced
#print axioms strat_commute_explicit
#print axioms strat_commute_reachable
#print axioms corr_adjs_perm
#print axioms corr_weight
#print axioms strat_commute_weights
#print axioms strat_commute_mixing_one
#print axioms strat_commute_mixing
#print axioms strat_commute_mixing_defined
#print axioms corr_weight_states
#print axioms strat_commute_rates_partial
#print axioms strat_commute_rhs_noinfection

end Summer.Props.C15StratComm
