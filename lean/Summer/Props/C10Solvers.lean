import Summer.Proofs.NoStale
import Summer.Props.C07
import Summer.Props.C08
import Summer.Props.C10
/-
C10 along the solvers — time- and state-dependent inputs are "evaluated at every evaluation of the
model's rates at exactly the time and state being evaluated - never at a stale, start-of-run or
neighbouring-step value".

Two halves, composed in each theorem:

* (`step_current`) ONE evaluation `Run.step m b p t x` computes every time/state-dependent ingredient in
  the environment `⟨p, t, cleanV x⟩` of that very call (`Spec.NoStale.EvaluatedAt`): each flow's weight is
  `Spec.weight` of its own flow there (via `C10.weight_current`: whether the weight was precomputed by
  the static stage or overwritten per evaluation), the mixing matrix, the infectious multipliers, the
  flow and compartment rates.  Nothing is carried over from another call: `EvaluatedAt` determines the
  record (`step_current_unique`).
* the SOLVERS call the rate function `Spec.field m b p` (the closure the driver builds from `Run.rhs`)
  at the following points, each with its OWN time and state:
  - `euler` (row `i → i+1`): `(row_i, times[i])`;
  - `rk4`: `(y, t)`, `(y + (h/2)K1, t + h/2)`, `(y + (h/2)K2, t + h/2)`, `(y + h K3, t + h)` with
    `y = row_i`, `t = times[i]`;
  - Dormand–Prince `rkStep`: stage `i+1` (`i = 0..5`) at
    `(y0 + dt·Σ_{j≤i} beta[i][j]·k_j, t0 + dt·alpha[i])`; stage `0` is the derivative carried in the
    stepping state, which is the rate function at the carried `(y, t)` (`dopri_carried_current`: FSAL);
  - `flowsForOutputs` row `i`: `(outputs[i], times[i])`.

`α` is an arbitrary field carrying a linear order (the compatibility of the order with the arithmetic is
never needed, so it is not assumed; every ordered field, e.g. `Rat`, is an instance — see the last
`example`); the theorems about an arbitrary rate function `f` need the field structure only.
-/
namespace Summer.C10Solvers
open Summer Summer.Run Summer.Spec Summer.Spec.NoStale Summer.Solvers Summer.Spec.Solvers Summer.Derived
open Summer.Proofs.NoStale

set_option linter.unusedSectionVars false

variable {α : Type} [Field α] [LinearOrder α]

/-! ### 0. one evaluation of the rates -/

/-- `step_current`: a successful evaluation at `(t, x)` is the evaluation AT `(t, x)`: in particular the
`j`-th weight is `Spec.weight m.flows[j] ⟨p, t, cleanV x⟩`. -/
theorem step_current (m : Model α) (b : Backend) (p : List (String × α)) (t : α) (x : List α)
    (s : StepOut α) (h : step m b p t x = some s) : EvaluatedAt m b p t x s := by
  obtain ⟨static, hst, hw, hmix, hci, hs⟩ := step_some m b p t x s h
  obtain ⟨hlen, hwj⟩ := C10.weight_current m p t (cleanV x) static s.weights hst hw
  refine ⟨hlen, fun j h₁ h₂ => ?_, hmix, hci, ?_, ?_, ?_⟩
  · rw [← Proofs.realised_eval_eq_weight]; exact hwj j h₁ h₂
  · rw [hs]; rfl
  · rw [hs]; rfl
  · rw [hs]; rfl

/-- … and nothing else enters: two records evaluated at the same `(t, x)` coincide -/
theorem step_current_unique (m : Model α) (b : Backend) (p : List (String × α)) (t : α) (x : List α)
    (s s' : StepOut α) (h : EvaluatedAt m b p t x s) (h' : EvaluatedAt m b p t x s') : s = s' :=
  evaluatedAt_unique m b p t x s s' h h'

/-- the rate function handed to the solvers is, at every call `(y, t)`, the compartment-rate field of
the evaluation at that `(t, y)` -/
theorem field_current (m : Model α) (b : Backend) (p : List (String × α)) (y : List α) (t : α)
    (s : StepOut α) (h : step m b p t y = some s) :
    field m b p y t = s.compRates ∧ EvaluatedAt m b p t y s := by
  refine ⟨?_, step_current m b p t y s h⟩
  unfold field rhs
  rw [h]; rfl

/-! ### 1. fixed-step solvers -/

/-- `euler_no_stale`: row `i+1` is `row_i + h·rates`, where the rates are those of the evaluation of the
model at `(times[i], row_i)` — the current row and the current time, not `times[0]`, `y0`, `times[i+1]`
or a previous row. -/
theorem euler_no_stale (m : Model α) (b : Backend) (p : List (String × α)) (y0 : List α) (times : List α)
    (hne : times ≠ []) :
    (euler (field m b p) y0 times).length = times.length ∧
    (euler (field m b p) y0 times).getD 0 [] = y0 ∧
    ∀ i, i + 1 < times.length → ∀ s : StepOut α,
      step m b p (times.getD i 0) ((euler (field m b p) y0 times).getD i []) = some s →
      (euler (field m b p) y0 times).getD (i + 1) [] =
        vadd ((euler (field m b p) y0 times).getD i [])
          (vscale (times.getD 1 0 - times.getD 0 0) s.compRates) ∧
      EvaluatedAt m b p (times.getD i 0) ((euler (field m b p) y0 times).getD i []) s := by
  obtain ⟨h1, h2, h3⟩ := Props.C07.euler_rows (field m b p) y0 times hne
  refine ⟨h1, h2, fun i hi s hs => ?_⟩
  obtain ⟨hf, hc⟩ := field_current m b p _ _ s hs
  exact ⟨by rw [h3 i hi, hf], hc⟩

/-- `rk4_no_stale`: row `i+1` is the classical RK4 combination of four evaluations of the model, each at
its own stage time and stage state: `(t, y)`, `(t + h/2, y + (h/2)K1)`, `(t + h/2, y + (h/2)K2)`,
`(t + h, y + h K3)` where `y = row_i`, `t = times[i]` and `Kj` are the compartment rates of the previous
stage's evaluation. -/
theorem rk4_no_stale (m : Model α) (b : Backend) (p : List (String × α)) (y0 : List α) (times : List α)
    (hne : times ≠ []) :
    (rk4 (field m b p) y0 times).length = times.length ∧
    (rk4 (field m b p) y0 times).getD 0 [] = y0 ∧
    ∀ i, i + 1 < times.length →
      let y := (rk4 (field m b p) y0 times).getD i []
      let t := times.getD i 0
      let h := times.getD 1 0 - times.getD 0 0
      ∀ s1 s2 s3 s4 : StepOut α,
        step m b p t y = some s1 →
        step m b p (t + h / 2) (vadd y (vscale (h / 2) s1.compRates)) = some s2 →
        step m b p (t + h / 2) (vadd y (vscale (h / 2) s2.compRates)) = some s3 →
        step m b p (t + h) (vadd y (vscale h s3.compRates)) = some s4 →
        (rk4 (field m b p) y0 times).getD (i + 1) [] =
          vadd y (vscale (h / 6)
            (vadd (vadd (vadd s1.compRates (vscale 2 s2.compRates)) (vscale 2 s3.compRates)) s4.compRates)) ∧
        EvaluatedAt m b p t y s1 ∧
        EvaluatedAt m b p (t + h / 2) (vadd y (vscale (h / 2) s1.compRates)) s2 ∧
        EvaluatedAt m b p (t + h / 2) (vadd y (vscale (h / 2) s2.compRates)) s3 ∧
        EvaluatedAt m b p (t + h) (vadd y (vscale h s3.compRates)) s4 := by
  obtain ⟨h1, h2, h3⟩ := Props.C07.rk4_rows (field m b p) y0 times hne
  refine ⟨h1, h2, fun i hi => ?_⟩
  intro y t h s1 s2 s3 s4 e1 e2 e3 e4
  obtain ⟨f1, c1⟩ := field_current m b p _ _ s1 e1
  obtain ⟨f2, c2⟩ := field_current m b p _ _ s2 e2
  obtain ⟨f3, c3⟩ := field_current m b p _ _ s3 e3
  obtain ⟨f4, c4⟩ := field_current m b p _ _ s4 e4
  refine ⟨?_, c1, c2, c3, c4⟩
  rw [h3 i hi, Props.C07.rk4_classical]
  simp only []
  rw [f1, f2, f3, f4]

/-! ### 2. the adaptive solver -/

/-- `dopri_no_stale` (any rate function `f`, any tableau): one `rkStep` produces 7 stages; stage `0` is
the `f0` handed in; stage `i+1` (`i = 0..5`) is `f` called with the stage's own state
`y0 + dt·Σ_{j≤i} beta[i][j]·k_j` (the stages computed so far: `k.take (i+1)`) and own time
`t0 + dt·alpha[i]`. -/
theorem dopri_no_stale (tb : Tableau α) (f : List α → α → List α) (y0 f0 : List α) (t0 dt : α) :
    let k := (rkStep tb f y0 f0 t0 dt).2.2.2
    k.length = 7 ∧ k.getD 0 [] = f0 ∧
    ∀ i, i < 6 → k.getD (i + 1) [] =
      f (vadd y0 (vscale dt (lincomb y0.length (tb.beta.getD i []) (k.take (i + 1)))))
        (t0 + dt * tb.alpha.getD i 0) :=
  rkStages_points tb f y0 f0 t0 dt

/-- for the model's rate function: stage `i+1` is the compartment-rate field of the evaluation of the model
at the stage's own `(t0 + dt·alpha[i], y0 + dt·Σ beta[i][j] k_j)` -/
theorem dopri_no_stale_model (m : Model α) (b : Backend) (p : List (String × α)) (tb : Tableau α)
    (y0 f0 : List α) (t0 dt : α) :
    let k := (rkStep tb (field m b p) y0 f0 t0 dt).2.2.2
    ∀ i, i < 6 →
      let yi := vadd y0 (vscale dt (lincomb y0.length (tb.beta.getD i []) (k.take (i + 1))))
      let ti := t0 + dt * tb.alpha.getD i 0
      ∀ s : StepOut α, step m b p ti yi = some s →
        k.getD (i + 1) [] = s.compRates ∧ EvaluatedAt m b p ti yi s := by
  intro k i hi yi ti s hs
  obtain ⟨hf, hc⟩ := field_current m b p yi ti s hs
  exact ⟨by rw [(dopri_no_stale tb (field m b p) y0 f0 t0 dt).2.2 i hi]; exact hf, hc⟩

/-- `dopri_carried_current`: stage `0` is not stale either.  For an FSAL tableau (true of the generated
one: `C07.fsal_generated`) and a length-preserving rate function, the derivative `s.f` carried in the
stepping state of `odeint` is, after any number of accepted or rejected steps towards any targets,
the rate function at the carried state and time. -/
theorem dopri_carried_current (tb : Tableau α) (hfsal : FSAL tb) (ctl : Control α)
    (f : List α → α → List α) (n : Nat) (hf : ∀ y t, y.length = n → (f y t).length = n)
    (fuel : Nat) (dt0 : α) (y0 : List α) (hy0 : y0.length = n) (ts : List α) :
    let s := odeFinalState tb ctl f fuel dt0 y0 ts
    s.y.length = n ∧ s.f = f s.y s.t :=
  foldl_advance_current tb hfsal ctl n hf fuel (ts.drop 1) (odeInit f dt0 y0 (ts.getD 0 0)) hy0 rfl

/-- the same for a single `advance` from any state satisfying the invariant -/
theorem dopri_carried_current_advance (tb : Tableau α) (hfsal : FSAL tb) (ctl : Control α)
    (f : List α → α → List α) (n : Nat) (hf : ∀ y t, y.length = n → (f y t).length = n)
    (target : α) (fuel : Nat) (s : OdeState α) (hy : s.y.length = n) (hcur : s.f = f s.y s.t) :
    (advance tb ctl f target fuel s).y.length = n ∧
      (advance tb ctl f target fuel s).f =
        f (advance tb ctl f target fuel s).y (advance tb ctl f target fuel s).t :=
  advance_current tb hfsal ctl n hf target fuel s hy hcur

/-- the model's rate function is length-preserving (prepared backend), so `dopri_carried_current` applies
to it: the carried derivative is `field m b p` at the carried `(y, t)`, i.e. (by `field_current`) the
compartment rates of the model evaluated there -/
theorem dopri_carried_current_model (m : Model α) (b : Backend) (hb : prepare m = .ok b)
    (p : List (String × α)) (tb : Tableau α) (hfsal : FSAL tb) (ctl : Control α) (fuel : Nat) (dt0 : α)
    (y0 : List α) (hy0 : y0.length = m.comps.length) (ts : List α) :
    let s := odeFinalState tb ctl (field m b p) fuel dt0 y0 ts
    s.y.length = m.comps.length ∧ s.f = field m b p s.y s.t ∧
      ∀ st : StepOut α, step m b p s.t s.y = some st → s.f = st.compRates ∧ EvaluatedAt m b p s.t s.y st := by
  have hf : ∀ (y : List α) (t : α), y.length = m.comps.length → (field m b p y t).length = m.comps.length := by
    intro y t _
    unfold field rhs
    cases hst : step m b p t y with
    | none => simp
    | some st =>
      simp only [Option.map_some, Option.getD_some]
      rw [(step_current m b p t y st hst).compRates]
      exact Proofs.compRates_length (Proofs.backendFor_of_prepare m b hb) _
  obtain ⟨h1, h2⟩ := dopri_carried_current tb hfsal ctl (field m b p) m.comps.length hf fuel dt0 y0 hy0 ts
  refine ⟨h1, h2, fun st hst => ?_⟩
  obtain ⟨hf', hc⟩ := field_current m b p _ _ st hst
  exact ⟨h2.trans hf', hc⟩

/-! ### 3. the derived-output stage -/

/-- `outputs_no_stale`: row `i` of the flow table is the flow-rate field of the evaluation of the model at
`(times[i], outputs[i])`, and the computed values of row `i` are evaluated in `⟨p, times[i], cleanV
outputs[i]⟩` (from `C08.flow_rows`). -/
theorem outputs_no_stale (m : Model α) (b : Backend) (p : List (String × α)) (times : List α)
    (outputs rows : List (List α)) (cvs : List (String × List α))
    (h : flowsForOutputs m b p times outputs = some (rows, cvs)) :
    rows.length = min times.length outputs.length ∧
    (∀ i (ht : i < times.length) (ho : i < outputs.length),
      ∃ s, step m b p times[i] outputs[i] = some s ∧ rows.getD i [] = s.flowRates ∧
        EvaluatedAt m b p times[i] outputs[i] s) ∧
    (∀ j (hj : j < m.computed.length), ∃ series, cvs[j]? = some (m.computed[j].1, series) ∧
      ∀ i (ht : i < times.length) (ho : i < outputs.length),
        m.computed[j].2.eval ⟨p, times[i], cleanV outputs[i]⟩ = some (series.getD i 0)) := by
  obtain ⟨h1, h2, _, h4⟩ := C08.flow_rows m b p times outputs rows cvs h
  refine ⟨h1, fun i ht ho => ?_, fun j hj => ?_⟩
  · obtain ⟨s, hs, hr⟩ := h2 i ht ho
    exact ⟨s, hs, hr, step_current m b p _ _ s hs⟩
  · obtain ⟨series, hs1, _, hs3⟩ := h4 j hj
    exact ⟨series, hs1, hs3⟩


/-! ### non-vacuity: the age-stratified S/I model of `Proofs/ModelParams.lean` (`Ex`), on `Rat`.
Its death rate is `time * mu` (`mu = 1/10`): the third weight shows at which time each evaluation ran. -/
section examples
open Summer.Proofs.ModelParams.Ex Summer.Proofs.Solvers

example : prepare exModel = .ok exBackend := by rfl
example : initialPopulation exModel exParams = some exY0 := by decide +kernel

/-- `euler_no_stale`: the rows, and the evaluations at `(times[i], row_i)` are defined; the weights used for
step `0 → 1` are those at `t = 0`, for step `1 → 2` those at `t = 1/2` -/
example : euler (field exModel exBackend exParams) exY0 [0, 1/2, 1] =
    [[495/2, 1485/2, 5/2, 15/2], [7821/32, 23463/32, 179/32, 537/32],
     [48654441/204800, 145963323/204800, 2516919/204800, 7550757/204800]] := by decide +kernel
example :
    let rows := euler (field exModel exBackend exParams) exY0 [0, 1/2, 1]
    (step exModel exBackend exParams 0 (rows.getD 0 [])).map (·.weights) = some [1/2, 1, 0, 0]
    ∧ (step exModel exBackend exParams (1/2) (rows.getD 1 [])).map (·.weights) = some [1/2, 1, 1/20, 1/20]
    ∧ (step exModel exBackend exParams (1/2) (rows.getD 1 [])).map (·.compRates)
        = some [-1399959/102400, -4199877/102400, 1371319/102400, 4113957/102400] := by decide +kernel

/-- `rk4_no_stale`: the four stage evaluations of step `0 → 1` (`h = 1/2`) are defined (so the stage
states below are the theorem's, by `field_current`), and their death weights are `t·mu` at the stage
times `0, 1/4, 1/4, 1/2` -/
example :
    let f := field exModel exBackend exParams
    let y := exY0; let t : Rat := 0; let h : Rat := 1/2
    let y2 := vadd y (vscale (h / 2) (f y t))
    let y3 := vadd y (vscale (h / 2) (f y2 (t + h / 2)))
    let y4 := vadd y (vscale h (f y3 (t + h / 2)))
    [(step exModel exBackend exParams t y).map (·.weights.getD 2 0),
     (step exModel exBackend exParams (t + h / 2) y2).map (·.weights.getD 2 0),
     (step exModel exBackend exParams (t + h / 2) y3).map (·.weights.getD 2 0),
     (step exModel exBackend exParams (t + h) y4).map (·.weights.getD 2 0)]
      = [some 0, some (1/40), some (1/40), some (1/20)]
    ∧ ((rk4 f exY0 [0, 1/2, 1]).getD 1 []).length = 4 := by decide +kernel

/-- `dopri_no_stale` / `dopri_no_stale_model`: one step of the generated tableau from `t0 = 0` with
`dt = 1/4`: all six stage evaluations are defined and the death weight of stage `i+1` is
`(t0 + dt·alpha[i])·mu` -/
example :
    let f := field exModel exBackend exParams
    let tb : Tableau Rat := genTableau id
    let k := (rkStep tb f exY0 (f exY0 0) 0 (1/4)).2.2.2
    k.length = 7 ∧
    (List.range 6).all (fun i =>
      let yi := vadd exY0 (vscale (1/4) (lincomb exY0.length (tb.beta.getD i []) (k.take (i + 1))))
      let ti : Rat := 0 + 1/4 * tb.alpha.getD i 0
      (step exModel exBackend exParams ti yi).map (·.weights.getD 2 0) == some (ti * (1/10))) = true
    ∧ (List.range 6).map (fun i => (0 : Rat) + 1/4 * tb.alpha.getD i 0) = [1/20, 3/40, 1/5, 2/9, 1/4, 1/4] := by
  decide +kernel

/-- `dopri_carried_current_model`: hypotheses (prepared backend, FSAL tableau, initial length) hold; a step
is accepted (`t` moves to `1/4`) -/
example :=
  dopri_carried_current_model exModel exBackend (by rfl) exParams (genTableau id)
    (Props.C07.fsal_generated (RingHom.id ℚ)) exCtl 3 (1/4) exY0 rfl [0, 1/4]
example : (odeFinalState (genTableau id) exCtl (field exModel exBackend exParams) 3 (1/4) exY0 [0, 1/4]).t = 1/4
    ∧ (step exModel exBackend exParams (1/4)
        (odeFinalState (genTableau id) exCtl (field exModel exBackend exParams) 3 (1/4) exY0 [0, 1/4]).y).isSome = true := by
  decide +kernel

/-- `outputs_no_stale`: the hypothesis holds; row `i` uses `times[i]` (death weights `0, 1/10, 1/5`) -/
example : flowsForOutputs exModel exBackend exParams exTimes exOutputs = some (exFlows, exCvs) := by
  decide +kernel
example : (exTimes.zip exOutputs).map (fun ty => (step exModel exBackend exParams ty.1 ty.2).map (·.weights)) =
    [some [1/2, 1, 0, 0], some [1/2, 1, 1/10, 1/10], some [1/2, 1, 1/5, 1/5]] := by decide +kernel

end examples

/-! ### at an arbitrary ordered field -/
example {F : Type} [Field F] [LinearOrder F] [IsStrictOrderedRing F] (m : Model F) (b : Backend)
    (p : List (String × F)) (t : F) (x : List F) (s : StepOut F) (h : step m b p t x = some s) :
    EvaluatedAt m b p t x s := step_current m b p t x s h

end Summer.C10Solvers

#print axioms Summer.C10Solvers.step_current
#print axioms Summer.C10Solvers.step_current_unique
#print axioms Summer.C10Solvers.field_current
#print axioms Summer.C10Solvers.euler_no_stale
#print axioms Summer.C10Solvers.rk4_no_stale
#print axioms Summer.C10Solvers.dopri_no_stale
#print axioms Summer.C10Solvers.dopri_no_stale_model
#print axioms Summer.C10Solvers.dopri_carried_current
#print axioms Summer.C10Solvers.dopri_carried_current_advance
#print axioms Summer.C10Solvers.dopri_carried_current_model
#print axioms Summer.C10Solvers.outputs_no_stale
