import Summer.Generated.DerivedOut
import Summer.Proofs.Derived
import Mathlib.Order.Basic
/-
C08 / C15 — the VALUES of flow, compartment, aggregate and cumulative derived outputs are what the SOURCE TEXT of
`summer2/runner/jax/derived_outputs.py` says.

`Summer/Generated/DerivedOut.lean` is regenerated from `/repo` on every run (`harness/translate/gen_rates.py`): the closures
`get_flow_output` (raw and midpoint), `summed_compartment_outputs`, `return_agg`, the body of `build_cumulative_output`
(clamping of a late start time, the `start_time is None` branch, `assert start_time in times`, `np.where(...)[0][0]`,
`get_indexed_cumsum`) and the request dispatch of `build_derived_outputs_runner`.  The theorems below identify each with
the hand-written definition of `Summer/Model/Derived.lean` that the C08 theorems (`flow_raw`, `flow_midpoint`, `comp`,
`agg`, `cum`, `cum_start`, `cum_clamped`) are about.  (`C08Source` ties the index SELECTION of the same builders.)
-/
set_option linter.unusedSectionVars false
namespace Summer.Props.C08Values
open Summer Summer.Run Summer.Derived Summer.Generated.DerivedOut

section raw
variable {α : Type} [Zero α] [One α] [Add α] [Sub α] [Mul α] [Div α] [LT α] [DecidableLT α]

/-- raw flow output: per time, the sum of the selected flow-rate columns -/
theorem get_flow_output_raw (times : List α) (idx : List Nat) (flows : List (List α)) :
    get_flow_output true times idx flows = sumCols flows idx := by
  simp [get_flow_output, sumCols, Jax.sumRows, Jax.colsTake, List.map_map, Function.comp_def]

/-- compartment output -/
theorem summed_compartment_outputs_eq (idx : List Nat) (outputs : List (List α)) :
    summed_compartment_outputs idx outputs = sumCols outputs idx := by
  simp [summed_compartment_outputs, sumCols, Jax.sumRows, Jax.colsTake, List.map_map, Function.comp_def]

/-- the builder chosen for every request type (source text of the dispatch in `build_derived_outputs_runner`) -/
theorem request_dispatch_eq :
    request_dispatch =
      [("comp", "build_compartment_output(request, name, model.compartments)"),
       ("param_func", "relabel_tree(request['func'], 'derived_outputs', 'graph_locals')"),
       ("flow", "build_flow_output(request, name, model.times, model.flows)"),
       ("agg", "build_aggregate_output(request)"),
       ("cum", "build_cumulative_output(request, name, model.times)"),
       ("func", "build_function_output(request)"),
       ("computed_value", "build_computed_value_output(request, name)")] := rfl

end raw

section field
variable {α : Type} [Field α] [LinearOrder α]

theorem ratLit_half : (ratLit 1 2 : α) = 1 / two := by
  simp [ratLit, natLit, two]

theorem zipWith_take_right {β γ δ : Type} (f : β → γ → δ) (a : List β) (b : List γ) :
    List.zipWith f a b = List.zipWith f a (b.take a.length) := by
  induction a generalizing b with
  | nil => simp
  | cons x xs ih =>
    cases b with
    | nil => simp
    | cons y ys => simp only [List.zipWith_cons_cons, List.length_cons, List.take_succ_cons]; rw [← ih]

/-- midpoint flow output: the first raw value, then the means of consecutive raw values -/
theorem get_flow_output_midpoint (times : List α) (idx : List Nat) (flows : List (List α))
    (hlen : flows.length = times.length) :
    get_flow_output false times idx flows = midpoint (sumCols flows idx) := by
  have hv : Jax.sumRows (Jax.colsTake flows idx) = sumCols flows idx := by
    simp [sumCols, Jax.sumRows, Jax.colsTake, List.map_map, Function.comp_def]
  have hl : (sumCols flows idx).length = times.length := by simp [sumCols, hlen]
  simp +zetaHave only [get_flow_output, Bool.false_eq_true, if_false, hv]
  generalize sumCols flows idx = vals at hl
  cases vals with
  | nil =>
    have : times.length = 0 := by simpa using hl.symm
    simp [midpoint, Jax.atFromSet, this, vadd]
  | cons v0 rest =>
    have hn : times.length = rest.length + 1 := by simpa using hl.symm
    simp only [midpoint, Jax.atFromSet, hn, List.replicate_succ, List.set_cons_zero, List.take_succ_cons, List.take_zero,
      List.drop_succ_cons, List.drop_zero]
    have hj : jget (v0 :: rest) (0 : Int) = v0 := by simp [jget, jidx]
    rw [hj, List.singleton_append]
    congr 1
    rw [vadd, List.map_zipWith, ratLit_half, zipWith_take_right (fun a b => (a + b) * ((1 : α) / two)) rest (v0 :: rest),
      List.dropLast_eq_take]
    simp

end field

section agg
variable {α : Type} [AddCommMonoid α]

/-- aggregate output: entry-wise sum of the source series (all of the model's length, at least one source) -/
theorem return_agg_eq [One α] [Sub α] [Mul α] [Div α] [LT α] [DecidableLT α] (n : Nat) (srcs : List (List α))
    (hne : srcs ≠ []) (h : ∀ s ∈ srcs, s.length = n) :
    return_agg srcs = aggSeries n srcs := by
  obtain ⟨h1, h2⟩ := Proofs.DerivedL.aggSeries_spec n srcs h
  have hhead : (srcs.headD []).length = n := by
    cases srcs with
    | nil => exact absurd rfl hne
    | cons s rest => simpa using h s (by simp)
  apply List.ext_getElem
  · simp only [return_agg, Jax.sumAxis0, List.length_map, List.length_range, h1]
    exact hhead
  · intro i hi1 hi2
    have hi : i < n := by simpa [h1] using hi2
    have := h2 i hi
    rw [Proofs.getD_eq_getElem _ _ _ hi2] at this
    rw [this]
    simp [return_agg, Jax.sumAxis0, Spec.aggAt]

end agg

section cumulative
variable {α : Type} [Field α] [LinearOrder α]

/-- the cumulative branch of `Derived.evalRequest`, as a function of the source series -/
def handCum (times : List α) (start : Option α) (src : List α) : Option (List α) :=
  match start with
  | none => some (cumsum src)
  | some st =>
    let st' := match times.getLast? with
      | some tmax => if (st < 0 || 0 < st) && tmax < st then tmax else st
      | none => st
    match (idxWhere times (fun t => !(decide (t < st')) && !(decide (st' < t)))).head? with
    | some i => some (cumFrom i src)
    | none => none

theorem evalRequest_cum (m : Model α) (d : RunData α) (done : List (String × List α)) (source : String)
    (start : Option α) :
    evalRequest m d done (.cum source start) = (alookup done source).bind (handCum d.times start) := by
  cases h : alookup done source with
  | none => simp [evalRequest, h]
  | some src =>
    cases start with
    | none => simp [evalRequest, h, handCum]
    | some st =>
      simp only [evalRequest, h, handCum, Option.bind_eq_bind, Option.bind_some]
      cases (idxWhere d.times _).head? <;> rfl

theorem foldl_max_sorted (x : α) (xs : List α) (h : (x :: xs).Pairwise (· < ·)) :
    xs.foldl (fun acc y => if acc < y then y else acc) x = (x :: xs).getLast (by simp) := by
  induction xs generalizing x with
  | nil => rfl
  | cons y ys ih =>
    have hxy : x < y := (List.pairwise_cons.mp h).1 y (by simp)
    simp only [List.foldl_cons, hxy, if_true]
    rw [ih y (List.pairwise_cons.mp h).2]
    simp

theorem maxL_sorted (times : List α) (h : times.Pairwise (· < ·)) (tmax : α) (hl : times.getLast? = some tmax) :
    Jax.maxL times = tmax := by
  cases times with
  | nil => simp at hl
  | cons x xs =>
    simp only [Jax.maxL]
    rw [foldl_max_sorted x xs h]
    rw [List.getLast?_eq_some_getLast (by simp)] at hl
    exact Option.some.inj hl

theorem any_eq_head_isSome {β : Type} (l : List β) (p : β → Bool) : l.any p = (idxWhere l p).head?.isSome := by
  rw [Proofs.idxWhere_eq]
  generalize 0 = k
  induction l generalizing k with
  | nil => simp [Proofs.idxFrom]
  | cons x xs ih =>
    by_cases hx : p x = true
    · simp [Proofs.idxFrom, hx]
    · simp only [Bool.not_eq_true] at hx
      simp only [Proofs.idxFrom, hx, List.any_cons, Bool.false_or, Bool.false_eq_true, if_false]
      exact ih (k + 1)

/-- `build_cumulative_output`: for increasing model times and a source series of the model's length, the translated
builder computes the hand model's cumulative series (including a start time of exactly `0`, which Python's truthiness
test treats like `None` for the clamping but NOT for the accumulation) -/
theorem cumulative_output_eq (times : List α) (hs : times.Pairwise (· < ·)) (start : Option α) (src : List α)
    (hl : src.length = times.length) :
    cumulative_output times start src = handCum times start src := by
  cases start with
  | none => simp [cumulative_output, handCum, Jax.truthyOptNum]
  | some st =>
    cases hlast : times.getLast? with
    | none =>
      have : times = [] := by simpa using hlast
      subst this
      simp [cumulative_output, handCum, Jax.memF, idxWhere]
      intro h; split at h <;> simp at h
    | some tmax =>
      have hmax := maxL_sorted times hs tmax hlast
      have htruthy : Jax.truthyOptNum (some st) = (decide (st < 0) || decide (0 < st)) := by
        simp only [Jax.truthyOptNum, Jax.feq]
        cases decide (st < 0) <;> cases decide (0 < st) <;> rfl
      simp only [cumulative_output, handCum, hlast, hmax, htruthy, Option.getD_some]
      generalize hst' : (if ((decide (st < 0) || decide (0 < st)) && decide (tmax < st)) = true then tmax else st) = st'
      have e1 : (if ((decide (st < 0) || decide (0 < st)) && decide (tmax < st)) = true then some tmax else some st)
          = some st' := by rw [← hst']; split <;> rfl
      have e2 : (if ((st < 0 ∨ 0 < st) ∧ tmax < st) then tmax else st) = st' := by
        rw [← hst']; simp
      simp only [e1, Option.isNone_some, Bool.false_eq_true, if_false, Option.getD_some]
      have hidx : Jax.memF times st' = (idxWhere times (fun t => !(decide (t < st')) && !(decide (st' < t)))).head?.isSome := by
        rw [← any_eq_head_isSome]; rfl
      have hfirst : Jax.firstIdxEq times st' = ((idxWhere times (fun t => !(decide (t < st')) && !(decide (st' < t)))).head?).getD 0 := by
        simp [Jax.firstIdxEq, idxWhere, Jax.feq, List.head?_eq_getElem?, List.headD_eq_head?_getD]
      rw [hidx, hfirst]
      cases (idxWhere times (fun t => !(decide (t < st')) && !(decide (st' < t)))).head? with
      | none => simp
      | some i =>
        simp [Jax.atFromSet, cumFrom, List.take_replicate, hl]

end cumulative

/-! non-vacuity (times 0,1,2,3; `decide +kernel`, no axioms): a start time of exactly `0` accumulates from index 0 (it is
NOT treated as "no start time" where it matters, the two coincide), an interior start, a start beyond the last time is
clamped to the last time, a start that is not a model time fails the assertion; midpoint and aggregate outputs -/
example : cumulative_output (α := Rat) [0, 1, 2, 3] (some 0) [5, 7, 11, 13] = some [5, 12, 23, 36] := by decide +kernel
example : cumulative_output (α := Rat) [-1, 0, 1, 2] (some 0) [5, 7, 11, 13] = some [0, 7, 18, 31] := by decide +kernel
example : cumulative_output (α := Rat) [0, 1, 2, 3] (some 2) [5, 7, 11, 13] = some [0, 0, 11, 24] := by decide +kernel
example : cumulative_output (α := Rat) [0, 1, 2, 3] (some 9) [5, 7, 11, 13] = some [0, 0, 0, 13] := by decide +kernel
example : cumulative_output (α := Rat) [0, 1, 2, 3] (some (3/2)) [5, 7, 11, 13] = none := by decide +kernel
example : cumulative_output (α := Rat) [0, 1, 2, 3] none [5, 7, 11, 13] = some [5, 12, 23, 36] := by decide +kernel
example : get_flow_output (α := Rat) false [0, 1, 2] [0, 2] [[1, 9, 3], [2, 9, 6], [5, 9, 5]] = [4, 6, 9] := by decide +kernel
example : get_flow_output (α := Rat) true [0, 1, 2] [0, 2] [[1, 9, 3], [2, 9, 6], [5, 9, 5]] = [4, 8, 10] := by decide +kernel
example : return_agg (α := Rat) [[1, 2, 3], [10, 20, 30], [100, 200, 300]] = [111, 222, 333] := by decide +kernel

#print axioms get_flow_output_raw
#print axioms get_flow_output_midpoint
#print axioms summed_compartment_outputs_eq
#print axioms return_agg_eq
#print axioms request_dispatch_eq
#print axioms evalRequest_cum
#print axioms cumulative_output_eq

end Summer.Props.C08Values
