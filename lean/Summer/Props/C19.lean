/-
  C19 — A runner is a traceable array program of its parameters.

  "Executing a model never needs the concrete value of a parameter, of time or of the state to
  decide Python-level control flow, to index Python containers or to build array shapes."

  * `C19.noninterference`: for the taint IR of `Summer/Model/Taint.lean`, a program accepted by
    the checker `ok` produces the same Python-level trace in any two environments that agree on
    the build-time variables (and on the shapes of the run-time ones), for every interpretation
    of the abstract expressions that respects their read sets.
  * `C19.repo_typed`: every run-time function of the current tree, as translated by
    `harness/translate/gen_skeleton.py` into `Summer/Generated/Skeleton.lean`, is accepted.
-/
import Summer.Proofs.Taint
import Summer.Generated.Skeleton

namespace Summer.C19
open Summer.Taint

/-- **C19.noninterference.**
Hypotheses: `prog` is accepted in the context `Γ` (`ok Γ prog = true`); the two environments
* agree on every variable whose class is build-time (`S`, `N`, `J`),
* give every variable the same trace-time-visible part (shape / dtype / keys; this is all that
  is required of the run-time dependent variables `D`, `C`, `T`),
* hold device arrays where `Γ` says so (`J`, `D`).
Conclusion, for EVERY interpretation `I` of the abstract expressions (respecting read sets) and
every `while` fuel: the Python-level traces (branch decisions, trip counts, container keys,
concretised values, shapes built, combinator bodies entered) are equal, the final environments
agree on every build-time variable of the final context and have equal visible parts. -/
theorem noninterference (I : Interp) (fuel : Nat) (Γ : Ctx) (prog : Stmt)
    (hok : ok Γ prog = true) (ρ ρ' : Env)
    (hstatic : ∀ v, (Γ.get v).isDyn = false → ρ v = ρ' v)
    (hshape : ∀ v, (ρ v).vis = (ρ' v).vis)
    (hdev : ∀ v, (Γ.get v).isDev = true → (ρ v).dev = true) :
    (exec I fuel prog ρ).2 = (exec I fuel prog ρ').2 ∧
    ∃ Γ', check Γ prog = some Γ' ∧
      (∀ v, (Γ'.get v).isDyn = false →
        (exec I fuel prog ρ).1 v = (exec I fuel prog ρ').1 v) ∧
      (∀ v, ((exec I fuel prog ρ).1 v).vis = ((exec I fuel prog ρ').1 v).vis) := by
  obtain ⟨Γ', hΓ'⟩ := Option.isSome_iff_exists.mp hok
  have hl : Rel Γ ρ ρ' := fun v => ⟨hshape v, hstatic v, hdev v⟩
  obtain ⟨h1, h2⟩ := check_sound I fuel prog Γ Γ' hΓ' ρ ρ' hl
  exact ⟨h2, Γ', hΓ', fun v hv => (h1 v).2.1 hv, fun v => (h1 v).1⟩

/-- the same statement with the relation `Rel` (compositional form) -/
theorem noninterference_rel (I : Interp) (fuel : Nat) (Γ Γ' : Ctx) (prog : Stmt)
    (h : check Γ prog = some Γ') (ρ ρ' : Env) (hl : Rel Γ ρ ρ') :
    Rel Γ' (exec I fuel prog ρ).1 (exec I fuel prog ρ').1 ∧
    (exec I fuel prog ρ).2 = (exec I fuel prog ρ').2 :=
  check_sound I fuel prog Γ Γ' h ρ ρ' hl

/-- **C19.repo_typed.** Every translated run-time function of the current tree is well-tainted
in its parameter classification `Γ₀` (`ctxOf f`). -/
theorem repo_typed :
    ∀ p ∈ Generated.Skeleton.allFunctions, ok (Generated.Skeleton.ctxOf p.1) p.2 = true := by
  have h : Generated.Skeleton.allFunctions.all
      (fun p => ok (Generated.Skeleton.ctxOf p.1) p.2) = true := by decide +kernel
  exact fun p hp => List.all_eq_true.mp h p hp

/-- ... hence one Python-level trace per run-time function, whatever the parameter values. -/
theorem repo_noninterference (I : Interp) (fuel : Nat) (f : String) (body : Stmt)
    (hf : (f, body) ∈ Generated.Skeleton.allFunctions) (ρ ρ' : Env)
    (hl : Rel (Generated.Skeleton.ctxOf f) ρ ρ') :
    (exec I fuel body ρ).2 = (exec I fuel body ρ').2 := by
  have hok := repo_typed (f, body) hf
  obtain ⟨Γ', hΓ'⟩ := Option.isSome_iff_exists.mp hok
  exact (check_sound I fuel body _ Γ' hΓ' ρ ρ' hl).2

/-! ### Non-vacuity -/

/-- `flag`, `strata` build-time; `x` run-time array; `acc` device array -/
def Γex : Ctx := [("flag", .S), ("strata", .S), ("x", .D), ("acc", .J), ("times", .N),
  ("jtimes", .J), ("cont", .C)]

/-- branch on a static flag, accumulate dynamic values over a static iterable -/
def good : Stmt :=
  .ite ⟨0, ["flag"], .pure, .py⟩
    (.forS "s" ⟨1, ["strata"], .pure, .py⟩
      (.assign "acc" ⟨2, ["acc", "s", "x"], .pure, .like ["acc", "x"]⟩))
    .skip

/-- branch on a dynamic value -/
def bad : Stmt := .ite ⟨3, ["x"], .pure, .py⟩ (.assign "acc" ⟨4, [], .pure, .dev⟩) .skip

example : ok Γex good = true := by decide
example : ok Γex bad = false := by decide

def ρ₁ : Env := fun v =>
  if v = "flag" then ⟨false, 1, 0⟩ else if v = "strata" then ⟨false, 2, 0⟩
  else if v = "x" then ⟨true, 0, 0⟩ else ⟨true, 0, 0⟩
/-- differs from `ρ₁` only in the DATA of the run-time array `x` -/
def ρ₂ : Env := fun v =>
  if v = "flag" then ⟨false, 1, 0⟩ else if v = "strata" then ⟨false, 2, 0⟩
  else if v = "x" then ⟨true, 0, 5⟩ else ⟨true, 0, 0⟩

/-- the hypotheses of `noninterference` are satisfiable by two DIFFERENT environments, the
results differ in the data of `acc`, the traces are equal and non-empty -/
example :
    (exec sumInterp 10 good ρ₁).2 = (exec sumInterp 10 good ρ₂).2 ∧
    (exec sumInterp 10 good ρ₁).2 = [.branch true, .trip 1] ∧
    ((exec sumInterp 10 good ρ₁).1 "acc").dat ≠ ((exec sumInterp 10 good ρ₂).1 "acc").dat := by
  decide

/-- the rejected program really leaks: its traces differ on the same two environments -/
example : (exec sumInterp 10 bad ρ₁).2 ≠ (exec sumInterp 10 bad ρ₂).2 := by decide

/-! accepted: `len(v)`, `v.shape`, iteration over a run-time array (elements are `D`) -/
example : ok Γex (.seq (.assign "n" ⟨0, ["x"], .staticOf, .py⟩)
    (.forS "i" ⟨1, ["n"], .concretize, .py⟩ .skip)) = true := by decide          -- range(len(x))
example : ok Γex (.seq (.assign "n" ⟨0, ["x"], .staticOf, .py⟩)
    (.assign "z" ⟨1, ["n"], .shapeArg ["n"], .dev⟩)) = true := by decide          -- jnp.zeros(x.shape)
example : check Γex (.forS "e" ⟨0, ["x"], .pure, .dev⟩ .skip) = some Γex := by decide
example : ok Γex (.forS "e" ⟨0, ["x"], .pure, .dev⟩
    (.ite ⟨1, ["e"], .pure, .py⟩ .skip .skip)) = false := by decide              -- but `if e:` is not
example : ok Γex (.assign "y" ⟨0, ["x", "acc"], .index "x" ["acc"], .like ["x"]⟩) = true := by
  decide                                                                          -- gather
/-! rejected: `range(v)`, shape argument, index into a container / NumPy array, all with `D` -/
example : ok Γex (.forS "i" ⟨0, ["x"], .concretize, .py⟩ .skip) = false := by decide
example : ok Γex (.assign "z" ⟨0, ["x"], .shapeArg ["x"], .dev⟩) = false := by decide
example : ok Γex (.assign "y" ⟨0, ["cont", "x"], .index "cont" ["x"], .dev⟩) = false := by decide
example : ok Γex (.assign "y" ⟨0, ["cont", "flag"], .index "cont" ["flag"], .dev⟩) = true := by
  decide
example : ok Γex (.unknown "with-statement") = false := by decide

/-! ### One negative example per mutation class of the design -/

/-- `jnp.where(cv < 0, 0, cv)` → `if cv < 0: return 0 else: return cv` -/
example : ok [("compartment_values", .D)]
    (.ite ⟨0, ["compartment_values"], .pure, .like ["compartment_values"]⟩
      (.ret ⟨1, [], .pure, .py⟩) (.ret ⟨2, ["compartment_values"], .pure, .py⟩)) = false := by
  decide

/-- `lax.cond(x < points[high], ..)` → `if x < points[high]:` -/
example : ok [("x", .D), ("points", .D), ("high", .D), ("low", .D)]
    (.seq (.assign "$t" ⟨0, ["points", "high"], .index "points" ["high"], .like ["points"]⟩)
      (.ite ⟨1, ["x", "$t"], .pure, .py⟩ (.ret ⟨2, ["low"], .pure, .py⟩)
        (.ret ⟨3, ["high"], .pure, .py⟩))) = false := by decide

/-- `values[index]` → `values[int(index)]` -/
example : ok [("values", .D), ("index", .D)]
    (.seq (.assign "$t" ⟨0, ["index"], .concretize, .py⟩)
      (.ret ⟨1, ["values", "$t"], .index "values" ["$t"], .like ["values"]⟩)) = false := by decide

/-- `jnp.array(new_comp_values)` → `np.array(new_comp_values)` on a list of tracers -/
example : ok [("a", .D), ("b", .D)]
    (.seq (.assign "lst" ⟨0, ["a", "b"], .pure, .cont⟩)
      (.ret ⟨1, ["lst"], .concretize, .np⟩)) = false := by decide

/-- `model_times[i]` (device array) → `m.times[i]` (NumPy) inside a `lax.scan` body -/
example : ok [("times", .N), ("outputs", .D)]
    (.hof "scan" [("carry", ⟨0, [], .tracer, .cont⟩), ("i", ⟨1, [], .tracer, .dev⟩)]
      (.assign "t" ⟨2, ["times", "i"], .index "times" ["i"], .like ["times"]⟩)) = false := by decide
/-- ... whereas the device copy may be indexed by the tracer -/
example : ok [("times", .J), ("outputs", .D)]
    (.hof "scan" [("carry", ⟨0, [], .tracer, .cont⟩), ("i", ⟨1, [], .tracer, .dev⟩)]
      (.assign "t" ⟨2, ["times", "i"], .index "times" ["i"], .like ["times"]⟩)) = true := by decide

/-- `lax.while_loop` on the error ratio → Python `while error_ratio > 1:` -/
example : ok [("error_ratio", .D), ("dt", .D)]
    (.whileS ⟨0, ["error_ratio"], .pure, .py⟩
      (.assign "error_ratio" ⟨1, ["error_ratio", "dt"], .pure, .dev⟩)) = false := by decide
/-- a `while` whose test BECOMES run-time dependent in the body is rejected too (loop invariant) -/
example : ok [("n", .S), ("x", .D)]
    (.whileS ⟨0, ["n"], .pure, .py⟩ (.assign "n" ⟨1, ["n", "x"], .pure, .py⟩)) = false := by decide
example : ok [("n", .S), ("x", .D)]
    (.whileS ⟨0, ["n"], .pure, .py⟩ (.assign "n" ⟨1, ["n"], .pure, .py⟩)) = true := by decide

end Summer.C19

#print axioms Summer.C19.noninterference
#print axioms Summer.C19.noninterference_rel
#print axioms Summer.C19.repo_typed
#print axioms Summer.C19.repo_noninterference
