import Summer.Proofs.Solvers
/-
C07: the solvers follow their classical formulas.

`α` is an arbitrary field (characteristic 0 where a numeral has to be inverted); every ordered field
`[Field α] [LinearOrder α] [IsStrictOrderedRing α]` is an instance.  No bound on the dimension, the number of
times or the step size; the vector field `f : List α → α → List α` is arbitrary.
-/
namespace Summer.Props.C07
open Summer Summer.Solvers Summer.Spec.Solvers Summer.Proofs.Solvers

section
variable {α : Type} [Field α]

/-! ### 1. the rows of `euler` / `rk4` -/

/-- `euler` is the scan of the classical explicit Euler update `y + h·f(y, tᵢ)` with the FIXED step
`h = times[1] - times[0]` over `times[0 .. n-2]`: one row per time; row `0` is `y0`; row `i+1` is the
update of row `i` with the field evaluated at `times[i]` (not `times[i+1]`). -/
theorem euler_rows (f : List α → α → List α) (y0 : List α) (times : List α) (hne : times ≠ []) :
    (euler f y0 times).length = times.length ∧
    (euler f y0 times).getD 0 [] = y0 ∧
    ∀ i, i + 1 < times.length →
      (euler f y0 times).getD (i + 1) [] =
        vadd ((euler f y0 times).getD i [])
          (vscale (times.getD 1 0 - times.getD 0 0) (f ((euler f y0 times).getD i []) (times.getD i 0))) := by
  have hlen : 0 < times.length := List.length_pos_of_ne_nil hne
  rw [euler_eq_scanl]
  refine ⟨by simp; omega, by simp [List.getD_eq_getElem?_getD], ?_⟩
  intro i hi
  rw [scanl_getD_succ _ _ _ [] (0 : α) i (by simp; omega), getD_take_pred times i hi]
  rfl

/-- the same for `rk4`, with the model's one-step map `rk4Step` (shown to be the classical RK4 formula in
`rk4_classical`). -/
theorem rk4_rows (f : List α → α → List α) (y0 : List α) (times : List α) (hne : times ≠ []) :
    (rk4 f y0 times).length = times.length ∧
    (rk4 f y0 times).getD 0 [] = y0 ∧
    ∀ i, i + 1 < times.length →
      (rk4 f y0 times).getD (i + 1) [] =
        rk4Step f (times.getD 1 0 - times.getD 0 0) ((rk4 f y0 times).getD i []) (times.getD i 0) := by
  have hlen : 0 < times.length := List.length_pos_of_ne_nil hne
  rw [rk4_eq_scanl]
  refine ⟨by simp; omega, by simp [List.getD_eq_getElem?_getD], ?_⟩
  intro i hi
  rw [scanl_getD_succ _ _ _ [] (0 : α) i (by simp; omega), getD_take_pred times i hi]

/-- the model's `eulerStep` is literally `y + h·f(y,t)` -/
theorem euler_classical (f : List α → α → List α) (h : α) (y : List α) (t : α) :
    eulerStep f h y t = vadd y (vscale h (f y t)) := rfl

/-! ### 2. `rk4Step` is the textbook RK4 formula -/

/-- `rk4Step` (written in the source with `kᵢ = h·f(…)`, `kᵢ/2`, `(1/6)·(…)`) equals the textbook
`y + (h/6)(K1 + 2K2 + 2K3 + K4)` with `K1 = f(y,t)`, `K2 = f(y + (h/2)K1, t + h/2)`,
`K3 = f(y + (h/2)K2, t + h/2)`, `K4 = f(y + h K3, t + h)`.  Holds in every field, for every `f`
(no length hypothesis is needed: `vscale` distributes over the truncating `vadd`). -/
theorem rk4_classical (f : List α → α → List α) (h : α) (y : List α) (t : α) :
    rk4Step f h y t =
      (let K1 := f y t
       let K2 := f (vadd y (vscale (h / 2) K1)) (t + h / 2)
       let K3 := f (vadd y (vscale (h / 2) K2)) (t + h / 2)
       let K4 := f (vadd y (vscale h K3)) (t + h)
       vadd y (vscale (h / 6) (vadd (vadd (vadd K1 (vscale 2 K2)) (vscale 2 K3)) K4))) :=
  rk4Step_classical f h y t

/-- componentwise reading of `rk4_classical` when the field preserves lengths:
component `j` of the update is `yⱼ + (h/6)(K1ⱼ + 2 K2ⱼ + 2 K3ⱼ + K4ⱼ)`. -/
theorem rk4_classical_component (f : List α → α → List α) (hf : ∀ y t, (f y t).length = y.length)
    (h : α) (y : List α) (t : α) (j : Nat) :
    let K1 := f y t
    let K2 := f (vadd y (vscale (h / 2) K1)) (t + h / 2)
    let K3 := f (vadd y (vscale (h / 2) K2)) (t + h / 2)
    let K4 := f (vadd y (vscale h K3)) (t + h)
    (rk4Step f h y t).length = y.length ∧
    (rk4Step f h y t).getD j 0 =
      y.getD j 0 + h / 6 * (K1.getD j 0 + 2 * K2.getD j 0 + 2 * K3.getD j 0 + K4.getD j 0) := by
  intro K1 K2 K3 K4
  have l1 : K1.length = y.length := hf _ _
  have l2 : K2.length = y.length := by simp [K2, hf, l1]
  have l3 : K3.length = y.length := by simp [K3, hf, l2]
  have l4 : K4.length = y.length := by simp [K4, hf, l3]
  rw [rk4Step_classical]
  refine ⟨by simp [hf], ?_⟩
  show (vadd y (vscale (h / 6) (vadd (vadd (vadd K1 (vscale 2 K2)) (vscale 2 K3)) K4))).getD j 0 = _
  rw [getD_vadd _ _ (by simp [l1, l2, l3, l4]), getD_vscale, getD_vadd _ _ (by simp [l1, l2, l3, l4]),
    getD_vadd _ _ (by simp [l1, l2, l3]), getD_vadd _ _ (by simp [l1, l2]), getD_vscale, getD_vscale]

/-! ### 3. stability polynomials on the linear test problem -/

/-- On `y' = lam·y` (scalar), for every step `h`, every `lam`, every row `i`:
`euler` gives `(1+z)^i·y0` and `rk4` gives `(1 + z + z²/2 + z³/6 + z⁴/24)^i·y0`, `z = h·lam`:
the degree-1 / degree-4 Taylor polynomials of `exp` (orders 1 and 4 on linear problems). -/
theorem stability_poly [CharZero α] (f : List α → α → List α) (lam : α) (hf : ∀ y t, f [y] t = [lam * y])
    (y0 : α) (times : List α) (i : Nat) (hi : i < times.length) :
    let z := (times.getD 1 0 - times.getD 0 0) * lam
    (euler f [y0] times).getD i [] = [(1 + z) ^ i * y0] ∧
    (rk4 f [y0] times).getD i [] = [(1 + z + z ^ 2 / 2 + z ^ 3 / 6 + z ^ 4 / 24) ^ i * y0] := by
  intro z
  have hi' : i ≤ (times.take (times.length - 1)).length := by simp; omega
  constructor
  · rw [euler_eq_scanl, List.getD_eq_getElem?_getD,
      scanl_geometric _ (1 + z) (fun y t => eulerStep_linear f lam _ y t hf) _ y0 i hi']
    rfl
  · rw [rk4_eq_scanl, List.getD_eq_getElem?_getD,
      scanl_geometric _ (1 + z + z ^ 2 / 2 + z ^ 3 / 6 + z ^ 4 / 24)
        (fun y t => rk4Step_linear f lam _ y t hf) _ y0 i hi']
    rfl

/-! ### 4'. FSAL and the shape of one Dormand–Prince step in the model -/

/-- For a length-preserving field one `rkStep` (any tableau, any `dt`) returns `y1`, `f1`, `err` of the
right length and exactly 7 stages of the right length; stage `0` is the `f0` passed in and stage `6` is
the `f1` returned. -/
theorem rkStep_stages (tb : Tableau α) (f : List α → α → List α) (n : Nat)
    (hf : ∀ y t, y.length = n → (f y t).length = n) (y0 f0 : List α) (hy0 : y0.length = n)
    (hf0 : f0.length = n) (t0 dt : α) :
    let r := rkStep tb f y0 f0 t0 dt
    r.1.length = n ∧ r.2.1.length = n ∧ r.2.2.1.length = n ∧ (∀ v ∈ r.2.2.2, v.length = n) ∧
      r.2.2.2.length = 7 ∧ r.2.2.2.getD 0 [] = f0 ∧ r.2.2.2.getD 6 [] = r.2.1 :=
  rkStep_shape tb n hf y0 f0 hy0 hf0 t0 dt

/-- FSAL in the model: for a tableau with the FSAL structure (`beta[5] = cSol`, `alpha[5] = 1`,
`cSol[6] = 0`; true of the generated one, `tableau_fsal` / `fsal_generated`) the returned `f1` is the
field at the new point: `f1 = f(y1, t0 + dt)`.  So the `f` carried in the stepping state is always
`f(y, t)` and `p'(1) = dt·f(y1, t1)` in `dense_output`. -/
theorem rkStep_fsal (tb : Tableau α) (hfsal : FSAL tb) (f : List α → α → List α) (n : Nat)
    (hf : ∀ y t, y.length = n → (f y t).length = n) (y0 f0 : List α) (hy0 : y0.length = n)
    (hf0 : f0.length = n) (t0 dt : α) :
    (rkStep tb f y0 f0 t0 dt).2.1 = f (rkStep tb f y0 f0 t0 dt).1 (t0 + dt) :=
  Summer.Proofs.Solvers.rkStep_fsal tb hfsal n hf y0 f0 hy0 hf0 t0 dt

/-- the generated tableau, through any ring hom `ℚ →+* α`, has the FSAL structure -/
theorem fsal_generated (φ : ℚ →+* α) : FSAL (genTableau φ) := fsal_gen φ

/-! ### 5. dense output: the quartic fit interpolates -/

/-- For the tableau whose fit rows are the generated ones (through any ring hom `ℚ →+* α`; `id` for `ℚ`),
the five coefficient vectors `[a,b,c,d,e]` returned by `interpFit` (the model of `interp_fit_dopri` /
`fit_4th_order_polynomial`) define `p(x) = a x⁴ + b x³ + c x² + d x + e` with
`p(0) = y0`, `p(1) = y1`, `p(1/2) = yMid` (when `2 ≠ 0`), `p'(0) = dt·k₀` and `p'(1) = dt·k₆`,
where `p'(x) = 4a x³ + 3b x² + 2c x + d` (see `polyval_quartic` for the componentwise reading).
Vector statement, any dimension, any `dt`. -/
theorem dense_output (φ : ℚ →+* α) (tb : Tableau α)
    (hfit : tb.fitRows = Generated.Tableau.fitRows.map (·.map φ))
    (y0 y1 : List α) (k : List (List α)) (dt : α)
    (hy1 : y1.length = y0.length) (hk : ∀ v ∈ k, v.length = y0.length) (hklen : 6 < k.length) :
    ∃ a b c d e : List α,
      interpFit tb y0 y1 k dt = [a, b, c, d, e] ∧
      a.length = y0.length ∧ b.length = y0.length ∧ c.length = y0.length ∧ d.length = y0.length ∧
      e.length = y0.length ∧
      polyval [a, b, c, d, e] 0 = y0 ∧
      polyval [a, b, c, d, e] 1 = y1 ∧
      ((2 : α) ≠ 0 → polyval [a, b, c, d, e] (1 / 2) = vadd y0 (vscale dt (lincomb y0.length tb.cMid k))) ∧
      polyval [vscale 4 a, vscale 3 b, vscale 2 c, d] 0 = vscale dt (k.getD 0 []) ∧
      polyval [vscale 4 a, vscale 3 b, vscale 2 c, d] 1 = vscale dt (k.getD 6 []) :=
  interpFit_props φ tb hfit y0 y1 k dt hy1 hk hklen

/-- componentwise meaning of `polyval` on five / four coefficient vectors of equal length: the quartic
and (with `4a, 3b, 2c, d`) its derivative. -/
theorem polyval_quartic (a b c d e : List α) (hb : b.length = a.length) (hc : c.length = a.length)
    (hd : d.length = a.length) (he : e.length = a.length) (x : α) (j : Nat) :
    (polyval [a, b, c, d, e] x).getD j 0 =
      a.getD j 0 * x ^ 4 + b.getD j 0 * x ^ 3 + c.getD j 0 * x ^ 2 + d.getD j 0 * x + e.getD j 0 ∧
    (polyval [vscale 4 a, vscale 3 b, vscale 2 c, d] x).getD j 0 =
      4 * a.getD j 0 * x ^ 3 + 3 * b.getD j 0 * x ^ 2 + 2 * c.getD j 0 * x + d.getD j 0 := by
  refine ⟨(polyval5_getD a.length a b c d e rfl hb hc hd he x).2 j, ?_⟩
  rw [(polyval4_getD a.length _ _ _ _ (length_vscale 4 a) ((length_vscale 3 b).trans hb)
    ((length_vscale 2 c).trans hc) hd x).2 j]
  simp only [getD_vscale]

/-! ### 6. row 0 and the number of rows -/

/-- Row `0` of each solver is exactly `y0`, and there is one row per time (non-empty `times`). -/
theorem row0 (tb : Tableau α) (ctl : Control α) (f : List α → α → List α) (fuel : Nat) (dt0 : α)
    (y0 : List α) (times : List α) (hne : times ≠ []) :
    ((euler f y0 times).getD 0 [] = y0 ∧ (euler f y0 times).length = times.length) ∧
    ((rk4 f y0 times).getD 0 [] = y0 ∧ (rk4 f y0 times).length = times.length) ∧
    ((odeint tb ctl f fuel dt0 y0 times).getD 0 [] = y0 ∧
      (odeint tb ctl f fuel dt0 y0 times).length = times.length) := by
  have hlen : 0 < times.length := List.length_pos_of_ne_nil hne
  refine ⟨⟨(euler_rows f y0 times hne).2.1, (euler_rows f y0 times hne).1⟩,
    ⟨(rk4_rows f y0 times hne).2.1, (rk4_rows f y0 times hne).1⟩, ?_, ?_⟩
  · rw [odeint_eq']; rfl
  · rw [odeint_eq']; simp; omega

/-! ### 7. grid independence of the adaptive solver -/

/-- The `i+1` first rows of `odeint` depend only on the `i+1` first times (later targets never influence
earlier rows). -/
theorem odeint_prefix (tb : Tableau α) (ctl : Control α) (f : List α → α → List α) (fuel : Nat) (dt0 : α)
    (y0 : List α) (ts : List α) (i : Nat) :
    odeint tb ctl f fuel dt0 y0 (ts.take (i + 1)) = (odeint tb ctl f fuel dt0 y0 ts).take (i + 1) :=
  odeint_take tb ctl f fuel dt0 y0 ts i

/-- One-target form: stepping toward `T1` with ANY fuel `n1` (exhausted or not) and then toward `T2` is
stepping toward `T2` directly with fuel `j + n2`, where `j ≤ n1`; hence if the second loop stopped because
its condition became false, every fuel `N ≥ n1 + n2` gives the same state when going to `T2` directly.
Hypothesis: the loop condition toward `T1` implies the one toward `T2` (true for `lt = (· < ·)`, `T1 ≤ T2`). -/
theorem advance_advance (tb : Tableau α) (ctl : Control α) (f : List α → α → List α) (T1 T2 : α)
    (hmono : ∀ t, ctl.lt t T1 = true → ctl.lt t T2 = true) (n1 n2 : Nat) (s : OdeState α)
    (hconv : contCond ctl T2 (advance tb ctl f T2 n2 (advance tb ctl f T1 n1 s)) = false)
    (N : Nat) (hN : n1 + n2 ≤ N) :
    advance tb ctl f T2 n2 (advance tb ctl f T1 n1 s) = advance tb ctl f T2 N s := by
  obtain ⟨j, hj, h⟩ := advance_compose tb ctl f T1 T2 (contCond_mono ctl T1 T2 hmono) n1 s
  rw [h n2] at hconv ⊢
  exact (advance_fuel_mono tb ctl f T2 _ s hconv N (by omega)).symm

/-- Grid independence: take two grids with the same first time `t0` and the same last time `T` but
arbitrary (different) intermediate targets `ts₁`, `ts₂` and arbitrary per-target fuels.  If every
intermediate target's loop condition implies the one of `T` (targets `≤ T` for the real `lt`), and on both
grids the loop for `T` stopped because its condition became false (fuel did not run out on the LAST
target; it may have run out before), then the final stepping states coincide - both are the state of a
single `advance` toward `T` - and so do the output rows at `T`.  Together with `odeint_prefix` this
gives equality of the rows at any common target. -/
theorem grid_independence (tb : Tableau α) (ctl : Control α) (f : List α → α → List α)
    (fuel₁ fuel₂ : Nat) (dt0 : α) (y0 : List α) (t0 : α) (ts₁ ts₂ : List α) (T : α)
    (hm₁ : ∀ T' ∈ ts₁, ∀ t, ctl.lt t T' = true → ctl.lt t T = true)
    (hm₂ : ∀ T' ∈ ts₂, ∀ t, ctl.lt t T' = true → ctl.lt t T = true)
    (hc₁ : contCond ctl T (odeFinalState tb ctl f fuel₁ dt0 y0 (t0 :: (ts₁ ++ [T]))) = false)
    (hc₂ : contCond ctl T (odeFinalState tb ctl f fuel₂ dt0 y0 (t0 :: (ts₂ ++ [T]))) = false) :
    odeFinalState tb ctl f fuel₁ dt0 y0 (t0 :: (ts₁ ++ [T]))
      = odeFinalState tb ctl f fuel₂ dt0 y0 (t0 :: (ts₂ ++ [T])) ∧
    (odeint tb ctl f fuel₁ dt0 y0 (t0 :: (ts₁ ++ [T]))).getLast?
      = (odeint tb ctl f fuel₂ dt0 y0 (t0 :: (ts₂ ++ [T]))).getLast? := by
  have e₁ := odeFinalState_eq_advance tb ctl f fuel₁ dt0 y0 t0 ts₁ T hm₁ hc₁
    (max ((ts₁.length + 1) * fuel₁) ((ts₂.length + 1) * fuel₂)) (le_max_left _ _)
  have e₂ := odeFinalState_eq_advance tb ctl f fuel₂ dt0 y0 t0 ts₂ T hm₂ hc₂
    (max ((ts₁.length + 1) * fuel₁) ((ts₂.length + 1) * fuel₂)) (le_max_right _ _)
  have e : odeFinalState tb ctl f fuel₁ dt0 y0 (t0 :: (ts₁ ++ [T]))
      = odeFinalState tb ctl f fuel₂ dt0 y0 (t0 :: (ts₂ ++ [T])) := e₁.trans e₂.symm
  refine ⟨e, ?_⟩
  rw [odeint_getLast, odeint_getLast, e]

/-- the last row is the dense output read off the final state -/
theorem odeint_last_row (tb : Tableau α) (ctl : Control α) (f : List α → α → List α) (fuel : Nat) (dt0 : α)
    (y0 : List α) (t0 : α) (ts : List α) (T : α) :
    (odeint tb ctl f fuel dt0 y0 (t0 :: (ts ++ [T]))).getLast? =
      some (odeRow (odeFinalState tb ctl f fuel dt0 y0 (t0 :: (ts ++ [T]))) T) :=
  odeint_getLast tb ctl f fuel dt0 y0 t0 ts T

end

/-! ### 4. the Dormand–Prince tableau regenerated from the Python source (`ℚ` constants) -/
section tableau
open Summer.Generated.Tableau

/-- shape of the generated tableau: 7 nodes entries, 6 stage rows of 7 weights, 7 solution / error /
midpoint weights, 5 fit rows of 5. -/
theorem tableau_shape :
    alpha.length = 7 ∧ beta.map (·.length) = [7, 7, 7, 7, 7, 7] ∧ cSol.length = 7 ∧ cError.length = 7 ∧
    cMid.length = 7 ∧ fitRows.map (·.length) = [5, 5, 5, 5, 5] := by decide +kernel

/-- row sums: `alpha_i = Σ_j beta_ij` for the six stages `i = 0..5` (`alpha[6] = 0` is never used by
`rkStep`, whose loop runs over `i = 0..5`). -/
theorem tableau_row_sums : beta.map sumL = alpha.take 6 := by decide +kernel

/-- explicit method: `beta` is lower triangular in the sense needed by `rkStep` (row `i` only has
weights for the `i+1` stages already computed). -/
theorem tableau_explicit : ∀ i, i < 6 → ∀ j, j < 7 → i < j → (beta.getD i []).getD j 0 = 0 := by decide +kernel

/-- FSAL ("first same as last"): the last row of `beta` is `cSol` and its node is `alpha[5] = 1`, so
the 7th stage `k[6] = f(y1, t + dt)` is the derivative at the new point (returned as `f1`). -/
theorem tableau_fsal : beta.getD 5 [] = cSol ∧ alpha.getD 5 0 = 1 ∧ cSol.getD 6 0 = 0 := by decide +kernel

theorem tableau_sums : sumL cSol = 1 ∧ sumL cError = 0 ∧ sumL cMid = 1 / 2 := by decide +kernel

/-- bundle of the structural facts: row sums, FSAL, and the three weight sums -/
theorem tableau :
    beta.map sumL = alpha.take 6 ∧
    (beta.getD 5 [] = cSol ∧ alpha.getD 5 0 = 1 ∧ cSol.getD 6 0 = 0) ∧
    (sumL cSol = 1 ∧ sumL cError = 0 ∧ sumL cMid = 1 / 2) :=
  ⟨tableau_row_sums, tableau_fsal, tableau_sums⟩

/-- All 17 order conditions up to order 5 for the propagated solution weights `b = cSol`, with Butcher
matrix `A = amat beta` (row 0 zero, row `i+1 = beta_i`) and nodes `c = nodes alpha = (0, alpha_0..alpha_5)`;
`c = A·1`.  (`vmul` is the componentwise product, `matVec` the matrix-vector product, `dot` the scalar
product.) -/
theorem tableau_order5 :
    let A := amat beta; let c := nodes alpha; let b := cSol
    let Av := fun v => matVec A v
    matVec A (List.replicate 7 1) = c ∧
    -- order 1, 2
    sumL b = 1 ∧ dot b c = 1 / 2 ∧
    -- order 3
    dot b (vmul c c) = 1 / 3 ∧ dot b (Av c) = 1 / 6 ∧
    -- order 4
    dot b (vmul c (vmul c c)) = 1 / 4 ∧ dot b (vmul c (Av c)) = 1 / 8 ∧ dot b (Av (vmul c c)) = 1 / 12 ∧
    dot b (Av (Av c)) = 1 / 24 ∧
    -- order 5
    dot b (vmul c (vmul c (vmul c c))) = 1 / 5 ∧ dot b (vmul (vmul c c) (Av c)) = 1 / 10 ∧
    dot b (vmul c (Av (vmul c c))) = 1 / 15 ∧ dot b (vmul c (Av (Av c))) = 1 / 30 ∧
    dot b (vmul (Av c) (Av c)) = 1 / 20 ∧ dot b (Av (vmul c (vmul c c))) = 1 / 20 ∧
    dot b (Av (vmul c (Av c))) = 1 / 40 ∧ dot b (Av (Av (vmul c c))) = 1 / 60 ∧
    dot b (Av (Av (Av c))) = 1 / 120 := by decide +kernel

/-- ... and not order 6: the condition `Σ b c⁵ = 1/6` fails. -/
theorem tableau_not_order6 :
    dot cSol (vmul (nodes alpha) (vmul (nodes alpha) (vmul (nodes alpha) (vmul (nodes alpha) (nodes alpha))))) ≠ 1 / 6 := by
  decide +kernel

/-- The embedded solution `b̂ = cSol - cError` (the one `y1_error` compares with) satisfies the 8 order
conditions up to order 4, and fails the first order-5 condition. -/
theorem tableau_embedded_order4 :
    let A := amat beta; let c := nodes alpha; let b := vsub cSol cError
    let Av := fun v => matVec A v
    sumL b = 1 ∧ dot b c = 1 / 2 ∧ dot b (vmul c c) = 1 / 3 ∧ dot b (Av c) = 1 / 6 ∧
    dot b (vmul c (vmul c c)) = 1 / 4 ∧ dot b (vmul c (Av c)) = 1 / 8 ∧ dot b (Av (vmul c c)) = 1 / 12 ∧
    dot b (Av (Av c)) = 1 / 24 ∧
    dot b (vmul c (vmul c (vmul c c))) ≠ 1 / 5 := by decide +kernel

/-- The midpoint weights `cMid` satisfy the continuous-extension order conditions up to order 4 at
`θ = 1/2` (`Σ b(θ) Φ(τ) = θ^ρ(τ) / γ(τ)`): `yMid` is a 4th-order approximation of `y(t + dt/2)`. -/
theorem tableau_mid_order4 :
    let A := amat beta; let c := nodes alpha; let b := cMid
    let Av := fun v => matVec A v
    sumL b = 1 / 2 ∧ dot b c = 1 / 8 ∧ dot b (vmul c c) = 1 / 24 ∧ dot b (Av c) = 1 / 48 ∧
    dot b (vmul c (vmul c c)) = 1 / 64 ∧ dot b (vmul c (Av c)) = 1 / 128 ∧ dot b (Av (vmul c c)) = 1 / 192 ∧
    dot b (Av (Av c)) = 1 / 384 := by decide +kernel

/-- column sums of the fit rows (used by conservation on the dense output): `-8-8+16 = 0`,
`18+14-32 = 0`, `-11-5+16 = 0`, `0`, and `1` for the `y`-columns of rows `a..e`. -/
theorem tableau_fit_colsums : FitColSums fitRows := by
  constructor <;> decide +kernel

end tableau

/-! non-vacuity -/
-- a nonlinear, time-dependent 3-compartment field on `ℚ`; step `h = 1/2 ≠ 1`; field evaluated at `times[i]`
example : euler exField [99, 1, 0] [0, 1/2, 1] =
    [[99, 1, 0], [9801/100, 87/50, 1/4], [38351313/400000, 1374687/400000, 137/200]] := by decide +kernel
example : (euler exField [99, 1, 0] [0, 1/2, 1]).length = 3 :=
  (euler_rows exField [99, 1, 0] [0, 1/2, 1] (by simp)).1
example : (rk4 exField [99, 1, 0] [0, 1/2, 1]).length = 3 :=
  (rk4_rows exField [99, 1, 0] [0, 1/2, 1] (by simp)).1
-- `rk4` on `y' = y`, `h = 1`: the rows are `(65/24)^i`
example : rk4 (fun y _ => y) [(1 : ℚ)] [0, 1, 2] = [[1], [65/24], [4225/576]] := by decide +kernel
example : rk4Step (fun y _ => y) (1 : ℚ) [1] 0 = [1 + 1 + 1/2 + 1/6 + 1/24] := by decide +kernel
-- the hypothesis of `stability_poly` is satisfied by the scalar linear field `y ↦ lam·y`
example := stability_poly (fun y _ => y.map ((-3 : ℚ) * ·)) (-3) (fun y t => by simp) 5
    [0, 1/10, 2/10, 3/10] 3 (by decide)
example : (rk4 (fun y _ => y.map ((-3 : ℚ) * ·)) [5] [0, 1/10, 2/10, 3/10]).getD 3 [] =
    [(1 + (-3/10) + (-3/10)^2/2 + (-3/10)^3/6 + (-3/10)^4/24)^3 * 5] := by decide +kernel
-- dense output: the generated tableau on `ℚ`, stages produced by an actual step
example : ∃ a b c d e : List ℚ,
    interpFit (genTableau id) [99, 1, 0] [98, 2, 0] (List.replicate 7 [-1, 1, 0]) (1/3) = [a, b, c, d, e] ∧
    polyval [a, b, c, d, e] 0 = [99, 1, 0] ∧ polyval [a, b, c, d, e] 1 = [98, 2, 0] := by
  obtain ⟨a, b, c, d, e, h, _, _, _, _, _, h0, h1, _⟩ :=
    dense_output (RingHom.id ℚ) (genTableau id) rfl [99, 1, 0] [98, 2, 0] (List.replicate 7 [-1, 1, 0]) (1/3)
      rfl (by intro v hv; rw [(List.mem_replicate.mp hv).2]; rfl) (by decide)
  exact ⟨a, b, c, d, e, h, h0, h1⟩
-- FSAL / stage shape on an actual step of the generated tableau
example : (rkStep (genTableau id) exField [99, 1, 0] (exField [99, 1, 0] 0) 0 (1/4)).2.1 =
    exField (rkStep (genTableau id) exField [99, 1, 0] (exField [99, 1, 0] 0) 0 (1/4)).1 (0 + 1/4) :=
  rkStep_fsal (genTableau id) (fsal_generated (RingHom.id ℚ)) exField 3 (fun y t hy => (exField_ok y t hy).1)
    [99, 1, 0] (exField [99, 1, 0] 0) rfl rfl 0 (1/4)
example : (rk4Step exField (1/2) [99, 1, 0] 0).length = 3 :=
  (rk4_classical_component exField exField_len (1/2) [99, 1, 0] 0 0).1
-- row0
example : (odeint (genTableau id) exCtl exField 10 (1/4) [99, 1, 0] [0, 1/4]).getD 0 [] = [99, 1, 0] :=
  (row0 (genTableau id) exCtl exField 10 (1/4) [99, 1, 0] [0, 1/4] (by simp)).2.2.1
-- grid independence: `y' = -y`, grids `[0, 1/2, 1]` and `[0, 1/4, 3/4, 1]`, real comparison `lt`
example :
    (odeint (genTableau id) exCtl (fun y _ => y.map (fun v => -v)) 10 (1/4) [1] (0 :: ([1/2] ++ [1]))).getLast?
      = (odeint (genTableau id) exCtl (fun y _ => y.map (fun v => -v)) 7 (1/4) [1] (0 :: ([1/4, 3/4] ++ [1]))).getLast? :=
  (grid_independence (genTableau id) exCtl (fun y _ => y.map (fun v => -v)) 10 7 (1/4) [1] 0 [1/2] [1/4, 3/4] 1
    (by intro T' hT' t; simp only [List.mem_singleton] at hT'; subst hT'; simp only [exCtl, decide_eq_true_eq]; intro h; linarith)
    (by
      intro T' hT' t
      simp only [List.mem_cons, List.not_mem_nil, or_false] at hT'
      rcases hT' with rfl | rfl <;> simp only [exCtl, decide_eq_true_eq] <;> intro h <;> linarith)
    (by decide +kernel) (by decide +kernel)).2
example :
    (odeint (genTableau id) exCtl (fun y _ => y.map (fun v => -v)) 10 (1/4) [1] [0, 1/2, 1]).getLast?
      = some [13419937368515119223626321 / 36479156981701017600000000] := by decide +kernel

end Summer.Props.C07

#print axioms Summer.Props.C07.euler_rows
#print axioms Summer.Props.C07.rk4_rows
#print axioms Summer.Props.C07.euler_classical
#print axioms Summer.Props.C07.rk4_classical
#print axioms Summer.Props.C07.rk4_classical_component
#print axioms Summer.Props.C07.stability_poly
#print axioms Summer.Props.C07.rkStep_stages
#print axioms Summer.Props.C07.rkStep_fsal
#print axioms Summer.Props.C07.fsal_generated
#print axioms Summer.Props.C07.dense_output
#print axioms Summer.Props.C07.polyval_quartic
#print axioms Summer.Props.C07.row0
#print axioms Summer.Props.C07.odeint_prefix
#print axioms Summer.Props.C07.advance_advance
#print axioms Summer.Props.C07.grid_independence
#print axioms Summer.Props.C07.odeint_last_row
#print axioms Summer.Props.C07.tableau
#print axioms Summer.Props.C07.tableau_shape
#print axioms Summer.Props.C07.tableau_row_sums
#print axioms Summer.Props.C07.tableau_explicit
#print axioms Summer.Props.C07.tableau_fsal
#print axioms Summer.Props.C07.tableau_sums
#print axioms Summer.Props.C07.tableau_order5
#print axioms Summer.Props.C07.tableau_not_order6
#print axioms Summer.Props.C07.tableau_embedded_order4
#print axioms Summer.Props.C07.tableau_mid_order4
#print axioms Summer.Props.C07.tableau_fit_colsums
