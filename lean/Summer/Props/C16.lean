import Summer.Proofs.TimeFns
/-
C16 — the time-function library computes the interpolants it documents.

Model: `Summer/Model/TimeFns.lean` (`binarySearchSumGe`, `piecewiseConstant`, `interpolateLinear`,
`interpolateSigmoidal`, `normSigmoid`, `rollingDiff`, `rollingReduction`) with JAX's clamped gather
`jget` (`Summer/Basic.lean`).  Sortedness hypotheses are the decidable `List.Pairwise`; there is no
bound on any list length.
-/
namespace Summer.Props.C16
open Summer Summer.TimeFns Summer.Spec Summer.Proofs.TimeFns

/-! ### 1. `binary_search_sum_ge` -/

/-- For EVERY weakly increasing list `pts` (any length; the empty list included, where the loop does
not run and the result is `0`) and every `x`, the result `k` of the binary search satisfies
`0 ≤ k ≤ n`, every point with index `< k` is `≤ x`, every point with index `≥ k` is `> x`, and `k`
is the number of points `≤ x`, i.e. the documented `(x >= points).sum()`. -/
theorem bsearch {α : Type} [LinearOrder α] [Zero α] (x : α) (pts : List α)
    (hs : pts.Pairwise (· ≤ ·)) :
    let k := binarySearchSumGe x pts;
    (0 : Int) ≤ k ∧ k ≤ (pts.length : Int) ∧
    (∀ i : Nat, (h : i < pts.length) → (i : Int) < k → pts[i] ≤ x) ∧
    (∀ i : Nat, (h : i < pts.length) → k ≤ (i : Int) → x < pts[i]) ∧
    k = ((pts.filter (fun p => decide (p ≤ x))).length : Int) := by
  intro k
  obtain ⟨a, b, c, d⟩ := binarySearchSumGe_spec x pts hs
  exact ⟨a, b, c, d, binarySearchSumGe_eq_countLE x pts hs⟩

/-- non-vacuity (repeated points allowed), and the model evaluated on it -/
example : ([1, 3, 3, 7] : List Int).Pairwise (· ≤ ·) ∧
    binarySearchSumGe (3 : Int) [1, 3, 3, 7] = 3 ∧ binarySearchSumGe (0 : Int) [1, 3, 3, 7] = 0 ∧
    binarySearchSumGe (7 : Int) [1, 3, 3, 7] = 4 := by decide +kernel

/-! ### 2. `piecewise_constant` -/

/-- For weakly increasing breakpoints (any length) and at least `bps.length + 1` values (in
particular exactly `bps.length + 1`): the result is `vals[k]`, `k` the number of breakpoints `≤ x`
(left-closed intervals); spelled out: `vals[0]` left of the first breakpoint, `vals[i+1]` on
`[bps[i], bps[i+1])`, `vals[n]` from the last breakpoint on. -/
theorem piecewise {α : Type} [LinearOrder α] [Zero α] (x : α) (bps vals : List α)
    (hs : bps.Pairwise (· ≤ ·)) (hlen : bps.length < vals.length) :
    piecewiseConstant x bps vals
      = vals[countLE x bps]'(lt_of_le_of_lt (countLE_le_length x bps) hlen) ∧
    (∀ (_ : 0 < bps.length), x < bps[0] → piecewiseConstant x bps vals = vals[0]) ∧
    (∀ (i : Nat) (_ : i + 1 < bps.length), bps[i] ≤ x → x < bps[i + 1] →
        piecewiseConstant x bps vals = vals[i + 1]) ∧
    (∀ (_ : 0 < bps.length), bps[bps.length - 1] ≤ x →
        piecewiseConstant x bps vals = vals[bps.length]) :=
  ⟨piecewiseConstant_eq_countLE x bps vals hs hlen,
   fun hn h => piecewiseConstant_left x bps vals hs hn hlen h,
   fun i hi h1 h2 => piecewiseConstant_mid x bps vals hs hlen i hi h1 h2,
   fun hn h => piecewiseConstant_right x bps vals hs hn hlen h⟩

/-- non-vacuity: two breakpoints, three values; the intervals are left-closed -/
example : ([2, 5] : List Rat).Pairwise (· ≤ ·) ∧ ([2, 5] : List Rat).length < [10, 20, 30].length ∧
    piecewiseConstant (1 : Rat) [2, 5] [10, 20, 30] = 10 ∧
    piecewiseConstant (2 : Rat) [2, 5] [10, 20, 30] = 20 ∧
    piecewiseConstant (9 / 2 : Rat) [2, 5] [10, 20, 30] = 20 ∧
    piecewiseConstant (5 : Rat) [2, 5] [10, 20, 30] = 30 := by decide +kernel

/-! ### 3. linear interpolation -/

section
variable {α : Type} [Field α] [LinearOrder α] [IsStrictOrderedRing α]

/-- For strictly increasing `xs` (non-empty; the segment clause has content from length 2 on) and
`ys` of the same length: `ys[0]` for `t ≤ xs[0]`; `ys[n-1]` for `t ≥ xs[n-1]`, INCLUDING
`t = xs[n-1]`; the chord formula on `[xs[i], xs[i+1])`. -/
theorem linear (t : α) (xs ys : List α) (hs : xs.Pairwise (· < ·)) (hn : 0 < xs.length)
    (hlen : ys.length = xs.length) :
    (t ≤ xs[0] → interpolateLinear t xs ys = ys[0]) ∧
    (xs[xs.length - 1] ≤ t → interpolateLinear t xs ys = ys[xs.length - 1]) ∧
    (∀ (i : Nat) (_ : i + 1 < xs.length), xs[i] ≤ t → t < xs[i + 1] →
        interpolateLinear t xs ys
          = ys[i] + (t - xs[i]) / (xs[i + 1] - xs[i]) * (ys[i + 1] - ys[i])) := by
  refine ⟨fun h => interpolateWith_left _ t xs ys hs hn hlen h, fun h => ?_,
    fun i hi h1 h2 => interp_seg (fun r => r) rfl t xs ys hs hlen i hi h1 h2⟩
  rcases lt_or_eq_of_le h with h | h
  · exact interpolateWith_right _ t xs ys hs hn hlen h
  · subst h; exact interp_knot_last (fun r => r) rfl xs ys hs hn hlen

/-- At `t = xs[n-1]` (`n ≥ 2`) the code is in the MIDDLE branch (`sum(t > bounds) = 1`), computes
`idx = n - 1` and reads `ranges[n-1]`, one past the end of `ranges` (length `n - 1`), through the
clamped gather.  The clamped read returns the LAST range `xs[n-1] - xs[n-2]`, which is positive, so
`relx = 0 / positive = 0` is a genuine division (no `0/0`), and the value is
`ys[n-1] + 0 * (ys[n-1] - ys[n-2])`, which is still `ys[n-1]`. -/
theorem linear_last_point (xs ys : List α) (hs : xs.Pairwise (· < ·)) (hn : 2 ≤ xs.length)
    (hlen : ys.length = xs.length) :
    boundsState xs[xs.length - 1] (getScaleData xs).bounds = 1 ∧
    binarySearchSumGe xs[xs.length - 1] xs - 1 = (xs.length : Int) - 1 ∧
    (getScaleData xs).ranges.length = xs.length - 1 ∧
    jget (getScaleData xs).ranges ((xs.length : Int) - 1) = xs[xs.length - 1] - xs[xs.length - 2] ∧
    0 < jget (getScaleData xs).ranges ((xs.length : Int) - 1) ∧
    interpolateLinear xs[xs.length - 1] xs ys
      = ys[xs.length - 1] + 0 * (ys[xs.length - 1] - ys[xs.length - 2]) ∧
    interpolateLinear xs[xs.length - 1] xs ys = ys[xs.length - 1] := by
  have h1 : xs[0] < xs[xs.length - 1] := strict_getElem_lt hs 0 _ (by omega) (by omega)
  have hr : jget (getScaleData xs).ranges ((xs.length : Int) - 1)
      = xs[xs.length - 1] - xs[xs.length - 2] := jget_diff_past_end xs hn
  refine ⟨?_, ?_, length_diff xs, hr, ?_, ?_,
    interp_knot_last (fun r => r) rfl xs ys hs (by omega) hlen⟩
  · rw [getScaleData_bounds xs (by omega)]
    simp [boundsState, List.filter, h1]
  · rw [bsearch_eq_length _ xs (hs.imp le_of_lt) (by omega) (le_refl _)]
  · rw [hr]; exact sub_pos.mpr (strict_getElem_lt hs _ _ (by omega) (by omega))
  · unfold interpolateLinear
    have hy := jget_diff_past_end ys (by omega)
    simp only [hlen] at hy
    rw [interpolateWith_middle _ _ xs ys (by omega) h1 (le_refl _),
      curveAt_last _ xs ys hs (by omega) hlen, hy]

/-- The interpolant passes through every data point, and on the CLOSED segment `[xs[i], xs[i+1]]`
it is given by the chord formula of the left piece: the pieces agree at the knots (continuity); in
particular the left piece evaluated at `xs[i+1]` is `ys[i+1]`. -/
theorem linear_knots (xs ys : List α) (hs : xs.Pairwise (· < ·)) (hlen : ys.length = xs.length) :
    (∀ (i : Nat) (_ : i < xs.length), interpolateLinear xs[i] xs ys = ys[i]) ∧
    (∀ (t : α) (i : Nat) (_ : i + 1 < xs.length), xs[i] ≤ t → t ≤ xs[i + 1] →
        interpolateLinear t xs ys
          = ys[i] + (t - xs[i]) / (xs[i + 1] - xs[i]) * (ys[i + 1] - ys[i])) ∧
    (∀ (i : Nat) (_ : i + 1 < xs.length),
        ys[i] + (xs[i + 1] - xs[i]) / (xs[i + 1] - xs[i]) * (ys[i + 1] - ys[i]) = ys[i + 1]) := by
  refine ⟨fun i hi => interp_knot (fun r => r) rfl xs ys hs hlen i hi,
    fun t i hi h1 h2 => interp_closed_seg (fun r => r) rfl rfl t xs ys hs hlen i hi h1 h2,
    fun i hi => ?_⟩
  have hpos : xs[i + 1] - xs[i] ≠ 0 :=
    ne_of_gt (sub_pos.mpr (strict_getElem_lt hs i (i + 1) (by omega) hi))
  rw [div_self hpos]; ring

/-- non-vacuity: three points, values on both segments, at every knot and outside -/
example : ([0, 1, 3] : List Rat).Pairwise (· < ·) ∧ ([10, 20, 0] : List Rat).length = [0, 1, 3].length ∧
    interpolateLinear (-1 : Rat) [0, 1, 3] [10, 20, 0] = 10 ∧
    interpolateLinear (0 : Rat) [0, 1, 3] [10, 20, 0] = 10 ∧
    interpolateLinear (1 / 2 : Rat) [0, 1, 3] [10, 20, 0] = 15 ∧
    interpolateLinear (1 : Rat) [0, 1, 3] [10, 20, 0] = 20 ∧
    interpolateLinear (5 / 2 : Rat) [0, 1, 3] [10, 20, 0] = 5 ∧
    interpolateLinear (3 : Rat) [0, 1, 3] [10, 20, 0] = 0 ∧
    interpolateLinear (4 : Rat) [0, 1, 3] [10, 20, 0] = 0 := by decide +kernel

/-! ### 4. sigmoidal interpolation with an abstract curve -/

/-- For any `sig` with `sig 0 = 0`, `sig 1 = 1`, monotone on `[0,1]` (so its values there are in
`[0,1]`), strictly increasing `xs` and `ys` of the same length, `f = interpolateSigmoidal sig · xs ys`:
constant outside the data (`ys[0]`, `ys[n-1]`), passes through every data point, on the closed
segment `[xs[i], xs[i+1]]` equals `ys[i] + sig(relative position) * (ys[i+1] - ys[i])`, stays
between the two neighbouring values, and is monotone in `t` in the direction of `ys[i+1] - ys[i]`. -/
theorem sigmoid_abstract (sig : α → α) (h0 : sig 0 = 0) (h1 : sig 1 = 1) (hm : MonoOnUnit sig)
    (xs ys : List α) (hs : xs.Pairwise (· < ·)) (hn : 0 < xs.length)
    (hlen : ys.length = xs.length) :
    (∀ t, t ≤ xs[0] → interpolateSigmoidal sig t xs ys = ys[0]) ∧
    (∀ t, xs[xs.length - 1] ≤ t → interpolateSigmoidal sig t xs ys = ys[xs.length - 1]) ∧
    (∀ (i : Nat) (_ : i < xs.length), interpolateSigmoidal sig xs[i] xs ys = ys[i]) ∧
    (∀ (t : α) (i : Nat) (_ : i + 1 < xs.length), xs[i] ≤ t → t ≤ xs[i + 1] →
        interpolateSigmoidal sig t xs ys
          = ys[i] + sig ((t - xs[i]) / (xs[i + 1] - xs[i])) * (ys[i + 1] - ys[i])) ∧
    (∀ (t : α) (i : Nat) (_ : i + 1 < xs.length), xs[i] ≤ t → t ≤ xs[i + 1] →
        min ys[i] ys[i + 1] ≤ interpolateSigmoidal sig t xs ys ∧
        interpolateSigmoidal sig t xs ys ≤ max ys[i] ys[i + 1]) ∧
    (∀ (t1 t2 : α) (i : Nat) (_ : i + 1 < xs.length), xs[i] ≤ t1 → t1 ≤ t2 → t2 ≤ xs[i + 1] →
        ys[i] ≤ ys[i + 1] →
        interpolateSigmoidal sig t1 xs ys ≤ interpolateSigmoidal sig t2 xs ys) ∧
    (∀ (t1 t2 : α) (i : Nat) (_ : i + 1 < xs.length), xs[i] ≤ t1 → t1 ≤ t2 → t2 ≤ xs[i + 1] →
        ys[i + 1] ≤ ys[i] →
        interpolateSigmoidal sig t2 xs ys ≤ interpolateSigmoidal sig t1 xs ys) := by
  refine ⟨fun t h => interpolateWith_left sig t xs ys hs hn hlen h, fun t h => ?_,
    fun i hi => interp_knot sig h0 xs ys hs hlen i hi,
    fun t i hi a b => interp_closed_seg sig h0 h1 t xs ys hs hlen i hi a b,
    fun t i hi a b => interp_between sig h0 h1 hm t xs ys hs hlen i hi a b,
    fun t1 t2 i hi a b c d => interp_mono_up sig h0 h1 hm t1 t2 xs ys hs hlen i hi a b c d,
    fun t1 t2 i hi a b c d => interp_mono_down sig h0 h1 hm t1 t2 xs ys hs hlen i hi a b c d⟩
  rcases lt_or_eq_of_le h with h | h
  · exact interpolateWith_right sig t xs ys hs hn hlen h
  · subst h; exact interp_knot_last sig h0 xs ys hs hn hlen

/-- non-vacuity: the smoothstep `3r² - 2r³` (clamped outside `[0,1]`) is such a curve on `Rat` -/
example :
    let sig : Rat → Rat := fun r => if r < 0 then 0 else if 1 < r then 1 else 3 * r * r - 2 * r * r * r
    sig 0 = 0 ∧ sig 1 = 1 ∧ MonoOnUnit sig ∧ ([0, 1, 3] : List Rat).Pairwise (· < ·) ∧
    interpolateSigmoidal sig (2 : Rat) [0, 1, 3] [10, 20, 0] = 10 := by
  intro sig
  refine ⟨by decide +kernel, by decide +kernel, ?_, by decide +kernel, by decide +kernel⟩
  intro a b ha hab hb
  have ha1 : ¬ a < 0 := not_lt.mpr ha
  have ha2 : ¬ 1 < a := not_lt.mpr (le_trans hab hb)
  have hb1 : ¬ b < 0 := not_lt.mpr (le_trans ha hab)
  have hb2 : ¬ 1 < b := not_lt.mpr hb
  simp only [sig, ha1, ha2, hb1, hb2, if_false]
  nlinarith [mul_nonneg ha (sub_nonneg.mpr hab), mul_nonneg (sub_nonneg.mpr hab) (sub_nonneg.mpr hb),
    mul_nonneg ha (sub_nonneg.mpr hb), sq_nonneg (a - b), sq_nonneg (a + b - 1)]

end

/-! ### 5. the normalised logistic `make_norm_sigmoid` over `ℝ` -/

/-- For every curvature `c > 0` the normalised logistic built from `Real.exp` satisfies the
hypotheses of `sigmoid_abstract`: `sig 0 = 0`, `sig 1 = 1`, strictly monotone on all of `ℝ` (hence
monotone on `[0,1]`). -/
theorem norm_sigmoid (c : ℝ) (hc : 0 < c) :
    normSigmoid Real.exp c 0 = 0 ∧ normSigmoid Real.exp c 1 = 1 ∧
    StrictMono (normSigmoid Real.exp c) ∧ MonoOnUnit (normSigmoid Real.exp c) :=
  ⟨normSigmoid_zero c, normSigmoid_one c hc, normSigmoid_strictMono c hc,
   fun _ _ _ hab _ => (normSigmoid_strictMono c hc).monotone hab⟩

/-- non-vacuity: the default curvature `16` -/
example : (0 : ℝ) < 16 := by norm_num

/-- hence every conclusion of `sigmoid_abstract` holds for the real sigmoidal interpolator of
`build_sigmoidal_multicurve(curvature = c)`, `c > 0` -/
theorem sigmoid_real (c : ℝ) (hc : 0 < c) (xs ys : List ℝ) (hs : xs.Pairwise (· < ·))
    (hn : 0 < xs.length) (hlen : ys.length = xs.length) :
    let f := fun t => interpolateSigmoidal (normSigmoid Real.exp c) t xs ys
    (∀ t, t ≤ xs[0] → f t = ys[0]) ∧
    (∀ t, xs[xs.length - 1] ≤ t → f t = ys[xs.length - 1]) ∧
    (∀ (i : Nat) (_ : i < xs.length), f xs[i] = ys[i]) ∧
    (∀ (t : ℝ) (i : Nat) (_ : i + 1 < xs.length), xs[i] ≤ t → t ≤ xs[i + 1] →
        min ys[i] ys[i + 1] ≤ f t ∧ f t ≤ max ys[i] ys[i + 1]) ∧
    (∀ (t1 t2 : ℝ) (i : Nat) (_ : i + 1 < xs.length), xs[i] ≤ t1 → t1 ≤ t2 → t2 ≤ xs[i + 1] →
        ys[i] ≤ ys[i + 1] → f t1 ≤ f t2) ∧
    (∀ (t1 t2 : ℝ) (i : Nat) (_ : i + 1 < xs.length), xs[i] ≤ t1 → t1 ≤ t2 → t2 ≤ xs[i + 1] →
        ys[i + 1] ≤ ys[i] → f t2 ≤ f t1) := by
  obtain ⟨h0, h1, _, hm⟩ := norm_sigmoid c hc
  obtain ⟨a, b, k, _, e, u, d⟩ :=
    sigmoid_abstract (normSigmoid Real.exp c) h0 h1 hm xs ys hs hn hlen
  exact ⟨a, b, k, e, u, d⟩

/-- (stretch) as the curvature tends to `0` (from either side, `c ≠ 0`) the normalised logistic
tends to the identity, pointwise at every `x` (in particular on `[0,1]`): the sigmoidal interpolant
degenerates to the linear one. -/
theorem norm_sigmoid_limit (x : ℝ) :
    Filter.Tendsto (fun c : ℝ => normSigmoid Real.exp c x) (nhdsWithin 0 {0}ᶜ) (nhds x) :=
  tendsto_normSigmoid x

/-! ### 6. rolling helpers -/

/-- `rollingDiff p x` is `pandas.Series.diff(p)`: same length, `none` (NaN) for `i < p`,
`x[i] - x[i-p]` otherwise.  Any `p`, any length. -/
theorem rolling_diff {α : Type} [Sub α] (p : Nat) (x : List α) :
    rollingDiff p x = seriesDiff p x ∧
    (rollingDiff p x).length = x.length ∧
    (∀ (i : Nat) (hi : i < x.length) (hi' : i < (rollingDiff p x).length),
      (rollingDiff p x)[i] = if _ : i < p then none else some (x[i] - x[i - p])) := by
  have h := rollingDiff_eq_seriesDiff p x
  refine ⟨h, by simp [rollingDiff], fun i hi hi' => ?_⟩
  simp only [h, seriesDiff, List.getElem_ofFn]

example : rollingDiff 2 ([1, 4, 9, 16, 25] : List Int) = [none, none, some 8, some 12, some 16] := by
  decide

/-- `rollingReduction f w x` is `pandas.Series.rolling(w).agg(f)` for every window `w ≥ 1` (for
`w > x.length` every entry is `none`): same length, `none` (NaN) for `i < w - 1`, otherwise `f`
applied to the window `[x[i-w+1], …, x[i]]`, a list of length `w` whose `j`-th entry is
`x[i+1-w+j]`. -/
theorem rolling_reduction {α : Type} (f : List α → α) (w : Nat) (hw : 1 ≤ w) (x : List α) :
    rollingReduction f w x = seriesRolling f w x ∧
    (rollingReduction f w x).length = x.length ∧
    (∀ (i : Nat) (hi : i < x.length) (hi' : i < (rollingReduction f w x).length),
      (rollingReduction f w x)[i]
        = if h : i + 1 < w then none else some (f (window x w i (by omega) hi))) ∧
    (∀ (i : Nat) (hwi : w ≤ i + 1) (hi : i < x.length),
      (window x w i hwi hi).length = w ∧
      ∀ (j : Nat) (hj : j < w) (hj' : j < (window x w i hwi hi).length),
        (window x w i hwi hi)[j] = x[i + 1 - w + j]) := by
  have h := rollingReduction_eq_seriesRolling f w hw x
  refine ⟨h, by simp [rollingReduction], fun i hi hi' => ?_, fun i hwi hi =>
    ⟨length_window x w i hwi hi, fun j hj _ => getElem_window x w i hwi hi j hj⟩⟩
  simp only [h, seriesRolling, List.getElem_ofFn]

example : rollingReduction (fun l => l.foldl (· + ·) 0) 3 ([1, 2, 3, 4, 5] : List Int)
    = [none, none, some 6, some 9, some 12] := by decide

/-- window longer than the series: all NaN -/
example : rollingReduction (fun l => l.foldl (· + ·) 0) 4 ([1, 2, 3] : List Int)
    = [none, none, none] := by decide

#print axioms bsearch
#print axioms piecewise
#print axioms linear
#print axioms linear_last_point
#print axioms linear_knots
#print axioms sigmoid_abstract
#print axioms norm_sigmoid
#print axioms sigmoid_real
#print axioms norm_sigmoid_limit
#print axioms rolling_diff
#print axioms rolling_reduction

end Summer.Props.C16
